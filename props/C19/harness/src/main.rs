//! C19 harness: packed-refs lookup (byte-offset binary search) against a linear scan.
//! case:  q <content> <mode> <prefix> <name>*      (see coq/Run.v)
use bstr::{BStr, BString, ByteSlice};
use gix_ref::packed;
use gixv_common::*;
use std::sync::atomic::{AtomicU64, Ordering};

// ---------------------------------------------------------------------------------- impl

static COUNTER: AtomicU64 = AtomicU64::new(0);

fn open(content: &[u8], mode: u64) -> Result<packed::Buffer, packed::buffer::open::Error> {
    if mode == 0 {
        return packed::Buffer::from_bytes(content);
    }
    let dir = std::env::temp_dir().join(format!("gixv-c19-{}", std::process::id()));
    std::fs::create_dir_all(&dir).expect("tmp dir");
    let path = dir.join(format!("packed-refs-{}", COUNTER.fetch_add(1, Ordering::SeqCst)));
    std::fs::write(&path, content).expect("write");
    // mode 1: always in memory; mode 2: memory-map everything that is not empty
    let r = packed::Buffer::open(path.clone(), if mode == 1 { u64::MAX } else { 0 });
    let _ = std::fs::remove_file(&path);
    let _ = std::fs::remove_dir(&dir);
    r
}

fn fletcher(l: &[u8]) -> String {
    let (mut a, mut s) = (0u64, 0u64);
    for b in l {
        a += *b as u64 + 1;
        s += a;
    }
    format!("{a}.{s}")
}

fn show_items(it: Result<packed::Iter<'_>, packed::iter::Error>) -> String {
    let it = match it {
        Ok(it) => it,
        Err(packed::iter::Error::Header { .. }) => return "err-Header".into(),
        Err(packed::iter::Error::Reference { .. }) => return "err-Reference".into(),
    };
    let (mut nok, mut nerr, mut text) = (0usize, 0usize, Vec::<u8>::new());
    for item in it {
        match item {
            Ok(r) => {
                nok += 1;
                text.push(b'o');
                text.extend_from_slice(r.target);
                text.push(b' ');
                text.extend_from_slice(r.name.as_bstr());
                text.push(b' ');
                text.extend_from_slice(r.object.map_or(&b"-"[..], |o| o.as_ref()));
                text.push(b'\n');
            }
            Err(packed::iter::Error::Reference { invalid_line, .. }) => {
                nerr += 1;
                text.push(b'e');
                text.extend_from_slice(&invalid_line);
                text.push(b'\n');
            }
            Err(packed::iter::Error::Header { .. }) => {
                nerr += 1;
                text.extend_from_slice(b"H\n");
            }
        }
    }
    format!("{nok}/{nerr}/{}", fletcher(&text))
}

fn show_find(r: Result<Option<packed::Reference<'_>>, packed::find::Error>) -> String {
    match r {
        Ok(None) => "none".into(),
        Ok(Some(r)) => format!(
            "some {} {} {}",
            hexs(r.name.as_bstr()),
            hexs(r.target),
            r.object.map_or("-".to_string(), |o| hexs(o))
        ),
        Err(packed::find::Error::Parse) => "err Parse".into(),
        Err(packed::find::Error::RefnameValidation(_)) => "err Name".into(),
    }
}

fn imp(c: &Case) -> String {
    if f_str(c, 0) != b"q" {
        return "?".into();
    }
    let buf = match open(f_str(c, 1), f_u64(c, 2)) {
        Ok(b) => b,
        Err(packed::buffer::open::Error::HeaderParsing) => return "open err Header".into(),
        Err(packed::buffer::open::Error::Iter(_)) => return "open err Iter".into(),
        Err(packed::buffer::open::Error::Io(_)) => return "open err Io".into(),
    };
    let view: &[u8] = buf.as_ref();
    let mut out = format!("open ok {} {}", view.len(), fletcher(view));
    out.push_str(" it=");
    out.push_str(&show_items(buf.iter()));
    out.push_str(" pf=");
    out.push_str(&show_items(buf.iter_prefixed(BString::from(f_str(c, 3)))));
    for name in c.iter().skip(4) {
        out.push_str(" | ");
        out.push_str(&show_find(buf.try_find(name.as_bstr())));
    }
    out
}

// ---------------------------------------------------------------------------------- prop
// Independent reference: a naive line-oriented reading of the ORIGINAL content in plain Rust.

#[derive(Clone, PartialEq, Eq, Debug)]
struct Rec {
    name: Vec<u8>,
    target: Vec<u8>,
    object: Option<Vec<u8>>,
}

fn is_hash(h: &[u8]) -> bool {
    h.len() == 40 && h.iter().all(|b| matches!(b, b'0'..=b'9' | b'a'..=b'f'))
}

/// lines of `content` with terminator removed (LF or CRLF); None if the last line is unterminated
fn lines_of(content: &[u8]) -> Option<Vec<&[u8]>> {
    let mut out = Vec::new();
    let mut rest = content;
    while !rest.is_empty() {
        let pos = rest.iter().position(|b| *b == b'\n')?;
        let mut line = &rest[..pos];
        if line.last() == Some(&b'\r') {
            line = &line[..line.len() - 1];
        }
        out.push(line);
        rest = &rest[pos + 1..];
    }
    Some(out)
}

fn header_sorted(line: &[u8]) -> Option<bool> {
    let traits = line.strip_prefix(b"# pack-refs with: ")?;
    if traits.contains(&b'\r') {
        return None;
    }
    Some(traits.split(|b| *b == b' ').any(|t| t == b"sorted"))
}

/// does the first line declare the file sorted (whatever follows)?
fn declared_sorted(content: &[u8]) -> bool {
    if content.first() != Some(&b'#') {
        return false;
    }
    match content.iter().position(|b| *b == b'\n') {
        Some(pos) => {
            let line = &content[..pos];
            header_sorted(line.strip_suffix(b"\r").unwrap_or(line)) == Some(true)
        }
        None => false,
    }
}

fn record_line(line: &[u8]) -> Option<Rec> {
    if line.len() < 41 || !is_hash(&line[..40]) || line[40] != b' ' {
        return None;
    }
    let name = &line[41..];
    if name.contains(&b'\r') || gix_validate::reference::name(name.as_bstr()).is_err() {
        return None;
    }
    Some(Rec { name: name.to_vec(), target: line[..40].to_vec(), object: None })
}

fn peeled_line(line: &[u8]) -> Option<Vec<u8>> {
    (line.first() == Some(&b'^') && is_hash(&line[1..])).then(|| line[1..].to_vec())
}

/// Some((sorted header?, records in file order)) iff every line of the file is well-formed
fn naive_parse(content: &[u8]) -> Option<(bool, Vec<Rec>)> {
    let lines = lines_of(content)?;
    let mut i = 0;
    let mut sorted = false;
    if content.first() == Some(&b'#') {
        sorted = header_sorted(lines[0])?;
        i = 1;
        // modelled quirk: when the file is not declared sorted, the record iterator is handed the
        // text after the header and accepts (skips) one more header line there
        if !sorted && lines.get(1).map_or(false, |l| l.first() == Some(&b'#')) {
            header_sorted(lines[1])?;
            i = 2;
        }
    }
    let mut recs: Vec<Rec> = Vec::new();
    let mut can_peel = false;
    while i < lines.len() {
        let l = lines[i];
        if l.first() == Some(&b'^') {
            if !can_peel {
                return None;
            }
            recs.last_mut().unwrap().object = Some(peeled_line(l)?);
            can_peel = false;
        } else {
            recs.push(record_line(l)?);
            can_peel = true;
        }
        i += 1;
    }
    Some((sorted, recs))
}

/// every record a line-by-line reading could see anywhere in the file (for "never a wrong record")
fn all_plausible_records(content: &[u8]) -> Vec<Rec> {
    let mut out = Vec::new();
    let mut lines: Vec<&[u8]> = Vec::new();
    let mut rest = content;
    while !rest.is_empty() {
        match rest.iter().position(|b| *b == b'\n') {
            Some(pos) => {
                let mut line = &rest[..pos];
                if line.last() == Some(&b'\r') {
                    line = &line[..line.len() - 1];
                }
                lines.push(line);
                rest = &rest[pos + 1..];
            }
            None => break,
        }
    }
    for (i, l) in lines.iter().enumerate() {
        if let Some(mut r) = record_line(l) {
            out.push(r.clone());
            if let Some(o) = lines.get(i + 1).and_then(|n| peeled_line(n)) {
                r.object = Some(o);
                out.push(r);
            }
        }
    }
    out
}

fn is_pseudo(n: &[u8]) -> bool {
    n.iter().all(|b| b.is_ascii_uppercase() || *b == b'_')
}

/// The full names a lookup of `name` may consult, in order (refs/<name>, refs/tags/<name>, … for
/// partial names; the name itself, or its worktree-stripped form, for full names).
fn candidates(name: &[u8]) -> Vec<Vec<u8>> {
    // packed lookups do not treat HEAD-like names as full names: `DEV` may be short for refs/heads/DEV
    let full = name.starts_with(b"refs/") || name.starts_with(b"main-worktree/") || name.starts_with(b"worktrees/");
    if !full {
        return ["", "tags/", "heads/", "remotes/"]
            .iter()
            .map(|ib| [b"refs/", ib.as_bytes(), name].concat())
            .collect();
    }
    if name.starts_with(b"refs/worktree/") {
        return vec![];
    }
    if name.starts_with(b"refs/") {
        return vec![name.to_vec()];
    }
    let short: Option<&[u8]> = if let Some(s) = name.strip_prefix(b"main-worktree/") {
        Some(s)
    } else {
        let s = &name[b"worktrees/".len()..];
        s.iter().position(|b| *b == b'/').map(|p| &s[p + 1..])
    };
    match short {
        Some(s) if s.starts_with(b"refs/") => vec![s.to_vec()],
        Some(s) if is_pseudo(s) => vec![],
        _ => vec![name.to_vec()],
    }
}

fn to_rec(r: &packed::Reference<'_>) -> Rec {
    Rec {
        name: r.name.as_bstr().to_vec(),
        target: r.target.to_vec(),
        object: r.object.map(|o| o.to_vec()),
    }
}

fn prop(c: &Case) -> Verdict {
    let content = f_str(c, 1);
    let names: Vec<&Vec<u8>> = c.iter().skip(4).collect();
    let naive = naive_parse(content);
    let opened = open(content, f_u64(c, 2));
    let buf = match (&naive, opened) {
        (Some(_), Err(e)) => return Verdict::fail("wf-rejected", format!("well-formed file not opened: {e:?}")),
        (None, Err(_)) => return Verdict::ok(true, "malformed-open-error"),
        (None, Ok(b)) => {
            if !declared_sorted(content) {
                return Verdict::fail("malformed-accepted", "unparseable, not declared sorted, but opened without error");
            }
            b
        }
        (Some(_), Ok(b)) => b,
    };
    // the implementation's own linear scan (observe_at: Buffer::iter)
    let scan: Option<Vec<Rec>> = buf
        .iter()
        .ok()
        .and_then(|it| it.map(|r| r.ok().map(|r| to_rec(&r))).collect::<Option<Vec<_>>>());
    let plausible = all_plausible_records(content);
    let mut class = "";
    let mut nontrivial = false;
    for name in names {
        let res = buf.try_find(name.as_bstr());
        let valid = gix_validate::reference::name_partial(name.as_bstr()).is_ok();
        if !valid {
            match res {
                Err(packed::find::Error::RefnameValidation(_)) => continue,
                other => return Verdict::fail("invalid-name-accepted", format!("{:?} -> {}", name.as_bstr(), show_find(other))),
            }
        }
        let cands = candidates(name);
        match &naive {
            Some((sorted_hdr, recs)) => {
                let mut distinct: Vec<&Vec<u8>> = recs.iter().map(|r| &r.name).collect();
                distinct.sort();
                let dup = distinct.windows(2).any(|w| w[0] == w[1]);
                let in_order = recs.windows(2).all(|w| w[0].name <= w[1].name);
                if *sorted_hdr && !in_order {
                    // the header lies about the order: only soundness can be expected
                    class = "lying-sorted-header";
                    if let Ok(Some(r)) = &res {
                        let r = to_rec(r);
                        if !cands.contains(&r.name) || !recs.contains(&r) {
                            return Verdict::fail("wrong-record", format!("{:?} -> {:?}", name.as_bstr(), r));
                        }
                    }
                    continue;
                }
                // linear scan of the original file: first candidate that has a record; first such record
                let expect: Option<&Rec> = cands.iter().find_map(|cn| recs.iter().find(|r| &r.name == cn));
                if dup {
                    // two records with one name: which one is "the" record is not defined by the format;
                    // require one of them
                    class = "duplicate-names";
                    match (&res, expect) {
                        (Ok(None), None) => {}
                        (Ok(Some(r)), Some(e)) if to_rec(r).name == e.name && recs.contains(&to_rec(r)) => {}
                        _ => return Verdict::fail("wrong-record-dup", format!("{:?} -> {}", name.as_bstr(), show_find(res))),
                    }
                    continue;
                }
                if class.is_empty() {
                    class = if *sorted_hdr { "wf-sorted" } else { "wf-unsorted" };
                }
                nontrivial = true;
                let got = match &res {
                    Ok(g) => g.as_ref().map(to_rec),
                    Err(e) => return Verdict::fail("wf-lookup-error", format!("{:?} -> {e:?}", name.as_bstr())),
                };
                if got.as_ref() != expect {
                    return Verdict::fail(
                        if expect.is_some() { "lookup-differs-from-scan" } else { "lookup-invents-record" },
                        format!("{:?}: lookup {:?}, linear scan of the file {:?}", name.as_bstr(), got, expect),
                    );
                }
                // and the same against the implementation's own iteration
                if let Some(scan) = &scan {
                    let e2 = cands.iter().find_map(|cn| scan.iter().find(|r| &r.name == cn));
                    if got.as_ref() != e2 {
                        return Verdict::fail("lookup-differs-from-iter", format!("{:?}: lookup {:?}, iter {:?}", name.as_bstr(), got, e2));
                    }
                } else {
                    return Verdict::fail("wf-iter-error", "iteration of a well-formed buffer failed");
                }
            }
            None => {
                // unparseable content behind a `sorted` header: an error or nothing is fine, a record
                // must be one that is really in the file under the wanted name
                class = "malformed-sorted";
                match &res {
                    Ok(Some(r)) => {
                        let r = to_rec(r);
                        if !cands.contains(&r.name) || !plausible.contains(&r) {
                            return Verdict::fail("wrong-record", format!("{:?} -> {:?}", name.as_bstr(), r));
                        }
                        nontrivial = true;
                    }
                    Err(_) => nontrivial = true,
                    Ok(None) => {
                        // if not a single line of a non-empty buffer reads as a record, every probe of the
                        // search hits unparseable text: that must surface as an error, not as "absent"
                        let view: &[u8] = buf.as_ref();
                        if !view.is_empty() && plausible.is_empty() && !cands.is_empty() {
                            return Verdict::fail("unparseable-not-reported", format!("{:?} -> none", name.as_bstr()));
                        }
                    }
                }
            }
        }
    }
    Verdict::ok(nontrivial, if class.is_empty() { "no-queries" } else { class })
}

// ---------------------------------------------------------------------------------- gen

fn pick_b<'a>(rng: &mut Rng, xs: &[&'a [u8]]) -> &'a [u8] {
    xs[rng.below(xs.len() as u64) as usize]
}

const HEXL: &[u8] = b"0123456789abcdef";
const COMPS: &[&[u8]] = &[
    b"a", b"b", b"ab", b"a-b", b"a.b", b"a0", b"A", b"0", b"a+", b"a,", b"a-", b"a_", b"main", b"v1.0", b"\xc3\xa9", b"b.lock.x", b"zz", b"a@", b"}",
];
const PREFIXES: &[&[u8]] = &[
    b"refs/heads/", b"refs/heads/", b"refs/heads/", b"refs/tags/", b"refs/tags/", b"refs/remotes/origin/", b"refs/", b"refs/notes/",
    b"refs/x/", b"refs/worktree/", b"refs/bisect/", b"refs/rewritten/",
];

fn gen_name(rng: &mut Rng) -> Vec<u8> {
    if rng.chance(1, 40) {
        return pick_b(rng, &[&b"HEAD"[..], b"FETCH_HEAD", b"ORIG_HEAD", b"A", b"Z_"]).to_vec();
    }
    let mut n = pick_b(rng, PREFIXES).to_vec();
    let depth = if rng.chance(1, 4) { rng.range(2, 3) } else { 1 };
    for d in 0..depth {
        if d > 0 {
            n.push(b'/');
        }
        n.extend_from_slice(pick_b(rng, COMPS));
        if rng.chance(1, 5) {
            n.extend_from_slice(pick_b(rng, COMPS));
        }
    }
    n
}

fn gen_hash(rng: &mut Rng) -> Vec<u8> {
    if rng.chance(1, 3) {
        // few distinct hashes so that records differ only in the name / only in the peeled id
        let c = *rng.pick(b"012ab");
        vec![c; 40]
    } else {
        rng.word(HEXL, 40, 40)
    }
}

struct GenRec {
    name: Vec<u8>,
    target: Vec<u8>,
    object: Option<Vec<u8>>,
}

fn header_text(rng: &mut Rng, sorted: bool) -> Vec<u8> {
    let mut h = b"# pack-refs with:".to_vec();
    let mut traits: Vec<&[u8]> = vec![];
    if rng.chance(3, 4) {
        traits.push(b"peeled");
    }
    if rng.chance(3, 4) {
        traits.push(b"fully-peeled");
    }
    if sorted {
        let at = rng.below(traits.len() as u64 + 1) as usize;
        traits.insert(at, b"sorted");
    } else if rng.chance(1, 4) {
        traits.push(pick_b(rng, &[&b"sortedx"[..], b"xsorted", b"Sorted", b"sort", b""]));
    }
    for t in traits {
        h.push(b' ');
        h.extend_from_slice(t);
    }
    if h.len() == b"# pack-refs with:".len() || rng.chance(1, 2) {
        h.push(b' ');
    }
    h
}

fn serialize(rng: &mut Rng, header: Option<Vec<u8>>, recs: &[GenRec], crlf_mode: u64) -> Vec<u8> {
    let mut out = Vec::new();
    let nl = |rng: &mut Rng, out: &mut Vec<u8>| {
        let crlf = match crlf_mode {
            0 => false,
            1 => true,
            _ => rng.chance(1, 2),
        };
        if crlf {
            out.push(b'\r');
        }
        out.push(b'\n');
    };
    if let Some(h) = header {
        out.extend_from_slice(&h);
        nl(rng, &mut out);
    }
    for r in recs {
        out.extend_from_slice(&r.target);
        out.push(b' ');
        out.extend_from_slice(&r.name);
        nl(rng, &mut out);
        if let Some(o) = &r.object {
            out.push(b'^');
            out.extend_from_slice(o);
            nl(rng, &mut out);
        }
    }
    out
}

fn neighbour(rng: &mut Rng, n: &[u8]) -> Vec<u8> {
    let mut m = n.to_vec();
    match rng.below(7) {
        0 => m.push(*rng.pick(b"0a-/.")),
        1 => {
            m.pop();
        }
        2 => {
            if let Some(l) = m.last_mut() {
                *l = l.wrapping_add(1);
            }
        }
        3 => {
            if let Some(l) = m.last_mut() {
                *l = l.wrapping_sub(1);
            }
        }
        4 => {
            // strip "refs/" or "refs/<category>/": a partial name
            let s = if rng.chance(1, 2) { 5 } else { m.iter().skip(5).position(|b| *b == b'/').map_or(5, |p| p + 6) };
            m = m[s.min(m.len())..].to_vec();
        }
        5 => {
            let wt: &[u8] = if rng.chance(1, 2) { b"main-worktree/" } else { b"worktrees/w/" };
            m = [wt, &m[..]].concat();
        }
        _ => {
            let i = rng.below(m.len().max(1) as u64) as usize;
            if i < m.len() {
                m[i] = *rng.pick(b"ab0/-.~ ^");
            }
        }
    }
    m
}

fn queries(rng: &mut Rng, recs: &[GenRec]) -> (Vec<u8>, Vec<Vec<u8>>) {
    let mut qs = Vec::new();
    let k = rng.range(2, 8);
    for _ in 0..k {
        if !recs.is_empty() && rng.chance(3, 5) {
            let i = match rng.below(6) {
                0 => 0,
                1 => recs.len() - 1,
                _ => rng.below(recs.len() as u64) as usize,
            };
            if rng.chance(2, 3) {
                qs.push(recs[i].name.clone());
            } else {
                qs.push(neighbour(rng, &recs[i].name));
            }
        } else if rng.chance(1, 10) {
            qs.push(pick_b(rng, &[&b"refs/heads/.a"[..], b"refs//a", b"", b"refs/heads/a.lock", b"a b", b"refs/heads/a..b", b"/a", b"a/"]).to_vec());
        } else {
            qs.push(gen_name(rng));
        }
    }
    let prefix = match rng.below(6) {
        0 => vec![],
        1 if !recs.is_empty() => {
            let n = &recs[rng.below(recs.len() as u64) as usize].name;
            n[..rng.below(n.len() as u64 + 1) as usize].to_vec()
        }
        2 => pick_b(rng, &[&b"refs/heads/"[..], b"refs/tags/", b"refs/", b"refs/heads/a", b"refs/t", b"zzz", b"A", b"\xff"]).to_vec(),
        3 if !recs.is_empty() => recs[rng.below(recs.len() as u64) as usize].name.clone(),
        _ => gen_name(rng),
    };
    (prefix, qs)
}

fn gen_records(rng: &mut Rng, n: usize) -> Vec<GenRec> {
    (0..n)
        .map(|_| GenRec {
            name: gen_name(rng),
            target: gen_hash(rng),
            object: rng.chance(3, 10).then(|| gen_hash(rng)),
        })
        .collect()
}

fn mutate(rng: &mut Rng, content: &mut Vec<u8>) {
    if content.is_empty() {
        content.extend_from_slice(pick_b(rng, &[&b"\n"[..], b"^", b"#", b"x", b"\r\n"]));
        return;
    }
    let i = rng.below(content.len() as u64) as usize;
    match rng.below(10) {
        0 => content.truncate(i),
        1 => content[i] = rng.next() as u8,
        2 => content[i] = *rng.pick(b"\n\r^ #Ag"),
        3 => content.insert(i, *rng.pick(b"\n\r^ 0a")),
        4 => {
            content.remove(i);
        }
        5 => {
            // duplicate a whole line (peeled-after-peeled, duplicate record)
            let start = content[..i].iter().rposition(|b| *b == b'\n').map_or(0, |p| p + 1);
            let end = content[i..].iter().position(|b| *b == b'\n').map_or(content.len(), |p| i + p + 1);
            let line = content[start..end].to_vec();
            let at = if rng.chance(1, 2) { end } else { start };
            content.splice(at..at, line);
        }
        6 => {
            // drop the final newline
            if content.last() == Some(&b'\n') {
                content.pop();
            }
        }
        7 => {
            // an empty line / a stray peeled line / a comment somewhere at a line start
            let start = content[..i].iter().rposition(|b| *b == b'\n').map_or(0, |p| p + 1);
            let ins: &[u8] = pick_b(rng, &[&b"\n"[..], b"^0000000000000000000000000000000000000000\n", b"# pack-refs with: peeled \n", b"# comment\n", b"^\n"]);
            content.splice(start..start, ins.iter().copied());
        }
        8 => {
            // upper-case one hex digit of a hash or lengthen/shorten a hash
            let start = content[..i].iter().rposition(|b| *b == b'\n').map_or(0, |p| p + 1);
            if start < content.len() {
                match rng.below(3) {
                    0 => content[start] = b'A',
                    1 => content.insert(start, b'0'),
                    _ => {
                        content.remove(start);
                    }
                }
            }
        }
        _ => {
            let j = rng.below(content.len() as u64) as usize;
            content.swap(i, j);
        }
    }
}

fn mk_case(content: Vec<u8>, mode: u64, prefix: Vec<u8>, names: Vec<Vec<u8>>) -> Case {
    let mut c = vec![tag("q"), content, num(mode), prefix];
    c.extend(names);
    c
}

fn gen(rng: &mut Rng, n: usize) -> Vec<Case> {
    let mut out: Vec<Case> = Vec::new();
    let h = |c: u8| vec![c; 40];
    // ---- boundary block
    let sorted_hdr = b"# pack-refs with: peeled fully-peeled sorted \n".to_vec();
    let names: Vec<Vec<u8>> = [&b"refs/heads/a"[..], b"refs/heads/a-b", b"refs/heads/a/b", b"refs/heads/ab", b"refs/tags/a", b"refs/tags/b"]
        .iter()
        .map(|s| s.to_vec())
        .collect();
    let all_q: Vec<Vec<u8>> = names
        .iter()
        .cloned()
        .chain([&b"refs/heads/"[..], b"refs/heads/a0", b"refs/heads/a.", b"refs/heads", b"refs/a", b"refs/zz", b"refs/tags/c", b"a", b"heads/a", b"tags/a", b"HEAD", b"refs/heads/a "].iter().map(|s| s.to_vec()))
        .collect();
    for mode in 0..3u64 {
        // empty, header only, one record, with and without final peeled line
        out.push(mk_case(vec![], mode, vec![], all_q.clone()));
        out.push(mk_case(sorted_hdr.clone(), mode, vec![], all_q.clone()));
        for k in 1..=names.len() {
            for (crlf, peel) in [(0u64, false), (1, false), (0, true), (1, true), (2, true)] {
                for with_hdr in [0, 1, 2] {
                    let recs: Vec<GenRec> = names[..k]
                        .iter()
                        .enumerate()
                        .map(|(i, nm)| GenRec { name: nm.clone(), target: h(b"0123456789abcdef"[i]), object: (peel && i % 2 == 0).then(|| h(b'f')) })
                        .collect();
                    let hdr = match with_hdr {
                        0 => None,
                        1 => Some(b"# pack-refs with: peeled fully-peeled sorted ".to_vec()),
                        _ => Some(b"# pack-refs with: peeled fully-peeled ".to_vec()),
                    };
                    let content = serialize(rng, hdr, &recs, crlf);
                    out.push(mk_case(content, mode, b"refs/heads/a".to_vec(), all_q.clone()));
                }
            }
        }
    }
    // unsorted without header, lying header, duplicate names, stray lines
    let r = |nm: &[u8], t: u8, o: Option<u8>| GenRec { name: nm.to_vec(), target: h(t), object: o.map(h) };
    let unsorted = vec![r(b"refs/tags/b", b'1', Some(b'2')), r(b"refs/heads/b", b'3', None), r(b"refs/heads/a", b'4', Some(b'5'))];
    out.push(mk_case(serialize(rng, None, &unsorted, 0), 0, b"refs/".to_vec(), all_q.clone()));
    out.push(mk_case(serialize(rng, Some(b"# pack-refs with: peeled ".to_vec()), &unsorted, 1), 2, b"refs/".to_vec(), all_q.clone()));
    out.push(mk_case(serialize(rng, Some(b"# pack-refs with: sorted ".to_vec()), &unsorted, 0), 0, b"refs/".to_vec(), all_q.clone()));
    let dups = vec![r(b"refs/heads/a", b'1', None), r(b"refs/heads/a", b'2', Some(b'3')), r(b"refs/heads/b", b'4', None)];
    out.push(mk_case(serialize(rng, None, &dups, 0), 0, vec![], all_q.clone()));
    out.push(mk_case(serialize(rng, Some(b"# pack-refs with: sorted ".to_vec()), &dups, 0), 0, vec![], all_q.clone()));
    for bad in [
        &b"# pack-refs with: sorted \n^1111111111111111111111111111111111111111\n"[..],
        b"# pack-refs with: sorted \n1111111111111111111111111111111111111111 refs/heads/a\n^2222222222222222222222222222222222222222\n^3333333333333333333333333333333333333333\n4444444444444444444444444444444444444444 refs/heads/b\n",
        b"# pack-refs with: sorted \n1111111111111111111111111111111111111111 refs/heads/a",
        b"# pack-refs with: sorted \n1111111111111111111111111111111111111111 refs/heads/a\n\n2222222222222222222222222222222222222222 refs/heads/b\n",
        b"# pack-refs with: sorted\n# pack-refs with: peeled\n1111111111111111111111111111111111111111 refs/heads/a\n",
        b"# pack-refs with: peeled\n# pack-refs with: sorted\n1111111111111111111111111111111111111111 refs/heads/b\n1111111111111111111111111111111111111111 refs/heads/a\n",
        b"# pack-refs with:\n",
        b"#\n",
        b"# pack-refs with: sorted",
        b"# pack-refs with: sorted \r\n1111111111111111111111111111111111111111 refs/heads/a\r\r\n",
        b"1111111111111111111111111111111111111111 refs/heads/a\n2222222222222222222222222222222222222222 refs/heads/A B\n",
        b"111111111111111111111111111111111111111 refs/heads/a\n",
        b"11111111111111111111111111111111111111111 refs/heads/a\n",
        b"1111111111111111111111111111111111111111  refs/heads/a\n",
        b"1111111111111111111111111111111111111111 lower\n",
        b"1111111111111111111111111111111111111111 HEAD\n",
    ] {
        for mode in [0u64, 2] {
            out.push(mk_case(bad.to_vec(), mode, b"refs/heads/".to_vec(), all_q.clone()));
        }
    }
    // ---- random mixture
    while out.len() < n {
        if rng.chance(1, 40) {
            // nothing but unparseable lines behind a `sorted` header
            let mut content = header_text(rng, true);
            content.push(b'\n');
            for _ in 0..rng.range(1, 6) {
                let l: Vec<u8> = match rng.below(5) {
                    0 => rng.word(b"0a /\r^#", 0, 50),
                    1 => [&gen_hash(rng)[..39], b" refs/heads/a"].concat(),
                    2 => [&gen_hash(rng)[..], b" refs/heads/a b"].concat(),
                    3 => [b"^", &gen_hash(rng)[..]].concat(),
                    _ => [&gen_hash(rng)[..], b"  refs/heads//a"].concat(),
                };
                content.extend_from_slice(&l);
                content.push(b'\n');
            }
            let (prefix, qs) = queries(rng, &[]);
            out.push(mk_case(content, rng.below(3), prefix, qs));
            continue;
        }
        let nrec = match rng.below(20) {
            0 => 0,
            1..=9 => rng.range(1, 8) as usize,
            10..=16 => rng.range(9, 40) as usize,
            _ => rng.range(41, 200) as usize,
        };
        let mut recs = gen_records(rng, nrec);
        let kind = rng.below(20);
        let allow_dup = rng.chance(1, 12);
        if !allow_dup {
            recs.sort_by(|a, b| a.name.cmp(&b.name));
            recs.dedup_by(|a, b| a.name == b.name);
            // back to a random order
            for i in (1..recs.len()).rev() {
                let j = rng.below(i as u64 + 1) as usize;
                recs.swap(i, j);
            }
        }
        let declared_sorted = kind < 11;
        let really_sorted = declared_sorted && kind != 0 || rng.chance(1, 6);
        if really_sorted {
            recs.sort_by(|a, b| a.name.cmp(&b.name));
        }
        let header = if declared_sorted {
            Some(header_text(rng, true))
        } else if rng.chance(1, 2) {
            Some(header_text(rng, false))
        } else {
            None
        };
        let crlf_mode = *rng.pick(&[0u64, 0, 0, 1, 2]);
        let mut content = serialize(rng, header, &recs, crlf_mode);
        if rng.chance(1, 6) {
            for _ in 0..rng.range(1, 2) {
                mutate(rng, &mut content);
            }
        }
        let (prefix, qs) = queries(rng, &recs);
        out.push(mk_case(content, rng.below(3), prefix, qs));
    }
    out.truncate(n.max(1));
    out
}

fn main() {
    let _ = BStr::new(b"");
    main_with(Harness { gen, imp, prop, git: None, deadline: std::time::Duration::from_secs(20) });
}
