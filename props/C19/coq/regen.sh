#!/bin/sh
# regenerate _CoqProject/Makefile after adding a .v file (same as tools/check.py does)
cd "$(dirname "$0")"
{ echo "-Q ../../../base/coq GixV.Base"; echo "-Q . GixV.C19"; ls *.v | grep -v Audit.v | sort; } > _CoqProject
coq_makefile -f _CoqProject -o Makefile 2>/dev/null
