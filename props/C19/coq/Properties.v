(* C19 — Packed-refs lookup equals a linear scan.
   Only statements here; every proof is [exact <lemma of Proofs*.v>].
   Model: Model.v (gix-ref packed::{decode,find,iter,buffer}, core::slice::binary_search_by).
   Vocabulary (Spec.v): [frec] = a record plus the line endings (LF/CRLF) of its one or two lines;
   [ser_file xs] = the text of those records; [wf_file] = every target/peeled id is 40 lower-case
   hex digits and every name passes gix_validate::reference::name; [find_first] = the linear scan;
   [line_start a s] = s is 0 or follows an LF. *)
From Coq Require Import Sorting.Sorted.
From GixV.Base Require Import Bytes BytesFacts Outcome.
From Coq Require Import Sorting.Permutation.
From GixV.C19 Require Import Model Spec ProofsSearch ProofsParse ProofsLocate ProofsMain ProofsOpen ProofsFront ProofsIter.

(* core::slice::binary_search_by, for any probe function that is monotone (all Less, then all Equal, then all Greater)
   over the indices and whose side flag never fires: it reports a hit exactly when some index
   probes Equal, and the hit is such an index *)
Theorem binsearch_monotone_key : forall (f : nat -> comparison * bool) (n : nat),
  (forall i j, (i <= j < n)%nat -> fst (f i) = Gt -> fst (f j) = Gt) ->
  (forall i j, (i <= j < n)%nat -> fst (f i) = Eq -> fst (f j) <> Lt) ->
  (forall i, (i < n)%nat -> snd (f i) = false) ->
  exists r, slice_binary_search n f = Ok (r, false) /\
    match r with
    | Found p => (p < n)%nat /\ fst (f p) = Eq
    | Missing _ => forall i, (i < n)%nat -> fst (f i) <> Eq
    end.
Proof. exact slice_binary_search_complete. Qed.

(* every byte offset of a well-formed text (LF or CRLF, with or without peeled lines) is mapped by
   search_start_of_record to the first byte of the record containing it, where the decoder reads
   exactly that record; so the key seen by the binary search is that record's name *)
Theorem record_key_at_every_offset : forall xs name ofs, wf_file xs -> (ofs < length (ser_file xs))%nat ->
  exists x rest, owner xs ofs = Some x /\
    parse_ref (skipn (search_start_of_record (ser_file xs) ofs) (ser_file xs)) = Some (fst x, rest) /\
    key_at (ser_file xs) name ofs = (bytes_cmp (r_name (fst x)) name, false).
Proof. exact key_at_owner. Qed.

(* MAIN: on every well-formed text whose names strictly ascend, for every wanted name, the byte-level
   binary search returns exactly what the linear scan returns: that record, or none; no error *)
Theorem find_is_linear_scan : forall xs name, wf_file xs -> strictly_sorted (map fst xs) ->
  try_find_full_name (ser_file xs) name = Ok (find_first name (map fst xs)).
Proof. exact L_find_is_linear_scan. Qed.

(* with repeated names (order still ascending) the lookup still finds a record of that name that is
   in the file, and finds none only if there is none *)
Theorem find_sorted_with_duplicates : forall xs name, wf_file xs -> weakly_sorted (map fst xs) ->
  exists res, try_find_full_name (ser_file xs) name = Ok res /\
    match res with
    | Some r => In r (map fst xs) /\ r_name r = name
    | None => forall r, In r (map fst xs) -> r_name r <> name
    end.
Proof. exact L_find_sorted. Qed.

(* for ANY bytes whatsoever: a record returned by the lookup has the wanted name and is what the
   decoder reads at the start of some line of the buffer — never a wrong record *)
Theorem unparseable_is_error_never_wrong_record : forall a name r,
  try_find_full_name a name = Ok (Some r) ->
  r_name r = name /\ exists s rest, line_start a s /\ parse_ref (skipn s a) = Some (r, rest).
Proof. exact L_no_wrong_record. Qed.

(* for ANY bytes: the lookup neither panics nor runs out of the model's fuel *)
Theorem find_total : forall a name,
  try_find_full_name a name <> Panic /\ try_find_full_name a name <> OutOfFuel /\
  try_find_full_name a name <> Err EName.
Proof. exact L_find_total. Qed.

(* a file whose header declares it sorted is used as it is (nothing is checked at open) *)
Theorem open_trusts_sorted_header : forall traits crlf rest, no_eol traits -> declares_sorted traits = true ->
  open_buffer (header_line traits crlf ++ rest) = Ok rest.
Proof. exact L_open_sorted. Qed.

(* a well-formed file NOT declared sorted (no header, or a header without the `sorted` trait), in any
   record order, LF or CRLF: open re-reads it with the linear iterator, sorts stably by name and writes
   LF-only text ... *)
Theorem open_sorts_unsorted : forall h xs, header_ok h false -> wf_file xs ->
  open_buffer (opt_header h ++ ser_file xs) = Ok (serialize (sort_by_name (map fst xs))).
Proof. exact L_open_unsorted. Qed.

(* ... and a lookup in the opened buffer is the linear scan of the file's own records, whatever their
   order (names pairwise different) *)
Theorem unsorted_open_then_find_is_linear_scan : forall h xs name,
  header_ok h false -> wf_file xs -> NoDup (map r_name (map fst xs)) ->
  exists a, open_buffer (opt_header h ++ ser_file xs) = Ok a /\
            try_find_full_name a name = Ok (find_first name (map fst xs)).
Proof. exact L_open_then_find. Qed.

(* the sort used by open: a permutation, ascending, stable insertion of equal names *)
Theorem sort_is_sorted_permutation : forall rs,
  Permutation rs (sort_by_name rs) /\ weakly_sorted (sort_by_name rs).
Proof. intros rs. split; [apply sort_perm | apply sort_sorted]. Qed.

(* the public Buffer::try_find on a name that is looked up verbatim (see is_direct) against the
   linear iteration of Buffer::iter (the property's observation point): the iterator yields every
   record and no error, and the lookup equals the scan of what it yields *)
Theorem lookup_equals_iter_scan : forall xs name,
  wf_file xs -> strictly_sorted (map fst xs) -> is_direct name = true ->
  exists items, iter_all (ser_file xs) = Ok items /\
    Forall (fun i => match i with IOk _ => True | IErr _ => False end) items /\
    try_find (ser_file xs) name = Ok (find_first name (oks items)).
Proof. exact L_lookup_equals_iter_scan. Qed.

(* an invalid name is refused before the buffer is looked at *)
Theorem invalid_name_is_refused : forall a n, valid_partial_name n = false -> try_find a n = Err EName.
Proof. exact L_try_find_invalid. Qed.

(* for ANY bytes: the linear iterator terminates within the model's fuel (one step per byte) *)
Theorem iterator_terminates : forall fuel cur, (length cur <= fuel)%nat ->
  exists items, iter_go fuel None cur = Ok items.
Proof. exact iter_go_total. Qed.

(* for ANY bytes: the iterator yields every record the decoder can read at the start of a line
   ([pre] is empty or ends with LF) — the linear scan misses nothing that a lookup could return *)
Theorem iterator_yields_every_line_start_record : forall fuel cur pre suf r rest,
  (length cur <= fuel)%nat -> cur = pre ++ suf -> lf_terminated pre -> parse_ref suf = Some (r, rest) ->
  exists items, iter_go fuel None cur = Ok items /\ In (IOk r) items.
Proof. exact iter_visits. Qed.

(* for ANY bytes (sorted or not, parseable or not): a record returned by the lookup carries the wanted
   name and is one of the records the linear iteration of the same buffer yields *)
Theorem found_record_is_an_iterated_record : forall a name r,
  try_find_full_name a name = Ok (Some r) ->
  r_name r = name /\ exists items, iter_go (length a) None a = Ok items /\ In (IOk r) items.
Proof. exact L_found_is_iterated. Qed.

(* non-vacuity: a CRLF/LF mixed file with a peeled line and names that are prefixes of each other *)
Definition ex_h (c : byte) : bytes := repeat c 40.
Definition ex_file : list frec :=
  [ (mk_pref (bs "refs/heads/a") (ex_h x31) (Some (ex_h x32)), (true, false));
    (mk_pref (bs "refs/heads/a-b") (ex_h x33) None, (false, false));
    (mk_pref (bs "refs/heads/a/b") (ex_h x34) (Some (ex_h x35)), (true, true)) ].
Example ex_file_wf_sorted : wf_file ex_file /\ strictly_sorted (map fst ex_file).
Proof.
  split.
  - repeat constructor.
  - repeat constructor.
Qed.
Example ex_lookup :
  try_find_full_name (ser_file ex_file) (bs "refs/heads/a-b") = Ok (Some (mk_pref (bs "refs/heads/a-b") (ex_h x33) None))
  /\ try_find_full_name (ser_file ex_file) (bs "refs/heads/a-") = Ok None
  /\ try_find_full_name (bs "x") (bs "refs/heads/a") = Err EParse.
Proof. repeat split. Qed.

Example ex_direct : is_direct (bs "refs/heads/a-b") = true /\ is_direct (bs "refs/tags/v1.0") = true
  /\ is_direct (bs "refs/worktree/x") = false /\ is_direct (bs "HEAD") = false.
Proof. repeat split. Qed.
(* an unsorted CRLF file with a non-sorted header *)
Example ex_unsorted :
  header_ok (Some (bs "peeled fully-peeled ", true)) false /\ wf_file (rev ex_file) /\
  NoDup (map r_name (map fst (rev ex_file))) /\
  exists a, open_buffer (opt_header (Some (bs "peeled fully-peeled ", true)) ++ ser_file (rev ex_file)) = Ok a /\
    try_find a (bs "refs/heads/a/b") = Ok (Some (mk_pref (bs "refs/heads/a/b") (ex_h x34) (Some (ex_h x35)))).
Proof.
  split; [split; reflexivity|]. split; [repeat constructor|]. split.
  - repeat constructor; cbn; intuition discriminate.
  - eexists. split; reflexivity.
Qed.
Example ex_sorted_header : declares_sorted (bs "peeled fully-peeled sorted ") = true
  /\ declares_sorted (bs "peeled sortedx") = false.
Proof. split; reflexivity. Qed.
