(* C19 — Packed-refs lookup equals a linear scan.
   Only statements here; every proof is [exact <lemma of Proofs*.v>].
   Model: Model.v (gix-ref packed::{decode,find,iter,buffer}, core::slice::binary_search_by).
   Vocabulary (Spec.v): [frec] = a record plus the line endings (LF/CRLF) of its one or two lines;
   [ser_file xs] = the text of those records; [wf_file] = every target/peeled id is 40 lower-case
   hex digits and every name passes gix_validate::reference::name; [find_first] = the linear scan;
   [line_start a s] = s is 0 or follows an LF. *)
From Coq Require Import Sorting.Sorted.
From GixV.Base Require Import Bytes BytesFacts Outcome.
From GixV.C19 Require Import Model Spec ProofsSearch ProofsParse ProofsLocate ProofsMain.

(* core::slice::binary_search_by, for any probe function that is monotone (all Less, then all Equal, then all Greater)
   over the indices and whose side flag never fires: it reports a hit exactly when some index
   probes Equal, and the hit is such an index *)
Theorem binsearch_monotone_key : forall (f : nat -> comparison * bool) (n : nat),
  (forall i j, (i <= j < n)%nat -> fst (f i) = Gt -> fst (f j) = Gt) ->
  (forall i j, (i <= j < n)%nat -> fst (f i) = Eq -> fst (f j) <> Lt) ->
  (forall i, (i < n)%nat -> snd (f i) = false) ->
  exists r, slice_binary_search n f = Ok (r, false) /\
    match r with
    | Found p => (p < n)%nat /\ fst (f p) = Eq
    | Missing _ => forall i, (i < n)%nat -> fst (f i) <> Eq
    end.
Proof. exact slice_binary_search_complete. Qed.

(* every byte offset of a well-formed text (LF or CRLF, with or without peeled lines) is mapped by
   search_start_of_record to the first byte of the record containing it, where the decoder reads
   exactly that record; so the key seen by the binary search is that record's name *)
Theorem record_key_at_every_offset : forall xs name ofs, wf_file xs -> (ofs < length (ser_file xs))%nat ->
  exists x rest, owner xs ofs = Some x /\
    parse_ref (skipn (search_start_of_record (ser_file xs) ofs) (ser_file xs)) = Some (fst x, rest) /\
    key_at (ser_file xs) name ofs = (bytes_cmp (r_name (fst x)) name, false).
Proof. exact key_at_owner. Qed.

(* MAIN: on every well-formed text whose names strictly ascend, for every wanted name, the byte-level
   binary search returns exactly what the linear scan returns: that record, or none; no error *)
Theorem find_is_linear_scan : forall xs name, wf_file xs -> strictly_sorted (map fst xs) ->
  try_find_full_name (ser_file xs) name = Ok (find_first name (map fst xs)).
Proof. exact L_find_is_linear_scan. Qed.

(* with repeated names (order still ascending) the lookup still finds a record of that name that is
   in the file, and finds none only if there is none *)
Theorem find_sorted_with_duplicates : forall xs name, wf_file xs -> weakly_sorted (map fst xs) ->
  exists res, try_find_full_name (ser_file xs) name = Ok res /\
    match res with
    | Some r => In r (map fst xs) /\ r_name r = name
    | None => forall r, In r (map fst xs) -> r_name r <> name
    end.
Proof. exact L_find_sorted. Qed.

(* for ANY bytes whatsoever: a record returned by the lookup has the wanted name and is what the
   decoder reads at the start of some line of the buffer — never a wrong record *)
Theorem unparseable_is_error_never_wrong_record : forall a name r,
  try_find_full_name a name = Ok (Some r) ->
  r_name r = name /\ exists s rest, line_start a s /\ parse_ref (skipn s a) = Some (r, rest).
Proof. exact L_no_wrong_record. Qed.

(* for ANY bytes: the lookup neither panics nor runs out of the model's fuel *)
Theorem find_total : forall a name,
  try_find_full_name a name <> Panic /\ try_find_full_name a name <> OutOfFuel /\
  try_find_full_name a name <> Err EName.
Proof. exact L_find_total. Qed.

(* non-vacuity: a CRLF/LF mixed file with a peeled line and names that are prefixes of each other *)
Definition ex_h (c : byte) : bytes := repeat c 40.
Definition ex_file : list frec :=
  [ (mk_pref (bs "refs/heads/a") (ex_h x31) (Some (ex_h x32)), (true, false));
    (mk_pref (bs "refs/heads/a-b") (ex_h x33) None, (false, false));
    (mk_pref (bs "refs/heads/a/b") (ex_h x34) (Some (ex_h x35)), (true, true)) ].
Example ex_file_wf_sorted : wf_file ex_file /\ strictly_sorted (map fst ex_file).
Proof.
  split.
  - repeat constructor.
  - repeat constructor.
Qed.
Example ex_lookup :
  try_find_full_name (ser_file ex_file) (bs "refs/heads/a-b") = Ok (Some (mk_pref (bs "refs/heads/a-b") (ex_h x33) None))
  /\ try_find_full_name (ser_file ex_file) (bs "refs/heads/a-") = Ok None
  /\ try_find_full_name (bs "x") (bs "refs/heads/a") = Err EParse.
Proof. repeat split. Qed.
