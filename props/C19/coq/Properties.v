From GixV.Base Require Import Bytes BytesFacts Outcome.
From GixV.C19 Require Import Model.
