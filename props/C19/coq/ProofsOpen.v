(* C19 — opening a buffer: a `sorted` header is trusted; otherwise all records are read by the
   linear iterator, stably sorted by name and written back with LF endings.  Looking a name up in
   the opened buffer is the linear scan of the ORIGINAL records. *)
From Coq Require Import Lia Arith Sorting.Sorted Sorting.Permutation.
From GixV.Base Require Import Bytes BytesFacts Outcome.
From GixV.C19 Require Import Model Spec ProofsSearch ProofsParse ProofsLocate ProofsMain.

(* ---- the iterator on well-formed text reads back exactly the records -------------------- *)
Lemma iter_go_ser : forall xs fuel, wf_file xs -> (length (ser_file xs) <= fuel)%nat ->
  iter_go fuel None (ser_file xs) = Ok (map IOk (map fst xs)).
Proof.
  induction xs as [|x t IH]; intros fuel Hwf Hf.
  - destruct fuel; reflexivity.
  - inversion Hwf as [|? ? Hx Ht]; subst. cbn [ser_file flat_map] in *. fold (ser_file t) in *.
    destruct (ser_rec_hd x Hx) as (b & tl & E & _).
    rewrite app_length in Hf. pose proof (ser_rec_nonempty x) as Hne.
    destruct fuel as [|f]; [lia|].
    assert (P : parse_ref (ser_rec x ++ ser_file t) = Some (fst x, ser_file t)).
    { apply parse_ref_ser; [exact Hx | apply ser_file_hd, Ht]. }
    rewrite E in *. cbn [app iter_go]. cbn [app] in P. rewrite P.
    rewrite (IH f Ht) by (cbn [length] in Hf; lia). reflexivity.
Qed.

Lemma hex_not_hash : forall b0, (negb (is_hex_lc b0) || negb (beqb b0 HASHCH)) = true.
Proof. apply forall_bytes. vm_compute. reflexivity. Qed.

Lemma ser_file_hd_not_hash xs : wf_file xs ->
  match ser_file xs with b :: _ => beqb b HASHCH = false | [] => True end.
Proof.
  intros Hwf. destruct xs as [|x t]; [exact I|]. inversion Hwf as [|? ? Hx Ht]; subst.
  cbn [ser_file flat_map]. destruct Hx as ((Hl & Hh) & _).
  destruct x as [[name target obj] [c1 c2]]. cbn [fst r_target] in *. unfold ser_rec. cbn [r_target].
  destruct target as [|b tg]; [discriminate|]. cbn [app]. cbn [forallb] in Hh.
  apply Bool.andb_true_iff in Hh. destruct Hh as [Hb _].
  pose proof (hex_not_hash b) as G. rewrite Hb in G. cbn in G. now apply Bool.negb_true_iff in G.
Qed.

Lemma ser_file_not_header xs : wf_file xs -> iter_new (ser_file xs) = Ok (ser_file xs).
Proof.
  intros Hwf. pose proof (ser_file_hd_not_hash xs Hwf) as H. unfold iter_new.
  destruct (ser_file xs) as [|b t]; [reflexivity|]. rewrite H. reflexivity.
Qed.

Lemma iter_all_ser xs : wf_file xs -> iter_all (ser_file xs) = Ok (map IOk (map fst xs)).
Proof.
  intros Hwf. unfold iter_all. rewrite (ser_file_not_header xs Hwf).
  rewrite (iter_go_ser xs _ Hwf (le_n _)). reflexivity.
Qed.

Lemma collect_ok_map l : collect_ok (map IOk l) = Some l.
Proof. induction l as [|r l IH]; cbn [map collect_ok]; [reflexivity|]. rewrite IH. reflexivity. Qed.

(* ---- the stable sort -------------------------------------------------------------------- *)
Lemma insert_perm x l : Permutation (x :: l) (insert_by_name x l).
Proof.
  induction l as [|h t IH]; cbn [insert_by_name]; [apply Permutation_refl|].
  destruct (bytes_cmp (r_name x) (r_name h)); try apply Permutation_refl.
  eapply Permutation_trans; [apply perm_swap|]. apply perm_skip, IH.
Qed.

Lemma sort_perm l : Permutation l (sort_by_name l).
Proof.
  induction l as [|x t IH]; cbn [sort_by_name]; [apply Permutation_refl|].
  eapply Permutation_trans; [apply perm_skip, IH | apply insert_perm].
Qed.

Lemma name_le_trans a b c : name_le a b -> name_le b c -> name_le a c.
Proof.
  unfold name_le. intros H1 H2 H3. apply H2. exact (cmp_le_gt _ _ _ H1 H3).
Qed.

Lemma insert_sorted x l : weakly_sorted l -> weakly_sorted (insert_by_name x l).
Proof.
  unfold weakly_sorted. induction l as [|h t IH]; intros Hs; cbn [insert_by_name].
  - constructor; constructor.
  - pose proof Hs as Hs0. apply StronglySorted_inv in Hs. destruct Hs as [Hs Hall].
    destruct (bytes_cmp (r_name x) (r_name h)) eqn:E.
    + constructor; [exact Hs0|]. constructor. { unfold name_le. rewrite E. discriminate. }
      eapply Forall_impl; [|exact Hall]. intros y Hy. eapply name_le_trans; [|exact Hy].
      unfold name_le. rewrite E. discriminate.
    + constructor; [exact Hs0|]. constructor. { unfold name_le. rewrite E. discriminate. }
      eapply Forall_impl; [|exact Hall]. intros y Hy. eapply name_le_trans; [|exact Hy].
      unfold name_le. rewrite E. discriminate.
    + constructor; [exact (IH Hs)|].
      eapply Permutation_Forall; [apply insert_perm|]. constructor; [|exact Hall].
      unfold name_le. intros H. apply cmp_gt_lt in H. rewrite H in E. discriminate.
Qed.

Lemma sort_sorted l : weakly_sorted (sort_by_name l).
Proof.
  induction l as [|x t IH]; cbn [sort_by_name]; [constructor|]. apply insert_sorted, IH.
Qed.

(* with pairwise different names, ascending is strictly ascending *)
Lemma weakly_nodup_strictly rs : weakly_sorted rs -> NoDup (map r_name rs) -> strictly_sorted rs.
Proof.
  induction 1 as [|r t Hs IH Hall]; intros Hnd; [constructor|].
  cbn [map] in Hnd. inversion Hnd as [|? ? Hnotin Hnd']; subst. constructor; [exact (IH Hnd')|].
  rewrite Forall_forall in *. intros y Hy. specialize (Hall y Hy). unfold name_le, name_lt in *.
  destruct (bytes_cmp (r_name r) (r_name y)) eqn:E; [|reflexivity|congruence].
  apply bytes_cmp_eq_iff in E. exfalso. apply Hnotin. rewrite E. now apply in_map.
Qed.

(* ---- the linear scan does not depend on the order when names are unique ------------------ *)
Lemma find_first_in name rs r : find_first name rs = Some r -> In r rs /\ r_name r = name.
Proof.
  induction rs as [|r0 t IH]; [discriminate|]. cbn [find_first].
  destruct (bytes_eqb (r_name r0) name) eqn:E.
  - intros H. injection H as <-. apply bytes_eqb_eq in E. split; [now left | exact E].
  - intros H. destruct (IH H). split; [now right | assumption].
Qed.

Lemma find_first_none_inv name rs : find_first name rs = None -> forall r, In r rs -> r_name r <> name.
Proof.
  induction rs as [|r0 t IH]; intros H r Hin; [contradiction|]. cbn [find_first] in H.
  destruct (bytes_eqb (r_name r0) name) eqn:E; [discriminate|]. destruct Hin as [<- | Hin].
  - intros Hn. apply bytes_eqb_eq in Hn. congruence.
  - exact (IH H r Hin).
Qed.

Lemma find_first_nodup rs r : NoDup (map r_name rs) -> In r rs -> find_first (r_name r) rs = Some r.
Proof.
  induction rs as [|r0 t IH]; intros Hnd Hin; [contradiction|]. cbn [map] in Hnd.
  inversion Hnd as [|? ? Hnotin Hnd']; subst. cbn [find_first]. destruct Hin as [-> | Hin].
  - replace (bytes_eqb (r_name r) (r_name r)) with true; [reflexivity|]. symmetry. now apply bytes_eqb_eq.
  - destruct (bytes_eqb (r_name r0) (r_name r)) eqn:E; [|exact (IH Hnd' Hin)].
    apply bytes_eqb_eq in E. exfalso. apply Hnotin. rewrite E. now apply in_map.
Qed.

Lemma find_first_perm name rs rs' : NoDup (map r_name rs) -> Permutation rs rs' ->
  find_first name rs' = find_first name rs.
Proof.
  intros Hnd Hp. assert (Hnd' : NoDup (map r_name rs')).
  { eapply Permutation_NoDup; [apply Permutation_map, Hp | exact Hnd]. }
  destruct (find_first name rs) as [r|] eqn:E.
  - apply find_first_in in E. destruct E as [Hin <-]. apply find_first_nodup; [exact Hnd'|].
    eapply Permutation_in; eassumption.
  - apply find_first_none. intros r Hin. apply (find_first_none_inv _ _ E).
    eapply Permutation_in; [apply Permutation_sym, Hp | exact Hin].
Qed.

(* ---- serialisation written by open is the LF-only text of the records -------------------- *)
Definition lf_only (r : pref) : frec := (r, (false, false)).

Lemma serialize_ser rs : serialize rs = ser_file (map lf_only rs).
Proof.
  unfold serialize, ser_file. induction rs as [|r t IH]; [reflexivity|]. cbn [flat_map map].
  rewrite IH. f_equal.
Qed.

Lemma map_fst_lf_only rs : map fst (map lf_only rs) = rs.
Proof. induction rs as [|r t IH]; cbn [map]; [reflexivity|]. rewrite IH. reflexivity. Qed.

Lemma wf_file_lf_only rs : Forall wf_pref rs -> wf_file (map lf_only rs).
Proof. induction 1; cbn [map]; constructor; assumption. Qed.

(* ---- headers ----------------------------------------------------------------------------- *)
Lemma strip_prefix_app p l : strip_prefix p (p ++ l) = Some l.
Proof.
  induction p as [|x p IH]; [reflexivity|]. cbn [app strip_prefix].
  replace (beqb x x) with true by (symmetry; now apply beqb_eq). exact IH.
Qed.

Lemma parse_header_line traits c rest : no_eol traits ->
  parse_header (header_line traits c ++ rest) = Some (declares_sorted traits, rest).
Proof.
  intros Hn. unfold parse_header, header_line. rewrite <- app_assoc, strip_prefix_app.
  rewrite <- app_assoc, (until_newline_app traits c rest Hn). reflexivity.
Qed.

(* ---- open_buffer ------------------------------------------------------------------------- *)
Definition opt_header (h : option (bytes * bool)) : bytes :=
  match h with Some (traits, c) => header_line traits c | None => [] end.
Definition header_ok (h : option (bytes * bool)) (sorted : bool) : Prop :=
  match h with
  | Some (traits, _) => no_eol traits /\ declares_sorted traits = sorted
  | None => sorted = false
  end.

Lemma L_open_sorted traits c rest : no_eol traits -> declares_sorted traits = true ->
  open_buffer (header_line traits c ++ rest) = Ok rest.
Proof.
  intros Hn Hs. unfold open_buffer.
  change (header_line traits c ++ rest) with (HASHCH :: (bs " pack-refs with: " ++ traits ++ nl c) ++ rest) at 1.
  cbv iota. change (beqb HASHCH HASHCH) with true. cbv iota.
  change (HASHCH :: (bs " pack-refs with: " ++ traits ++ nl c) ++ rest) with (header_line traits c ++ rest).
  rewrite (parse_header_line traits c rest Hn), Hs. reflexivity.
Qed.

Lemma open_finish_unsorted xs : wf_file xs ->
  match iter_all (ser_file xs) with
  | Ok items => match collect_ok items with
                | Some entries => @Ok bytes open_err (serialize (sort_by_name entries))
                | None => Err EOpenIter end
  | Err _ => Err EOpenIter | Panic => Panic | OutOfFuel => OutOfFuel
  end = Ok (serialize (sort_by_name (map fst xs))).
Proof. intros Hwf. rewrite (iter_all_ser xs Hwf), collect_ok_map. reflexivity. Qed.

Lemma L_open_unsorted h xs : header_ok h false -> wf_file xs ->
  open_buffer (opt_header h ++ ser_file xs) = Ok (serialize (sort_by_name (map fst xs))).
Proof.
  intros Hh Hwf. destruct h as [[traits c]|]; cbn [opt_header header_ok] in *.
  - destruct Hh as [Hn Hs]. unfold open_buffer.
    change (header_line traits c ++ ser_file xs) with (HASHCH :: (bs " pack-refs with: " ++ traits ++ nl c) ++ ser_file xs) at 1.
    cbv iota. change (beqb HASHCH HASHCH) with true. cbv iota.
    change (HASHCH :: (bs " pack-refs with: " ++ traits ++ nl c) ++ ser_file xs) with (header_line traits c ++ ser_file xs).
    rewrite (parse_header_line traits c _ Hn), Hs. apply open_finish_unsorted, Hwf.
  - cbn [app]. unfold open_buffer.
    assert (E : match ser_file xs with b :: _ => if beqb b HASHCH then Some (parse_header (ser_file xs)) else None | [] => None end = None).
    { pose proof (ser_file_hd_not_hash xs Hwf) as H.
      destruct (ser_file xs) as [|b t]; [reflexivity|]. rewrite H. reflexivity. }
    rewrite E. apply open_finish_unsorted, Hwf.
Qed.

(* MAIN for unsorted files: open, then look up = the linear scan of the file's own records *)
Lemma L_open_then_find h xs name : header_ok h false -> wf_file xs -> NoDup (map r_name (map fst xs)) ->
  exists a, open_buffer (opt_header h ++ ser_file xs) = Ok a /\
            try_find_full_name a name = Ok (find_first name (map fst xs)).
Proof.
  intros Hh Hwf Hnd. exists (serialize (sort_by_name (map fst xs))). split; [exact (L_open_unsorted h xs Hh Hwf)|].
  set (rs := map fst xs). set (srt := sort_by_name rs).
  assert (Hp : Permutation rs srt) by apply sort_perm.
  assert (Hwf' : Forall wf_pref srt).
  { eapply Permutation_Forall; [exact Hp|]. unfold rs. clear -Hwf. induction Hwf; cbn [map]; constructor; assumption. }
  assert (Hnd' : NoDup (map r_name srt)).
  { eapply Permutation_NoDup; [apply Permutation_map, Hp | exact Hnd]. }
  rewrite serialize_ser.
  rewrite (L_find_is_linear_scan (map lf_only srt) name (wf_file_lf_only _ Hwf')).
  - rewrite map_fst_lf_only. f_equal. apply find_first_perm; assumption.
  - rewrite map_fst_lf_only. apply weakly_nodup_strictly; [apply sort_sorted | exact Hnd'].
Qed.
