(* C19 — search_start_of_record maps every byte offset of a well-formed text to the start of the
   record that contains it; hence the probe of the binary search sees that record's name. *)
From Coq Require Import Lia Arith.
From GixV.Base Require Import Bytes BytesFacts Outcome.
From GixV.C19 Require Import Model Spec ProofsParse.

(* ---- rfind ---------------------------------------------------------------------------- *)
Lemma rfind_lf_none m : no_lf m -> rfind_lf m = None.
Proof.
  induction m as [|b m IH]; [reflexivity|]. unfold no_lf. cbn [forallb]. intros H.
  apply Bool.andb_true_iff in H. destruct H as [H1 H2]. cbn [rfind_lf]. rewrite (IH H2).
  apply Bool.negb_true_iff in H1. rewrite H1. reflexivity.
Qed.

Lemma rfind_lf_app_nolf l m : no_lf m -> rfind_lf (l ++ m) = rfind_lf l.
Proof.
  intros Hm. induction l as [|b l IH]; cbn [app rfind_lf].
  - apply rfind_lf_none, Hm.
  - rewrite IH. reflexivity.
Qed.

Lemma rfind_lf_snoc l : rfind_lf (l ++ [LF]) = Some (length l).
Proof. induction l as [|b l IH]; cbn [app rfind_lf length]; [reflexivity|]. rewrite IH. reflexivity. Qed.

Definition lf_terminated (P : bytes) : Prop := P = [] \/ exists P', P = P' ++ [LF].

Definition rfind_of (P : bytes) : option nat :=
  match P with [] => None | _ => Some (length P - 1) end.

Lemma rfind_lf_terminated P : lf_terminated P -> rfind_lf P = rfind_of P.
Proof.
  intros [-> | [P' ->]]; [reflexivity|]. rewrite rfind_lf_snoc. unfold rfind_of.
  destruct (P' ++ [LF]) eqn:E. { destruct P'; discriminate. }
  rewrite <- E, app_length. cbn [length]. f_equal. lia.
Qed.

Lemma no_lf_firstn k l : no_lf l -> no_lf (firstn k l).
Proof.
  revert k. induction l as [|b l IH]; intros [|k] H; try reflexivity.
  unfold no_lf in *. cbn [firstn forallb] in *. apply Bool.andb_true_iff in H. destruct H as [H1 H2].
  rewrite H1. cbn. exact (IH k H2).
Qed.

Lemma firstn_app_le {A} k (l m : list A) : (k <= length l)%nat -> firstn k (l ++ m) = firstn k l.
Proof. intros H. rewrite firstn_app. replace (k - length l)%nat with O by lia. cbn. apply app_nil_r. Qed.

(* inside a line (up to and including its LF) the last LF seen is the one ending the text before *)
Lemma rfind_in_line P L Q k : lf_terminated P -> no_lf L -> (k <= length L)%nat ->
  rfind_lf (firstn (length P + k) (P ++ L ++ LF :: Q)) = rfind_of P.
Proof.
  intros HP HL Hk. rewrite firstn_app_2, (firstn_app_le k L _ Hk).
  rewrite rfind_lf_app_nolf by (apply no_lf_firstn, HL). apply rfind_lf_terminated, HP.
Qed.

Lemma nth_error_app_at {A} (P : list A) x Q : nth_error (P ++ x :: Q) (length P) = Some x.
Proof. rewrite nth_error_app2 by lia. rewrite Nat.sub_diag. reflexivity. Qed.

Lemma lf_terminated_len P : lf_terminated P -> P <> [] -> S (length P - 1) = length P.
Proof. intros _ H. destruct P; [congruence|]. cbn [length]. lia. Qed.

(* offset in a line that does not start with '^' *)
Lemma ss_first P b L Q k : lf_terminated P -> no_lf (b :: L) -> beqb b CARET = false ->
  (k <= length (b :: L))%nat ->
  search_start_of_record (P ++ (b :: L) ++ LF :: Q) (length P + k) = length P.
Proof.
  intros HP HL Hb Hk. unfold search_start_of_record.
  rewrite (rfind_in_line P (b :: L) Q k HP HL Hk). unfold rfind_of.
  destruct P as [|p0 P0] eqn:EP; [reflexivity|]. rewrite <- EP in *.
  rewrite (lf_terminated_len P HP) by (subst P; discriminate).
  cbn [app]. rewrite nth_error_app_at, Hb. reflexivity.
Qed.

(* offset in a '^' line that follows a line not starting with '^' *)
Lemma ss_second P L1 L2 Q k : lf_terminated P -> no_lf L1 -> no_lf (CARET :: L2) ->
  (k <= length (CARET :: L2))%nat ->
  search_start_of_record (P ++ L1 ++ LF :: (CARET :: L2) ++ LF :: Q) (length P + (length L1 + 1 + k)) = length P.
Proof.
  intros HP H1 H2 Hk. unfold search_start_of_record.
  set (P2 := P ++ L1 ++ [LF]).
  assert (E : P ++ L1 ++ LF :: (CARET :: L2) ++ LF :: Q = P2 ++ (CARET :: L2) ++ LF :: Q).
  { unfold P2. rewrite <- !app_assoc. reflexivity. }
  assert (HP2 : lf_terminated P2). { right. exists (P ++ L1). unfold P2. now rewrite app_assoc. }
  assert (L2len : length P2 = (length P + length L1 + 1)%nat).
  { unfold P2. rewrite !app_length. cbn [length]. lia. }
  replace (length P + (length L1 + 1 + k))%nat with (length P2 + k)%nat by lia.
  rewrite E at 1. rewrite (rfind_in_line P2 (CARET :: L2) Q k HP2 H2 Hk). unfold rfind_of.
  destruct P2 as [|q0 Q0] eqn:EP2. { cbn [length] in L2len. lia. } rewrite <- EP2 in *.
  rewrite (lf_terminated_len P2 HP2) by (rewrite EP2; discriminate).
  rewrite E at 1. cbn [app]. rewrite nth_error_app_at. change (beqb CARET CARET) with true. cbv iota.
  replace (length P2 - 1)%nat with (length P + length L1)%nat by lia.
  rewrite (rfind_in_line P L1 _ (length L1) HP H1 (le_n _)). unfold rfind_of.
  destruct P as [|p0 P0] eqn:EP; [reflexivity|]. rewrite <- EP in *.
  apply (lf_terminated_len P HP). subst P. discriminate.
Qed.

(* ---- the layout of one serialised record ---------------------------------------------- *)
Definition cr_of (c : bool) : bytes := if c then [CR] else [].
Definition line1 (x : frec) : bytes :=
  let '(r, (c1, _)) := x in r_target r ++ SPACE :: r_name r ++ cr_of c1.
Definition line2 (x : frec) : option bytes :=
  let '(r, (_, c2)) := x in
  match r_object r with Some o => Some (o ++ cr_of c2) | None => None end.

Lemma nl_cr c : nl c = cr_of c ++ [LF].
Proof. destruct c; reflexivity. Qed.

Lemma ser_rec_layout x :
  ser_rec x = line1 x ++ LF :: match line2 x with Some l2 => (CARET :: l2) ++ [LF] | None => [] end.
Proof.
  destruct x as [[name target obj] [c1 c2]]. unfold ser_rec, line1, line2. cbn [r_target r_name r_object].
  rewrite !nl_cr. destruct obj as [o|]; cbn [app]; rewrite <- ?app_assoc; cbn [app];
    rewrite <- ?app_assoc; reflexivity.
Qed.

Lemma no_lf_app a b : no_lf a -> no_lf b -> no_lf (a ++ b).
Proof. unfold no_lf. intros Ha Hb. rewrite forallb_app, Ha, Hb. reflexivity. Qed.

Lemma no_lf_cr c : no_lf (cr_of c).
Proof. destruct c; reflexivity. Qed.

Lemma hash_no_lf h : is_hash h -> no_lf h.
Proof. intros [_ H]. apply no_eol_no_lf, hash_no_eol, H. Qed.

Lemma line1_ok x : wf_pref (fst x) ->
  exists b L, line1 x = b :: L /\ no_lf (b :: L) /\ beqb b CARET = false.
Proof.
  intros Hx. pose proof Hx as (Ht & Hn & _).
  destruct x as [[name target obj] [c1 c2]]. cbn [fst r_target r_name] in *.
  assert (NL : no_lf (line1 (mk_pref name target obj, (c1, c2)))).
  { unfold line1. cbn [r_target r_name]. apply no_lf_app; [apply hash_no_lf, Ht|].
    change (SPACE :: name ++ cr_of c1) with ([SPACE] ++ name ++ cr_of c1).
    apply no_lf_app; [reflexivity|]. apply no_lf_app; [|apply no_lf_cr].
    apply no_eol_no_lf, valid_full_name_no_eol, Hn. }
  destruct Ht as [Hl Hh]. unfold line1 in *. cbn [r_target r_name] in *.
  destruct target as [|b t]; [discriminate|]. cbn [app] in *.
  eexists b, _. split; [reflexivity|]. split; [exact NL|].
  cbn [forallb] in Hh. apply Bool.andb_true_iff in Hh. destruct Hh as [Hb _].
  pose proof (hex_not_caret b) as H. rewrite Hb in H. cbn in H. now apply Bool.negb_true_iff in H.
Qed.

Lemma line2_ok x l2 : wf_pref (fst x) -> line2 x = Some l2 -> no_lf (CARET :: l2).
Proof.
  destruct x as [[name target obj] [c1 c2]]. cbn [fst]. intros (_ & _ & Ho). unfold line2.
  cbn [r_object] in *. destruct obj as [o|]; [|discriminate]. intros H. injection H as <-.
  change (CARET :: o ++ cr_of c2) with ([CARET] ++ o ++ cr_of c2).
  apply no_lf_app; [reflexivity|]. apply no_lf_app; [apply hash_no_lf, Ho | apply no_lf_cr].
Qed.

(* every offset inside a serialised record is mapped to the record's first byte *)
Lemma ss_in_record P x Q k : lf_terminated P -> wf_pref (fst x) -> (k < length (ser_rec x))%nat ->
  search_start_of_record (P ++ ser_rec x ++ Q) (length P + k) = length P.
Proof.
  intros HP Hx Hk. destruct (line1_ok x Hx) as (b & L & E1 & NL1 & Hb).
  rewrite ser_rec_layout in *. rewrite E1 in *.
  destruct (line2 x) as [l2|] eqn:E2.
  - pose proof (line2_ok x l2 Hx E2) as NL2.
    rewrite app_length in Hk. cbn [length] in Hk. rewrite app_length in Hk. cbn [length] in Hk.
    destruct (Nat.le_gt_cases k (length (b :: L))) as [Hle | Hgt].
    + rewrite <- app_assoc. cbn [app]. apply ss_first; assumption.
    + replace k with (length (b :: L) + 1 + (k - length (b :: L) - 1))%nat by lia.
      rewrite <- !app_assoc. cbn [app]. rewrite <- !app_assoc. cbn [app].
      change (b :: L ++ LF :: CARET :: l2 ++ LF :: Q) with ((b :: L) ++ LF :: (CARET :: l2) ++ LF :: Q).
      apply ss_second; try assumption. cbn [length] in *. lia.
  - rewrite app_length in Hk. cbn [length] in Hk.
    rewrite <- app_assoc. cbn [app]. apply ss_first; try assumption. cbn [length] in *. lia.
Qed.

Lemma lf_terminated_app_rec P x : lf_terminated P -> lf_terminated (P ++ ser_rec x).
Proof.
  intros _. right. rewrite ser_rec_layout. destruct (line2 x) as [l2|].
  - exists (P ++ line1 x ++ LF :: CARET :: l2). repeat (rewrite <- app_assoc; cbn [app]). reflexivity.
  - exists (P ++ line1 x). repeat (rewrite <- app_assoc; cbn [app]). reflexivity.
Qed.

(* ---- the record that owns an offset ---------------------------------------------------- *)
Fixpoint owner (xs : list frec) (ofs : nat) : option frec :=
  match xs with
  | [] => None
  | x :: t => if Nat.ltb ofs (length (ser_rec x)) then Some x else owner t (ofs - length (ser_rec x))
  end.

Lemma skipn_app_at {A} (P Q : list A) : skipn (length P) (P ++ Q) = Q.
Proof. rewrite skipn_app, skipn_all, Nat.sub_diag. reflexivity. Qed.

(* main locating lemma: in a well-formed text every offset belongs to a record, the search for the
   start of its record lands on a parseable record, and that record is the owner *)
Lemma locate : forall xs P ofs, lf_terminated P -> wf_file xs -> (ofs < length (ser_file xs))%nat ->
  exists x rest, owner xs ofs = Some x /\
    parse_ref (skipn (search_start_of_record (P ++ ser_file xs) (length P + ofs)) (P ++ ser_file xs))
      = Some (fst x, rest).
Proof.
  induction xs as [|x t IH]; intros P ofs HP Hwf Hofs; [cbn in Hofs; lia|].
  inversion Hwf as [|? ? Hx Ht]; subst. cbn [ser_file flat_map] in *. fold (ser_file t) in *.
  rewrite app_length in Hofs. cbn [owner]. destruct (Nat.ltb ofs (length (ser_rec x))) eqn:E.
  - apply Nat.ltb_lt in E. exists x, (ser_file t). split; [reflexivity|].
    rewrite (ss_in_record P x (ser_file t) ofs HP Hx E), skipn_app_at.
    apply parse_ref_ser; [exact Hx | apply ser_file_hd, Ht].
  - apply Nat.ltb_ge in E.
    destruct (IH (P ++ ser_rec x) (ofs - length (ser_rec x))%nat (lf_terminated_app_rec P x HP) Ht ltac:(lia))
      as (y & rest & Ho & Hp).
    exists y, rest. split; [exact Ho|].
    rewrite app_length in Hp. rewrite <- app_assoc in Hp.
    replace (length P + length (ser_rec x) + (ofs - length (ser_rec x)))%nat with (length P + ofs)%nat in Hp by lia.
    exact Hp.
Qed.

Lemma owner_in : forall xs ofs x, owner xs ofs = Some x -> In x xs.
Proof.
  induction xs as [|y t IH]; intros ofs x H; [discriminate|]. cbn [owner] in H.
  destruct (Nat.ltb ofs (length (ser_rec y))); [injection H as <-; now left | right; eauto].
Qed.

Lemma ser_rec_nonempty x : (0 < length (ser_rec x))%nat.
Proof. rewrite ser_rec_layout, app_length. cbn [length]. lia. Qed.

Lemma owner_onto : forall xs x, In x xs -> exists ofs, (ofs < length (ser_file xs))%nat /\ owner xs ofs = Some x.
Proof.
  induction xs as [|y t IH]; intros x H; [contradiction|]. cbn [ser_file flat_map]. fold (ser_file t).
  rewrite app_length. pose proof (ser_rec_nonempty y) as Hy. destruct H as [-> | H].
  - exists O. split; [lia|]. cbn [owner]. replace (Nat.ltb 0 (length (ser_rec x))) with true; [reflexivity|].
    symmetry. apply Nat.ltb_lt. exact Hy.
  - destruct (IH x H) as (ofs & Ho & E). exists (length (ser_rec y) + ofs)%nat. split; [lia|].
    cbn [owner]. replace (Nat.ltb _ _) with false by (symmetry; apply Nat.ltb_ge; lia).
    replace (length (ser_rec y) + ofs - length (ser_rec y))%nat with ofs by lia. exact E.
Qed.

Lemma owner_some : forall xs ofs, (ofs < length (ser_file xs))%nat -> exists x, owner xs ofs = Some x.
Proof.
  induction xs as [|y t IH]; intros ofs H; [cbn in H; lia|]. cbn [ser_file flat_map] in H. fold (ser_file t) in H.
  rewrite app_length in H. cbn [owner]. destruct (Nat.ltb ofs (length (ser_rec y))) eqn:E; [eauto|].
  apply Nat.ltb_ge in E. apply IH. lia.
Qed.
