(* C19 — transcript printer: the same observable line the Rust harness prints for a case.
   case:  q <content> <mode> <prefix> <name>*
     content  bytes of a packed-refs file;  mode  how the harness opens it (0 from_bytes, 1 open
     in memory, 2 open memory-mapped) — ignored by the model, the three must agree;
     prefix   argument of iter_prefixed;  names  arguments of try_find.
   line:  open err <E>   |   open ok <len> <sum> it=<…> pf=<…> | <result> | <result> …  *)
From GixV.Base Require Import Bytes Outcome.
From GixV.C19 Require Import Model.
Local Open Scope N_scope.

(* Fletcher-style checksum without modulus (inputs are far too short to overflow u64) *)
Fixpoint fletcher (l : bytes) (a s : N) : N * N :=
  match l with
  | [] => (a, s)
  | b :: l' => let a' := a + b2N b + 1 in fletcher l' a' (s + a')
  end.
Definition show_sum (l : bytes) : bytes :=
  let (a, s) := fletcher l 0 0 in N_to_dec a ++ bs "." ++ N_to_dec s.

Definition render_item (i : item) : bytes :=
  match i with
  | IOk r => bs "o" ++ r_target r ++ bs " " ++ r_name r ++ bs " " ++
             (match r_object r with Some o => o | None => bs "-" end) ++ [LF]
  | IErr l => bs "e" ++ l ++ [LF]
  end.
Definition is_iok (i : item) : bool := match i with IOk _ => true | IErr _ => false end.

Definition show_items (o : outcome (list item) iter_err) : bytes :=
  match o with
  | Ok l => N_to_dec (N.of_nat (length (filter is_iok l))) ++ bs "/" ++
            N_to_dec (N.of_nat (length (filter (fun i => negb (is_iok i)) l))) ++ bs "/" ++
            show_sum (flat_map render_item l)
  | Err EIterHeader => bs "err-Header"
  | Err EIterRef => bs "err-Reference"
  | Panic => bs "PANIC"
  | OutOfFuel => bs "HANG"
  end.

Definition show_find (o : outcome (option pref) find_err) : bytes :=
  match o with
  | Ok None => bs "none"
  | Ok (Some r) => bs "some " ++ hex_encode (r_name r) ++ bs " " ++ hex_encode (r_target r) ++ bs " " ++
                   (match r_object r with Some ob => hex_encode ob | None => bs "-" end)
  | Err EParse => bs "err Parse"
  | Err EName => bs "err Name"
  | Panic => bs "PANIC"
  | OutOfFuel => bs "HANG"
  end.

Definition run_model (fs : list bytes) : bytes :=
  let op := nth_field 0 fs in
  if bytes_eqb op (bs "q") then
    match open_buffer (nth_field 1 fs) with
    | Err EOpenHeader => bs "open err Header"
    | Err EOpenIter => bs "open err Iter"
    | Panic => bs "PANIC"
    | OutOfFuel => bs "HANG"
    | Ok a =>
        bs "open ok " ++ N_to_dec (N.of_nat (length a)) ++ bs " " ++ show_sum a ++
        bs " it=" ++ show_items (iter_all a) ++
        bs " pf=" ++ show_items (iter_prefixed a (nth_field 3 fs)) ++
        flat_map (fun n => bs " | " ++ show_find (try_find a n)) (skipn 4 fs)
    end
  else bs "?".

Definition run (fs : list bytes) : bytes :=
  match fs with
  | _mode :: rest => run_model rest
  | [] => bs "?"
  end.
