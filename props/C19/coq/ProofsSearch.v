(* C19 — core::slice::binary_search_by (as transcribed in Model.bs_loop / slice_binary_search):
   soundness for any probe function, completeness for a monotone one, termination. *)
From Coq Require Import Lia Arith.
From GixV.Base Require Import Bytes Outcome.
From GixV.C19 Require Import Model.

Section BS.
Variable f : nat -> comparison * bool.
Variable n : nat.
Let c (i : nat) : comparison := fst (f i).

Lemma div2_bounds s : (2 <= s -> 1 <= Nat.div2 s /\ Nat.div2 s <= s - Nat.div2 s /\ s - Nat.div2 s < s)%nat.
Proof.
  intros H. pose proof (Nat.div2_odd s) as E. destruct (Nat.odd s); cbn [Nat.b2n] in E; lia.
Qed.

(* the loop always terminates within [size] steps *)
Lemma bs_loop_some : forall fuel base size flag, (size <= fuel)%nat ->
  exists b fl, bs_loop fuel f base size flag = Some (b, fl).
Proof.
  induction fuel as [|fuel IH]; intros base size flag H.
  - cbn [bs_loop]. replace (Nat.leb size 1) with true by (symmetry; apply Nat.leb_le; lia). eauto.
  - cbn [bs_loop]. destruct (Nat.leb size 1) eqn:E; [eauto|].
    apply Nat.leb_gt in E. destruct (f (base + Nat.div2 size)) as [cm e].
    apply IH. pose proof (div2_bounds size). lia.
Qed.

Definition inv (base size : nat) : Prop :=
  (1 <= size /\ base + size <= n /\ (0 < base -> c base <> Gt) /\
   (forall i, base + size <= i < n -> c i = Gt))%nat.

Hypothesis mono_gt : forall i j, (i <= j < n)%nat -> c i = Gt -> c j = Gt.

Lemma bs_loop_inv : forall fuel base size flag b fl,
  inv base size -> bs_loop fuel f base size flag = Some (b, fl) -> inv b 1.
Proof.
  induction fuel as [|fuel IH]; intros base size flag b fl I H; cbn [bs_loop] in H.
  - destruct (Nat.leb size 1) eqn:E; [|discriminate]. apply Nat.leb_le in E.
    injection H as <- <-. destruct I as (I1 & I2 & I3 & I4).
    assert (size = 1%nat) by lia. subst size. repeat split; auto.
  - destruct (Nat.leb size 1) eqn:E.
    + apply Nat.leb_le in E. injection H as <- <-. destruct I as (I1 & I2 & I3 & I4).
      assert (size = 1%nat) by lia. subst size. repeat split; auto.
    + apply Nat.leb_gt in E. pose proof (div2_bounds size ltac:(lia)) as (D1 & D2 & D3).
      destruct (f (base + Nat.div2 size)) as [cm e] eqn:Ef.
      assert (Ec : c (base + Nat.div2 size) = cm) by (unfold c; rewrite Ef; reflexivity).
      destruct I as (I1 & I2 & I3 & I4).
      refine (IH _ _ _ _ _ _ H). destruct cm.
      * repeat split; try lia. { intros _. rewrite Ec. discriminate. }
        intros i Hi. apply I4. lia.
      * repeat split; try lia. { intros _. rewrite Ec. discriminate. }
        intros i Hi. apply I4. lia.
      * repeat split; try lia; auto.
        intros i Hi. apply (mono_gt (base + Nat.div2 size) i); [lia | exact Ec].
Qed.

Lemma bs_loop_noflag : (forall i, (i < n)%nat -> snd (f i) = false) ->
  forall fuel base size flag b fl, (base + size <= n)%nat ->
  bs_loop fuel f base size flag = Some (b, fl) -> fl = flag.
Proof.
  intros Hf. induction fuel as [|fuel IH]; intros base size flag b fl Hb H; cbn [bs_loop] in H.
  - destruct (Nat.leb size 1); [|discriminate]. now injection H as <- <-.
  - destruct (Nat.leb size 1) eqn:E. { now injection H as <- <-. }
    apply Nat.leb_gt in E. pose proof (div2_bounds size ltac:(lia)) as (D1 & D2 & D3).
    pose proof (Hf (base + Nat.div2 size) ltac:(lia)) as E2.
    destruct (f (base + Nat.div2 size)) as [cm e].
    cbn [snd] in E2. subst e. apply IH in H.
    + rewrite H. apply Bool.orb_false_r.
    + destruct cm; lia.
Qed.

Hypothesis mono_eq : forall i j, (i <= j < n)%nat -> c i = Eq -> c j <> Lt.

(* completeness for a monotone probe whose side flag never fires *)
Lemma slice_binary_search_complete : (forall i, (i < n)%nat -> snd (f i) = false) ->
  exists r, slice_binary_search n f = Ok (r, false) /\
    match r with
    | Found p => (p < n)%nat /\ c p = Eq
    | Missing _ => forall i, (i < n)%nat -> c i <> Eq
    end.
Proof.
  intros Hf. unfold slice_binary_search. destruct (Nat.eqb n 0) eqn:En.
  - apply Nat.eqb_eq in En. exists (Missing 0). split; [reflexivity|]. intros i Hi. lia.
  - apply Nat.eqb_neq in En.
    destruct (bs_loop_some n 0 n false (le_n _)) as (b & fl & Hl). rewrite Hl.
    assert (I0 : inv 0 n). { repeat split; try lia. }
    pose proof (bs_loop_inv _ _ _ _ _ _ I0 Hl) as (_ & J2 & J3 & J4).
    pose proof (bs_loop_noflag Hf _ 0 n _ _ _ (le_n _) Hl) as ->.
    pose proof (Hf b ltac:(lia)) as Eb. destruct (f b) as [cb e] eqn:Efb. cbn [snd] in Eb. subst e.
    assert (Ec : c b = cb) by (unfold c; rewrite Efb; reflexivity).
    assert (NoEq : cb <> Eq -> forall i, (i < n)%nat -> c i <> Eq).
    { intros Hne i Hi Hi2.
      destruct (Nat.lt_trichotomy i b) as [Hlt | [-> | Hgt]].
      - assert (c b <> Gt) by (apply J3; lia).
        pose proof (mono_eq i b ltac:(lia) Hi2). rewrite Ec in *. destruct cb; congruence.
      - congruence.
      - rewrite (J4 i ltac:(lia)) in Hi2. discriminate. }
    destruct cb.
    + exists (Found b). split; [reflexivity|]. split; [lia | exact Ec].
    + exists (Missing (S b)). split; [reflexivity|]. apply NoEq. discriminate.
    + exists (Missing b). split; [reflexivity|]. apply NoEq. discriminate.
Qed.

End BS.

(* soundness: a hit is an index whose probe said Equal — for ANY probe function *)
Lemma slice_binary_search_sound f n p fl :
  slice_binary_search n f = Ok (Found p, fl) -> fst (f p) = Eq.
Proof.
  unfold slice_binary_search. destruct (Nat.eqb n 0); [discriminate|].
  destruct (bs_loop n f 0 n false) as [[b flag]|]; [|discriminate].
  destruct (f b) as [cb e] eqn:E. destruct cb; intros H; try discriminate.
  apply Ok_inj in H. injection H as <- _. rewrite E. reflexivity.
Qed.

(* the fuel given by the model always suffices; no panic, no error *)
Lemma slice_binary_search_total f n : exists r fl, slice_binary_search n f = Ok (r, fl).
Proof.
  unfold slice_binary_search. destruct (Nat.eqb n 0); [eauto|].
  destruct (bs_loop_some f n 0 n false (le_n _)) as (b & fl & ->).
  destruct (f b) as [[] e]; eauto.
Qed.
