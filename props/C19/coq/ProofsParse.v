(* C19 — the decoder on well-formed text: parsing what was serialised gives the record back. *)
From Coq Require Import Lia Arith.
From GixV.Base Require Import Bytes BytesFacts Outcome.
From GixV.C19 Require Import Model Spec.

Definition no_eol (l : bytes) : Prop := forallb (fun b => negb (is_eol b)) l = true.
Definition no_lf (l : bytes) : Prop := forallb (fun b => negb (beqb b LF)) l = true.
Definition hd_not_caret (l : bytes) : Prop :=
  match l with b :: _ => beqb b CARET = false | [] => True end.

(* ---- bytes ---------------------------------------------------------------------------- *)
Lemma hex_not_eol : forall b, (negb (is_hex_lc b) || negb (is_eol b)) = true.
Proof. apply forall_bytes. vm_compute. reflexivity. Qed.
Lemma hex_not_caret : forall b, (negb (is_hex_lc b) || negb (beqb b CARET)) = true.
Proof. apply forall_bytes. vm_compute. reflexivity. Qed.
Lemma valid_byte_not_eol : forall b, (is_invalid_byte b || negb (is_eol b)) = true.
Proof. apply forall_bytes. vm_compute. reflexivity. Qed.
Lemma eol_of_lf : forall b, (negb (beqb b LF) || is_eol b) = true.
Proof. apply forall_bytes. vm_compute. reflexivity. Qed.

Lemma forallb_imp {A} (p q : A -> bool) l :
  (forall x, (negb (p x) || q x) = true) -> forallb p l = true -> forallb q l = true.
Proof.
  intros H. induction l as [|x l IH]; cbn [forallb]; [reflexivity|].
  intros E. apply Bool.andb_true_iff in E. destruct E as [E1 E2].
  specialize (H x). rewrite E1 in H. cbn in H. rewrite H, (IH E2). reflexivity.
Qed.

Lemma hash_no_eol h : forallb is_hex_lc h = true -> no_eol h.
Proof. apply forallb_imp. exact hex_not_eol. Qed.

Lemma no_eol_no_lf l : no_eol l -> no_lf l.
Proof.
  apply forallb_imp. intros b. pose proof (eol_of_lf b) as H.
  destruct (beqb b LF); cbn in *; [rewrite H; reflexivity | now destruct (is_eol b)].
Qed.

(* ---- hex_hash ------------------------------------------------------------------------- *)
Lemma take_hex_app : forall n h r, length h = n -> forallb is_hex_lc h = true ->
  take_hex n (h ++ r) = Some (h, r).
Proof.
  induction n as [|n IH]; intros h r Hl Hh.
  - destruct h; [reflexivity | discriminate].
  - destruct h as [|b h]; [discriminate|]. cbn [length] in Hl. cbn [forallb] in Hh.
    apply Bool.andb_true_iff in Hh. destruct Hh as [H1 H2].
    cbn [app take_hex]. rewrite H1, (IH h r); [reflexivity | lia | exact H2].
Qed.

Lemma take_hex_inv : forall n l h r, take_hex n l = Some (h, r) ->
  l = h ++ r /\ length h = n /\ forallb is_hex_lc h = true.
Proof.
  induction n as [|n IH]; intros l h r H; cbn [take_hex] in H.
  - injection H as <- <-. repeat split.
  - destruct l as [|b l]; [discriminate|]. destruct (is_hex_lc b) eqn:Eb; [|discriminate].
    destruct (take_hex n l) as [[h' r']|] eqn:E; [|discriminate]. injection H as <- <-.
    destruct (IH _ _ _ E) as (-> & Hl & Hh). cbn [app length forallb]. rewrite Eb, Hh, Hl. repeat split.
Qed.

Lemma hex_hash_app h r : is_hash h -> hex_hash (h ++ r) = Some (h, r).
Proof. intros [H1 H2]. apply take_hex_app; assumption. Qed.

(* ---- newline / until_newline ---------------------------------------------------------- *)
Lemma newline_nl c r : newline (nl c ++ r) = Some r.
Proof. destruct c; reflexivity. Qed.

Lemma span_line_app : forall name b rest, no_eol name -> is_eol b = true ->
  span_line (name ++ b :: rest) = (name, b :: rest).
Proof.
  induction name as [|x name IH]; intros b rest Hn Hb.
  - cbn [app span_line]. rewrite Hb. reflexivity.
  - unfold no_eol in Hn. cbn [forallb] in Hn. apply Bool.andb_true_iff in Hn. destruct Hn as [H1 H2].
    cbn [app span_line]. apply Bool.negb_true_iff in H1. rewrite H1, (IH b rest H2 Hb). reflexivity.
Qed.

Lemma until_newline_app name c rest : no_eol name ->
  until_newline (name ++ nl c ++ rest) = Some (name, rest).
Proof.
  intros Hn. unfold until_newline. destruct c; cbn [nl app].
  - rewrite (span_line_app name CR (LF :: rest) Hn eq_refl). reflexivity.
  - rewrite (span_line_app name LF rest Hn eq_refl). reflexivity.
Qed.

(* ---- names: a valid name has no control characters, so no CR/LF ------------------------ *)
Lemma name_loop_no_invalid input last : forall l pos prev cend,
  name_loop input last l pos prev cend = true -> forallb (fun b => negb (is_invalid_byte b)) l = true.
Proof.
  induction l as [|b l IH]; intros pos prev cend H; [reflexivity|].
  cbn [name_loop] in H. cbn [forallb].
  destruct (is_invalid_byte b); [discriminate|]. cbn [negb andb].
  repeat match type of H with (if ?c then false else _) = true => destruct c; [discriminate|] end.
  exact (IH _ _ _ H).
Qed.

Lemma valid_full_name_no_eol n : valid_full_name n = true -> no_eol n.
Proof.
  unfold valid_full_name, ref_name_common, tag_name_ok. intros H.
  apply Bool.andb_true_iff in H. destruct H as [H _].
  destruct n as [|f n]; [discriminate|].
  repeat match type of H with (if ?c then false else _) = true => destruct c eqn:?; [discriminate|] end.
  match goal with E : negb (name_loop _ _ _ _ _ _) = false |- _ => apply Bool.negb_false_iff in E;
    apply name_loop_no_invalid in E; revert E end.
  apply forallb_imp. intros b. pose proof (valid_byte_not_eol b) as V.
  destruct (is_invalid_byte b); cbn in *; [reflexivity | exact V].
Qed.

(* ---- decode::reference on a serialised record ------------------------------------------ *)
Lemma parse_peeled_none rest : hd_not_caret rest -> parse_peeled rest = (None, rest).
Proof. destruct rest as [|b rest]; cbn; [reflexivity|]. intros ->. reflexivity. Qed.

Lemma parse_peeled_some o c rest : is_hash o ->
  parse_peeled (CARET :: o ++ nl c ++ rest) = (Some o, rest).
Proof.
  intros Ho. unfold parse_peeled. change (beqb CARET CARET) with true. cbv iota.
  rewrite (hex_hash_app o _ Ho), newline_nl. reflexivity.
Qed.

Lemma parse_ref_ser x rest : wf_pref (fst x) -> hd_not_caret rest ->
  parse_ref (ser_rec x ++ rest) = Some (fst x, rest).
Proof.
  destruct x as [[name target obj] [c1 c2]]. cbn [fst]. intros (Ht & Hn & Ho) Hr.
  cbn [r_target r_name r_object] in *.
  unfold parse_ref, ser_rec. cbn [r_target r_name r_object].
  rewrite <- app_assoc. rewrite (hex_hash_app target _ Ht).
  cbn [app]. change (beqb SPACE SPACE) with true. cbv iota.
  rewrite <- !app_assoc. rewrite (until_newline_app name c1 _ (valid_full_name_no_eol _ Hn)).
  rewrite Hn. destruct obj as [o|].
  - cbn [app]. rewrite <- app_assoc. rewrite (parse_peeled_some o c2 rest Ho). reflexivity.
  - cbn [app]. rewrite (parse_peeled_none rest Hr). reflexivity.
Qed.

(* what follows a record in a well-formed file never starts with '^' *)
Lemma ser_rec_hd x : wf_pref (fst x) -> exists b t, ser_rec x = b :: t /\ beqb b CARET = false.
Proof.
  destruct x as [[name target obj] [c1 c2]]. cbn [fst]. intros ((Hl & Hh) & _).
  cbn [r_target] in *. unfold ser_rec. cbn [r_target].
  destruct target as [|b t]; [discriminate|]. cbn [forallb] in Hh.
  apply Bool.andb_true_iff in Hh. destruct Hh as [Hb _].
  eexists b, _. split; [reflexivity|]. pose proof (hex_not_caret b) as H. rewrite Hb in H.
  cbn in H. now apply Bool.negb_true_iff in H.
Qed.

Lemma ser_file_hd xs : wf_file xs -> hd_not_caret (ser_file xs).
Proof.
  intros H. destruct xs as [|x xs]; [exact I|]. inversion H as [|? ? Hx Hxs]; subst.
  destruct (ser_rec_hd x Hx) as (b & t & E & Hb). cbn [ser_file flat_map]. rewrite E. exact Hb.
Qed.
