(* C19 — the linear iterator (Buffer::iter) on ARBITRARY bytes: it terminates, and it yields every
   record that the decoder can read at the start of any line.  With L_no_wrong_record: whatever the
   lookup returns is among the records a linear iteration of the same buffer yields. *)
From Coq Require Import Lia Arith.
From GixV.Base Require Import Bytes BytesFacts Outcome.
From GixV.C19 Require Import Model Spec ProofsParse ProofsLocate ProofsMain.

(* ---- inversion of the parsers ------------------------------------------------------------ *)
Lemma span_line_inv : forall l a r, span_line l = (a, r) -> l = a ++ r /\ no_eol a.
Proof.
  induction l as [|b l IH]; intros a r H; cbn [span_line] in H.
  - injection H as <- <-. split; reflexivity.
  - destruct (is_eol b) eqn:E.
    + injection H as <- <-. split; reflexivity.
    + destruct (span_line l) as [a' r'] eqn:E2. injection H as <- <-.
      destruct (IH _ _ eq_refl) as [-> Hn]. split; [reflexivity|].
      unfold no_eol in *. cbn [forallb]. rewrite E, Hn. reflexivity.
Qed.

Lemma newline_inv r r' : newline r = Some r' -> exists c, r = nl c ++ r'.
Proof.
  unfold newline. destruct r as [|b r0]; [discriminate|].
  destruct (beqb b LF) eqn:E1.
  - intros H. injection H as <-. apply beqb_eq in E1. subst. now exists false.
  - destruct (beqb b CR) eqn:E2; [|discriminate]. destruct r0 as [|c r1]; [discriminate|].
    destruct (beqb c LF) eqn:E3; [|discriminate]. intros H. injection H as <-.
    apply beqb_eq in E2. apply beqb_eq in E3. subst. now exists true.
Qed.

Lemma until_newline_inv l a r : until_newline l = Some (a, r) -> exists c, l = a ++ nl c ++ r /\ no_eol a.
Proof.
  unfold until_newline. destruct (span_line l) as [a' r'] eqn:E.
  destruct (newline r') as [r''|] eqn:E2; [|discriminate]. intros H. injection H as <- <-.
  destruct (span_line_inv _ _ _ E) as [-> Hn]. destruct (newline_inv _ _ E2) as [c ->]. eauto.
Qed.

Lemma hex_hash_inv l h r : hex_hash l = Some (h, r) -> l = h ++ r /\ is_hash h.
Proof. intros H. apply take_hex_inv in H. destruct H as (-> & H1 & H2). split; [reflexivity | split; assumption]. Qed.

(* the text consumed by a successful decode::reference: one LF-free line, or two with the second
   starting with '^'; it never starts with '^' *)
Lemma parse_ref_shape l r rest : parse_ref l = Some (r, rest) ->
  exists L1, no_lf L1 /\
    (l = L1 ++ LF :: rest \/ exists L2, no_lf L2 /\ l = L1 ++ LF :: CARET :: L2 ++ LF :: rest).
Proof.
  unfold parse_ref. destruct (hex_hash l) as [[target l1]|] eqn:E1; [|discriminate].
  destruct l1 as [|sp l2]; [discriminate|]. destruct (beqb sp SPACE) eqn:Esp; [|discriminate].
  destruct (until_newline l2) as [[name l3]|] eqn:E2; [|discriminate].
  destruct (valid_full_name name); [|discriminate].
  destruct (parse_peeled l3) as [obj l4] eqn:E3. intros H. injection H as <- <-.
  apply hex_hash_inv in E1. destruct E1 as [-> Ht]. apply beqb_eq in Esp. subst sp.
  apply until_newline_inv in E2. destruct E2 as (c1 & -> & Hn).
  exists (target ++ SPACE :: name ++ cr_of c1). split.
  { apply no_lf_app; [apply hash_no_lf, Ht|]. change (SPACE :: name ++ cr_of c1) with ([SPACE] ++ name ++ cr_of c1).
    apply no_lf_app; [reflexivity|]. apply no_lf_app; [apply no_eol_no_lf, Hn | apply no_lf_cr]. }
  assert (Eq1 : forall X, target ++ SPACE :: name ++ nl c1 ++ X = (target ++ SPACE :: name ++ cr_of c1) ++ LF :: X).
  { intros X. rewrite nl_cr. repeat (rewrite <- app_assoc; cbn [app]). reflexivity. }
  unfold parse_peeled in E3. destruct l3 as [|b l3'].
  - injection E3 as <- <-. left. apply Eq1.
  - destruct (beqb b CARET) eqn:Eb.
    + destruct (hex_hash l3') as [[h l5]|] eqn:E4.
      * destruct (newline l5) as [l6|] eqn:E5.
        -- injection E3 as <- <-. apply beqb_eq in Eb. subst b.
           apply hex_hash_inv in E4. destruct E4 as [-> Hh]. apply newline_inv in E5. destruct E5 as [c2 ->].
           right. exists (h ++ cr_of c2). split; [apply no_lf_app; [apply hash_no_lf, Hh | apply no_lf_cr]|].
           rewrite Eq1, nl_cr. repeat (rewrite <- app_assoc; cbn [app]). reflexivity.
        -- injection E3 as <- <-. left. apply Eq1.
      * injection E3 as <- <-. left. apply Eq1.
    + injection E3 as <- <-. left. apply Eq1.
Qed.

Lemma parse_ref_caret l : parse_ref (CARET :: l) = None.
Proof. reflexivity. Qed.

Lemma split_after_lf_spec : forall l f n, split_after_lf l = (f, n) ->
  l = f ++ n /\ ((exists L, f = L ++ [LF] /\ no_lf L) \/ (n = [] /\ no_lf l)).
Proof.
  induction l as [|b l IH]; intros f n H; cbn [split_after_lf] in H.
  - injection H as <- <-. split; [reflexivity|]. right. split; reflexivity.
  - destruct (beqb b LF) eqn:E.
    + injection H as <- <-. apply beqb_eq in E. subst b. split; [reflexivity|]. left. exists []. split; reflexivity.
    + destruct (split_after_lf l) as [x y] eqn:E2. injection H as <- <-.
      destruct (IH _ _ eq_refl) as [-> [(L & -> & HL) | (-> & HL)]].
      * split; [reflexivity|]. left. exists (b :: L). split; [reflexivity|].
        unfold no_lf in *. cbn [forallb]. rewrite E, HL. reflexivity.
      * split; [reflexivity|]. right. split; [reflexivity|].
        unfold no_lf in *. cbn [forallb]. rewrite E. exact HL.
Qed.

(* ---- the first LF of a text is unique ------------------------------------------------------ *)
Lemma first_lf_unique : forall A A' X X', no_lf A -> no_lf A' ->
  A ++ LF :: X = A' ++ LF :: X' -> A = A' /\ X = X'.
Proof.
  induction A as [|a A IH]; intros [|a' A'] X X' H1 H2 E; cbn [app] in E.
  - injection E as <-. split; reflexivity.
  - injection E as <- _. unfold no_lf in H2. cbn in H2. discriminate.
  - injection E as -> _. unfold no_lf in H1. cbn in H1. discriminate.
  - injection E as <- E. unfold no_lf in H1, H2. cbn [forallb] in H1, H2.
    apply Bool.andb_true_iff in H1. apply Bool.andb_true_iff in H2.
    destruct (IH A' X X' (proj2 H1) (proj2 H2) E) as [-> ->]. split; reflexivity.
Qed.

Lemma first_lf_split : forall P', exists A B, P' ++ [LF] = A ++ LF :: B /\ no_lf A /\ lf_terminated B.
Proof.
  induction P' as [|x P IH].
  - exists [], []. repeat split. now left.
  - destruct (beqb x LF) eqn:E.
    + apply beqb_eq in E. subst x. exists [], (P ++ [LF]). repeat split. right. now exists P.
    + destruct IH as (A & B & E1 & HA & HB). exists (x :: A), B. cbn [app]. rewrite E1.
      repeat split; [|exact HB]. unfold no_lf in *. cbn [forallb]. rewrite E, HA. reflexivity.
Qed.

Lemma no_lf_not_in pre suf : pre <> [] -> lf_terminated pre -> no_lf (pre ++ suf) -> False.
Proof.
  intros Hne [-> | [P' ->]] H; [congruence|]. unfold no_lf in H. rewrite !forallb_app in H.
  cbn in H. rewrite Bool.andb_false_r in H. cbn in H. discriminate.
Qed.

(* ---- termination ----------------------------------------------------------------------------- *)
Lemma iter_go_total : forall fuel cur, (length cur <= fuel)%nat -> exists items, iter_go fuel None cur = Ok items.
Proof.
  induction fuel as [|f IH]; intros cur H.
  - destruct cur; [now exists [] | cbn in H; lia].
  - destruct cur as [|b cur']; [now exists []|]. cbn [iter_go].
    destruct (parse_ref (b :: cur')) as [[r rest]|] eqn:E.
    + destruct (parse_ref_shape _ _ _ E) as (L1 & _ & [E1 | (L2 & _ & E1)]);
        (destruct (IH rest) as [items ->]; [|now eexists]);
        apply (f_equal (@length byte)) in E1; rewrite ?app_length in E1; cbn [length] in E1;
        rewrite ?app_length in E1; cbn [length] in *; lia.
    + destruct (split_after_lf (b :: cur')) as [fl nx] eqn:E2.
      destruct (split_after_lf_spec _ _ _ E2) as [E3 Hs].
      destruct (IH nx) as [items ->]; [|now eexists].
      destruct Hs as [(L & -> & _) | (-> & _)]; [|cbn; lia].
      apply (f_equal (@length byte)) in E3. rewrite !app_length in E3. cbn [length] in *. lia.
Qed.

(* ---- every record readable at a line start is yielded ------------------------------------------ *)
Lemma iter_visits : forall fuel cur pre suf r rest, (length cur <= fuel)%nat ->
  cur = pre ++ suf -> lf_terminated pre -> parse_ref suf = Some (r, rest) ->
  exists items, iter_go fuel None cur = Ok items /\ In (IOk r) items.
Proof.
  induction fuel as [|f IH]; intros cur pre suf r rest Hf Hc Hp Hs.
  - destruct cur; [|cbn in Hf; lia]. destruct pre; [|discriminate]. cbn in Hc. subst suf. discriminate.
  - destruct cur as [|b cur'].
    { destruct pre; [|discriminate]. cbn in Hc. subst suf. discriminate. }
    destruct (iter_go_total (S f) (b :: cur') Hf) as [items Hit]. exists items. split; [exact Hit|].
    cbn [iter_go] in Hit.
    destruct pre as [|p0 pre0] eqn:Epre.
    { (* the record is at the cursor *)
      cbn [app] in Hc. subst suf. rewrite Hs in Hit.
      destruct (iter_go f None rest) as [its| | |]; try discriminate. cbn in Hit.
      apply Ok_inj in Hit. subst items. now left. }
    rewrite <- Epre in *. assert (Hne : pre <> []) by (subst pre; discriminate).
    destruct Hp as [-> | [P' EP']]; [congruence|].
    destruct (first_lf_split P') as (A & B & EAB & HA & HB). rewrite <- EP' in EAB.
    (* cur = A ++ LF :: B ++ suf *)
    assert (Ecur : b :: cur' = A ++ LF :: (B ++ suf)).
    { rewrite Hc, EAB, <- app_assoc. reflexivity. }
    destruct (parse_ref (b :: cur')) as [[r0 rest0]|] eqn:E0.
    + destruct (iter_go f None rest0) as [its| | |] eqn:Eits; try discriminate. cbn in Hit.
      apply Ok_inj in Hit. subst items. right.
      assert (Hlen : (length rest0 <= f)%nat).
      { destruct (parse_ref_shape _ _ _ E0) as (L1 & _ & [E1 | (L2 & _ & E1)]);
          apply (f_equal (@length byte)) in E1; rewrite ?app_length in E1; cbn [length] in E1;
          rewrite ?app_length in E1; cbn [length] in *; lia. }
      destruct (parse_ref_shape _ _ _ E0) as (L1 & HL1 & [E1 | (L2 & HL2 & E1)]).
      * rewrite E1 in Ecur. destruct (first_lf_unique _ _ _ _ HL1 HA Ecur) as [_ Er].
        destruct (IH rest0 B suf r rest Hlen Er HB Hs) as (its' & Hi & Hin). rewrite Eits in Hi.
        apply Ok_inj in Hi. now subst.
      * rewrite E1 in Ecur. destruct (first_lf_unique _ _ _ _ HL1 HA Ecur) as [_ Er].
        (* CARET :: L2 ++ LF :: rest0 = B ++ suf *)
        destruct HB as [-> | [B' ->]].
        { cbn [app] in Er. subst suf. rewrite parse_ref_caret in Hs. discriminate. }
        destruct (first_lf_split B') as (A2 & B2 & EAB2 & HA2 & HB2).
        rewrite EAB2, <- app_assoc in Er. cbn [app] in Er.
        assert (HC : no_lf (CARET :: L2)).
        { change (CARET :: L2) with ([CARET] ++ L2). apply no_lf_app; [reflexivity | exact HL2]. }
        change (CARET :: L2 ++ LF :: rest0) with ((CARET :: L2) ++ LF :: rest0) in Er.
        destruct (first_lf_unique _ _ _ _ HC HA2 Er) as [_ Er2].
        destruct (IH rest0 B2 suf r rest Hlen Er2 HB2 Hs) as (its' & Hi & Hin). rewrite Eits in Hi.
        apply Ok_inj in Hi. now subst.
    + destruct (split_after_lf (b :: cur')) as [fl nx] eqn:E2.
      destruct (iter_go f None nx) as [its| | |] eqn:Eits; try discriminate. cbn in Hit.
      apply Ok_inj in Hit. subst items. right.
      destruct (split_after_lf_spec _ _ _ E2) as [E3 [(L & -> & HL) | (-> & Hno)]].
      * rewrite <- app_assoc in E3. cbn [app] in E3. rewrite E3 in Ecur.
        destruct (first_lf_unique _ _ _ _ HL HA Ecur) as [_ Er].
        assert (Hlen : (length nx <= f)%nat).
        { apply (f_equal (@length byte)) in E3. rewrite !app_length in E3. cbn [length] in *. lia. }
        destruct (IH nx B suf r rest Hlen Er HB Hs) as (its' & Hi & Hin). rewrite Eits in Hi.
        apply Ok_inj in Hi. now subst.
      * exfalso. rewrite Hc in Hno. apply (no_lf_not_in pre suf Hne); [|exact Hno].
        right. now exists P'.
Qed.

Lemma firstn_S_nth {A} : forall (l : list A) p x, nth_error l p = Some x -> firstn (S p) l = firstn p l ++ [x].
Proof.
  induction l as [|a l IH]; intros [|p] x H; cbn [nth_error] in H; try discriminate.
  - injection H as <-. reflexivity.
  - cbn [firstn app]. f_equal. change (firstn (S p) l = firstn p l ++ [x]). exact (IH p x H).
Qed.

Lemma line_start_prefix a s : line_start a s -> lf_terminated (firstn s a).
Proof.
  intros [-> | (p & -> & H)]; [now left|]. right. exists (firstn p a). apply firstn_S_nth, H.
Qed.

(* for ANY bytes: what the lookup returns is one of the records the linear iterator yields *)
Lemma L_found_is_iterated a name r : try_find_full_name a name = Ok (Some r) ->
  r_name r = name /\ exists items, iter_go (length a) None a = Ok items /\ In (IOk r) items.
Proof.
  intros H. destruct (L_no_wrong_record a name r H) as (Hn & s & rest & Hs & Hp). split; [exact Hn|].
  apply (iter_visits (length a) a (firstn s a) (skipn s a) r rest (le_n _)).
  - symmetry. apply firstn_skipn.
  - apply line_start_prefix, Hs.
  - exact Hp.
Qed.
