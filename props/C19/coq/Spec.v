(* C19 — specification side: the linear scan, and what a well-formed packed-refs text is. *)
From GixV.Base Require Import Bytes Outcome.
From GixV.C19 Require Import Model.
From Coq Require Import Sorting.Sorted.

(* the linear scan: first record with the wanted name *)
Fixpoint find_first (name : bytes) (rs : list pref) : option pref :=
  match rs with
  | [] => None
  | r :: t => if bytes_eqb (r_name r) name then Some r else find_first name t
  end.

Definition is_hash (h : bytes) : Prop := length h = 40%nat /\ forallb is_hex_lc h = true.

Definition wf_pref (r : pref) : Prop :=
  is_hash (r_target r) /\ valid_full_name (r_name r) = true /\
  match r_object r with Some o => is_hash o | None => True end.

(* a record as it stands in a file: the record and the line ending (LF / CRLF) of its one or
   two lines *)
Definition frec : Type := pref * (bool * bool).
Definition nl (crlf : bool) : bytes := if crlf then [CR; LF] else [LF].
Definition ser_rec (x : frec) : bytes :=
  let '(r, (c1, c2)) := x in
  r_target r ++ SPACE :: r_name r ++ nl c1 ++
  match r_object r with Some o => CARET :: o ++ nl c2 | None => [] end.
Definition ser_file (xs : list frec) : bytes := flat_map ser_rec xs.

Definition wf_file (xs : list frec) : Prop := Forall (fun x => wf_pref (fst x)) xs.

Definition name_lt (a b : pref) : Prop := bytes_cmp (r_name a) (r_name b) = Lt.
Definition name_le (a b : pref) : Prop := bytes_cmp (r_name a) (r_name b) <> Gt.
Definition strictly_sorted (rs : list pref) : Prop := StronglySorted name_lt rs.
Definition weakly_sorted (rs : list pref) : Prop := StronglySorted name_le rs.

(* header lines the decoder accepts *)
Definition header_line (traits : bytes) (crlf : bool) : bytes :=
  bs "# pack-refs with: " ++ traits ++ nl crlf.
Definition declares_sorted (traits : bytes) : bool :=
  existsb (fun t => bytes_eqb t (bs "sorted")) (split_sp traits).

(* a position of [a] at which a line starts *)
Definition line_start (a : bytes) (s : nat) : Prop :=
  s = O \/ (exists p, s = S p /\ nth_error a p = Some LF).
