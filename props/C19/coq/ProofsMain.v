(* C19 — the lookup on a well-formed sorted text is the linear scan; on ANY text a returned
   record is a record parsed at a line start whose name is the wanted one. *)
From Coq Require Import Lia Arith Sorting.Sorted.
From GixV.Base Require Import Bytes BytesFacts Outcome.
From GixV.C19 Require Import Model Spec ProofsSearch ProofsParse ProofsLocate.

(* ---- order facts on byte strings ------------------------------------------------------- *)
Lemma bytes_cmp_lt_trans a : forall b c, bytes_cmp a b = Lt -> bytes_cmp b c = Lt -> bytes_cmp a c = Lt.
Proof.
  induction a as [|x a IH]; intros [|y b] [|z c]; cbn [bytes_cmp]; try congruence.
  destruct (N.compare_spec (b2N x) (b2N y)) as [E1|E1|E1];
  destruct (N.compare_spec (b2N y) (b2N z)) as [E2|E2|E2];
  destruct (N.compare_spec (b2N x) (b2N z)) as [E3|E3|E3]; try congruence; try lia.
  apply IH.
Qed.

Lemma cmp_le_lt a b t : bytes_cmp a b <> Gt -> bytes_cmp b t = Lt -> bytes_cmp a t = Lt.
Proof.
  intros H1 H2. destruct (bytes_cmp a b) eqn:E; [| |congruence].
  - apply bytes_cmp_eq_iff in E. now subst.
  - exact (bytes_cmp_lt_trans a b t E H2).
Qed.

Lemma cmp_gt_lt a b : bytes_cmp a b = Gt <-> bytes_cmp b a = Lt.
Proof. rewrite (bytes_cmp_antisym b a). destruct (bytes_cmp b a); cbn; split; congruence. Qed.

Lemma cmp_le_gt a b t : bytes_cmp a b <> Gt -> bytes_cmp a t = Gt -> bytes_cmp b t = Gt.
Proof.
  intros H1 H2. apply cmp_gt_lt. apply cmp_gt_lt in H2.
  destruct (bytes_cmp a b) eqn:E; [| |congruence].
  - apply bytes_cmp_eq_iff in E. now subst.
  - exact (bytes_cmp_lt_trans t a b H2 E).
Qed.

Lemma cmp_le_eq a b t : bytes_cmp a b <> Gt -> bytes_cmp a t = Eq -> bytes_cmp b t <> Lt.
Proof.
  intros H1 H2. apply bytes_cmp_eq_iff in H2. subst t. intros H. apply cmp_gt_lt in H. congruence.
Qed.

(* ---- owners are ordered like offsets ---------------------------------------------------- *)
Lemma owner_mono : forall xs i j x y, weakly_sorted (map fst xs) -> (i <= j)%nat ->
  owner xs i = Some x -> owner xs j = Some y -> name_le (fst x) (fst y).
Proof.
  induction xs as [|x0 t IH]; intros i j x y Hs Hij Hi Hj; [discriminate|].
  cbn [map] in Hs. apply StronglySorted_inv in Hs. destruct Hs as [Hs Hall].
  cbn [owner] in Hi, Hj.
  destruct (Nat.ltb i (length (ser_rec x0))) eqn:Ei.
  - injection Hi as <-. destruct (Nat.ltb j (length (ser_rec x0))) eqn:Ej.
    + injection Hj as <-. unfold name_le. rewrite bytes_cmp_refl. discriminate.
    + apply owner_in in Hj. rewrite Forall_forall in Hall. apply Hall. now apply in_map.
  - apply Nat.ltb_ge in Ei. destruct (Nat.ltb j (length (ser_rec x0))) eqn:Ej.
    + apply Nat.ltb_lt in Ej. lia.
    + eapply (IH _ _ _ _ Hs); [|exact Hi|exact Hj]. lia.
Qed.

Lemma key_at_owner xs name ofs : wf_file xs -> (ofs < length (ser_file xs))%nat ->
  exists x rest, owner xs ofs = Some x /\
    parse_ref (skipn (search_start_of_record (ser_file xs) ofs) (ser_file xs)) = Some (fst x, rest) /\
    key_at (ser_file xs) name ofs = (bytes_cmp (r_name (fst x)) name, false).
Proof.
  intros Hwf Hofs. destruct (locate xs [] ofs (or_introl eq_refl) Hwf Hofs) as (x & rest & Ho & Hp).
  cbn [app length Nat.add] in Hp. exists x, rest. repeat split; try assumption.
  unfold key_at. rewrite Hp. reflexivity.
Qed.

(* ---- completeness on well-formed sorted text -------------------------------------------- *)
Lemma L_find_sorted xs name : wf_file xs -> weakly_sorted (map fst xs) ->
  exists res, try_find_full_name (ser_file xs) name = Ok res /\
    match res with
    | Some r => In r (map fst xs) /\ r_name r = name
    | None => forall r, In r (map fst xs) -> r_name r <> name
    end.
Proof.
  intros Hwf Hs. set (a := ser_file xs).
  assert (K : forall i, (i < length a)%nat -> exists x rest, owner xs i = Some x /\
            parse_ref (skipn (search_start_of_record a i) a) = Some (fst x, rest) /\
            key_at a name i = (bytes_cmp (r_name (fst x)) name, false)).
  { intros i Hi. apply key_at_owner; assumption. }
  assert (Mono : forall i j, (i <= j < length a)%nat -> exists x y : frec,
            fst (key_at a name i) = bytes_cmp (r_name (fst x)) name /\
            fst (key_at a name j) = bytes_cmp (r_name (fst y)) name /\ name_le (fst x) (fst y)).
  { intros i j Hij. destruct (K i ltac:(lia)) as (x & _ & Hox & _ & Hkx).
    destruct (K j ltac:(lia)) as (y & _ & Hoy & _ & Hky). exists x, y. rewrite Hkx, Hky.
    repeat split. exact (owner_mono xs i j x y Hs ltac:(lia) Hox Hoy). }
  destruct (slice_binary_search_complete (key_at a name) (length a)) as (r & Hr & Hspec).
  - intros i j Hij Hg. destruct (Mono i j Hij) as (x & y & E1 & E2 & Hle). rewrite E1 in Hg. rewrite E2.
    exact (cmp_le_gt _ _ _ Hle Hg).
  - intros i j Hij He. destruct (Mono i j Hij) as (x & y & E1 & E2 & Hle). rewrite E1 in He. rewrite E2.
    exact (cmp_le_eq _ _ _ Hle He).
  - intros i Hi. destruct (K i Hi) as (x & _ & _ & _ & ->). reflexivity.
  - unfold try_find_full_name, binary_search_by. fold a. rewrite Hr. destruct r as [p|p].
    + destruct Hspec as [Hp Hc]. destruct (K p Hp) as (x & rest & Hox & Hpx & Hkx).
      rewrite Hpx. exists (Some (fst x)). split; [reflexivity|]. split.
      * apply in_map. exact (owner_in _ _ _ Hox).
      * rewrite Hkx in Hc. cbn [fst] in Hc. now apply bytes_cmp_eq_iff in Hc.
    + exists None. split; [reflexivity|]. intros r Hin Hname. apply in_map_iff in Hin.
      destruct Hin as (x & <- & Hx). destruct (owner_onto xs x Hx) as (ofs & Hofs & Ho).
      destruct (K ofs Hofs) as (x' & _ & Hox & _ & Hkx). rewrite Ho in Hox. injection Hox as <-.
      apply (Hspec ofs Hofs). rewrite Hkx. cbn [fst]. rewrite Hname. apply bytes_cmp_refl.
Qed.

(* ---- the linear scan when names are unique ---------------------------------------------- *)
Lemma find_first_none name rs : (forall r, In r rs -> r_name r <> name) -> find_first name rs = None.
Proof.
  induction rs as [|r t IH]; intros H; [reflexivity|]. cbn [find_first].
  destruct (bytes_eqb (r_name r) name) eqn:E.
  - apply bytes_eqb_eq in E. exfalso. exact (H r (or_introl eq_refl) E).
  - apply IH. intros r' Hr'. apply H. now right.
Qed.

Lemma find_first_unique rs r : strictly_sorted rs -> In r rs -> find_first (r_name r) rs = Some r.
Proof.
  induction rs as [|r0 t IH]; intros Hs Hin; [contradiction|].
  apply StronglySorted_inv in Hs. destruct Hs as [Hs Hall]. cbn [find_first]. destruct Hin as [-> | Hin].
  - replace (bytes_eqb (r_name r) (r_name r)) with true; [reflexivity|].
    symmetry. now apply bytes_eqb_eq.
  - rewrite Forall_forall in Hall. specialize (Hall r Hin). unfold name_lt in Hall.
    destruct (bytes_eqb (r_name r0) (r_name r)) eqn:E.
    + apply bytes_eqb_eq in E. rewrite E, bytes_cmp_refl in Hall. discriminate.
    + exact (IH Hs Hin).
Qed.

Lemma strictly_weakly rs : strictly_sorted rs -> weakly_sorted rs.
Proof.
  induction 1 as [|r t Hs IH Hall]; constructor; [exact IH|].
  eapply Forall_impl; [|exact Hall]. unfold name_lt, name_le. intros x ->. discriminate.
Qed.

Lemma L_find_is_linear_scan xs name : wf_file xs -> strictly_sorted (map fst xs) ->
  try_find_full_name (ser_file xs) name = Ok (find_first name (map fst xs)).
Proof.
  intros Hwf Hs. destruct (L_find_sorted xs name Hwf (strictly_weakly _ Hs)) as (res & -> & Hres).
  f_equal. destruct res as [r|].
  - destruct Hres as [Hin <-]. symmetry. now apply find_first_unique.
  - symmetry. now apply find_first_none.
Qed.

(* ---- soundness on arbitrary bytes ------------------------------------------------------- *)
Lemma rfind_lf_nth : forall l p, rfind_lf l = Some p -> nth_error l p = Some LF.
Proof.
  induction l as [|b l IH]; intros p H; [discriminate|]. cbn [rfind_lf] in H.
  destruct (rfind_lf l) as [q|] eqn:E.
  - injection H as <-. cbn [nth_error]. now apply IH.
  - destruct (beqb b LF) eqn:Eb; [|discriminate]. injection H as <-. apply beqb_eq in Eb. now subst.
Qed.

Lemma nth_error_firstn {A} : forall (l : list A) k p x, nth_error (firstn k l) p = Some x -> nth_error l p = Some x.
Proof.
  induction l as [|a l IH]; intros [|k] [|p] x H; cbn [firstn nth_error] in *; try discriminate; auto.
  eapply IH, H.
Qed.

Lemma search_start_line_start a ofs : line_start a (search_start_of_record a ofs).
Proof.
  unfold search_start_of_record, line_start.
  destruct (rfind_lf (firstn ofs a)) as [pos|] eqn:E; [|now left].
  destruct (nth_error a (S pos)) as [b|]; [|now left].
  destruct (beqb b CARET).
  - destruct (rfind_lf (firstn pos a)) as [p|] eqn:E2; [|now left].
    right. exists p. split; [reflexivity|]. eapply nth_error_firstn, rfind_lf_nth, E2.
  - right. exists pos. split; [reflexivity|]. eapply nth_error_firstn, rfind_lf_nth, E.
Qed.

Lemma L_no_wrong_record a name r : try_find_full_name a name = Ok (Some r) ->
  r_name r = name /\
  exists s rest, line_start a s /\ parse_ref (skipn s a) = Some (r, rest).
Proof.
  unfold try_find_full_name, binary_search_by.
  destruct (slice_binary_search (length a) (key_at a name)) as [[[p|p] fl]| | |] eqn:E; try discriminate.
  - apply slice_binary_search_sound in E.
    destruct (parse_ref (skipn (search_start_of_record a p) a)) as [[r' rest]|] eqn:Ep; [|discriminate].
    intros H. apply Ok_inj in H. injection H as ->. split.
    + unfold key_at in E. rewrite Ep in E. cbn [fst] in E. now apply bytes_cmp_eq_iff in E.
    + exists (search_start_of_record a p), rest. split; [apply search_start_line_start | exact Ep].
  - destruct fl; discriminate.
Qed.

(* never a panic, never out of fuel: the result is Ok or the Parse error *)
Lemma L_find_total a name :
  try_find_full_name a name <> Panic /\ try_find_full_name a name <> OutOfFuel /\
  try_find_full_name a name <> Err EName.
Proof.
  unfold try_find_full_name, binary_search_by.
  destruct (slice_binary_search_total (key_at a name) (length a)) as (r & fl & ->).
  destruct r as [p|p].
  - destruct (parse_ref _) as [[? ?]|]; repeat split; discriminate.
  - destruct fl; repeat split; discriminate.
Qed.
