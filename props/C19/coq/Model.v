(* C19 — executable model of gix-ref's packed-refs lookup.
   Follows, function by function,
     gix-ref/src/parse.rs                      hex_hash, newline
     gix-ref/src/store/packed/decode.rs        until_newline, header, reference
     gix-validate/src/{tag,reference}.rs       name_inner (Mode::Validate), reference::name, name_partial
     gix-ref/src/store/packed/find.rs          binary_search_by (incl. search_start_of_record),
                                               try_find_full_name, try_find, transform_full_name_for_lookup
     core::slice::binary_search_by             (rustc 1.95.0 library/core/src/slice/mod.rs)
     gix-ref/src/store/packed/iter.rs          Iter::new_with_prefix, Iter::next, iter_prefixed
     gix-ref/src/store/packed/buffer.rs        open_with_backing (header, sort-when-unsorted)
     gix-ref/src/{name,fullname}.rs            looks_like_full_name, construct_full_name_ref,
                                               category_and_short_name (as far as the lookup needs it)
   No proofs here.  Offsets into the buffer are [nat] (they are list indices). *)
From GixV.Base Require Import Bytes Outcome.

Definition LF : byte := x0a.
Definition CR : byte := x0d.
Definition CARET : byte := x5e.
Definition SLASH : byte := x2f.
Definition DOT : byte := x2e.
Definition SPACE : byte := x20.
Definition HASHCH : byte := x23.

(* ---- gix-ref/src/parse.rs ------------------------------------------------------------- *)

(* is_hex_digit_lc: b'0'..=b'9' | b'a'..=b'f' *)
Definition is_hex_lc (b : byte) : bool :=
  let n := b2N b in
  (N.leb 48 n && N.leb n 57) || (N.leb 97 n && N.leb n 102).

(* winnow take_while(n..=n, is_hex_digit_lc) on a complete stream: succeeds iff the first n
   bytes exist and are all lower-case hex digits; consumes exactly n. *)
Fixpoint take_hex (n : nat) (l : bytes) : option (bytes * bytes) :=
  match n with
  | O => Some ([], l)
  | S n' =>
      match l with
      | b :: l' =>
          if is_hex_lc b then
            match take_hex n' l' with
            | Some (h, r) => Some (b :: h, r)
            | None => None
            end
          else None
      | [] => None
      end
  end.

(* gix_hash::Kind::shortest() = longest() = Sha1, len_in_hex = 40 *)
Definition hex_hash (l : bytes) : option (bytes * bytes) := take_hex 40 l.

(* alt((b"\r\n", b"\n")) *)
Definition newline (l : bytes) : option bytes :=
  match l with
  | b :: r =>
      if beqb b LF then Some r
      else if beqb b CR then
        match r with
        | c :: r' => if beqb c LF then Some r' else None
        | [] => None
        end
      else None
  | [] => None
  end.

(* ---- decode.rs ------------------------------------------------------------------------ *)

Definition is_eol (b : byte) : bool := beqb b CR || beqb b LF.

(* take_while(0.., |b| b != b'\r' && b != b'\n') *)
Fixpoint span_line (l : bytes) : bytes * bytes :=
  match l with
  | [] => ([], [])
  | b :: l' =>
      if is_eol b then ([], l)
      else let (a, r) := span_line l' in (b :: a, r)
  end.

Definition until_newline (l : bytes) : option (bytes * bytes) :=
  let (a, r) := span_line l in
  match newline r with
  | Some r' => Some (a, r')
  | None => None
  end.

Fixpoint strip_prefix (p l : bytes) : option bytes :=
  match p with
  | [] => Some l
  | x :: p' =>
      match l with
      | y :: l' => if beqb x y then strip_prefix p' l' else None
      | [] => None
      end
  end.

Definition starts_with (l p : bytes) : bool :=
  match strip_prefix p l with Some _ => true | None => false end.

Definition ends_with (s suf : bytes) : bool :=
  Nat.leb (length suf) (length s) && bytes_eqb (skipn (length s - length suf) s) suf.

(* bstr split_str(b" "): fields between single spaces (always at least one field) *)
Fixpoint split_sp_aux (l cur : bytes) : list bytes :=
  match l with
  | [] => [rev cur]
  | b :: l' => if beqb b SPACE then rev cur :: split_sp_aux l' [] else split_sp_aux l' (b :: cur)
  end.
Definition split_sp (l : bytes) : list bytes := split_sp_aux l [].

(* decode::header: Some (sorted, rest).  (The `peeled` trait is parsed but never used by the
   lookup code.) *)
Definition parse_header (l : bytes) : option (bool * bytes) :=
  match strip_prefix (bs "# pack-refs with: ") l with
  | None => None
  | Some l1 =>
      match until_newline l1 with
      | None => None
      | Some (traits, rest) => Some (existsb (fun t => bytes_eqb t (bs "sorted")) (split_sp traits), rest)
      end
  end.

(* ---- gix-validate: tag::name_inner in Mode::Validate ---------------------------------- *)

(* b'\\' | b'^' | b':' | b'[' | b'?' | b' ' | b'~' | b'\0'..=b'\x1F' | b'\x7F' *)
Definition is_invalid_byte (b : byte) : bool :=
  let n := b2N b in
  N.leb n 31 || N.eqb n 127 || N.eqb n 92 || N.eqb n 94 || N.eqb n 58 || N.eqb n 91
  || N.eqb n 63 || N.eqb n 32 || N.eqb n 126.

Definition slice (i j : nat) (s : bytes) : bytes := firstn (j - i) (skipn i s).

Definition dot_lock : bytes := bs ".lock".

(* the `for (byte_pos, byte) in input.iter().enumerate()` loop; [cend] is component_end,
   [prev] is `previous`.  true = no error. *)
Fixpoint name_loop (input : bytes) (last : nat) (l : bytes) (pos : nat) (prev : byte) (cend : nat) : bool :=
  match l with
  | [] => true
  | b :: l' =>
      if is_invalid_byte b then false                      (* InvalidByte *)
      else if beqb b x2a then false                        (* Asterisk *)
      else if beqb b DOT && beqb prev DOT then false       (* RepeatedDot *)
      else if beqb b DOT && beqb prev SLASH then false     (* StartsWithDot *)
      else if beqb b x7b && beqb prev x40 then false       (* ReflogPortion "@{" *)
      else if beqb b SLASH && beqb prev SLASH then false   (* RepeatedSlash *)
      else
        let is_slash := beqb b SLASH in
        let cend' := if is_slash then pos else cend in
        if is_slash && ends_with (slice cend pos input) dot_lock then false   (* LockFileSuffix *)
        else if Nat.eqb pos last && ends_with (skipn (S cend') input) dot_lock then false
        else name_loop input last l' (S pos) b cend'
  end.

Definition tag_name_ok (input : bytes) : bool :=
  match input with
  | [] => false                                            (* Empty *)
  | first :: _ =>
      let lastb := last input x00 in
      if beqb lastb SLASH then false                       (* EndsWithSlash *)
      else if beqb first SLASH then false                  (* StartsWithSlash *)
      else if negb (name_loop input (length input - 1) input 0 x00 0) then false
      else if beqb first DOT then false                    (* StartsWithDot *)
      else if beqb lastb DOT then false                    (* EndsWithDot *)
      else true
  end.

Definition is_upper_or_us (b : byte) : bool :=
  let n := b2N b in (N.leb 65 n && N.leb n 90) || N.eqb n 95.

(* gix_validate::reference::validate, the part shared by Mode::Partial and Mode::Complete:
   tag::name_inner in validating mode (the single character `@` is accepted, unlike git) *)
Definition ref_name_common (n : bytes) : bool := tag_name_ok n.
(* gix_validate::reference::name_partial *)
Definition valid_partial_name (n : bytes) : bool := ref_name_common n.
(* gix_validate::reference::name (Mode::Complete): without a slash all bytes must be upper case or `_` *)
Definition valid_full_name (n : bytes) : bool :=
  ref_name_common n && (existsb (beqb SLASH) n || forallb is_upper_or_us n).

(* ---- decode::reference ---------------------------------------------------------------- *)

Record pref := mk_pref { r_name : bytes; r_target : bytes; r_object : option bytes }.

(* opt(delimited(b"^", hex_hash, newline)): on failure nothing is consumed *)
Definition parse_peeled (l : bytes) : option bytes * bytes :=
  match l with
  | b :: l1 =>
      if beqb b CARET then
        match hex_hash l1 with
        | Some (h, l2) =>
            match newline l2 with
            | Some l3 => (Some h, l3)
            | None => (None, l)
            end
        | None => (None, l)
        end
      else (None, l)
  | [] => (None, l)
  end.

Definition parse_ref (l : bytes) : option (pref * bytes) :=
  match hex_hash l with
  | None => None
  | Some (target, l1) =>
      match l1 with
      | sp :: l2 =>
          if beqb sp SPACE then
            match until_newline l2 with
            | None => None
            | Some (name, l3) =>
                if valid_full_name name then
                  let (obj, l4) := parse_peeled l3 in
                  Some (mk_pref name target obj, l4)
                else None
            end
          else None
      | [] => None
      end
  end.

(* ---- find.rs: binary_search_by -------------------------------------------------------- *)

(* position of the last LF in l (bstr rfind(b"\n")) *)
Fixpoint rfind_lf (l : bytes) : option nat :=
  match l with
  | [] => None
  | b :: l' =>
      match rfind_lf l' with
      | Some p => Some (S p)
      | None => if beqb b LF then Some O else None
      end
  end.

Definition search_start_of_record (a : bytes) (ofs : nat) : nat :=
  match rfind_lf (firstn ofs a) with
  | None => O
  | Some pos =>
      let candidate := S pos in
      match nth_error a candidate with
      | None => O
      | Some b =>
          if beqb b CARET then
            match rfind_lf (firstn pos a) with
            | Some p => S p
            | None => O
            end
          else candidate
      end
  end.

(* the closure given to binary_search_by_key, composed with `.cmp(full_name)`: the ordering of
   the record's name against the wanted name, and whether parsing the record failed *)
Definition key_at (a name : bytes) (ofs : nat) : comparison * bool :=
  match parse_ref (skipn (search_start_of_record a ofs) a) with
  | Some (r, _) => (bytes_cmp (r_name r) name, false)
  | None => (bytes_cmp [] name, true)
  end.

(* core::slice::binary_search_by, rustc 1.95: `while size > 1 { half = size/2; mid = base+half;
   base = if cmp == Greater { base } else { mid }; size -= half }` — the flag accumulates the
   closure's side effect on `encountered_parse_failure` *)
Fixpoint bs_loop (fuel : nat) (f : nat -> comparison * bool) (base size : nat) (flag : bool)
  : option (nat * bool) :=
  if Nat.leb size 1 then Some (base, flag)
  else
    match fuel with
    | O => None
    | S fuel' =>
        let half := Nat.div2 size in
        let mid := base + half in
        let (c, e) := f mid in
        bs_loop fuel' f (match c with Gt => base | _ => mid end) (size - half) (flag || e)
    end.

Inductive found := Found (pos : nat) | Missing (pos : nat).

Definition slice_binary_search (n : nat) (f : nat -> comparison * bool) : outcome (found * bool) unit :=
  if Nat.eqb n 0 then Ok (Missing 0, false)
  else
    match bs_loop n f 0 n false with
    | None => OutOfFuel
    | Some (base, flag) =>
        let (c, e) := f base in
        match c with
        | Eq => Ok (Found base, flag || e)
        | Lt => Ok (Missing (S base), flag || e)
        | Gt => Ok (Missing base, flag || e)
        end
    end.

(* packed::Buffer::binary_search_by: Ok(record start) | Err((parse_failure, insert position)) *)
Definition binary_search_by (a name : bytes) : outcome (found * bool) unit :=
  match slice_binary_search (length a) (key_at a name) with
  | Ok (Found p, fl) => Ok (Found (search_start_of_record a p), fl)
  | Ok (Missing p, fl) => Ok (Missing (search_start_of_record a p), fl)
  | Err e => Err e
  | Panic => Panic
  | OutOfFuel => OutOfFuel
  end.

Inductive find_err := EParse | EName.

Definition try_find_full_name (a name : bytes) : outcome (option pref) find_err :=
  match binary_search_by a name with
  | Ok (Found line_start, _) =>
      match parse_ref (skipn line_start a) with
      | Some (r, _) => Ok (Some r)
      | None => Err EParse
      end
  | Ok (Missing _, parse_failure) => if parse_failure then Err EParse else Ok None
  | Err _ => Panic
  | Panic => Panic
  | OutOfFuel => OutOfFuel
  end.

(* ---- name.rs / fullname.rs: what try_find needs --------------------------------------- *)

Definition is_pseudo_ref (n : bytes) : bool := forallb is_upper_or_us n.

(* PartialNameRef::looks_like_full_name(consider_pseudo_ref) *)
Definition looks_like_full_name (consider_pseudo_ref : bool) (n : bytes) : bool :=
  starts_with n (bs "refs/") || starts_with n (bs "main-worktree/")
  || starts_with n (bs "worktrees/") || (consider_pseudo_ref && is_pseudo_ref n).

(* construct_full_name_ref(inbetween, buf, consider_pseudo_ref) *)
Definition construct_full_name (consider_pseudo_ref : bool) (n inbetween : bytes) : bytes :=
  (if looks_like_full_name consider_pseudo_ref n then [] else bs "refs/")
  ++ (match inbetween with [] => [] | _ => inbetween ++ [SLASH] end) ++ n.

Fixpoint find_byte_pos (c : byte) (l : bytes) : option nat :=
  match l with
  | [] => None
  | b :: l' => if beqb b c then Some O else option_map S (find_byte_pos c l')
  end.

(* transform_full_name_for_lookup ∘ category_and_short_name:
   None = `return Ok(None)`, Some n = the name to look up *)
Definition transform_full_name_for_lookup (n : bytes) : option bytes :=
  if starts_with n (bs "refs/tags/") || starts_with n (bs "refs/heads/")
     || starts_with n (bs "refs/remotes/") then Some n                          (* Tag | LocalBranch | RemoteBranch *)
  else if starts_with n (bs "refs/notes/") || starts_with n (bs "refs/bisect/") then Some n
  else if starts_with n (bs "refs/worktree/") then None                        (* WorktreePrivate *)
  else if starts_with n (bs "refs/rewritten/") then Some n
  else if is_pseudo_ref n then None                                            (* PseudoRef *)
  else
    match strip_prefix (bs "main-worktree/") n with
    | Some short =>
        if starts_with short (bs "refs/") then Some short                       (* MainRef *)
        else if is_pseudo_ref short then None                                   (* MainPseudoRef *)
        else Some n                                                             (* unclassified *)
    | None =>
        match strip_prefix (bs "worktrees/") n with
        | Some with_wt =>
            match find_byte_pos SLASH with_wt with
            | None => Some n                                                    (* `?` → unclassified *)
            | Some pos =>
                let short := skipn (S pos) with_wt in
                if starts_with short (bs "refs/") then Some short               (* LinkedRef *)
                else if is_pseudo_ref short then None                           (* LinkedPseudoRef *)
                else Some n
            end
        | None => Some n
        end
    end.

Fixpoint try_find_loop (a name : bytes) (inbetweens : list bytes) : outcome (option pref) find_err :=
  match inbetweens with
  | [] => Ok None
  | ib :: rest =>
      if looks_like_full_name false name then                (* packed try_find passes `false` *)
        match transform_full_name_for_lookup name with
        | None => Ok None
        | Some n => try_find_full_name a n
        end
      else
        match try_find_full_name a (construct_full_name false name ib) with
        | Ok None => try_find_loop a name rest
        | r => r
        end
  end.

Definition try_find (a name : bytes) : outcome (option pref) find_err :=
  if valid_partial_name name then
    try_find_loop a name [[]; bs "tags"; bs "heads"; bs "remotes"]
  else Err EName.

(* ---- iter.rs -------------------------------------------------------------------------- *)

Inductive item := IOk (r : pref) | IErr (invalid_line : bytes).

(* cursor.find_byte(b'\n').map_or((cursor, &[]), |pos| cursor.split_at(pos + 1)) *)
Fixpoint split_after_lf (l : bytes) : bytes * bytes :=
  match l with
  | [] => ([], [])
  | b :: l' =>
      if beqb b LF then ([b], l')
      else let (x, y) := split_after_lf l' in (b :: x, y)
  end.

(* failed_line.get(..len.saturating_sub(1)).unwrap_or(failed_line) *)
Definition drop_last (l : bytes) : bytes := firstn (length l - 1) l.

(* Iterator::next, repeated until None; [prefix] = None | Some p.  Each step consumes at least
   one byte, so fuel = length of the cursor suffices. *)
Fixpoint iter_go (fuel : nat) (prefix : option bytes) (cur : bytes) : outcome (list item) unit :=
  match cur with
  | [] => Ok []
  | _ :: _ =>
      match fuel with
      | O => OutOfFuel
      | S f =>
          match parse_ref cur with
          | Some (r, rest) =>
              if match prefix with Some p => negb (starts_with (r_name r) p) | None => false end
              then Ok []
              else omap (cons (IOk r)) (iter_go f prefix rest)
          | None =>
              let (failed, next) := split_after_lf cur in
              omap (cons (IErr (drop_last failed))) (iter_go f prefix next)
          end
      end
  end.

Inductive iter_err := EIterHeader | EIterRef.

(* Iter::new_with_prefix: the cursor to start from *)
Definition iter_new (packed : bytes) : outcome bytes iter_err :=
  match packed with
  | [] => Ok packed
  | b :: _ =>
      if beqb b HASHCH then
        match parse_header packed with
        | Some (_, rest) => Ok rest
        | None => Err EIterHeader
        end
      else Ok packed
  end.

Definition iter_all (packed : bytes) : outcome (list item) iter_err :=
  match iter_new packed with
  | Ok cur =>
      match iter_go (length cur) None cur with
      | Ok l => Ok l
      | Err _ => Panic
      | Panic => Panic
      | OutOfFuel => OutOfFuel
      end
  | Err e => Err e
  | Panic => Panic
  | OutOfFuel => OutOfFuel
  end.

(* Buffer::iter_prefixed *)
Definition iter_prefixed (a prefix : bytes) : outcome (list item) iter_err :=
  match binary_search_by a prefix with
  | Ok (Found p, _) | Ok (Missing p, _) =>
      match iter_new (skipn p a) with
      | Ok cur =>
          match iter_go (length cur) (Some prefix) cur with
          | Ok l => Ok l
          | Err _ => Panic
          | Panic => Panic
          | OutOfFuel => OutOfFuel
          end
      | Err e => Err e
      | Panic => Panic
      | OutOfFuel => OutOfFuel
      end
  | Err _ => Panic
  | Panic => Panic
  | OutOfFuel => OutOfFuel
  end.

(* ---- buffer.rs: open_with_backing ----------------------------------------------------- *)

(* collect::<Result<Vec<_>, _>>() *)
Fixpoint collect_ok (l : list item) : option (list pref) :=
  match l with
  | [] => Some []
  | IOk r :: l' => option_map (cons r) (collect_ok l')
  | IErr _ :: _ => None
  end.

(* entries.sort_by_key(|e| e.name): a stable sort; insertion sort is the executable stand-in *)
Fixpoint insert_by_name (x : pref) (l : list pref) : list pref :=
  match l with
  | [] => [x]
  | h :: t =>
      match bytes_cmp (r_name x) (r_name h) with
      | Gt => h :: insert_by_name x t
      | _ => x :: l
      end
  end.
Fixpoint sort_by_name (l : list pref) : list pref :=
  match l with
  | [] => []
  | x :: t => insert_by_name x (sort_by_name t)
  end.

Definition serialize_one (e : pref) : bytes :=
  r_target e ++ SPACE :: r_name e ++ LF ::
  match r_object e with
  | Some o => CARET :: o ++ [LF]
  | None => []
  end.
Definition serialize (es : list pref) : bytes := flat_map serialize_one es.

Inductive open_err := EOpenHeader | EOpenIter.

(* the bytes that Buffer::as_ref() exposes after opening [data] *)
Definition open_buffer (data : bytes) : outcome bytes open_err :=
  let hdr :=
    match data with
    | b :: _ => if beqb b HASHCH then Some (parse_header data) else None
    | [] => None
    end in
  let finish (sorted : bool) (view : bytes) : outcome bytes open_err :=
    if sorted then Ok view
    else
      match iter_all view with
      | Ok items =>
          match collect_ok items with
          | Some entries => Ok (serialize (sort_by_name entries))
          | None => Err EOpenIter
          end
      | Err _ => Err EOpenIter
      | Panic => Panic
      | OutOfFuel => OutOfFuel
      end in
  match hdr with
  | Some None => Err EOpenHeader
  | Some (Some (sorted, rest)) => finish sorted rest
  | None => finish false data
  end.
