(* C19 — the public entry points around try_find_full_name: Buffer::try_find for names that are
   looked up verbatim, and the tie to the linear iterator Buffer::iter. *)
From Coq Require Import Lia Arith Sorting.Sorted.
From GixV.Base Require Import Bytes BytesFacts Outcome.
From GixV.C19 Require Import Model Spec ProofsSearch ProofsParse ProofsLocate ProofsMain ProofsOpen.

(* names that try_find looks up verbatim: valid, "looks like a full name", and not rewritten or
   refused by transform_full_name_for_lookup (e.g. everything under refs/heads/, refs/tags/,
   refs/remotes/; not refs/worktree/…, not main-worktree/…; slash-less names such as HEAD or DEV are partial names
   and go through the refs/, refs/tags/, refs/heads/, refs/remotes/ expansion) *)
Definition is_direct (n : bytes) : bool :=
  valid_partial_name n && looks_like_full_name false n &&
  match transform_full_name_for_lookup n with Some m => bytes_eqb m n | None => false end.

Lemma L_try_find_direct a n : is_direct n = true -> try_find a n = try_find_full_name a n.
Proof.
  unfold is_direct. intros H. apply Bool.andb_true_iff in H. destruct H as [H H3].
  apply Bool.andb_true_iff in H. destruct H as [H1 H2].
  unfold try_find. rewrite H1. cbn [try_find_loop]. rewrite H2.
  destruct (transform_full_name_for_lookup n) as [m|]; [|discriminate].
  apply bytes_eqb_eq in H3. now subst.
Qed.

Lemma L_try_find_invalid a n : valid_partial_name n = false -> try_find a n = Err EName.
Proof. intros H. unfold try_find. rewrite H. reflexivity. Qed.

Definition oks (items : list item) : list pref :=
  flat_map (fun i => match i with IOk r => [r] | IErr _ => [] end) items.

Lemma oks_map_IOk l : oks (map IOk l) = l.
Proof. induction l as [|r l IH]; [reflexivity|]. cbn [map oks flat_map app] in *. fold (oks (map IOk l)). now rewrite IH. Qed.

(* observe_at of the property: try_find vs linear iteration of Buffer::iter *)
Lemma L_lookup_equals_iter_scan xs name : wf_file xs -> strictly_sorted (map fst xs) -> is_direct name = true ->
  exists items, iter_all (ser_file xs) = Ok items /\
    Forall (fun i => match i with IOk _ => True | IErr _ => False end) items /\
    try_find (ser_file xs) name = Ok (find_first name (oks items)).
Proof.
  intros Hwf Hs Hd. exists (map IOk (map fst xs)). split; [apply iter_all_ser, Hwf|]. split.
  - apply Forall_forall. intros i Hi. apply in_map_iff in Hi. destruct Hi as (r & <- & _). exact I.
  - rewrite oks_map_IOk, (L_try_find_direct _ _ Hd). apply L_find_is_linear_scan; assumption.
Qed.
