(* C50 — transcript printer: parses a case (flags, cwd, start, ceilings, tree) and prints the line the
   Rust harness prints for the same case.  "model" = gix's discovery, "spec" = git's walk (Spec.v). *)
From GixV.Base Require Import Bytes Outcome.
From GixV.C50 Require Import Model Spec.
Local Open Scope N_scope.

Definition comp_bytes (c : comp) : bytes :=
  match c with Cur => bs "." | Par => bs ".." | Norm n => n end.
Fixpoint join_slash (l : list bytes) : bytes :=
  match l with
  | [] => []
  | [x] => x
  | x :: r => x ++ slash :: join_slash r
  end.
Definition show_path (p : path) : bytes :=
  let body := join_slash (map comp_bytes (pcomps p)) in
  if pabs p then slash :: body else match body with [] => bs "-" | _ => body end.

Definition show_err (e : err) : bytes :=
  match e with
  | InvalidInput => bs "InvalidInput"
  | InaccessibleDirectory => bs "InaccessibleDirectory"
  | NoGitRepository => bs "NoGitRepository"
  | NoGitRepositoryWithinCeiling h => bs "NoGitRepositoryWithinCeiling " ++ N_to_dec (N.of_nat h)
  | NoGitRepositoryWithinFs l => bs "NoGitRepositoryWithinFs " ++ show_path l
  | NoMatchingCeilingDir => bs "NoMatchingCeilingDir"
  end.
Definition show_found (f : found) : bytes :=
  match f with
  | FWorkTree w => bs "WorkTree " ++ show_path w
  | FRepository g => bs "Repository " ++ show_path g
  | FLinked w g => bs "LinkedWorkTree " ++ show_path w ++ bs " " ++ show_path g
  end.
Definition show (o : outcome found err) : bytes :=
  match o with
  | Ok f => bs "ok " ++ show_found f
  | Err e => bs "err " ++ show_err e
  | Panic => bs "PANIC"
  | OutOfFuel => bs "HANG"
  end.

(* ---- case parsing ---- *)
Fixpoint split_on (sep : byte) (s : bytes) (cur : bytes) : list bytes :=
  match s with
  | [] => [rev cur]
  | b :: r => if beqb b sep then rev cur :: split_on sep r [] else split_on sep r (b :: cur)
  end.
Definition nonempty (b : bytes) : bool := match b with [] => false | _ => true end.

Definition hex_field (h : bytes) : bytes :=
  if bytes_eqb h (bs "-") then [] else match hex_decode h with Some b => b | None => [] end.

(* devices: the fixed directories above the tree, then 1 for the private tmpfs, 2.. for `M` lines *)
Definition base_fs : fsmap :=
  [ ([], NDir 1000);
    ([bs "dev"], NDir 1001);
    ([bs "dev"; bs "shm"], NDir 1002);
    ([bs "dev"; bs "shm"; bs "gixv-c50"], NDir 1);
    ([bs "dev"; bs "shm"; bs "gixv-c50"; bs "r"], NDir 1) ].

Fixpoint is_prefix_names (a b : list bytes) : bool :=   (* a prefix of b *)
  match a, b with
  | [], _ => true
  | x :: a', y :: b' => bytes_eqb x y && is_prefix_names a' b'
  | _, [] => false
  end.
(* device of a new directory: that of the innermost mount point above it *)
Fixpoint dev_for (mounts : list (list bytes * N)) (k : list bytes) : N :=
  match mounts with
  | [] => 1
  | (m, d) :: r => if is_prefix_names m k then d else dev_for r k      (* innermost first *)
  end.

Fixpoint build (lines : list bytes) (acc : fsmap) (mounts : list (list bytes * N)) (next : N) : fsmap :=
  match lines with
  | [] => acc
  | l :: r =>
      match split_on x20 l [] with
      | kind :: p :: rest =>
          let k := names_of (pcomps (parse_path p)) in
          if bytes_eqb kind (bs "D") then build r (acc ++ [(k, NDir (dev_for mounts k))]) mounts next
          else if bytes_eqb kind (bs "M") then build r (acc ++ [(k, NDir next)]) ((k, next) :: mounts) (next + 1)
          else build r (acc ++ [(k, NFile (hex_field (nth 0 rest [])))]) mounts next
      | _ => build r acc mounts next
      end
  end.

Definition run_case (spec : bool) (fs : list bytes) : bytes :=
  let flags := field_N 1 fs in
  let o := {| cross_fs := N.testbit flags 0; dot_git_only := N.testbit flags 1;
              match_ceiling_dir_or_error := N.testbit flags 2 |} in
  let cwd := parse_path (nth_field 2 fs) in
  let start := parse_path (nth_field 3 fs) in
  let ceilings := map parse_path (filter nonempty (split_on x3a (nth_field 4 fs) [])) in
  let tree := build (filter nonempty (split_on x0a (nth_field 5 fs) [])) base_fs [] 2 in
  if negb (is_dir tree cwd cwd) then bs "badcwd" else
  if spec then show_git (git_discover tree cwd (cross_fs o) start ceilings)
  else show (discover_opts tree cwd o start ceilings).

Definition run (fs : list bytes) : bytes :=
  match fs with
  | mode :: rest => run_case (bytes_eqb mode (bs "spec")) rest
  | [] => bs "?"
  end.
