(* C50 — Repository discovery agrees with git: the theorems (see NOTES.md for the plain-word list). *)
From Coq Require Import List Arith Bool NArith.
From GixV.Base Require Import Bytes Outcome.
From GixV.C50 Require Import Model Spec Proofs.
Import ListNotations.

(* The full statement, for clean absolute start directories and ceilings and one shared
   classification of directories: gix finds exactly what git's walk finds.  It is FALSE of the code
   (gix also looks into the ceiling directory itself, pinned by gix-discover's own tests); see
   [discovery_refuted_at_ceiling] and [gix_walk_finds_what_git_finds_except_at_ceiling]. *)
Definition discovery_full_statement : Prop :=
  forall (R : Type) (lv : list bytes -> option R) dev_ok one_fs rl b,
    walkN lv dev_ok one_fs rl (Some (S b)) = walkN lv dev_ok one_fs rl (Some b).

(* 1. `find_ceiling_height` on clean absolute paths: the minimum over the ceilings that are proper
      ancestors of the search directory of the number of components below the ceiling. *)
Theorem ceiling_height_correct : forall d cs cwd,
  find_ceiling_height (clean d) (map clean cs) cwd = min_list (filter_map (height_one d) cs).
Proof. exact find_ceiling_height_clean. Qed.

(* 2. ... which is one more than the number of times git goes up (longest_ancestor_length): gix
      examines the ceiling directory itself. *)
Theorem ceiling_height_is_git_budget_plus_one : forall d cs cwd,
  find_ceiling_height (clean d) (map clean cs) cwd = option_map S (ceiling_budget d cs).
Proof. exact ceiling_height_is_budget_plus_one. Qed.

(* 3. On a clean absolute cursor the loop of `discover_opts` is a walk over the ancestor list:
      ceiling check, device check, `.git` then the directory itself, one level up; with fuel
      proportional to the depth it never runs out of fuel. *)
Theorem loop_is_ancestor_walk : forall isgit devof cwd o d0 mh rl fuel height,
  length rl < fuel ->
  loop isgit devof cwd o d0 mh fuel (clean (rev rl)) height false
  = gix_walk isgit devof cwd o d0 mh rl height.
Proof. exact loop_is_walk. Qed.

Theorem ancestor_walk_terminates : forall isgit devof cwd o d0 mh rl height,
  gix_walk isgit devof cwd o d0 mh rl height <> OutOfFuel.
Proof. exact gix_walk_no_hang. Qed.

(* 4. `discover_opts` from a clean absolute directory that exists, on every file system. *)
Theorem discover_from_absolute_directory : forall fs cwd o l ceilings d0,
  stat fs cwd (clean l) = RFound (NDir d0) ->
  discover_opts fs cwd o (clean l) ceilings =
    let mh := match ceilings with [] => None | _ => find_ceiling_height (clean l) ceilings cwd end in
    if match ceilings, mh with _ :: _, None => match_ceiling_dir_or_error o | _, _ => false end
    then Err NoMatchingCeilingDir
    else gix_walk (is_git fs cwd) (dev_of fs cwd) cwd o d0 mh (rev l) 0.
Proof. exact discover_clean. Qed.

(* 5. What the ancestor walk finds is what "look at each directory, go up at most [mh - height]
      times, never onto another device" finds; otherwise it is an error. *)
Theorem ancestor_walk_finds_first_repository : forall isgit devof cwd o d0 mh rl h,
  (cross_fs o = true \/ dev_ok devof d0 rl = true) ->
  (forall m, mh = Some m -> h <= m) ->
  match walkN (gix_level isgit o) (dev_ok devof d0) (negb (cross_fs o)) rl (budget mh h) with
  | Some (p, k) => gix_walk isgit devof cwd o d0 mh rl h = finish cwd p k false
  | None => exists e, gix_walk isgit devof cwd o d0 mh rl h = Err e
  end.
Proof. exact gix_walk_is_walkN. Qed.

(* 6. git's loop (setup_git_directory_gently_1) finds the same thing as [walkN] with git's budget,
      when no directory on the way makes git die. *)
Theorem git_walk_finds_first_repository : forall (R : Type) (lv : list bytes -> option R) dev_ok one_fs rl n,
  found_of (git_walk (level_of lv) dev_ok one_fs rl n) = walkN lv dev_ok one_fs rl n.
Proof. exact @git_walk_found. Qed.

(* 7. One more level (gix) against git's budget: everything git finds gix finds; anything else gix
      finds sits exactly in the ceiling directory; if that directory is no repository both agree. *)
Theorem gix_finds_what_git_finds : forall (R : Type) (lv : list bytes -> option R) dev_ok one_fs rl b r,
  walkN lv dev_ok one_fs rl (Some b) = Some r -> walkN lv dev_ok one_fs rl (Some (S b)) = Some r.
Proof. exact @walkN_succ. Qed.

Theorem gix_finds_more_only_at_ceiling : forall (R : Type) (lv : list bytes -> option R) dev_ok one_fs rl b r,
  walkN lv dev_ok one_fs rl (Some (S b)) = Some r ->
  walkN lv dev_ok one_fs rl (Some b) = Some r \/
  (walkN lv dev_ok one_fs rl (Some b) = None /\ lv (skipn (S b) rl) = Some r).
Proof. exact @walkN_succ_inv. Qed.

Theorem gix_walk_finds_what_git_finds_except_at_ceiling :
  forall (R : Type) (lv : list bytes -> option R) dev_ok one_fs rl b,
  lv (skipn (S b) rl) = None ->
  walkN lv dev_ok one_fs rl (Some (S b)) = walkN lv dev_ok one_fs rl (Some b).
Proof. exact @walkN_equal_unless_at_ceiling. Qed.

(* the known class, as a witness: a repository in the ceiling directory itself *)
Theorem discovery_refuted_at_ceiling : ~ discovery_full_statement.
Proof.
  intros H.
  specialize (H bool (fun rl => match rl with [_] => Some true | _ => None end)
                (fun _ => true) true [bs "sub"; bs "repo"] 0).
  cbn in H. discriminate H.
Qed.

(* ---- non-vacuity ---- *)
Example ceiling_height_example :
  find_ceiling_height (clean [bs "r"; bs "a"; bs "b"; bs "c"]) (map clean [[bs "r"]; [bs "r"; bs "a"]; [bs "x"]])
                      (clean [bs "r"])
  = Some 2.
Proof. reflexivity. Qed.

Example ceiling_budget_example :
  ceiling_budget [bs "r"; bs "a"; bs "b"; bs "c"] [[bs "r"]; [bs "r"; bs "a"]; [bs "x"]] = Some 1.
Proof. reflexivity. Qed.

(* a plain repository /r/a/.git found from /r/a/b with the real [is_git] *)
Definition ex_fs : fsmap :=
  [ ([], NDir 1); ([bs "r"], NDir 1); ([bs "r"; bs "a"], NDir 1);
    ([bs "r"; bs "a"; bs ".git"], NDir 1);
    ([bs "r"; bs "a"; bs ".git"; bs "HEAD"], NFile (bs "ref: refs/heads/main"));
    ([bs "r"; bs "a"; bs ".git"; bs "objects"], NDir 1);
    ([bs "r"; bs "a"; bs ".git"; bs "refs"], NDir 1);
    ([bs "r"; bs "a"; bs "b"], NDir 1) ].
Definition ex_opts := {| cross_fs := false; dot_git_only := false; match_ceiling_dir_or_error := false |}.

Example discover_example :
  discover_opts ex_fs (clean [bs "r"]) ex_opts (clean [bs "r"; bs "a"; bs "b"]) []
  = Ok (FWorkTree (clean [bs "r"; bs "a"])).
Proof. vm_compute. reflexivity. Qed.

Example discover_example_hypothesis :
  stat ex_fs (clean [bs "r"]) (clean [bs "r"; bs "a"; bs "b"]) = RFound (NDir 1).
Proof. vm_compute. reflexivity. Qed.

(* the ceiling directory itself is searched: ceiling /r/a, start /r/a/b *)
Example discover_example_ceiling :
  discover_opts ex_fs (clean [bs "r"]) ex_opts (clean [bs "r"; bs "a"; bs "b"]) [clean [bs "r"; bs "a"]]
  = Ok (FWorkTree (clean [bs "r"; bs "a"]))
  /\ git_discover ex_fs (clean [bs "r"]) false (clean [bs "r"; bs "a"; bs "b"]) [clean [bs "r"; bs "a"]]
     = GNone (bs "none").
Proof. split; vm_compute; reflexivity. Qed.

Example walk_hypotheses_satisfiable :
  (cross_fs ex_opts = true \/ dev_ok (dev_of ex_fs (clean [bs "r"])) 1 [bs "b"; bs "a"; bs "r"] = true)
  /\ walkN (gix_level (is_git ex_fs (clean [bs "r"])) ex_opts) (dev_ok (dev_of ex_fs (clean [bs "r"])) 1) true
           [bs "b"; bs "a"; bs "r"] (budget (Some 1) 0) <> None.
Proof. split; [right; vm_compute; reflexivity | vm_compute; discriminate]. Qed.
