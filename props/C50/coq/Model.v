(* C50 — executable model of gix-discover's upward search (gix-discover/src/upwards/{mod,util}.rs,
   is.rs, path.rs, parse.rs, repository.rs) and of the parts of std::path / gix_path it uses, over an
   abstract file system (a finite map from absolute component lists to directories-with-device-id and
   files-with-content; no symbolic links).  No proofs here. *)
From GixV.Base Require Import Bytes Outcome.
Local Open Scope N_scope.

(* ---------- std::path at component level --------------------------------------------------- *)

Inductive comp := Cur | Par | Norm (n : bytes).
(* [pabs] = starts with the root directory; [pcomps] = `Path::components()` without the root.
   Invariant of every path built here: [Cur] occurs only as the head of a relative path. *)
Record path := mkp { pabs : bool; pcomps : list comp }.

Definition comp_eqb (a b : comp) : bool :=
  match a, b with
  | Cur, Cur | Par, Par => true
  | Norm x, Norm y => bytes_eqb x y
  | _, _ => false
  end.
Fixpoint comps_eqb (a b : list comp) : bool :=
  match a, b with
  | [], [] => true
  | x :: a', y :: b' => comp_eqb x y && comps_eqb a' b'
  | _, _ => false
  end.
Definition path_eqb (p q : path) : bool := Bool.eqb (pabs p) (pabs q) && comps_eqb (pcomps p) (pcomps q).

Definition is_cur (c : comp) : bool := match c with Cur => true | _ => false end.
Definition is_par (c : comp) : bool := match c with Par => true | _ => false end.
Definition canon (abs : bool) (cs : list comp) : list comp :=
  let body := filter (fun c => negb (is_cur c)) cs in
  match cs with
  | Cur :: _ => if abs then body else Cur :: body
  | _ => body
  end.

Definition slash : byte := x2f.
(* split at '/', dropping empty pieces *)
Fixpoint split_slash (s : bytes) (cur : bytes) : list bytes :=
  match s with
  | [] => match cur with [] => [] | _ => [rev cur] end
  | b :: r => if beqb b slash
              then match cur with [] => split_slash r [] | _ => rev cur :: split_slash r [] end
              else split_slash r (b :: cur)
  end.
Definition comp_of (n : bytes) : comp :=
  if bytes_eqb n (bs ".") then Cur else if bytes_eqb n (bs "..") then Par else Norm n.
Definition parse_path (s : bytes) : path :=
  let abs := match s with b :: _ => beqb b slash | [] => false end in
  mkp abs (canon abs (map comp_of (split_slash s []))).

Definition dot_git : bytes := bs ".git".
Definition p_empty : path := mkp false [].
Definition p_dot : path := mkp false [Cur].
Definition p_root : path := mkp true [].

Definition is_empty (p : path) : bool := negb (pabs p) && match pcomps p with [] => true | _ => false end.
(* PathBuf::push / Path::join *)
Definition push (p q : path) : path :=
  if pabs q then q else mkp (pabs p) (canon (pabs p) (pcomps p ++ pcomps q)).
Definition push_name (p : path) (n : bytes) : path := push p (mkp false [Norm n]).
Definition parent (p : path) : option path :=
  match rev (pcomps p) with
  | [] => None
  | _ :: r => Some (mkp (pabs p) (rev r))
  end.
Definition last_comp (p : path) : option comp :=
  match rev (pcomps p) with [] => None | c :: _ => Some c end.
Definition file_name (p : path) : option bytes :=
  match last_comp p with Some (Norm n) => Some n | _ => None end.
Definition named_dot_git (p : path) : bool :=
  match file_name p with Some n => bytes_eqb n dot_git | None => false end.
Fixpoint strip_comps (a base : list comp) : option (list comp) :=
  match base with
  | [] => Some a
  | y :: base' => match a with
                  | x :: a' => if comp_eqb x y then strip_comps a' base' else None
                  | [] => None
                  end
  end.
Definition strip_prefix (p base : path) : option path :=
  if Bool.eqb (pabs p) (pabs base)
  then option_map (mkp false) (strip_comps (pcomps p) (pcomps base))
  else None.

(* `Path::extension() == Some("git")`: the file name ends in ".git" and is longer than that *)
Definition has_git_extension (p : path) : bool :=
  match file_name p with
  | Some n => match rev n with
              | c4 :: c3 :: c2 :: c1 :: (_ :: _) => bytes_eqb [c1; c2; c3; c4] dot_git
              | _ => false
              end
  | None => false
  end.

(* gix_path::normalize *)
Fixpoint normalize_loop (cs : list comp) (acc : path) (cwd_left : bool) (cwd : path) : option path :=
  match cs with
  | [] => Some acc
  | Par :: r =>
      let need := is_empty acc || path_eqb acc p_dot in
      if need && negb cwd_left then None else
      let acc1 := if need then push acc cwd else acc in
      match parent acc1 with
      | None => None
      | Some acc2 => normalize_loop r acc2 (if need then false else cwd_left) cwd
      end
  | c :: r => normalize_loop r (push acc (mkp false [c])) cwd_left cwd
  end.
Definition normalize (p cwd : path) : option path :=
  if negb (existsb is_par (pcomps p)) then Some p else
  match normalize_loop (pcomps p) (mkp (pabs p) []) true cwd with
  | None => None
  | Some r => if (is_empty r || path_eqb r cwd) && negb (pabs p) then Some p_dot else Some r
  end.

(* gix_path::realpath_opts on a file system without symbolic links *)
Fixpoint realpath_loop (cs : list comp) (acc : path) : option path :=
  match cs with
  | [] => Some acc
  | Cur :: r => realpath_loop r acc
  | Par :: r => match parent acc with None => None | Some a => realpath_loop r a end
  | Norm n :: r => realpath_loop r (push_name acc n)
  end.
Definition realpath (p cwd : path) : option path :=
  if is_empty p then None else realpath_loop (pcomps p) (if pabs p then p_root else cwd).

(* ---------- the file system ---------------------------------------------------------------- *)

Inductive node := NDir (dev : N) | NFile (content : bytes).
Definition fsmap := list (list bytes * node).

Fixpoint names_eqb (a b : list bytes) : bool :=
  match a, b with
  | [], [] => true
  | x :: a', y :: b' => bytes_eqb x y && names_eqb a' b'
  | _, _ => false
  end.
Fixpoint lookup (fs : fsmap) (k : list bytes) : option node :=
  match fs with
  | [] => None
  | (k', n) :: r => if names_eqb k k' then Some n else lookup r k
  end.

Inductive res := RFound (n : node) | RNoEnt | RNotDir.
(* path resolution the way the kernel does it: every step goes through an existing directory *)
Fixpoint walk (fs : fsmap) (cur : list bytes) (cs : list comp) : res :=
  match cs with
  | [] => match lookup fs cur with Some n => RFound n | None => RNoEnt end
  | c :: r =>
      match lookup fs cur with
      | Some (NDir _) =>
          match c with
          | Cur => walk fs cur r
          | Par => walk fs (removelast cur) r
          | Norm n => walk fs (cur ++ [n]) r
          end
      | Some (NFile _) => RNotDir
      | None => RNoEnt
      end
  end.
Fixpoint names_of (cs : list comp) : list bytes :=
  match cs with
  | [] => []
  | Norm n :: r => n :: names_of r
  | _ :: r => names_of r
  end.
(* [cwd] is the absolute, clean current directory of the process *)
Definition stat (fs : fsmap) (cwd p : path) : res :=
  if is_empty p then RNoEnt else walk fs (if pabs p then [] else names_of (pcomps cwd)) (pcomps p).
Definition exists_ fs cwd p : bool := match stat fs cwd p with RFound _ => true | _ => false end.
Definition is_dir fs cwd p : bool := match stat fs cwd p with RFound (NDir _) => true | _ => false end.

Inductive readres := ROk (c : bytes) | RMissing | ROther.
Definition read_file fs cwd p : readres :=
  match stat fs cwd p with
  | RFound (NFile c) => ROk c
  | RFound (NDir _) => ROther
  | RNoEnt => RMissing
  | RNotDir => ROther
  end.

(* ---------- gix-discover: parse.rs, path.rs ------------------------------------------------- *)

Definition is_ws (b : byte) : bool :=
  let n := b2N b in (N.leb 9 n && N.leb n 13) || N.eqb n 32.
Fixpoint drop_ws (l : bytes) : bytes :=
  match l with b :: r => if is_ws b then drop_ws r else l | [] => [] end.
(* bstr `trim_end` for contents without non-ASCII white space *)
Definition trim_end (l : bytes) : bytes := rev (drop_ws (rev l)).
Fixpoint strip_bytes (s pre : bytes) : option bytes :=
  match pre with
  | [] => Some s
  | y :: pre' => match s with x :: s' => if beqb x y then strip_bytes s' pre' else None | [] => None end
  end.

(* parse::gitdir *)
Definition parse_gitdir (content : bytes) : option path :=
  match strip_bytes content (bs "gitdir: ") with
  | None => None
  | Some rest => match trim_end rest with [] => None | t => Some (parse_path t) end
  end.
(* path::from_gitdir_file *)
Definition from_gitdir_file fs cwd (p : path) : option path :=
  match read_file fs cwd p with
  | ROk c => match parse_gitdir c with
             | Some g => Some (match parent p with Some par => push par g | None => g end)
             | None => None
             end
  | _ => None
  end.
Inductive plain := POk (p : path) | PNone | PErr.
Definition from_plain_file fs cwd (p : path) : plain :=
  match read_file fs cwd p with
  | ROk c => POk (parse_path (trim_end c))
  | RMissing => PNone
  | ROther => PErr
  end.
Definition without_dot_git_dir (p : path) : path :=
  if named_dot_git p then match parent p with Some q => q | None => p end else p.

(* ---------- HEAD (gix-ref loose reference parser, abstracted) -------------------------------- *)
(* `ref: ` + spaces + name up to CR/LF, the name checked by a conservative version of
   gix_validate::reference::name (alphabet [A-Za-z0-9_-/], no empty component, a name without '/'
   must be all upper case or '_'); or 40 lower-case hex digits.  Exact for the contents the
   generator writes; the real validator accepts more names. *)
Definition is_lc_hex (b : byte) : bool :=
  let n := b2N b in (N.leb 48 n && N.leb n 57) || (N.leb 97 n && N.leb n 102).
Definition is_upper_ (b : byte) : bool := let n := b2N b in (N.leb 65 n && N.leb n 90) || N.eqb n 95.
Definition is_name_char (b : byte) : bool :=
  let n := b2N b in
  (N.leb 48 n && N.leb n 57) || (N.leb 65 n && N.leb n 90) || (N.leb 97 n && N.leb n 122)
  || N.eqb n 95 || N.eqb n 45.
Fixpoint take_line (l : bytes) : bytes :=
  match l with
  | b :: r => if N.eqb (b2N b) 10 || N.eqb (b2N b) 13 then [] else b :: take_line r
  | [] => []
  end.
Fixpoint drop_sp (l : bytes) : bytes :=
  match l with b :: r => if N.eqb (b2N b) 32 then drop_sp r else l | [] => [] end.
(* no empty component: not starting/ending with '/', no "//" *)
Fixpoint comps_ok (l : bytes) (at_start : bool) : bool :=
  match l with
  | [] => negb at_start
  | b :: r => if beqb b slash then negb at_start && comps_ok r true
              else is_name_char b && comps_ok r false
  end.
Definition refname_ok (n : bytes) : bool :=
  comps_ok n true && (existsb (fun b => beqb b slash) n || forallb is_upper_ n).
Definition head_ok (c : bytes) : bool :=
  match strip_bytes c (bs "ref: ") with
  | Some rest => refname_ok (take_line (drop_sp rest))
  | None => Nat.leb 40 (length c) && forallb is_lc_hex (firstn 40 c)
  end.

(* ---------- is.rs --------------------------------------------------------------------------- *)

Inductive kind :=
| KPossiblyBare
| KWorkTree (linked_git_dir : option path)
| KWorkTreeGitDir (work_dir : path)
| KSubmodule (git_dir : path)
| KSubmoduleGitDir.

Definition bare fs cwd (p : path) : bool :=
  negb (exists_ fs cwd (push_name p (bs "index")) || named_dot_git p).

(* is::submodule_git_dir: not named .git, and scanning the components before the last one from the
   back, the first `.git` seen is directly followed (in path order) by `modules` *)
Fixpoint sub_scan (rcs : list comp) (last : option comp) : bool :=
  match rcs with
  | [] => false
  | c :: r => if comp_eqb c (Norm dot_git)
              then match last with Some l => comp_eqb l (Norm (bs "modules")) | None => false end
              else sub_scan r (Some c)
  end.
Definition submodule_git_dir (p : path) : bool :=
  negb (named_dot_git p) && sub_scan (tl (rev (pcomps p))) None.

Inductive ikind := IMaybe | ISub | ILinked | IWtGitDir (work_dir : path).

Definition is_git_with_meta fs cwd (p : path) (meta : node) : option kind :=
  let is_file := match meta with NFile _ => true | NDir _ => false end in
  match (if is_file then from_gitdir_file fs cwd p else Some p) with
  | None => None
  | Some dg =>
    let head := push_name dg (bs "HEAD") in
    if negb (exists_ fs cwd head) then None else
    match read_file fs cwd head with
    | ROk hc =>
      if negb (head_ok hc) then None else
      let cfile := push_name dg (bs "commondir") in
      let ck : option (path * ikind) :=
        if is_file then
          match from_plain_file fs cwd cfile with
          | PErr => None
          | POk cd => Some (push dg cd, ILinked)
          | PNone => Some (dg, ISub)
          end
        else
          match from_plain_file fs cwd cfile, from_plain_file fs cwd (push_name dg (bs "gitdir")) with
          | POk cd, POk wt => Some (push dg cd, IWtGitDir (without_dot_git_dir wt))
          | _, _ => Some (dg, IMaybe)
          end in
      match ck with
      | None => None
      | Some (common, k) =>
        if negb (is_dir fs cwd (push_name common (bs "objects"))) then None else
        if negb (is_dir fs cwd (push_name common (bs "refs"))) then None else
        Some match k with
             | ILinked => KWorkTree (Some dg)
             | IWtGitDir wd => KWorkTreeGitDir wd
             | ISub => KSubmodule dg
             | IMaybe =>
                 let conformed :=
                   if path_eqb p p_dot
                   then match realpath p cwd with Some r => r | None => p end
                   else match normalize p cwd with Some r => r | None => p end in
                 if bare fs cwd conformed || has_git_extension conformed then KPossiblyBare
                 else if submodule_git_dir conformed then KSubmoduleGitDir
                 else if named_dot_git conformed then KWorkTree None
                 else KPossiblyBare
             end
      end
    | _ => None
    end
  end.
Definition is_git fs cwd (p : path) : option kind :=
  match stat fs cwd p with
  | RFound meta => is_git_with_meta fs cwd p meta
  | _ => None
  end.
Definition dev_of fs cwd (p : path) : option N :=
  match stat fs cwd (if is_empty p then p_dot else p) with
  | RFound (NDir d) => Some d
  | RFound (NFile _) => Some 0
  | _ => None
  end.

(* ---------- repository.rs -------------------------------------------------------------------- *)

Inductive found :=
| FWorkTree (work_dir : path)
| FRepository (git_dir : path)
| FLinked (work_dir git_dir : path).

Definition norm_trailing (dir cwd : path) : option path :=
  match last_comp dir with
  | Some Par => normalize dir cwd
  | Some Cur => Some cwd
  | _ => Some dir
  end.
Definition from_dot_git_dir (dir : path) (k : kind) (cwd : path) : option found :=
  match k with
  | KSubmodule gd =>
      match normalize gd cwd, norm_trailing dir cwd with
      | Some g, Some d => Some (FLinked (without_dot_git_dir d) g)
      | _, _ => None
      end
  | KSubmoduleGitDir => Some (FRepository dir)
  | KWorkTreeGitDir wd => Some (FLinked wd dir)
  | KWorkTree (Some gd) =>
      match norm_trailing dir cwd with
      | Some d => Some (FLinked (without_dot_git_dir d) gd)
      | None => None
      end
  | KWorkTree None =>
      match norm_trailing dir cwd with
      | Some d => let d' := match parent d with Some q => q | None => d end in
                  Some (FWorkTree (if is_empty d' then p_dot else d'))
      | None => None
      end
  | KPossiblyBare => Some (FRepository dir)
  end.

(* ---------- upwards/util.rs ------------------------------------------------------------------ *)

Definition comp_len (c : comp) : nat :=
  match c with Cur => 1 | Par => 2 | Norm n => length n end.
Definition path_len (p : path) : nat :=
  fold_right (fun c a => comp_len c + a)%nat 0%nat (pcomps p) + (if pabs p then 1 else 0)%nat.
Definition shorten_path_with_cwd (cursor cwd : path) : path :=
  if negb (named_dot_git cursor) then cursor else
  match parent cursor with
  | None => cursor
  | Some par =>
      match strip_prefix cwd par with
      | Some rel =>
          let n := length (pcomps rel) in
          if Nat.ltb (n * 2) (path_len cursor) then mkp false (repeat Par n ++ [Norm dot_git]) else cursor
      | None => cursor
      end
  end.

Fixpoint min_list (l : list nat) : option nat :=
  match l with
  | [] => None
  | x :: r => match min_list r with Some m => Some (Nat.min x m) | None => Some x end
  end.
Definition ceiling_height_one (search cwd c : path) : option nat :=
  match normalize c cwd with
  | None => None
  | Some c1 =>
      match (if pabs c1 then Some c1 else normalize (push cwd c1) cwd) with
      | None => None
      | Some c2 =>
          match strip_prefix search c2 with
          | Some rel => let h := length (pcomps rel) in if Nat.ltb 0 h then Some h else None
          | None => None
          end
      end
  end.
Fixpoint filter_map {A B} (f : A -> option B) (l : list A) : list B :=
  match l with
  | [] => []
  | x :: r => match f x with Some y => y :: filter_map f r | None => filter_map f r end
  end.
Definition find_ceiling_height (search_dir : path) (ceilings : list path) (cwd : path) : option nat :=
  match ceilings with
  | [] => None
  | _ =>
    match (if pabs search_dir then Some search_dir else realpath search_dir cwd) with
    | None => None
    | Some search => min_list (filter_map (ceiling_height_one search cwd) ceilings)
    end
  end.

(* ---------- upwards/mod.rs: discover_opts ---------------------------------------------------- *)

Inductive err :=
| InvalidInput | InaccessibleDirectory | NoGitRepository
| NoGitRepositoryWithinCeiling (height : nat)
| NoGitRepositoryWithinFs (limit : path)
| NoMatchingCeilingDir.

Record options := { cross_fs : bool; dot_git_only : bool; match_ceiling_dir_or_error : bool }.

Section Loop.
  (* the two questions the loop asks the file system; [discover] instantiates them *)
  Variable isgit : path -> option kind.
  Variable devof : path -> option N.
  Variable cwd : path.
  Variable o : options.
  Variable initial_device : N.
  Variable max_height : option nat.

  Definition finish (cursor : path) (k : kind) (made_abs : bool) : outcome found err :=
    let p := if made_abs then shorten_path_with_cwd cursor cwd else cursor in
    match from_dot_git_dir p k cwd with
    | Some f => Ok f
    | None => Err InvalidInput
    end.

  Fixpoint loop (fuel : nat) (cursor : path) (height : nat) (made_abs : bool) : outcome found err :=
    match fuel with
    | O => OutOfFuel
    | S fuel' =>
      if match max_height with Some x => Nat.ltb x height | None => false end
      then Err (NoGitRepositoryWithinCeiling height) else
      let height := S height in
      let dev_check : option err :=
        if cross_fs o then None else
        match devof cursor with
        | None => Some InaccessibleDirectory
        | Some d => if N.eqb d initial_device then None else Some (NoGitRepositoryWithinFs cursor)
        end in
      match dev_check with
      | Some e => Err e
      | None =>
        let started := named_dot_git cursor in
        let first := if started then cursor else push_name cursor dot_git in
        match isgit first with
        | Some k => finish first k made_abs
        | None =>
          match (if dot_git_only o then None else isgit cursor) with
          | Some k => finish cursor k made_abs
          | None =>
            let single := match parent cursor with Some q => is_empty q | None => false end in
            let cursor1 := if single then (if path_eqb cursor p_dot then cwd else push cwd cursor) else cursor in
            let made_abs1 := if single then true else made_abs in
            match parent cursor1 with
            | Some up => loop fuel' up height made_abs1
            | None =>
                if made_abs1 || pabs cursor1 then Err NoGitRepository
                else if is_empty cursor1 then Panic   (* debug_assert!(!cursor.as_os_str().is_empty()) *)
                else match normalize cursor1 cwd with
                     | None => Err InvalidInput
                     | Some c => loop fuel' c height true
                     end
            end
          end
        end
      end
    end.
End Loop.

Definition discover_opts (fs : fsmap) (cwd : path) (o : options) (directory : path) (ceilings : list path)
  : outcome found err :=
  match normalize directory cwd with
  | None => Err InvalidInput
  | Some dir =>
    match stat fs cwd dir with
    | RFound (NDir d0) =>
      let made_abs := negb (pabs directory) &&
        (match strip_prefix cwd dir with Some _ => true | None => false end
         || match strip_prefix dir cwd with Some _ => true | None => false end) in
      let mh := match ceilings with [] => None | _ => find_ceiling_height dir ceilings cwd end in
      if match ceilings, mh with _ :: _, None => match_ceiling_dir_or_error o | _, _ => false end
      then Err NoMatchingCeilingDir else
      loop (is_git fs cwd) (dev_of fs cwd) cwd o d0 mh
           (length (pcomps dir) + length (pcomps cwd) + 3) dir 0 made_abs
    | _ => Err InaccessibleDirectory
    end
  end.
