(* C50 — lemmas: clean absolute paths, ceiling height, the loop as a walk over ancestor lists,
   and the relation between gix's walk and git's walk. *)
From Coq Require Import List Arith Lia Bool NArith.
From GixV.Base Require Import Bytes BytesFacts Outcome.
From GixV.C50 Require Import Model Spec.
Import ListNotations.

(* ---------- clean absolute paths ------------------------------------------------------------- *)

(* an absolute path without `.`/`..`: what `getcwd()` or a normalised absolute input looks like *)
Definition clean (l : list bytes) : path := mkp true (map Norm l).

Lemma filter_norm l : filter (fun c => negb (is_cur c)) (map Norm l) = map Norm l.
Proof. induction l as [|x l IH]; cbn; [reflexivity | now rewrite IH]. Qed.

Lemma canon_norm l : canon true (map Norm l) = map Norm l.
Proof. unfold canon. rewrite filter_norm. destruct l; reflexivity. Qed.

Lemma push_name_clean l n : push_name (clean l) n = clean (l ++ [n]).
Proof.
  unfold push_name, push, clean. cbn [pabs pcomps].
  change [Norm n] with (map Norm [n]). rewrite <- map_app, canon_norm. reflexivity.
Qed.

Lemma parent_clean_snoc l x : parent (clean (l ++ [x])) = Some (clean l).
Proof.
  unfold parent, clean. cbn [pabs pcomps].
  rewrite map_app, rev_app_distr. cbn [map rev app]. now rewrite rev_involutive.
Qed.

Lemma parent_clean_nil : parent (clean []) = None.
Proof. reflexivity. Qed.

Lemma no_par_norm l : existsb is_par (map Norm l) = false.
Proof. induction l; cbn; auto. Qed.

Lemma normalize_clean l cwd : normalize (clean l) cwd = Some (clean l).
Proof. unfold normalize, clean. cbn [pcomps]. now rewrite no_par_norm. Qed.

Lemma is_empty_clean l : is_empty (clean l) = false.
Proof. reflexivity. Qed.

(* ---------- ceiling height -------------------------------------------------------------------- *)

Fixpoint strip_names (d c : list bytes) : option (list bytes) :=
  match c with
  | [] => Some d
  | y :: c' => match d with
               | x :: d' => if bytes_eqb x y then strip_names d' c' else None
               | [] => None
               end
  end.

Lemma strip_comps_norm d : forall c,
  strip_comps (map Norm d) (map Norm c) = option_map (map Norm) (strip_names d c).
Proof.
  intros c; revert d. induction c as [|y c IH]; intros d; destruct d as [|x d]; cbn; try reflexivity.
  destruct (bytes_eqb x y); [apply IH | reflexivity].
Qed.

Definition height_one (d c : list bytes) : option nat :=
  match strip_names d c with
  | Some rest => if Nat.ltb 0 (length rest) then Some (length rest) else None
  | None => None
  end.

Lemma ceiling_height_one_clean d c cwd :
  ceiling_height_one (clean d) cwd (clean c) = height_one d c.
Proof.
  unfold ceiling_height_one. rewrite normalize_clean. cbn [pabs clean].
  unfold strip_prefix, clean. cbn [pabs pcomps eqb]. rewrite strip_comps_norm.
  unfold height_one. destruct (strip_names d c) as [rest|]; cbn [option_map pcomps]; [|reflexivity].
  cbn [Bool.eqb pcomps]. now rewrite map_length.
Qed.

Lemma filter_map_ext {A B} (f g : A -> option B) l :
  (forall x, f x = g x) -> filter_map f l = filter_map g l.
Proof. intros H. induction l as [|x l IH]; cbn; [reflexivity|]. now rewrite H, IH. Qed.

Lemma filter_map_map {A B C} (f : B -> option C) (g : A -> B) l :
  filter_map f (map g l) = filter_map (fun x => f (g x)) l.
Proof. induction l as [|x l IH]; cbn; [reflexivity|]. now rewrite IH. Qed.

Lemma find_ceiling_height_clean d cs cwd :
  find_ceiling_height (clean d) (map clean cs) cwd = min_list (filter_map (height_one d) cs).
Proof.
  assert (H : min_list (filter_map (ceiling_height_one (clean d) cwd) (map clean cs))
              = min_list (filter_map (height_one d) cs)).
  { rewrite filter_map_map. f_equal. apply filter_map_ext. intros x. apply ceiling_height_one_clean. }
  unfold find_ceiling_height. destruct cs as [|c cs]; [reflexivity|].
  exact H.
Qed.

(* gix's height of a ceiling is one more than the number of times git may go up *)
Lemma height_one_proper d : forall c,
  height_one d c = if proper_prefix c d then Some (S (length d - length c - 1)) else None.
Proof.
  unfold height_one. intros c; revert d. induction c as [|y c IH]; intros d.
  - cbn [strip_names proper_prefix]. destruct d as [|x d]; cbn; [reflexivity|]. f_equal. lia.
  - destruct d as [|x d]; cbn [strip_names proper_prefix]; [reflexivity|].
    destruct (bytes_eqb y x) eqn:E1.
    + apply bytes_eqb_eq in E1. subst y.
      assert (E2 : bytes_eqb x x = true) by now apply bytes_eqb_eq.
      rewrite E2. cbn [andb length]. rewrite IH. destruct (proper_prefix c d); [|reflexivity].
      f_equal.
    + assert (E2 : bytes_eqb x y = false).
      { destruct (bytes_eqb x y) eqn:E; [|reflexivity]. apply bytes_eqb_eq in E. subst.
        assert (bytes_eqb y y = true) by now apply bytes_eqb_eq. congruence. }
      rewrite E2. reflexivity.
Qed.

Lemma min_list_map_S l : min_list (map S l) = option_map S (min_list l).
Proof.
  induction l as [|x l IH]; [reflexivity|]. cbn [map min_list]. rewrite IH.
  destruct (min_list l); cbn; [|reflexivity]. f_equal.
Qed.

Lemma filter_map_S {A} (f : A -> option nat) l :
  filter_map (fun x => option_map S (f x)) l = map S (filter_map f l).
Proof.
  induction l as [|x l IH]; [reflexivity|]. cbn [filter_map]. destruct (f x); cbn; now rewrite IH.
Qed.

Lemma ceiling_height_is_budget_plus_one d cs cwd :
  find_ceiling_height (clean d) (map clean cs) cwd = option_map S (ceiling_budget d cs).
Proof.
  rewrite find_ceiling_height_clean. unfold ceiling_budget.
  rewrite (filter_map_ext (height_one d)
             (fun c => option_map S (if proper_prefix c d then Some (length d - length c - 1) else None))).
  2:{ intros c. rewrite height_one_proper. now destruct (proper_prefix c d). }
  rewrite filter_map_S, min_list_map_S.
  destruct (filter_map _ cs); reflexivity.
Qed.

(* ---------- the loop on clean absolute cursors is a walk over the list of ancestors ------------ *)

Section LoopWalk.
  Variable isgit : path -> option kind.
  Variable devof : path -> option N.
  Variable cwd : path.
  Variable o : options.
  Variable d0 : N.
  Variable mh : option nat.

  (* what gix finds when it looks at one directory (given leaf first) *)
  Definition gix_level (rl : list bytes) : option (path * kind) :=
    let cur := clean (rev rl) in
    let first := if named_dot_git cur then cur else push_name cur dot_git in
    match isgit first with
    | Some k => Some (first, k)
    | None => if dot_git_only o then None
              else match isgit cur with Some k => Some (cur, k) | None => None end
    end.

  Fixpoint gix_walk (rl : list bytes) (height : nat) : outcome found err :=
    if match mh with Some x => Nat.ltb x height | None => false end
    then Err (NoGitRepositoryWithinCeiling height) else
    match (if cross_fs o then None else
             match devof (clean (rev rl)) with
             | None => Some InaccessibleDirectory
             | Some d => if N.eqb d d0 then None else Some (NoGitRepositoryWithinFs (clean (rev rl)))
             end) with
    | Some e => Err e
    | None =>
        match gix_level rl with
        | Some (p, k) => finish cwd p k false
        | None => match rl with
                  | [] => Err NoGitRepository
                  | _ :: up => gix_walk up (S height)
                  end
        end
    end.

  Lemma loop_is_walk : forall rl fuel height,
    length rl < fuel ->
    loop isgit devof cwd o d0 mh fuel (clean (rev rl)) height false = gix_walk rl height.
  Proof.
    induction rl as [|x up IH]; intros fuel height Hf; (destruct fuel as [|fuel]; [inversion Hf|]).
    - cbn [loop gix_walk rev].
      destruct (match mh with Some x => Nat.ltb x height | None => false end); [reflexivity|].
      destruct (if cross_fs o then None else _) as [e|]; [reflexivity|].
      unfold gix_level. cbn [rev].
      destruct (isgit (if named_dot_git (clean []) then clean [] else push_name (clean []) dot_git)); [reflexivity|].
      destruct (dot_git_only o).
      + reflexivity.
      + destruct (isgit (clean [])); reflexivity.
    - cbn [loop gix_walk].
      destruct (match mh with Some x => Nat.ltb x height | None => false end); [reflexivity|].
      destruct (if cross_fs o then None else _) as [e|]; [reflexivity|].
      unfold gix_level.
      set (cur := clean (rev (x :: up))).
      destruct (isgit (if named_dot_git cur then cur else push_name cur dot_git)); [reflexivity|].
      assert (Hpar : parent cur = Some (clean (rev up))).
      { subst cur. cbn [rev]. apply parent_clean_snoc. }
      assert (Hnext : (let single := match parent cur with Some q => is_empty q | None => false end in
                       single) = false).
      { cbn zeta. rewrite Hpar. reflexivity. }
      cbn zeta in Hnext.
      destruct (dot_git_only o).
      + rewrite Hnext, Hpar. apply IH. cbn [length] in Hf. lia.
      + destruct (isgit cur); [reflexivity|].
        rewrite Hnext, Hpar. apply IH. cbn [length] in Hf. lia.
  Qed.

  (* never out of fuel with the fuel [discover_opts] provides *)
  Lemma gix_walk_no_hang : forall rl height, gix_walk rl height <> OutOfFuel.
  Proof.
    induction rl as [|x up IH]; intros height; cbn [gix_walk];
      destruct (match mh with Some x => Nat.ltb x height | None => false end); try discriminate;
      destruct (if cross_fs o then None else _); try discriminate;
      destruct (gix_level _) as [[p k]|]; try discriminate;
      try (unfold finish; destruct (from_dot_git_dir _ _ _); discriminate).
    apply IH.
  Qed.
End LoopWalk.

(* ---------- gix's walk and git's walk ---------------------------------------------------------- *)

Section Compare.
  Context {R : Type}.
  Variable lv : list bytes -> option R.       (* one classification of a directory, shared *)
  Variable dev_ok : list bytes -> bool.
  Variable one_fs : bool.

  (* "look at a directory, go up at most [n] times, never onto another device": what is found *)
  Fixpoint walkN (rl : list bytes) (n : option nat) : option R :=
    match lv rl with
    | Some r => Some r
    | None =>
        match rl with
        | [] => None
        | _ :: up =>
            match n with
            | Some O => None
            | _ => if one_fs && negb (dev_ok up) then None else walkN up (option_map Nat.pred n)
            end
        end
    end.

  Definition found_of (w : walk_result R) : option R :=
    match w with WFound r => Some r | _ => None end.
  Definition level_of (rl : list bytes) : level_result R :=
    match lv rl with Some r => LFound r | None => LNothing end.

  Lemma git_walk_found : forall rl n,
    found_of (git_walk level_of dev_ok one_fs rl n) = walkN rl n.
  Proof.
    induction rl as [|x up IH]; intros n; cbn [git_walk walkN]; unfold level_of.
    - destruct (lv []); reflexivity.
    - destruct (lv (x :: up)); [reflexivity|].
      destruct n as [[|n]|]; cbn [option_map Nat.pred]; try reflexivity;
        destruct (one_fs && negb (dev_ok up)); try reflexivity; apply IH.
  Qed.

  (* one more level: nothing found before stays found; what is new is found exactly [S b] levels up *)
  Lemma walkN_succ : forall rl b r,
    walkN rl (Some b) = Some r -> walkN rl (Some (S b)) = Some r.
  Proof.
    induction rl as [|x up IH]; intros b r; cbn [walkN].
    - destruct (lv []); auto.
    - destruct (lv (x :: up)); [auto|].
      destruct b as [|b]; [discriminate|]. cbn [option_map Nat.pred].
      destruct (one_fs && negb (dev_ok up)); [auto|]. apply IH.
  Qed.

  Lemma walkN_succ_inv : forall rl b r,
    walkN rl (Some (S b)) = Some r ->
    walkN rl (Some b) = Some r \/ (walkN rl (Some b) = None /\ lv (skipn (S b) rl) = Some r).
  Proof.
    induction rl as [|x up IH]; intros b r; cbn [walkN].
    - destruct (lv []); [auto | discriminate].
    - destruct (lv (x :: up)) eqn:E; [auto|].
      cbn [option_map Nat.pred].
      destruct (one_fs && negb (dev_ok up)) eqn:D.
      + discriminate.
      + destruct b as [|b].
        * intros H. right. split; [reflexivity|]. cbn [skipn].
          destruct up as [|y up']; cbn [walkN] in H.
          -- destruct (lv []); [exact H | discriminate].
          -- destruct (lv (y :: up')); [exact H | discriminate].
        * cbn [option_map Nat.pred]. try rewrite D. intros H. apply IH in H. cbn [skipn]. exact H.
  Qed.

  Lemma walkN_equal_unless_at_ceiling rl b :
    lv (skipn (S b) rl) = None -> walkN rl (Some (S b)) = walkN rl (Some b).
  Proof.
    intros Hc. destruct (walkN rl (Some (S b))) as [r|] eqn:E.
    - apply walkN_succ_inv in E. destruct E as [E|[_ E]]; [now rewrite E | congruence].
    - destruct (walkN rl (Some b)) as [r|] eqn:E2; [|reflexivity].
      apply walkN_succ in E2. congruence.
  Qed.
End Compare.

(* ---------- gix's walk finds what [walkN] finds ------------------------------------------------ *)

Section Link.
  Variable isgit : path -> option kind.
  Variable devof : path -> option N.
  Variable cwd : path.
  Variable o : options.
  Variable d0 : N.
  Variable mh : option nat.

  Definition dev_ok (rl : list bytes) : bool :=
    match devof (clean (rev rl)) with Some d => N.eqb d d0 | None => false end.
  Definition budget (h : nat) : option nat := option_map (fun m => m - h) mh.

  Lemma gix_walk_ceiling rl h m :
    mh = Some m -> m < h ->
    gix_walk isgit devof cwd o d0 mh rl h = Err (NoGitRepositoryWithinCeiling h).
  Proof.
    intros Hm Hlt. destruct rl; cbn [gix_walk]; rewrite Hm;
      (replace (Nat.ltb m h) with true by (symmetry; apply Nat.ltb_lt; exact Hlt)); reflexivity.
  Qed.

  Lemma gix_walk_dev_fail rl h :
    cross_fs o = false -> dev_ok rl = false ->
    exists e, gix_walk isgit devof cwd o d0 mh rl h = Err e.
  Proof.
    intros Hc Hd. unfold dev_ok in Hd.
    destruct rl; cbn [gix_walk];
      (destruct (match mh with Some x => Nat.ltb x h | None => false end); [eexists; reflexivity|]);
      rewrite Hc; destruct (devof _) as [d|]; try (eexists; reflexivity);
      rewrite Hd; eexists; reflexivity.
  Qed.

  Lemma gix_walk_is_walkN : forall rl h,
    (cross_fs o = true \/ dev_ok rl = true) ->
    (forall m, mh = Some m -> h <= m) ->
    match walkN (gix_level isgit o) dev_ok (negb (cross_fs o)) rl (budget h) with
    | Some (p, k) => gix_walk isgit devof cwd o d0 mh rl h = finish cwd p k false
    | None => exists e, gix_walk isgit devof cwd o d0 mh rl h = Err e
    end.
  Proof.
    induction rl as [|x up IH]; intros h Hdev Hh.
    - cbn [walkN gix_walk].
      assert (C : match mh with Some x => Nat.ltb x h | None => false end = false).
      { destruct mh as [m|]; [|reflexivity]. apply Nat.ltb_ge. now apply Hh. }
      rewrite C.
      assert (D : (if cross_fs o then None else
                     match devof (clean (rev [])) with
                     | None => Some InaccessibleDirectory
                     | Some d => if N.eqb d d0 then None else Some (NoGitRepositoryWithinFs (clean (rev [])))
                     end) = None).
      { destruct Hdev as [Hc|Hd]; [now rewrite Hc|]. unfold dev_ok in Hd.
        destruct (cross_fs o); [reflexivity|]. destruct (devof _); [now rewrite Hd | discriminate]. }
      rewrite D. destruct (gix_level isgit o []) as [[p k]|]; [reflexivity | eexists; reflexivity].
    - cbn [walkN gix_walk].
      assert (C : match mh with Some x => Nat.ltb x h | None => false end = false).
      { destruct mh as [m|]; [|reflexivity]. apply Nat.ltb_ge. now apply Hh. }
      rewrite C.
      assert (D : (if cross_fs o then None else
                     match devof (clean (rev (x :: up))) with
                     | None => Some InaccessibleDirectory
                     | Some d => if N.eqb d d0 then None
                                 else Some (NoGitRepositoryWithinFs (clean (rev (x :: up))))
                     end) = None).
      { destruct Hdev as [Hc|Hd]; [now rewrite Hc|]. unfold dev_ok in Hd.
        destruct (cross_fs o); [reflexivity|]. destruct (devof _); [now rewrite Hd | discriminate]. }
      rewrite D. destruct (gix_level isgit o (x :: up)) as [[p k]|]; [reflexivity|].
      destruct (budget h) as [b|] eqn:Eb.
      + assert (Hex : exists m, mh = Some m /\ b = m - h).
        { unfold budget in Eb. destruct mh as [m|]; cbn in Eb; [injection Eb as <-; eauto | discriminate]. }
        destruct Hex as (m & Emh & ->).
        specialize (Hh m Emh).
        destruct (m - h) as [|n] eqn:En.
        * exists (NoGitRepositoryWithinCeiling (S h)). apply gix_walk_ceiling with (m := m); [exact Emh | lia].
        * destruct (negb (cross_fs o) && negb (dev_ok up)) eqn:B.
          -- apply andb_prop in B. destruct B as [B1 B2].
             apply gix_walk_dev_fail; [now destruct (cross_fs o) | now destruct (dev_ok up)].
          -- cbn [option_map Nat.pred].
             assert (Hb : Some n = budget (S h)). { unfold budget. rewrite Emh. cbn. f_equal. lia. }
             rewrite Hb. apply IH.
             ++ destruct (cross_fs o); [now left|]. right. cbn in B. now destruct (dev_ok up).
             ++ intros m' Hm'. rewrite Emh in Hm'. injection Hm' as <-. lia.
      + assert (Emh : mh = None).
        { unfold budget in Eb. destruct mh; [discriminate | reflexivity]. }
        destruct (negb (cross_fs o) && negb (dev_ok up)) eqn:B.
        * apply andb_prop in B. destruct B as [B1 B2].
          apply gix_walk_dev_fail; [now destruct (cross_fs o) | now destruct (dev_ok up)].
        * cbn [option_map].
          assert (Hb : None = budget (S h)). { unfold budget. now rewrite Emh. }
          rewrite Hb. apply IH.
          -- destruct (cross_fs o); [now left|]. right. cbn in B. now destruct (dev_ok up).
          -- intros m' Hm'. rewrite Emh in Hm'. discriminate.
  Qed.
End Link.

(* ---------- discover_opts on a clean absolute start directory ---------------------------------- *)

Lemma discover_clean fs cwd o l ceilings d0 :
  stat fs cwd (clean l) = RFound (NDir d0) ->
  discover_opts fs cwd o (clean l) ceilings =
    let mh := match ceilings with [] => None | _ => find_ceiling_height (clean l) ceilings cwd end in
    if match ceilings, mh with _ :: _, None => match_ceiling_dir_or_error o | _, _ => false end
    then Err NoMatchingCeilingDir
    else gix_walk (is_git fs cwd) (dev_of fs cwd) cwd o d0 mh (rev l) 0.
Proof.
  intros Hs. unfold discover_opts. rewrite normalize_clean, Hs. cbn [pabs clean negb andb].
  cbn zeta.
  destruct (match ceilings with [] => false | _ :: _ => _ end); [reflexivity|].
  match goal with |- loop _ _ _ _ _ ?mh ?fuel _ _ _ = _ =>
    generalize (loop_is_walk (is_git fs cwd) (dev_of fs cwd) cwd o d0 mh (rev l) fuel 0) end.
  rewrite rev_involutive. intros H. apply H.
  rewrite rev_length. unfold clean. cbn [pcomps]. rewrite map_length. lia.
Qed.
