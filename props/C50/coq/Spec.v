(* C50 — specification: git 2.39's repository discovery (setup.c: setup_git_directory_gently_1,
   read_gitfile_gently, is_git_directory, validate_headref, get_common_dir_noenv,
   longest_ancestor_length) on the same abstract file system, for `git -C <start> rev-parse
   --absolute-git-dir --show-toplevel` with GIT_CEILING_DIRECTORIES / GIT_DISCOVERY_ACROSS_FILESYSTEM.
   Directories are lists of names (what getcwd() returns: absolute, no `.`/`..`, no symlinks).
   Validated against the real git by the `git` mode of the check.  No proofs here. *)
From GixV.Base Require Import Bytes Outcome.
From GixV.C50 Require Import Model.
Local Open Scope N_scope.

(* ---------- the abstract walk (the part the theorems are about) ---------------------------- *)

Inductive level_result (R : Type) := LFound (r : R) | LDie | LNothing.
Arguments LFound {R} r. Arguments LDie {R}. Arguments LNothing {R}.

Inductive walk_result (R : Type) :=
| WFound (r : R)
| WDie                               (* git calls die(): broken gitfile, unreadable commondir *)
| WHitCeiling                        (* also: reached the root *)
| WHitMount (at_ : list bytes).
Arguments WFound {R} r. Arguments WDie {R}. Arguments WHitCeiling {R}. Arguments WHitMount {R} at_.

Section Walk.
  Context {R : Type}.
  (* what git finds when it looks at one directory: `.git` (file or directory), then the directory
     itself as a bare repository.  Directories are given leaf first (reversed). *)
  Variable level : list bytes -> level_result R.
  (* [same_device d] : the directory is on the device of the start directory *)
  Variable same_device : list bytes -> bool.
  Variable one_filesystem : bool.

  (* [budget]: how many more times the walk may go up before reaching a ceiling directory
     (None: no ceiling applies).  setup_git_directory_gently_1's for(;;) loop. *)
  Fixpoint git_walk (rdir : list bytes) (budget : option nat) : walk_result R :=
    match level rdir with
    | LFound r => WFound r
    | LDie => WDie
    | LNothing =>
        match rdir with
        | [] => WHitCeiling
        | _ :: up =>
            match budget with
            | Some O => WHitCeiling
            | _ =>
                if one_filesystem && negb (same_device up) then WHitMount (rev up)
                else git_walk up (option_map Nat.pred budget)
            end
        end
    end.
End Walk.

(* longest_ancestor_length in components: the deepest ceiling that is a proper ancestor of [dir];
   the walk may go up [length dir - length ceiling - 1] times *)
Fixpoint proper_prefix (c d : list bytes) : bool :=
  match c, d with
  | [], _ :: _ => true
  | x :: c', y :: d' => bytes_eqb x y && proper_prefix c' d'
  | _, [] => false
  end.
Definition ceiling_budget (dir : list bytes) (ceilings : list (list bytes)) : option nat :=
  match filter_map (fun c => if proper_prefix c dir then Some (length dir - length c - 1)%nat else None) ceilings with
  | [] => None
  | l => min_list l
  end.

(* ---------- git's classification of one directory ------------------------------------------- *)

Definition lookup_names (fs : fsmap) (k : list bytes) : res :=
  walk fs [] (map Norm k).

Fixpoint drop_isspace (l : bytes) : bytes :=
  match l with b :: r => if is_ws b then drop_isspace r else l | [] => [] end.
Definition is_hex_any (b : byte) : bool := match hex_val b with Some _ => true | None => false end.
(* validate_headref on a regular file *)
Definition git_head_ok (c : bytes) : bool :=
  let c := firstn 255 c in
  match strip_bytes c (bs "ref:") with
  | Some rest =>
      match strip_bytes (drop_isspace rest) (bs "refs/") with
      | Some _ => true
      | None => Nat.leb 40 (length c) && forallb is_hex_any (firstn 40 c)
      end
  | None => Nat.leb 40 (length c) && forallb is_hex_any (firstn 40 c)
  end.

Fixpoint drop_crlf (l : bytes) : bytes :=
  match l with b :: r => if N.eqb (b2N b) 10 || N.eqb (b2N b) 13 then drop_crlf r else l | [] => [] end.
Definition strip_crlf_end (l : bytes) : bytes := rev (drop_crlf (rev l)).

(* kernel resolution of a path string relative to the directory [at_]; the final location *)
Fixpoint walk_loc (fs : fsmap) (cur : list bytes) (cs : list comp) : option (list bytes) :=
  match cs with
  | [] => match lookup fs cur with Some _ => Some cur | None => None end
  | c :: r =>
      match lookup fs cur with
      | Some (NDir _) =>
          match c with
          | Cur => walk_loc fs cur r
          | Par => walk_loc fs (removelast cur) r
          | Norm n => walk_loc fs (cur ++ [n]) r
          end
      | _ => None
      end
  end.
Definition resolve_from (fs : fsmap) (at_ : list bytes) (p : path) : option (list bytes) :=
  walk_loc fs (if pabs p then [] else at_) (pcomps p).

Inductive tri := TYes (common : list bytes) | TNo | TDie.
(* is_git_directory *)
Definition git_is_git_directory (fs : fsmap) (d : list bytes) : tri :=
  match lookup_names fs (d ++ [bs "HEAD"]) with
  | RFound (NFile hc) =>
      if negb (git_head_ok hc) then TNo else
      let common : tri :=
        match lookup_names fs (d ++ [bs "commondir"]) with
        | RFound (NFile cc) =>
            match cc with
            | [] => TDie
            | _ => let cp := parse_path (strip_crlf_end cc) in
                   match resolve_from fs d cp with
                   | Some loc => TYes loc
                   | None =>
                       (* strbuf_realpath tolerates a missing last component; such a common
                          directory has no objects/ *)
                       match parent cp with
                       | Some pp => match (if is_empty pp then Some d else resolve_from fs d pp) with
                                    | Some _ => TNo
                                    | None => TDie
                                    end
                       | None => TDie
                       end
                   end
            end
        | RFound (NDir _) => TDie
        | _ => TYes d
        end in
      match common with
      | TYes cdir =>
          match lookup_names fs (cdir ++ [bs "objects"]), lookup_names fs (cdir ++ [bs "refs"]) with
          | RFound (NDir _), RFound (NDir _) => TYes cdir
          | _, _ => TNo
          end
      | t => t
      end
  | _ => TNo
  end.

(* (git dir, worktree) *)
Definition git_found := (list bytes * option (list bytes))%type.

Definition git_level (fs : fsmap) (rdir : list bytes) : level_result git_found :=
  let d := rev rdir in
  let dotgit := d ++ [dot_git] in
  let bare_check :=
    match git_is_git_directory fs d with
    | TYes _ => LFound (d, None)
    | TDie => LDie
    | TNo => LNothing
    end in
  match lookup_names fs dotgit with
  | RFound (NFile c) =>
      (* read_gitfile_gently with die_on_error *)
      match strip_bytes c (bs "gitdir: ") with
      | None => LDie
      | Some rest =>
          match strip_crlf_end rest with
          | [] => LDie
          | t =>
              match resolve_from fs d (parse_path t) with
              | Some target =>
                  match git_is_git_directory fs target with
                  | TYes _ => LFound (target, Some d)
                  | _ => LDie
                  end
              | None => LDie
              end
          end
      end
  | RFound (NDir _) =>
      match git_is_git_directory fs dotgit with
      | TYes _ => LFound (dotgit, Some d)
      | TDie => LDie
      | TNo => bare_check
      end
  | _ => bare_check
  end.

Definition dev_names (fs : fsmap) (d : list bytes) : N :=
  match lookup_names fs d with RFound (NDir n) => n | _ => 0 end.

Inductive git_answer :=
| GFound (g : git_found)
| GNone (why : bytes).

(* lexical absolute form (what the harness hands to GIT_CEILING_DIRECTORIES) *)
Fixpoint lexical_loop (cs : list comp) (acc : list bytes) : list bytes :=
  match cs with
  | [] => acc
  | Cur :: r => lexical_loop r acc
  | Par :: r => lexical_loop r (removelast acc)
  | Norm n :: r => lexical_loop r (acc ++ [n])
  end.
Definition lexical_abs (p cwd : path) : list bytes :=
  lexical_loop (pcomps p) (if pabs p then [] else names_of (pcomps cwd)).

Definition git_discover (fs : fsmap) (cwd : path) (across_fs : bool) (start : path) (ceilings : list path)
  : git_answer :=
  if is_empty start then GNone (bs "chdir") else
  match resolve_from fs (names_of (pcomps cwd)) start with
  | None => GNone (bs "chdir")
  | Some dir =>
      match lookup fs dir with
      | Some (NDir d0) =>
          let budget := ceiling_budget dir (map (fun c => lexical_abs c cwd) ceilings) in
          match git_walk (git_level fs) (fun rd => N.eqb (dev_names fs (rev rd)) d0) (negb across_fs)
                         (rev dir) budget with
          | WFound g => GFound g
          | WDie => GNone (bs "die")
          | WHitCeiling => GNone (bs "none")
          | WHitMount _ => GNone (bs "mount")
          end
      | _ => GNone (bs "chdir")
      end
  end.

Definition show_names (l : list bytes) : bytes :=
  slash :: (fix join (l : list bytes) : bytes :=
              match l with [] => [] | [x] => x | x :: r => x ++ slash :: join r end) l.
Definition show_git (a : git_answer) : bytes :=
  match a with
  | GFound (g, Some w) => bs "ok " ++ show_names g ++ bs " " ++ show_names w
  | GFound (g, None) => bs "ok " ++ show_names g ++ bs " -"
  | GNone why => bs "none " ++ why
  end.
