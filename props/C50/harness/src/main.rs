//! C50 harness: `gix_discover::upwards_opts` on generated directory trees, compared with the Coq
//! model (impl transcript) and with real git (`prop`, `git`).
//!
//! case:  d <flags> <cwd> <start> <ceilings ':'-joined> <tree>
//!   flags (decimal): 1 cross_fs, 2 dot_git_only, 4 match_ceiling_dir_or_error, 8 pass `current_dir`
//!   tree: LF-separated lines `D <abs path>` | `M <abs path>` (mount point) | `F <abs path> <hex content|->`
//!   every tree path lies below /dev/shm/gixv-c50/r (see fsbox.rs)
mod fsbox;
mod gen;

use gixv_common::*;
use std::ffi::OsStr;
use std::os::unix::ffi::OsStrExt;
use std::path::{Component, Path, PathBuf};

pub fn os(b: &[u8]) -> &Path {
    Path::new(OsStr::from_bytes(b))
}

/// canonical component form of a path, the way the model prints it
fn show_path(p: &Path) -> String {
    let mut s = String::new();
    let mut first = true;
    for c in p.components() {
        match c {
            Component::RootDir => {
                s.push('/');
                continue;
            }
            Component::Prefix(_) => continue,
            _ => {}
        }
        if !first {
            s.push('/');
        }
        first = false;
        s.push_str(&String::from_utf8_lossy(c.as_os_str().as_bytes()));
    }
    if s.is_empty() {
        "-".into()
    } else {
        s
    }
}

struct Q<'a> {
    cross_fs: bool,
    dot_git_only: bool,
    match_ceiling: bool,
    pass_cwd: bool,
    cwd: &'a Path,
    start: &'a Path,
    ceilings: Vec<PathBuf>,
    tree: &'a [u8],
}

fn query(c: &Case) -> Q<'_> {
    let flags = f_u64(c, 1);
    let ceilings = f_str(c, 4)
        .split(|b| *b == b':')
        .filter(|s| !s.is_empty())
        .map(|s| os(s).to_path_buf())
        .collect();
    Q {
        cross_fs: flags & 1 != 0,
        dot_git_only: flags & 2 != 0,
        match_ceiling: flags & 4 != 0,
        pass_cwd: flags & 8 != 0,
        cwd: os(f_str(c, 2)),
        start: os(f_str(c, 3)),
        ceilings,
        tree: f_str(c, 5),
    }
}

type Found = Result<gix_discover::repository::Path, gix_discover::upwards::Error>;

/// Build the tree, chdir, run discovery. `Err(text)` when the case itself is unusable.
fn run_gix(q: &Q<'_>) -> Result<Found, String> {
    fsbox::build(q.tree).map_err(|e| format!("badtree {e}"))?;
    std::env::set_current_dir(q.cwd).map_err(|_| "badcwd".to_string())?;
    let opts = gix_discover::upwards::Options {
        required_trust: gix_sec::Trust::Reduced,
        ceiling_dirs: q.ceilings.clone(),
        match_ceiling_dir_or_error: q.match_ceiling,
        cross_fs: q.cross_fs,
        dot_git_only: q.dot_git_only,
        current_dir: q.pass_cwd.then_some(q.cwd),
    };
    Ok(gix_discover::upwards_opts(q.start, opts).map(|(p, _trust)| p))
}

fn show_found(r: &Found) -> String {
    use gix_discover::repository::Path as P;
    use gix_discover::upwards::Error as E;
    match r {
        Ok(P::WorkTree(w)) => format!("ok WorkTree {}", show_path(w)),
        Ok(P::Repository(g)) => format!("ok Repository {}", show_path(g)),
        Ok(P::LinkedWorkTree { work_dir, git_dir }) => {
            format!("ok LinkedWorkTree {} {}", show_path(work_dir), show_path(git_dir))
        }
        Err(E::CurrentDir(_)) => "err CurrentDir".into(),
        Err(E::InvalidInput { .. }) => "err InvalidInput".into(),
        Err(E::InaccessibleDirectory { .. }) => "err InaccessibleDirectory".into(),
        Err(E::NoGitRepository { .. }) => "err NoGitRepository".into(),
        Err(E::NoGitRepositoryWithinCeiling { ceiling_height, .. }) => {
            format!("err NoGitRepositoryWithinCeiling {ceiling_height}")
        }
        Err(E::NoGitRepositoryWithinFs { limit, .. }) => format!("err NoGitRepositoryWithinFs {}", show_path(limit)),
        Err(E::NoMatchingCeilingDir) => "err NoMatchingCeilingDir".into(),
        Err(E::NoTrustedGitRepository { .. }) => "err NoTrustedGitRepository".into(),
        Err(E::CheckTrust { .. }) => "err CheckTrust".into(),
    }
}

fn imp(c: &Case) -> String {
    let q = query(c);
    let r = run_gix(&q);
    let out = match &r {
        Ok(f) => show_found(f),
        Err(e) => e.clone(),
    };
    fsbox::cleanup();
    out
}

// ---------------------------------------------------------------------------------------------
// git as the oracle

/// lexical normalisation against `cwd` (join, drop `.`, resolve `..` by popping)
fn lexical_abs(p: &Path, cwd: &Path) -> PathBuf {
    let joined = if p.is_absolute() { p.to_path_buf() } else { cwd.join(p) };
    let mut out = PathBuf::from("/");
    for c in joined.components() {
        match c {
            Component::ParentDir => {
                out.pop();
            }
            Component::Normal(n) => out.push(n),
            _ => {}
        }
    }
    out
}

struct GitSays {
    git_dir: Option<PathBuf>,
    toplevel: Option<PathBuf>,
    stderr: String,
}

/// Precondition: the tree is built. Runs `git -C <start> rev-parse --absolute-git-dir --show-toplevel` in `cwd`.
fn run_git(q: &Q<'_>) -> Result<GitSays, String> {
    let ceilings: Vec<String> = q
        .ceilings
        .iter()
        .map(|c| lexical_abs(c, q.cwd).to_string_lossy().into_owned())
        .collect();
    let mut cmd = std::process::Command::new("/usr/bin/git");
    cmd.env_clear()
        .env("PATH", "/usr/bin:/bin")
        .env("HOME", "/nonexistent")
        .env("GIT_CONFIG_NOSYSTEM", "1")
        .env("GIT_CONFIG_GLOBAL", "/dev/null")
        .env("LC_ALL", "C")
        .current_dir(q.cwd)
        .arg("-C")
        .arg(q.start)
        .args(["rev-parse", "--absolute-git-dir", "--show-toplevel"]);
    if !ceilings.is_empty() {
        cmd.env("GIT_CEILING_DIRECTORIES", ceilings.join(":"));
    }
    if q.cross_fs {
        cmd.env("GIT_DISCOVERY_ACROSS_FILESYSTEM", "1");
    }
    let out = cmd.output().map_err(|e| format!("spawn git: {e}"))?;
    let stdout = String::from_utf8_lossy(&out.stdout).into_owned();
    let mut lines = stdout.lines();
    let git_dir = lines.next().filter(|l| l.starts_with('/')).map(PathBuf::from);
    let toplevel = lines.next().filter(|l| l.starts_with('/')).map(PathBuf::from);
    Ok(GitSays {
        git_dir,
        toplevel,
        stderr: String::from_utf8_lossy(&out.stderr).lines().next().unwrap_or("").to_string(),
    })
}

fn git_reason(stderr: &str) -> &'static str {
    if stderr.contains("up to mount point") {
        "mount"
    } else if stderr.contains("(or any of the parent directories)") {
        "none"
    } else if stderr.contains("gitfile") || stderr.contains("not a git repository: ") {
        "gitfile"
    } else if stderr.contains("cannot change to") {
        "chdir"
    } else if stderr.contains("must be run in a work tree") {
        "no-worktree"
    } else {
        "other"
    }
}

/// transcript of git's answer, the line the Coq `spec` prints
fn git(c: &Case) -> String {
    let q = query(c);
    if q.start.as_os_str().is_empty() {
        return "-".into(); // `git -C ""` stays where it is
    }
    if let Err(e) = fsbox::build(q.tree) {
        fsbox::cleanup();
        return format!("badtree {e}");
    }
    let line = match run_git(&q) {
        Err(e) => e,
        Ok(g) => match (&g.git_dir, &g.toplevel) {
            (Some(gd), Some(top)) => format!("ok {} {}", show_path(gd), show_path(top)),
            (Some(gd), None) => format!("ok {} -", show_path(gd)),
            (None, _) => format!(
                "none {}",
                match git_reason(&g.stderr) {
                    r @ ("mount" | "none" | "chdir") => r,
                    _ => "die",
                }
            ),
        },
    };
    fsbox::cleanup();
    line
}

fn canon(p: &Path, cwd: &Path) -> Option<PathBuf> {
    let abs = if p.is_absolute() { p.to_path_buf() } else { cwd.join(p) };
    std::fs::canonicalize(abs).ok()
}

/// The property: gix finds the repository git finds.
fn prop(c: &Case) -> Verdict {
    let q = query(c);
    let found = match run_gix(&q) {
        Ok(f) => f,
        Err(e) => {
            fsbox::cleanup();
            return Verdict::ok(false, e.split(' ').next().unwrap_or("bad").to_string());
        }
    };
    use gix_discover::upwards::Error as E;
    let v = (|| {
        if let Err(E::NoMatchingCeilingDir) = &found {
            return Verdict::ok(false, "no-matching-ceiling-option");
        }
        let _ = std::env::set_current_dir("/");
        let g = match run_git(&q) {
            Ok(g) => g,
            Err(e) => return Verdict::fail("oracle", e),
        };
        let gr = git_reason(&g.stderr);
        if let Err(E::InaccessibleDirectory { .. }) = &found {
            // the start directory is not a directory: git cannot even chdir there
            return if g.git_dir.is_none() && gr == "chdir" {
                Verdict::ok(false, "start-not-a-directory")
            } else {
                Verdict::fail("start-rejected", format!("gix {} git {:?} {}", show_found(&found), g.git_dir, g.stderr))
            };
        }
        if q.dot_git_only {
            // an option without counterpart in git: bare repositories are skipped on purpose. The file system
            // limit still applies.
            if let (Ok(p), false) = (&found, q.cross_fs) {
                use std::os::unix::fs::MetadataExt;
                let (gd, wt) = p.clone().into_repository_and_work_tree_directories();
                let at = wt.unwrap_or(gd);
                let at = if at.is_absolute() { at } else { q.cwd.join(at) };
                let start = if q.start.is_absolute() { q.start.to_path_buf() } else { q.cwd.join(q.start) };
                if let (Ok(a), Ok(b)) = (std::fs::metadata(&at), std::fs::metadata(&start)) {
                    if a.dev() != b.dev() {
                        return Verdict::fail("crossed-filesystem", format!("gix {}", show_found(&found)));
                    }
                }
            }
            return Verdict::ok(false, "dot-git-only-option");
        }
        let ceilings: Vec<PathBuf> = q.ceilings.iter().map(|c| lexical_abs(c, q.cwd)).collect();
        match (&found, &g.git_dir) {
            (Err(e), None) => {
                if let E::InvalidInput { .. } = e {
                    // more `..` than there are directories above: the kernel stays at `/`, gix refuses
                    return Verdict::ok(false, "start-beyond-root");
                }
                let gix_reason = match e {
                    E::NoGitRepositoryWithinFs { .. } => "mount",
                    E::NoGitRepositoryWithinCeiling { .. } => "ceiling",
                    _ => "root",
                };
                Verdict::ok(true, format!("agree-none-{gix_reason}-{gr}"))
            }
            (Ok(p), gd) => {
                let (gix_gd, gix_wt) = p.clone().into_repository_and_work_tree_directories();
                let gix_gd_c = canon(&gix_gd, q.cwd);
                let gix_wt_c = gix_wt.as_ref().map(|w| canon(w, q.cwd));
                let at_ceiling = ceilings
                    .iter()
                    .any(|c| Some(c) == gix_gd_c.as_ref() || Some(c) == gix_wt_c.clone().flatten().as_ref());
                let detail = format!(
                    "gix {} -> {:?} {:?}; git {:?} {:?} {}",
                    show_found(&found),
                    gix_gd_c,
                    gix_wt_c,
                    gd,
                    g.toplevel,
                    g.stderr
                );
                let Some(gd) = gd else {
                    return if gr == "gitfile" && (g.stderr.ends_with(' ') || g.stderr.ends_with('\t')) {
                        Verdict::fail("gitfile-trailing-space-trimmed", detail)
                    } else if gr == "gitfile" || gr == "other" {
                        // git called die() on a broken `.git` file or `commondir` on the way up
                        Verdict::fail("git-dies-gix-continues", detail)
                    } else if at_ceiling && gr == "none" {
                        Verdict::fail("ceiling-dir-itself-searched", detail)
                    } else {
                        Verdict::fail("gix-finds-git-does-not", detail)
                    };
                };
                if gix_gd_c.as_ref() != Some(gd) {
                    return if at_ceiling {
                        Verdict::fail("ceiling-dir-itself-searched", detail)
                    } else if g.toplevel.is_none() && gd.join("commondir").is_file() && !gd.join("gitdir").exists() {
                        Verdict::fail("worktree-gitdir-without-gitdir-file", detail)
                    } else if g.toplevel.as_ref().map_or(false, |t| t.file_name() == Some(OsStr::new(".git"))) {
                        Verdict::fail("dot-git-inside-dot-git", detail)
                    } else {
                        Verdict::fail("git-dir-differs", detail)
                    };
                }
                match (&g.toplevel, gix_wt_c) {
                    (Some(top), Some(Some(w))) if *top == w => Verdict::ok(true, format!("agree-{}", kind_name(p))),
                    (Some(_), _) => Verdict::fail("worktree-differs", detail),
                    (None, None) => Verdict::ok(true, "agree-bare"),
                    (None, Some(_)) => Verdict::ok(true, "agree-gitdir-git-has-no-worktree"),
                }
            }
            (Err(_), Some(gd)) => {
                let detail = format!("gix {}; git {:?} {:?}", show_found(&found), g.git_dir, g.toplevel);
                if g.toplevel.is_none() && gd.join("commondir").is_file() && !gd.join("gitdir").exists() {
                    Verdict::fail("worktree-gitdir-without-gitdir-file", detail)
                } else if g.toplevel.as_ref().map_or(false, |t| t.file_name() == Some(OsStr::new(".git"))) {
                    Verdict::fail("dot-git-inside-dot-git", detail)
                } else {
                    Verdict::fail("git-finds-gix-does-not", detail)
                }
            }
        }
    })();
    fsbox::cleanup();
    v
}

fn kind_name(p: &gix_discover::repository::Path) -> &'static str {
    use gix_discover::repository::Path as P;
    match p {
        P::WorkTree(_) => "worktree",
        P::Repository(_) => "repository",
        P::LinkedWorkTree { .. } => "linked",
    }
}

fn main() {
    let cmd = std::env::args().nth(1).unwrap_or_default();
    if cmd != "gen" {
        fsbox::enter_namespace();
    }
    main_with(Harness { gen: gen::gen, imp, prop, git: Some(git), deadline: std::time::Duration::from_secs(180) });
}
