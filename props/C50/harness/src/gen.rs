//! Case generator: random directory trees with plain / bare / gitfile / linked-worktree repositories
//! (well-formed and broken), mount points, random cwd, start directory (absolute or relative, with
//! decorations) and ceiling directories.
use gixv_common::*;

pub const ROOT: &str = "/dev/shm/gixv-c50/r";
const HEX40: &str = "0123456789abcdef0123456789abcdef01234567";

#[derive(Default)]
pub struct Tree {
    lines: Vec<Vec<u8>>,
    pub dirs: Vec<String>,
    files: Vec<String>,
}

impl Tree {
    pub fn new() -> Tree {
        Tree { lines: vec![], dirs: vec![ROOT.to_string()], files: vec![] }
    }
    fn has(&self, p: &str) -> bool {
        self.dirs.iter().any(|d| d == p) || self.files.iter().any(|d| d == p)
    }
    fn is_file(&self, p: &str) -> bool {
        self.files.iter().any(|d| d == p)
    }
    /// create `p` and its missing parents; false if something is in the way
    pub fn dir(&mut self, p: &str, mount: bool) -> bool {
        if self.dirs.iter().any(|d| d == p) {
            return true;
        }
        if self.is_file(p) || !p.starts_with(ROOT) {
            return false;
        }
        let parent = &p[..p.rfind('/').unwrap()];
        if !self.dir(&parent.to_string(), false) {
            return false;
        }
        self.lines.push(format!("{} {}", if mount { "M" } else { "D" }, p).into_bytes());
        self.dirs.push(p.to_string());
        true
    }
    pub fn file(&mut self, p: &str, content: &[u8]) -> bool {
        if self.has(p) {
            return false;
        }
        let parent = &p[..p.rfind('/').unwrap()];
        if !self.dir(&parent.to_string(), false) {
            return false;
        }
        self.lines.push(format!("F {} {}", p, hex(content)).into_bytes());
        self.files.push(p.to_string());
        true
    }
    pub fn spec(&self) -> Vec<u8> {
        self.lines.join(&b'\n')
    }
}

fn head_content(rng: &mut Rng, broken: bool) -> Option<Vec<u8>> {
    if broken {
        match rng.below(5) {
            0 => None,
            1 => Some(b"".to_vec()),
            2 => Some(b"garbage\n".to_vec()),
            3 => Some(b"ref: main\n".to_vec()),
            _ => Some(format!("{}\n", &HEX40[..39]).into_bytes()),
        }
    } else {
        Some(match rng.below(4) {
            0 => format!("{HEX40}\n").into_bytes(),
            1 => b"ref: refs/heads/main".to_vec(),
            2 => b"ref:   refs/heads/a-b/c_d\n".to_vec(),
            _ => b"ref: refs/heads/main\n".to_vec(),
        })
    }
}

/// what may be wrong with a git directory
#[derive(Clone, Copy, PartialEq)]
enum Flaw {
    None,
    Head,
    Objects,
    Refs,
    ObjectsIsFile,
}

fn pick_flaw(rng: &mut Rng) -> Flaw {
    if rng.chance(4, 5) {
        Flaw::None
    } else {
        *rng.pick(&[Flaw::Head, Flaw::Objects, Flaw::Refs, Flaw::ObjectsIsFile])
    }
}

/// populate `gd` as a git directory (HEAD, objects, refs[, index])
fn git_dir(t: &mut Tree, rng: &mut Rng, gd: &str, flaw: Flaw, own_odb: bool) {
    if !t.dir(gd, false) {
        return;
    }
    if let Some(h) = head_content(rng, flaw == Flaw::Head) {
        t.file(&format!("{gd}/HEAD"), &h);
    }
    if own_odb {
        match flaw {
            Flaw::Objects => {}
            Flaw::ObjectsIsFile => {
                t.file(&format!("{gd}/objects"), b"");
            }
            _ => {
                t.dir(&format!("{gd}/objects"), false);
            }
        }
        if flaw != Flaw::Refs {
            t.dir(&format!("{gd}/refs"), false);
        }
    }
    if rng.chance(1, 3) {
        t.file(&format!("{gd}/index"), b"");
    }
}

/// `to` relative to directory `from` (both absolute, lexical)
pub fn relative(from: &str, to: &str) -> String {
    let f: Vec<&str> = from.split('/').filter(|s| !s.is_empty()).collect();
    let t: Vec<&str> = to.split('/').filter(|s| !s.is_empty()).collect();
    let mut k = 0;
    while k < f.len() && k < t.len() && f[k] == t[k] {
        k += 1;
    }
    let mut out: Vec<&str> = vec![];
    for _ in k..f.len() {
        out.push("..");
    }
    out.extend(&t[k..]);
    if out.is_empty() {
        ".".into()
    } else {
        out.join("/")
    }
}

fn gitfile_content(rng: &mut Rng, from_dir: &str, target: &str) -> Vec<u8> {
    let path = if rng.chance(1, 2) { target.to_string() } else { relative(from_dir, target) };
    match rng.below(12) {
        0 => format!("gitdir: {path}").into_bytes(),
        1 => format!("gitdir: {path}\r\n").into_bytes(),
        2 => format!("gitdir: {path} \n\n").into_bytes(),
        3 => format!("gitdir:{path}\n").into_bytes(),
        4 => b"gitdir: \n".to_vec(),
        5 => b"".to_vec(),
        6 => format!("gitdir: {path}/nowhere\n").into_bytes(),
        _ => format!("gitdir: {path}\n").into_bytes(),
    }
}

const NAMES: &[&str] = &["a", "b", "c", "x.git", "a", "b"];

fn random_dir_path(rng: &mut Rng, t: &Tree) -> String {
    let base = rng.pick(&t.dirs).clone();
    let depth = base.matches('/').count() - ROOT.matches('/').count();
    if depth >= 4 {
        return base;
    }
    let name = if rng.chance(1, 60) { ".git" } else { *rng.pick(NAMES) };
    format!("{base}/{name}")
}

fn add_repo(t: &mut Tree, rng: &mut Rng, site: &str, counter: &mut usize) {
    *counter += 1;
    let n = *counter;
    match rng.below(10) {
        0..=3 => {
            // plain: <site>/.git
            let flaw = pick_flaw(rng);
            git_dir(t, rng, &format!("{site}/.git"), flaw, true);
        }
        4..=5 => {
            // bare: the directory itself
            let flaw = pick_flaw(rng);
            git_dir(t, rng, site, flaw, true);
        }
        6..=7 => {
            // gitfile pointing at a complete git dir elsewhere (submodule layout or anywhere)
            let target = match rng.below(3) {
                0 => format!("{ROOT}/m{n}/.git/modules/s{n}"),
                1 => format!("{ROOT}/store{n}"),
                _ => format!("{site}/real{n}.git"),
            };
            let flaw = pick_flaw(rng);
            if rng.chance(1, 2) && target.contains("/.git/modules/") {
                git_dir(t, rng, &format!("{ROOT}/m{n}/.git"), Flaw::None, true);
            }
            git_dir(t, rng, &target, flaw, true);
            let content = gitfile_content(rng, site, &target);
            t.file(&format!("{site}/.git"), &content);
        }
        _ => {
            // linked worktree of a main repository
            let main = if rng.chance(1, 2) { format!("{ROOT}/main{n}") } else { format!("{site}/main{n}") };
            let main_gd = if rng.chance(1, 4) { main.clone() } else { format!("{main}/.git") };
            let main_flaw = pick_flaw(rng);
            git_dir(t, rng, &main_gd, main_flaw, true);
            let wt_gd = format!("{main_gd}/worktrees/w{n}");
            let head_flaw = if rng.chance(1, 8) { Flaw::Head } else { Flaw::None };
            git_dir(t, rng, &wt_gd, head_flaw, false);
            match rng.below(8) {
                0 => {}
                1 => {
                    t.file(&format!("{wt_gd}/commondir"), b"../nowhere\n");
                }
                2 => {
                    t.file(&format!("{wt_gd}/commondir"), format!("{main_gd}\n").as_bytes());
                }
                3 => {
                    t.dir(&format!("{wt_gd}/commondir"), false);
                }
                _ => {
                    t.file(&format!("{wt_gd}/commondir"), b"../..\n");
                }
            }
            if rng.chance(7, 8) {
                let back = if rng.chance(1, 6) { format!("{site}\n") } else { format!("{site}/.git\n") };
                t.file(&format!("{wt_gd}/gitdir"), back.as_bytes());
            }
            let content = gitfile_content(rng, site, &wt_gd);
            t.file(&format!("{site}/.git"), &content);
        }
    }
}

fn decorate(rng: &mut Rng, p: &str, t: &Tree) -> String {
    let mut s = p.to_string();
    match rng.below(14) {
        0 => s.push('/'),
        1 => s = s.replacen('/', "//", 1),
        2 => s.push_str("/."),
        3 => {
            // go into an existing child and back
            let prefix = format!("{}/", lexical(p, "/"));
            if let Some(child) = t.dirs.iter().find(|d| d.starts_with(&prefix) && !d[prefix.len()..].contains('/')) {
                s = format!("{s}/{}/..", &child[prefix.len()..]);
            }
        }
        4 => s = format!("./{s}"),
        _ => {}
    }
    s
}

/// lexical absolute form of `p` against `cwd`
pub fn lexical(p: &str, cwd: &str) -> String {
    let joined = if p.starts_with('/') { p.to_string() } else { format!("{cwd}/{p}") };
    let mut out: Vec<&str> = vec![];
    for c in joined.split('/') {
        match c {
            "" | "." => {}
            ".." => {
                out.pop();
            }
            n => out.push(n),
        }
    }
    format!("/{}", out.join("/"))
}

pub fn mk(flags: u64, cwd: &str, start: &str, ceilings: &[String], t: &Tree) -> Case {
    vec![
        tag("d"),
        num(flags),
        cwd.as_bytes().to_vec(),
        start.as_bytes().to_vec(),
        ceilings.join(":").into_bytes(),
        t.spec(),
    ]
}

fn random_case(rng: &mut Rng) -> Case {
    let mut t = Tree::new();
    let ndirs = rng.range(1, 7);
    let mount_case = rng.chance(1, 4);
    for _ in 0..ndirs {
        let p = random_dir_path(rng, &t);
        let m = mount_case && rng.chance(1, 3);
        t.dir(&p, m);
    }
    let nrepos = *rng.pick(&[0, 1, 1, 1, 2, 2, 3]);
    let mut counter = 0;
    for _ in 0..nrepos {
        let site = rng.pick(&t.dirs).clone();
        add_repo(&mut t, rng, &site, &mut counter);
    }
    // a few more plain directories below whatever exists now (also inside git dirs)
    for _ in 0..rng.range(0, 3) {
        let p = random_dir_path(rng, &t);
        t.dir(&p, false);
    }
    let cwd = rng.pick(&t.dirs).clone();
    // target: biased towards deep directories
    let mut target = rng.pick(&t.dirs).clone();
    for _ in 0..2 {
        let other = rng.pick(&t.dirs);
        if other.len() > target.len() {
            target = other.clone();
        }
    }
    if rng.chance(1, 6) {
        target = cwd.clone();
    }
    let mut start = if rng.chance(1, 2) { target.clone() } else { relative(&cwd, &target) };
    start = decorate(rng, &start, &t);
    if rng.chance(1, 40) {
        start = match rng.below(3) {
            0 => format!("{target}/missing"),
            1 => t.files.first().cloned().unwrap_or_else(|| "nope".into()),
            _ => "../../../../../../../../../..".to_string(),
        };
    }
    let target_abs = lexical(&start, &cwd);
    let mut ceilings: Vec<String> = vec![];
    if rng.chance(3, 5) {
        for _ in 0..rng.range(1, 3) {
            let mut c = match rng.below(8) {
                0 => rng.pick(&t.dirs).clone(),
                1 => target_abs.clone(),
                2 => format!("{target_abs}/deeper"),
                3 => "/dev/shm".to_string(),
                _ => {
                    // a proper ancestor of the start directory
                    let comps: Vec<&str> = target_abs.split('/').filter(|s| !s.is_empty()).collect();
                    let keep = if comps.is_empty() { 0 } else { rng.range(0, comps.len() as i64 - 1) as usize };
                    format!("/{}", comps[..keep].join("/"))
                }
            };
            if rng.chance(1, 6) {
                c = relative(&cwd, &c);
            }
            if rng.chance(1, 8) {
                c = decorate(rng, &c, &t);
            }
            ceilings.push(c);
        }
    }
    let mut flags = 0u64;
    if rng.chance(1, 2) {
        flags |= 1;
    }
    if rng.chance(1, 10) {
        flags |= 2;
    }
    if rng.chance(1, 5) {
        flags |= 4;
    }
    if rng.chance(1, 2) {
        flags |= 8;
    }
    mk(flags, &cwd, &start, &ceilings, &t)
}

pub fn gen(rng: &mut Rng, n: usize) -> Vec<Case> {
    let mut out = boundary();
    while out.len() < n {
        out.push(random_case(rng));
    }
    out.truncate(n.max(1));
    out
}

/// deterministic block: every layout, queried from the boundary positions
fn boundary() -> Vec<Case> {
    let mut out = vec![];
    let r = ROOT;
    // plain repository at r/a, subdirectory r/a/b/c; ceilings at every level
    let mut t = Tree::new();
    t.dir(&format!("{r}/a/.git/objects"), false);
    t.dir(&format!("{r}/a/.git/refs"), false);
    t.file(&format!("{r}/a/.git/HEAD"), b"ref: refs/heads/main\n");
    t.dir(&format!("{r}/a/b/c"), false);
    for flags in [0u64, 1, 8, 9] {
        for start in [format!("{r}/a/b/c"), format!("{r}/a/b"), format!("{r}/a"), format!("{r}/a/.git"), format!("{r}/a/.git/objects"), r.to_string()] {
            out.push(mk(flags, r, &start, &[], &t));
            for ceil in [format!("{r}/a/b/c"), format!("{r}/a/b"), format!("{r}/a"), r.to_string(), "/dev".to_string()] {
                out.push(mk(flags, r, &start, &[ceil.clone()], &t));
                out.push(mk(flags | 4, r, &start, &[ceil], &t));
            }
        }
        for (cwd, start) in [
            (format!("{r}/a/b/c"), "."),
            (format!("{r}/a/b/c"), ".."),
            (format!("{r}/a/b/c"), "../.."),
            (format!("{r}/a/b/c"), "../../.."),
            (format!("{r}/a/b"), "c"),
            (format!("{r}/a/b"), "./c"),
            (format!("{r}/a/b"), "c/.."),
            (format!("{r}/a"), ".git"),
            (format!("{r}/a/.git"), "."),
            (format!("{r}/a/.git/refs"), "."),
            (format!("{r}/a/.git/refs"), ".."),
            (r.to_string(), "a/b"),
            (r.to_string(), "."),
            (r.to_string(), ".."),
        ] {
            out.push(mk(flags, &cwd, start, &[], &t));
            out.push(mk(flags, &cwd, start, &[format!("{r}/a")], &t));
            out.push(mk(flags, &cwd, start, &["..".to_string()], &t));
        }
    }
    // bare repository r/x.git and r/bare, queried from inside
    let mut t = Tree::new();
    for b in ["x.git", "bare"] {
        t.dir(&format!("{r}/{b}/objects/pack"), false);
        t.dir(&format!("{r}/{b}/refs/heads"), false);
        t.file(&format!("{r}/{b}/HEAD"), format!("{HEX40}\n").as_bytes());
    }
    t.file(&format!("{r}/bare/index"), b"");
    for flags in [0u64, 8] {
        for b in ["x.git", "bare"] {
            for (cwd, start) in [
                (r.to_string(), format!("{r}/{b}")),
                (r.to_string(), b.to_string()),
                (format!("{r}/{b}"), ".".to_string()),
                (format!("{r}/{b}/objects"), ".".to_string()),
                (format!("{r}/{b}/objects/pack"), "..".to_string()),
                (format!("{r}/{b}/objects/pack"), "../..".to_string()),
                (format!("{r}/{b}/objects/pack"), format!("{r}/{b}/refs/heads")),
                (format!("{r}/{b}/refs"), "heads".to_string()),
            ] {
                out.push(mk(flags, &cwd, &start, &[], &t));
                out.push(mk(flags | 2, &cwd, &start, &[], &t));
            }
        }
    }
    // linked worktree + submodule gitfile
    let mut t = Tree::new();
    t.dir(&format!("{r}/main/.git/objects"), false);
    t.dir(&format!("{r}/main/.git/refs"), false);
    t.file(&format!("{r}/main/.git/HEAD"), b"ref: refs/heads/main\n");
    t.dir(&format!("{r}/main/.git/worktrees/w"), false);
    t.file(&format!("{r}/main/.git/worktrees/w/HEAD"), b"ref: refs/heads/w\n");
    t.file(&format!("{r}/main/.git/worktrees/w/commondir"), b"../..\n");
    t.file(&format!("{r}/main/.git/worktrees/w/gitdir"), format!("{r}/wt/.git\n").as_bytes());
    t.dir(&format!("{r}/wt/sub"), false);
    t.file(&format!("{r}/wt/.git"), format!("gitdir: {r}/main/.git/worktrees/w\n").as_bytes());
    t.dir(&format!("{r}/main/.git/modules/s/objects"), false);
    t.dir(&format!("{r}/main/.git/modules/s/refs"), false);
    t.file(&format!("{r}/main/.git/modules/s/HEAD"), format!("{HEX40}\n").as_bytes());
    t.dir(&format!("{r}/main/s/d"), false);
    t.file(&format!("{r}/main/s/.git"), b"gitdir: ../.git/modules/s\n");
    t.dir(&format!("{r}/broken/d"), false);
    t.file(&format!("{r}/broken/.git"), b"not a gitfile\n");
    for flags in [0u64, 8] {
        for (cwd, start) in [
            (r.to_string(), format!("{r}/wt/sub")),
            (r.to_string(), "wt/sub".to_string()),
            (format!("{r}/wt/sub"), ".".to_string()),
            (format!("{r}/wt"), ".".to_string()),
            (format!("{r}/wt/sub"), "..".to_string()),
            (r.to_string(), format!("{r}/main/.git/worktrees/w")),
            (format!("{r}/main/.git/worktrees/w"), ".".to_string()),
            (r.to_string(), format!("{r}/main/s/d")),
            (format!("{r}/main/s/d"), ".".to_string()),
            (format!("{r}/main/s"), "d".to_string()),
            (format!("{r}/main"), "s".to_string()),
            (r.to_string(), format!("{r}/main/.git/modules/s")),
            (format!("{r}/main/.git/modules/s/refs"), ".".to_string()),
            (r.to_string(), format!("{r}/broken/d")),
            (format!("{r}/broken/d"), ".".to_string()),
        ] {
            out.push(mk(flags, &cwd, &start, &[], &t));
            out.push(mk(flags, &cwd, &start, &[r.to_string()], &t));
        }
    }
    // mount point between the start directory and the repository
    let mut t = Tree::new();
    t.dir(&format!("{r}/a/.git/objects"), false);
    t.dir(&format!("{r}/a/.git/refs"), false);
    t.file(&format!("{r}/a/.git/HEAD"), b"ref: refs/heads/main\n");
    t.dir(&format!("{r}/a/m"), true);
    t.dir(&format!("{r}/a/m/d"), false);
    for flags in [0u64, 1, 8, 9] {
        for (cwd, start) in [
            (r.to_string(), format!("{r}/a/m/d")),
            (r.to_string(), format!("{r}/a/m")),
            (format!("{r}/a/m/d"), ".".to_string()),
            (format!("{r}/a/m"), "d".to_string()),
            (format!("{r}/a/m/d"), "..".to_string()),
            (r.to_string(), r.to_string()),
        ] {
            out.push(mk(flags, &cwd, &start, &[], &t));
        }
    }
    out
}
