//! A private scratch file system for one harness process.
//!
//! Every harness process enters its own mount namespace and mounts a private tmpfs on the fixed
//! path `/dev/shm/gixv-c50`.  The per-case tree always lives at `/dev/shm/gixv-c50/r`, so that
//! absolute paths are the same byte strings in every run and in the Coq model, and concurrently
//! running checks cannot see each other.  `M` lines of a tree mount a fresh tmpfs (a new device id).
use std::ffi::CString;
use std::path::{Component, Path, PathBuf};
use std::sync::Mutex;

pub const BASE: &str = "/dev/shm/gixv-c50";
pub const ROOT: &str = "/dev/shm/gixv-c50/r";

static MOUNTS: Mutex<Vec<PathBuf>> = Mutex::new(Vec::new());

fn cstr(p: &Path) -> CString {
    use std::os::unix::ffi::OsStrExt;
    CString::new(p.as_os_str().as_bytes()).expect("no NUL")
}

fn mount_tmpfs(at: &Path) -> Result<(), String> {
    let src = CString::new("gixv").unwrap();
    let fst = CString::new("tmpfs").unwrap();
    let data = CString::new("size=4m,mode=0755").unwrap();
    let rc = unsafe { libc::mount(src.as_ptr(), cstr(at).as_ptr(), fst.as_ptr(), 0, data.as_ptr() as *const _) };
    if rc != 0 {
        return Err(format!("mount tmpfs on {}: {}", at.display(), std::io::Error::last_os_error()));
    }
    Ok(())
}

/// Must run before any thread is spawned.
pub fn enter_namespace() {
    unsafe {
        if libc::unshare(libc::CLONE_NEWNS) != 0 {
            eprintln!("C50 harness: unshare(CLONE_NEWNS) failed: {} (needs CAP_SYS_ADMIN)", std::io::Error::last_os_error());
            std::process::exit(3);
        }
        let root = CString::new("/").unwrap();
        let none = CString::new("none").unwrap();
        if libc::mount(none.as_ptr(), root.as_ptr(), std::ptr::null(), libc::MS_REC | libc::MS_PRIVATE, std::ptr::null()) != 0 {
            eprintln!("C50 harness: making mounts private failed: {}", std::io::Error::last_os_error());
            std::process::exit(3);
        }
    }
    let _ = std::fs::create_dir_all(BASE);
    if let Err(e) = mount_tmpfs(Path::new(BASE)) {
        eprintln!("C50 harness: {e}");
        std::process::exit(3);
    }
}

fn safe(path: &[u8]) -> Option<PathBuf> {
    use std::os::unix::ffi::OsStrExt;
    let p = Path::new(std::ffi::OsStr::from_bytes(path));
    let rel = p.strip_prefix(ROOT).ok()?;
    if rel.as_os_str().is_empty() || !rel.components().all(|c| matches!(c, Component::Normal(_))) {
        return None;
    }
    Some(p.to_path_buf())
}

pub fn cleanup() {
    let _ = std::env::set_current_dir("/");
    let mut m = MOUNTS.lock().unwrap_or_else(|e| e.into_inner());
    while let Some(p) = m.pop() {
        unsafe {
            libc::umount2(cstr(&p).as_ptr(), libc::MNT_DETACH);
        }
    }
    let _ = std::fs::remove_dir_all(ROOT);
}

fn unhex(s: &[u8]) -> Vec<u8> {
    if s == b"-" {
        return vec![];
    }
    s.chunks(2)
        .map(|c| u8::from_str_radix(std::str::from_utf8(c).unwrap_or("00"), 16).unwrap_or(0))
        .collect()
}

/// Build the tree described by `spec` (lines `D <path>`, `M <path>`, `F <path> <hex>`).
pub fn build(spec: &[u8]) -> Result<(), String> {
    cleanup();
    std::fs::create_dir(ROOT).map_err(|e| format!("mkdir root: {e}"))?;
    for line in spec.split(|b| *b == b'\n') {
        if line.is_empty() {
            continue;
        }
        let mut it = line.split(|b| *b == b' ');
        let kind = it.next().unwrap_or(b"");
        let path = it.next().unwrap_or(b"");
        let Some(p) = safe(path) else {
            return Err(format!("unsafe path {:?}", String::from_utf8_lossy(path)));
        };
        match kind {
            b"D" | b"M" => {
                match std::fs::create_dir(&p) {
                    Ok(()) => {}
                    Err(e) if e.kind() == std::io::ErrorKind::AlreadyExists => {}
                    Err(e) => return Err(format!("mkdir {}: {e}", p.display())),
                }
                if kind == b"M" {
                    mount_tmpfs(&p)?;
                    MOUNTS.lock().unwrap_or_else(|e| e.into_inner()).push(p);
                }
            }
            b"F" => {
                let content = unhex(it.next().unwrap_or(b"-"));
                std::fs::write(&p, content).map_err(|e| format!("write {}: {e}", p.display()))?;
            }
            _ => return Err(format!("bad line kind {:?}", String::from_utf8_lossy(kind))),
        }
    }
    Ok(())
}
