//! C45 harness: gix_merge::blob::builtin_driver::text (three-way text merge).
//!
//! Case fields (all hex on the wire):
//!   0 tag "m"          1 base   2 ours   3 theirs
//!   4 mode: merge | diff3 | zdiff3 | ours | theirs | union
//!   5 marker size (decimal)
//!   6 label mask (decimal, bit0 ancestor, bit1 current, bit2 other)   7 ancestor label  8 current label  9 other label
//!   10 diff algorithm: myers | minimal | histogram
//!   11 hunks of diff(base, ours)   12 hunks of diff(base, theirs)
//!      each a decimal list `bs,be,as,ae,bs,be,as,ae,…` (`-` = no hunk): what imara-diff returns.  The Coq model
//!      takes the edit scripts as input (the diff algorithm is a parameter with a contract); `impl` recomputes them
//!      with the real imara-diff and prints `hunks-differ` if the case line does not carry exactly those.
use gix_merge::blob::builtin_driver::text::{Conflict, ConflictStyle, Labels, Options};
use gix_merge::blob::Resolution;
use gixv_common::*;
use imara_diff::intern::InternedInput;
use imara_diff::Algorithm;
use std::ops::Range;

type H = (u32, u32, u32, u32);

struct Collect(Vec<H>);
impl imara_diff::Sink for Collect {
    type Out = Vec<H>;
    fn process_change(&mut self, b: Range<u32>, a: Range<u32>) {
        self.0.push((b.start, b.end, a.start, a.end));
    }
    fn finish(self) -> Vec<H> {
        self.0
    }
}

fn algo(name: &[u8]) -> Algorithm {
    match name {
        b"minimal" => Algorithm::MyersMinimal,
        b"histogram" => Algorithm::Histogram,
        _ => Algorithm::Myers,
    }
}

/// the two edit scripts exactly as `merge` obtains them (same interner, same call order)
fn scripts(base: &[u8], ours: &[u8], theirs: &[u8], alg: Algorithm) -> (Vec<H>, Vec<H>) {
    let mut input: InternedInput<&[u8]> = InternedInput::default();
    input.update_before(imara_diff::sources::byte_lines_with_terminator(base));
    input.update_after(imara_diff::sources::byte_lines_with_terminator(ours));
    let c = imara_diff::diff(alg, &input, Collect(Vec::new()));
    input.update_after(imara_diff::sources::byte_lines_with_terminator(theirs));
    let o = imara_diff::diff(alg, &input, Collect(Vec::new()));
    (c, o)
}

fn hunks_field(h: &[H]) -> Vec<u8> {
    h.iter()
        .flat_map(|h| [h.0, h.1, h.2, h.3])
        .map(|n| n.to_string())
        .collect::<Vec<_>>()
        .join(",")
        .into_bytes()
}

const MODES: &[&str] = &["merge", "diff3", "zdiff3", "ours", "theirs", "union"];
const ALGOS: &[&str] = &["myers", "minimal", "histogram"];

fn mk_case(base: &[u8], ours: &[u8], theirs: &[u8], mode: &str, msize: usize, mask: u8, labels: [&[u8]; 3], alg: &str) -> Case {
    let (c, o) = scripts(base, ours, theirs, algo(alg.as_bytes()));
    vec![
        tag("m"),
        base.to_vec(),
        ours.to_vec(),
        theirs.to_vec(),
        tag(mode),
        num(msize),
        num(mask),
        labels[0].to_vec(),
        labels[1].to_vec(),
        labels[2].to_vec(),
        tag(alg),
        hunks_field(&c),
        hunks_field(&o),
    ]
}

fn options(c: &Case) -> Options {
    let msize = f_u64(c, 5) as usize;
    let conflict = match f_str(c, 4) {
        b"merge" => Conflict::Keep { style: ConflictStyle::Merge, marker_size: msize },
        b"diff3" => Conflict::Keep { style: ConflictStyle::Diff3, marker_size: msize },
        b"zdiff3" => Conflict::Keep { style: ConflictStyle::ZealousDiff3, marker_size: msize },
        b"ours" => Conflict::ResolveWithOurs,
        b"theirs" => Conflict::ResolveWithTheirs,
        _ => Conflict::ResolveWithUnion,
    };
    Options { diff_algorithm: algo(f_str(c, 10)), conflict }
}

fn run_merge(c: &Case) -> (Resolution, Vec<u8>) {
    let mask = f_u64(c, 6);
    let labels = Labels {
        ancestor: (mask & 1 != 0).then(|| f_str(c, 7).into()),
        current: (mask & 2 != 0).then(|| f_str(c, 8).into()),
        other: (mask & 4 != 0).then(|| f_str(c, 9).into()),
    };
    let mut out = b"stale".to_vec();
    let mut input = InternedInput::default();
    let res = gix_merge::blob::builtin_driver::text(&mut out, &mut input, labels, f_str(c, 2), f_str(c, 1), f_str(c, 3), options(c));
    (res, out)
}

fn imp(c: &Case) -> String {
    if f_str(c, 0) != b"m" {
        return "?".into();
    }
    let (hc, ho) = scripts(f_str(c, 1), f_str(c, 2), f_str(c, 3), algo(f_str(c, 10)));
    if hunks_field(&hc) != f_str(c, 11) || hunks_field(&ho) != f_str(c, 12) {
        return "hunks-differ".into();
    }
    let (res, out) = run_merge(c);
    format!(
        "ok {} {}",
        match res {
            Resolution::Complete => "Complete",
            Resolution::Conflict => "Conflict",
        },
        hex(&out)
    )
}

// ------------------------------------------------------------------------------------------- oracle

/// split after every LF; a last unterminated line is a line (plain Rust, independent of imara-diff)
fn lines_of(t: &[u8]) -> Vec<&[u8]> {
    let mut v = Vec::new();
    let mut s = 0;
    for (i, b) in t.iter().enumerate() {
        if *b == b'\n' {
            v.push(&t[s..=i]);
            s = i + 1;
        }
    }
    if s < t.len() {
        v.push(&t[s..]);
    }
    v
}

fn show(t: &[u8]) -> String {
    String::from_utf8_lossy(t).replace('\n', "\\n").replace('\r', "\\r")
}

fn prop(c: &Case) -> Verdict {
    if f_str(c, 0) != b"m" {
        return Verdict::ok(false, "?");
    }
    let (base, ours, theirs) = (f_str(c, 1), f_str(c, 2), f_str(c, 3));
    let mode = f_str(c, 4);
    // a panic in here is reported by the common harness as FAIL … panic
    let (res, out) = run_merge(c);
    let clean = res == Resolution::Complete;
    let modes = String::from_utf8_lossy(mode).to_string();

    // 1. merge identities
    if ours == base {
        if out != theirs || !clean {
            return Verdict::fail(format!("ours-is-base-{modes}"), format!("got {} clean={clean}", show(&out)));
        }
    }
    if theirs == base {
        if out != ours || !clean {
            return Verdict::fail(format!("theirs-is-base-{modes}"), format!("got {} clean={clean}", show(&out)));
        }
    }
    if ours == theirs {
        if out != ours || !clean {
            let class = if mode == b"union" { "same-change-union-adds-newline".to_string() } else { format!("same-change-{modes}") };
            // the union class is only the known one if the sole difference is one inserted line terminator
            let known_shape = mode == b"union" && clean && {
                let stripped: Vec<u8> = out.iter().copied().filter(|b| *b != b'\n' && *b != b'\r').collect();
                let want: Vec<u8> = ours.iter().copied().filter(|b| *b != b'\n' && *b != b'\r').collect();
                stripped == want
            };
            let class = if mode == b"union" && !known_shape { "same-change-union".to_string() } else { class };
            return Verdict::fail(class, format!("got {} clean={clean}", show(&out)));
        }
    }

    // 2. provenance of the output lines
    let all_lines: Vec<&[u8]> = lines_of(base).into_iter().chain(lines_of(ours)).chain(lines_of(theirs)).collect();
    let in_any = |l: &[u8]| all_lines.contains(&l);
    // the unterminated last lines of the inputs: a hunk ending in one can be followed by more output
    let unterminated: Vec<&[u8]> = [base, ours, theirs]
        .iter()
        .filter_map(|t| lines_of(t).last().copied())
        .filter(|l| !l.ends_with(b"\n"))
        .collect();
    // `l` = one or more unterminated last lines followed by an input line (or by nothing)
    fn glued(l: &[u8], unterminated: &[&[u8]], in_any: &dyn Fn(&[u8]) -> bool, depth: usize) -> bool {
        if depth > 4 {
            return false;
        }
        unterminated
            .iter()
            .any(|u| l.starts_with(u) && (in_any(&l[u.len()..]) || glued(&l[u.len()..], unterminated, in_any, depth + 1)))
    }
    let out_lines = lines_of(&out);
    let is_resolve = mode == b"ours" || mode == b"theirs";
    if is_resolve && !clean {
        return Verdict::fail(format!("resolve-{modes}-reports-conflict"), "");
    }
    let mut saw_glue = false;
    if clean {
        // no inserted conflict marker (nor anything else) in a result reported conflict-free:
        // every output line is a line of one of the three inputs.  The union resolution may terminate an
        // unterminated input line.  ours/theirs always report a clean result, so this also is the check that
        // these resolutions contain nothing but input lines.
        for l in &out_lines {
            let mut ok = in_any(l);
            if !ok && mode == b"union" {
                // the inserted terminator is LF or CRLF
                let mut bares: Vec<&[u8]> = Vec::new();
                if l.ends_with(b"\n") {
                    bares.push(&l[..l.len() - 1]);
                }
                if l.ends_with(b"\r\n") {
                    bares.push(&l[..l.len() - 2]);
                }
                ok = bares.iter().any(|bare| !bare.is_empty() && (in_any(bare) || glued(bare, &unterminated, &in_any, 0)));
            }
            if !ok && glued(l, &unterminated, &in_any, 0) {
                // not a marker: an unterminated last line of one input directly followed by the next written line
                if is_resolve {
                    return Verdict::fail("resolve-glued-eof-line", format!("line {} of {}", show(l), show(&out)));
                }
                saw_glue = true;
                ok = true;
            }
            if !ok {
                return Verdict::fail(format!("clean-foreign-line-{modes}"), format!("line {} of {}", show(l), show(&out)));
            }
        }
    }
    if is_resolve && ours != base && theirs != base {
        // no base line survives on either side: the whole file is one conflict, the result is the chosen side
        let bl = lines_of(base);
        let disjoint = |t: &[u8]| lines_of(t).iter().all(|l| !bl.contains(l));
        if disjoint(ours) && disjoint(theirs) {
            let chosen = if mode == b"ours" { ours } else { theirs };
            if out != chosen {
                return Verdict::fail(format!("resolve-whole-file-{modes}"), format!("got {}", show(&out)));
            }
        }
    }
    if is_resolve {
        // lines come from the base or the chosen side — or from the other side where it alone changed the base:
        // if the other side did not change the base at all, only base ∪ chosen side remain
        let (chosen, other) = if mode == b"ours" { (ours, theirs) } else { (theirs, ours) };
        if other == base {
            for l in &out_lines {
                if !(lines_of(base).contains(l) || lines_of(chosen).contains(l)) {
                    return Verdict::fail(format!("resolve-foreign-line-{modes}"), show(l));
                }
            }
        }
    }
    let nontrivial = ours != base && theirs != base;
    let class = format!(
        "{}-{}{}",
        modes,
        if clean { "clean" } else { "conflict" },
        if ours == base || theirs == base {
            "-oneside"
        } else if ours == theirs {
            "-same"
        } else if saw_glue {
            "-glued"
        } else {
            ""
        }
    );
    Verdict::ok(nontrivial || ours != theirs, class)
}

// ---------------------------------------------------------------------------------------- generator

const WORDS: &[&[u8]] = &[b"a", b"b", b"c", b"d", b"e", b"", b"x y", b"a\r", b"<<<", b"=", b"{", b"}"];

fn gen_line(rng: &mut Rng, crlf_bias: u64) -> Vec<u8> {
    let mut l = rng.pick(WORDS).to_vec();
    if rng.below(100) < crlf_bias {
        l.extend_from_slice(b"\r\n");
    } else {
        l.push(b'\n');
    }
    l
}

fn gen_lines(rng: &mut Rng, n: usize, crlf_bias: u64) -> Vec<Vec<u8>> {
    (0..n).map(|_| gen_line(rng, crlf_bias)).collect()
}

fn mutate(rng: &mut Rng, base: &[Vec<u8>], crlf_bias: u64, edits: usize) -> Vec<Vec<u8>> {
    let mut v = base.to_vec();
    for _ in 0..edits {
        let len = v.len();
        match rng.below(8) {
            0 | 1 => {
                // replace a run
                if len > 0 {
                    let i = rng.below(len as u64) as usize;
                    let k = (1 + rng.below(3) as usize).min(len - i);
                    let m = rng.below(3) as usize;
                    let new = gen_lines(rng, m.max(1), crlf_bias);
                    v.splice(i..i + k, new);
                }
            }
            2 | 3 => {
                // delete a run
                if len > 0 {
                    let i = rng.below(len as u64) as usize;
                    let k = (1 + rng.below(3) as usize).min(len - i);
                    v.drain(i..i + k);
                }
            }
            4 | 5 => {
                // insert a run
                let i = rng.below(len as u64 + 1) as usize;
                let m = 1 + rng.below(3) as usize;
                let new = gen_lines(rng, m, crlf_bias);
                v.splice(i..i, new);
            }
            6 => {
                // change the terminator of one line
                if len > 0 {
                    let i = rng.below(len as u64) as usize;
                    let mut l = v[i].clone();
                    while l.ends_with(b"\n") || l.ends_with(b"\r") {
                        l.pop();
                    }
                    l.extend_from_slice(if rng.chance(1, 2) { b"\r\n" } else { b"\n" });
                    v[i] = l;
                }
            }
            _ => {
                // duplicate / move a line
                if len > 0 {
                    let i = rng.below(len as u64) as usize;
                    let l = v[i].clone();
                    let j = rng.below(len as u64 + 1) as usize;
                    v.insert(j, l);
                }
            }
        }
    }
    v
}

fn flat(rng: &mut Rng, v: &[Vec<u8>], strip_last: bool) -> Vec<u8> {
    let mut out: Vec<u8> = v.concat();
    if strip_last && rng.chance(1, 1) {
        if out.ends_with(b"\n") {
            out.pop();
            if out.ends_with(b"\r") && rng.chance(1, 2) {
                out.pop();
            }
        }
    }
    out
}

fn random_opts(rng: &mut Rng) -> (&'static str, usize, u8, [Vec<u8>; 3], &'static str) {
    let mode = *rng.pick(MODES);
    let msize = if rng.chance(1, 3) { 7 } else { rng.range(1, 20) as usize };
    let mask = rng.below(8) as u8;
    let labels = [
        rng.pick(&[&b"base"[..], b"", b"b l"]).to_vec(),
        rng.pick(&[&b"ours"[..], b"", b"HEAD"]).to_vec(),
        rng.pick(&[&b"theirs"[..], b"", b"t"]).to_vec(),
    ];
    let alg = if rng.chance(2, 3) { "myers" } else { *rng.pick(ALGOS) };
    (mode, msize, mask, labels, alg)
}

fn boundary() -> Vec<(&'static [u8], &'static [u8], &'static [u8])> {
    vec![
        (b"", b"", b""),
        (b"", b"a\n", b""),
        (b"", b"", b"a\n"),
        (b"", b"a\n", b"a\n"),
        (b"", b"a\n", b"b\n"),
        (b"", b"a", b"b"),
        (b"a", b"b", b"b"),
        (b"a", b"b", b"c"),
        (b"a\n", b"", b""),
        (b"a\n", b"", b"b\n"),
        (b"a\nb\nc\n", b"a\nB\nc\n", b"a\nb\nC\n"),
        (b"a\nb\nc\n", b"a\nB\nc\n", b"a\nB2\nc\n"),
        (b"a\nb\nc\n", b"A\nb\nc", b"a\nb\nC"),
        (b"a\r\nb\r\nc\r\n", b"a\r\nB\r\nc\r\n", b"a\r\nX\r\nc\r\n"),
        (b"a\r\nb\r\nc", b"a\r\nB\r\nc", b"a\r\nX\r\nc"),
        (b"a\nb\nc", b"a\nb\nd", b"a\nb\ne"),
        (b"a\nb\nc\nd\ne\n", b"a\nd\ne\n", b"a\nb\nX\nd\ne\n"),
        (b"a\nb\nc\nd\ne\n", b"a\ne\n", b"a\nc\ne\n"),
        (b"a\nb\nc\nd\ne\n", b"a\nX\nc\nY\ne\n", b"a\nb\nZ\nd\ne\n"),
        (b"a\nb\nc\nd\ne\nf\ng\nh\ni\nj\n", b"X\n", b"a\nb\nB\nc\nd\ne\nF\ng\nh\ni\nj\n"),
        (b"a\nb\nc\nd\ne\nf\n", b"X\n", b"a\nb\nQ\nQ\nQ\nQ\nQ\nQ\nQ\nQ\nd\nE\nf\n"),
        (b"1\n2\n3\n4\n5\n6\n", b"1\nA\n3\n4\n5\n6\n", b"1\n2\n3\nB\n5\n6\n"),
        (b"1\n2\n3\n4\n5\n6\n", b"0\n1\n2\n3\n4\n5\n6\n", b"1\n2\n3\n4\n5\n6\n7\n"),
        (b"1\n2\n3\n", b"1\nX\nsame\n3\n", b"1\nY\nsame\n3\n"),
        (b"1\n2\n3\n", b"1\nsame\nX\n3\n", b"1\nsame\nY\n3\n"),
        (b"1\n2\n3\n", b"1\nsame\nX\nsame2\n3\n", b"1\nsame\nY\nsame2\n3\n"),
    ]
}

fn gen(rng: &mut Rng, n: usize) -> Vec<Case> {
    let mut out = Vec::new();
    // boundary block: hand-picked triples under every mode, marker sizes 1, 7, 20
    'b: for (bi, (b, o, t)) in boundary().into_iter().enumerate() {
        for (mi, mode) in MODES.iter().enumerate() {
            let msize = [7usize, 1, 20][(bi + mi) % 3];
            let mask = ((bi + mi) % 8) as u8;
            let alg = ALGOS[(bi + 2 * mi) % 3];
            out.push(mk_case(b, o, t, mode, msize, mask, [b"base", b"ours", b"theirs"], alg));
            if out.len() >= n {
                break 'b;
            }
        }
    }
    while out.len() < n {
        let crlf_bias = *rng.pick(&[0u64, 0, 0, 10, 50, 100]);
        let nlines = match rng.below(10) {
            0 => 0,
            1 => 1,
            2..=7 => rng.range(2, 8) as usize,
            _ => rng.range(8, 30) as usize,
        };
        let base = gen_lines(rng, nlines, crlf_bias);
        let e1 = 1 + rng.below(4) as usize;
        let e2 = 1 + rng.below(4) as usize;
        let kind = rng.below(20);
        let ours_l = if kind == 0 { base.clone() } else { mutate(rng, &base, crlf_bias, e1) };
        let theirs_l = match kind {
            1 => base.clone(),
            2 | 3 => ours_l.clone(),
            // a change on top of ours: overlapping, partly identical changes
            4..=8 => mutate(rng, &ours_l, crlf_bias, 1),
            _ => mutate(rng, &base, crlf_bias, e2),
        };
        // sometimes: three texts without a common line (whole-file conflict)
        let (base, ours_l, theirs_l) = if kind == 19 && rng.chance(1, 2) {
            let pickl = |rng: &mut Rng, words: &[&[u8]], n: usize| -> Vec<Vec<u8>> {
                (0..n)
                    .map(|_| {
                        let mut l = rng.pick(words).to_vec();
                        l.extend_from_slice(if rng.below(100) < crlf_bias { b"\r\n" } else { b"\n" });
                        l
                    })
                    .collect()
            };
            let nb = rng.below(4) as usize;
            let no = rng.below(4) as usize;
            let nt = rng.below(4) as usize;
            (pickl(rng, &[b"a", b"b"], nb), pickl(rng, &[b"c", b"d"], no), pickl(rng, &[b"e", b"x y"], nt))
        } else {
            (base, ours_l, theirs_l)
        };
        let strip = rng.below(6);
        let b = flat(rng, &base, strip == 0 || strip == 1);
        let o = flat(rng, &ours_l, strip == 0 || strip == 2);
        let t = if kind == 2 || kind == 3 { o.clone() } else { flat(rng, &theirs_l, strip == 0 || strip == 3) };
        let (mode, msize, mask, labels, alg) = random_opts(rng);
        out.push(mk_case(&b, &o, &t, mode, msize, mask, [&labels[0], &labels[1], &labels[2]], alg));
    }
    out.truncate(n.max(1));
    out
}

fn main() {
    let args: Vec<String> = std::env::args().collect();
    // private helper for writing corpus files: mkcase <base> <ours> <theirs> <mode> <msize> <mask> <alg>
    // (texts with \n, \r escapes)
    if args.get(1).map(|s| s.as_str()) == Some("mkcase") {
        let un = |s: &String| s.replace("\\n", "\n").replace("\\r", "\r").into_bytes();
        let c = mk_case(
            &un(&args[2]),
            &un(&args[3]),
            &un(&args[4]),
            &args[5],
            args[6].parse().unwrap(),
            args[7].parse().unwrap(),
            [b"base", b"ours", b"theirs"],
            &args[8],
        );
        println!("{}", case_line(&c));
        return;
    }
    // private helper: run `imp` on stdin cases with the default (loud) panic hook
    if args.get(1).map(|s| s.as_str()) == Some("loud") {
        for line in std::io::stdin().lines() {
            let c = parse_case(line.unwrap().trim());
            let r = std::panic::catch_unwind(|| imp(&c));
            println!("{:?}", r.ok());
        }
        return;
    }
    main_with(Harness { gen, imp, prop, git: None, deadline: std::time::Duration::from_secs(60) });
}
