(* C45 — model of gix-merge's builtin three-way text merge.
   Sources: gix-merge/src/blob/builtin_driver/text/{function.rs (merge), utils.rs, mod.rs} at the /repo
   working tree (i.e. including the three `fix:` commits listed in NOTES.md).

   The diff algorithm (imara-diff 0.1.7) is NOT modelled: [merge] takes the two edit scripts
   diff(base, ours) and diff(base, theirs) as arguments; the theorems assume the contract
   [valid_script] of them, the correspondence run checks the contract on every case.

   Tokens are modelled by their content (a line with its terminator): imara's interner maps equal lines to
   equal tokens and different lines to different tokens, so token equality = line equality.

   Output is a list of [piece]s (most recent first) that remember where every written byte string came from;
   the bytes written to `out` are [out_bytes].  Indices are [nat] (they are u32/usize in Rust; texts of more
   than 2^31 lines make imara-diff itself refuse, so no integer wraps below that).

   Panics modelled: slice/index out of bounds in write_hunks / line_content / truncate_*, the two
   `assert!(… .is_none())`, `expect("at least one hunk …")`, `unreachable!("initial hunks are never ancestors")`.
   NO proofs in this file. *)
From GixV.Base Require Import Bytes Outcome.

Inductive side := Current | Other | Ancestor.
Definition side_eqb (a b : side) : bool :=
  match a, b with Current, Current | Other, Other | Ancestor, Ancestor => true | _, _ => false end.

(* utils.rs: struct Hunk { before: Range<u32>, after: Range<u32>, side } *)
Record hunk := mkHunk { bstart : nat; bend : nat; astart : nat; aend : nat; hside : side }.

Inductive style := Merge | Diff3 | ZealousDiff3.
Inductive conflict :=
| Keep (s : style) (marker_size : nat)
| ResolveWithOurs | ResolveWithTheirs | ResolveWithUnion.
Record labels := mkLabels { l_anc : option bytes; l_cur : option bytes; l_oth : option bytes }.

(* ---- imara_diff::sources::byte_lines_with_terminator ------------------------------------------ *)
Fixpoint tokens_aux (l : bytes) (cur_rev : bytes) : list bytes :=
  match l with
  | [] => match cur_rev with [] => [] | _ => [rev cur_rev] end
  | b :: r => if beqb b x0a then rev (b :: cur_rev) :: tokens_aux r [] else tokens_aux r (b :: cur_rev)
  end.
Definition tokens (l : bytes) : list bytes := tokens_aux l [].

(* the three token lists: input.before, current_tokens, input.after *)
Record env := mkEnv { e_anc : list bytes; e_cur : list bytes; e_oth : list bytes }.
Definition tokens_for_side (s : side) (e : env) : list bytes :=
  match s with Current => e_cur e | Other => e_oth e | Ancestor => e_anc e end.

(* ---- output ----------------------------------------------------------------------------------- *)
(* [PLine s c l]: line l copied from the tokens of side s; c = written as part of a group of intersecting
   hunks (a conflict candidate) rather than as an undisputed change or untouched base text. *)
Inductive piece :=
| PLine (s : side) (in_conflict : bool) (l : bytes)
| PMarker (m : bytes)
| PNl (nl : bytes).
Definition piece_bytes (p : piece) : bytes :=
  match p with PLine _ _ l => l | PMarker m => m | PNl n => n end.
Definition out_bytes (out_rev : list piece) : bytes := concat (map piece_bytes (rev out_rev)).

Fixpoint last_byte (l : bytes) : option byte :=
  match l with [] => None | [b] => Some b | _ :: r => last_byte r end.
(* the last byte of `out`, None if `out` is empty *)
Fixpoint out_last_byte (out_rev : list piece) : option byte :=
  match out_rev with
  | [] => None
  | p :: r => match last_byte (piece_bytes p) with Some b => Some b | None => out_last_byte r end
  end.

(* Rust `&v[s..e]` (None = panic) *)
Definition slice {A} (l : list A) (s e : nat) : option (list A) :=
  if Nat.leb s e && Nat.leb e (length l) then Some (firstn (e - s) (skipn s l)) else None.

Definition push_lines (s : side) (c : bool) (ls : list bytes) (out : list piece) : list piece :=
  rev_append (map (PLine s c) ls) out.

(* utils.rs: assure_ends_with_nl *)
Definition assure_ends_with_nl (out : list piece) (nl : bytes) : list piece :=
  match out_last_byte out with
  | None => out
  | Some b => if beqb b x0a then out else PNl nl :: out
  end.

(* utils.rs: write_conflict_marker *)
Definition write_conflict_marker (out : list piece) (marker : byte) (label : option bytes)
           (marker_size : nat) (nl : bytes) : list piece :=
  let out := assure_ends_with_nl out nl in
  PMarker (repeat marker marker_size ++ match label with Some l => x20 :: l | None => [] end ++ nl) :: out.

(* utils.rs: write_ancestor(input, from, to, out) *)
Definition write_ancestor (e : env) (from to : nat) (out : list piece) : list piece :=
  if Nat.ltb to from then out
  else match slice (e_anc e) from to with     (* input.before.get(from..to) *)
       | Some ls => push_lines Ancestor false ls out
       | None => out
       end.

Definition side_range (h : hunk) : nat * nat :=
  match hside h with Ancestor => (bstart h, bend h) | _ => (astart h, aend h) end.

(* utils.rs: write_hunks *)
Fixpoint write_hunks (e : env) (c : bool) (hs : list hunk) (out : list piece) : outcome (list piece) unit :=
  match hs with
  | [] => Ok out
  | h :: r =>
      let (s, t) := side_range h in
      match slice (tokens_for_side (hside h) e) s t with
      | Some ls => write_hunks e c r (push_lines (hside h) c ls out)
      | None => Panic
      end
  end.

(* Range::<u32>::is_empty *)
Definition range_empty (s e : nat) : bool := negb (Nat.ltb s e).

(* utils.rs: contains_lines *)
Definition contains_lines (hs : list hunk) : bool :=
  existsb (fun h => negb (range_empty (astart h) (aend h))) hs.

(* utils.rs: hunks_differ_in_diff3 — note: compares ALL tokens of each hunk's side, once per hunk *)
Fixpoint lines_eqb (a b : list bytes) : bool :=
  match a, b with
  | [], [] => true
  | x :: a', y :: b' => bytes_eqb x y && lines_eqb a' b'
  | _, _ => false
  end.
Definition hunks_differ_in_diff3 (st : style) (a b : list hunk) (e : env) : bool :=
  match st with
  | Diff3 => negb (lines_eqb (flat_map (fun h => tokens_for_side (hside h) e) a)
                             (flat_map (fun h => tokens_for_side (hside h) e) b))
  | _ => true
  end.

(* ---- utils.rs: detect_line_ending ------------------------------------------------------------- *)
Definition crlf : bytes := [x0d; x0a].
Definition lf : bytes := [x0a].

Fixpoint find_range_rev (hs_rev : list hunk) : option (nat * nat * side) :=
  match hs_rev with
  | [] => None
  | h :: r =>
      if negb (range_empty (astart h) (aend h)) then Some (astart h, aend h, hside h)
      else if negb (range_empty (bstart h) (bend h)) then Some (bstart h, bend h, Ancestor)
      else find_range_rev r
  end.

(* line.get(line.len().checked_sub(2)?).map(|c| *c == b'\r') *)
Definition second_last_is_cr (line : bytes) : option bool :=
  if Nat.leb 2 (length line)
  then match nth_error line (length line - 2) with Some c => Some (beqb c x0d) | None => None end
  else None.

Definition is_eol_crlf (hs : list hunk) (e : env) : option bool :=
  match find_range_rev (rev hs) with
  | None => None
  | Some (_, rend, sd) =>
      let toks := tokens_for_side sd e in
      match nth_error toks (rend - 1) with
      | None => None
      | Some last_line =>
          match last_byte last_line with
          | Some x0a => second_last_is_cr last_line
          | _ =>
              if Nat.leb 2 rend
              then match nth_error toks (rend - 2) with
                   | Some l2 => second_last_is_cr l2
                   | None => None
                   end
              else None
          end
      end
  end.

Definition detect_line_ending (hs : list hunk) (e : env) : option bytes :=
  match is_eol_crlf hs e with Some true => Some crlf | Some false => Some lf | None => None end.
Definition detect_line_ending_or_nl (hs : list hunk) (e : env) : bytes :=
  match detect_line_ending hs e with Some n => n | None => lf end.

(* ---- stable sort by before.start (slice::sort_by / sort_by_key are stable) --------------------- *)
Fixpoint insert_sorted (h : hunk) (l : list hunk) : list hunk :=
  match l with
  | [] => [h]
  | x :: r => if Nat.leb (bstart h) (bstart x) then h :: l else x :: insert_sorted h r
  end.
(* insertion from the right, in front of equal keys: equal keys keep their original order *)
Definition sort_hunks (l : list hunk) : list hunk := fold_right insert_sorted [] l.

(* ---- utils.rs: fill_ancestor ------------------------------------------------------------------ *)
Definition ancestor_hunk (start n : nat) : hunk := mkHunk start (start + n) start (start + n) Ancestor.

(* a.checked_sub(b).filter(is_nonzero) *)
Definition sub_nz (a b : nat) : option nat := if Nat.ltb b a then Some (a - b) else None.

(* the `for (idx, next_idx)` loop: the index range is fixed on entry, the vector grows by `push` *)
Fixpoint fill_loop (idxs : list nat) (v : list hunk) (added : bool) : list hunk * bool :=
  match idxs with
  | [] => (v, added)
  | idx :: rest =>
      match nth_error v (S idx), nth_error v idx with
      | Some next, Some h =>
          match sub_nz (bstart next) (bend h) with
          | Some n => fill_loop rest (v ++ [ancestor_hunk (bend h) n]) true
          | None => fill_loop rest v added
          end
      | _, _ => (v, added)                                   (* `else { break }` *)
      end
  end.

Definition fill_ancestor (rstart rend : nat) (in_out : list hunk) : list hunk :=
  match in_out with
  | [] => []
  | first :: _ =>
      let '(v, first_idx) :=
        match sub_nz (bstart first) rstart with
        | Some n => (ancestor_hunk rstart n :: in_out, 1)
        | None => (in_out, 0)
        end in
      let '(v, added) := fill_loop (seq first_idx (length v - first_idx)) v false in
      let v := if added then firstn first_idx v ++ sort_hunks (skipn first_idx v) else v in
      match rev v with
      | last :: _ =>
          match sub_nz rend (bend last) with
          | Some n => v ++ [ancestor_hunk (bend last) n]
          | None => v
          end
      | [] => v
      end
  end.

(* ---- utils.rs: take_intersecting -------------------------------------------------------------- *)
Definition intersects (h b : hunk) : bool :=
  negb (side_eqb (hside b) (hside h)) &&
  ((Nat.leb (bstart h) (bstart b) && Nat.ltb (bstart b) (bend h))
   || (range_empty (bstart h) (bend h) && Nat.eqb (bstart h) (bstart b))).

Fixpoint take_intersecting (h : hunk) (rest : list hunk) : list hunk * list hunk :=
  match rest with
  | b :: r => if intersects h b then let (t, r') := take_intersecting h r in (b :: t, r') else ([], rest)
  | [] => ([], [])
  end.

(* ---- utils.rs: zealously_contract_hunks ------------------------------------------------------- *)
(* iterate_hunks: (token_idx, hunk_idx, side) *)
Fixpoint iterate_hunks_from (i : nat) (hs : list hunk) : list (nat * nat * side) :=
  match hs with
  | [] => []
  | h :: r =>
      let (s, t) := side_range h in
      map (fun k => (k, i, hside h)) (seq s (t - s)) ++ iterate_hunks_from (S i) r
  end.
Definition iterate_hunks (hs : list hunk) := iterate_hunks_from 0 hs.
Definition iterate_hunks_rev (hs : list hunk) := rev (iterate_hunks hs).

(* &input.interner[tokens[token_idx as usize]] *)
Definition line_content (e : env) (idx : nat) (s : side) : option bytes := nth_error (tokens_for_side s e) idx.

Record zstate := mkZ { z_la : nat; z_lb : nat; z_ra : option nat; z_rb : option nat;
                       z_ea : option nat; z_eb : option nat }.
Definition z0 : zstate := mkZ 0 0 None None None None.

Fixpoint zloop (e : env) (pairs : list ((nat * nat * side) * (nat * nat * side))) (st : zstate)
  : outcome zstate unit :=
  match pairs with
  | [] => Ok st
  | ((ta, ha, sa), (tb, hb, sb)) :: rest =>
      match line_content e ta sa, line_content e tb sb with
      | Some al, Some bl =>
          let st := if Nat.eqb (z_la st) ha then st
                    else mkZ ha (z_lb st) (z_ra st) (z_rb st) None (z_eb st) in
          let st := if Nat.eqb (z_lb st) hb then st
                    else mkZ (z_la st) hb (z_ra st) (z_rb st) (z_ea st) None in
          if bytes_eqb al bl
          then zloop e rest (mkZ (z_la st) (z_lb st) (Some ha) (Some hb) (Some ta) (Some tb))
          else Ok st
      | _, _ => Panic
      end
  end.

Definition set_range_start (h : hunk) (s : nat) : hunk :=
  match hside h with
  | Ancestor => mkHunk s (bend h) (astart h) (aend h) (hside h)
  | _ => mkHunk (bstart h) (bend h) s (aend h) (hside h)
  end.
Definition set_range_end (h : hunk) (t : nat) : hunk :=
  match hside h with
  | Ancestor => mkHunk (bstart h) t (astart h) (aend h) (hside h)
  | _ => mkHunk (bstart h) (bend h) (astart h) t (hside h)
  end.

Fixpoint set_nth {A} (n : nat) (x : A) (l : list A) : list A :=
  match l, n with
  | [], _ => []
  | _ :: r, O => x :: r
  | y :: r, S n' => y :: set_nth n' x r
  end.

(* truncate_hunks_from_from_front: returns (remaining hunks, hunks pushed to `out_hunks`);
   the caller ignores the second component when it passed `None` for out_hunks *)
Definition truncate_front (hs : list hunk) (until_idx : option nat) (till : option nat)
  : outcome (list hunk * list hunk) unit :=
  match until_idx with
  | None => match till with None => Ok (hs, []) | Some _ => Panic end          (* assert! *)
  | Some idx =>
      match nth_error hs idx with
      | None => Panic                                                          (* hunks[idx] *)
      | Some h =>
          let '(hs, last_rm, pushed) :=
            match till with
            | None => (hs, Some idx, [])
            | Some t =>
                let (orig_start, rend) := side_range h in
                let new_start := t + 1 in
                if range_empty new_start rend then (hs, Some idx, [])
                else (set_nth idx (set_range_start h new_start) hs,
                      match idx with O => None | S i => Some i end,
                      [set_range_end (set_range_start h orig_start) new_start])
            end in
          match last_rm with
          | None => Ok (hs, pushed)
          | Some li => Ok (skipn (S li) hs, pushed ++ firstn (S li) hs)
          end
      end
  end.

Definition truncate_back (hs : list hunk) (from_idx : option nat) (eq_from : option nat)
  : outcome (list hunk * list hunk) unit :=
  match from_idx with
  | None => match eq_from with None => Ok (hs, []) | Some _ => Panic end
  | Some idx =>
      match nth_error hs idx with
      | None => Panic
      | Some h =>
          let '(hs, idx, pushed) :=
            match eq_from with
            | None => (hs, idx, [])
            | Some f =>
                let (rstart, orig_end) := side_range h in
                if range_empty rstart f then (hs, idx, [])
                else (set_nth idx (set_range_end h f) hs, S idx,
                      [set_range_end (set_range_start h f) orig_end])
            end in
          if Nat.leb idx (length hs) then Ok (firstn idx hs, pushed ++ skipn idx hs) else Panic
      end
  end.

(* returns (a_hunks', b_hunks', out, hunks_in_front) *)
Definition zealously_contract_hunks (a b : list hunk) (e : env)
  : outcome (list hunk * list hunk * list hunk * nat) unit :=
  match zloop e (combine (iterate_hunks a) (iterate_hunks b)) z0 with
  | Ok st =>
      match truncate_front a (z_ra st) (z_ea st), truncate_front b (z_rb st) (z_eb st) with
      | Ok (a1, front), Ok (b1, _) =>
          match zloop e (combine (iterate_hunks_rev a1) (iterate_hunks_rev b1)) z0 with
          | Ok st2 =>
              match truncate_back a1 (z_ra st2) (z_ea st2), truncate_back b1 (z_rb st2) (z_eb st2) with
              | Ok (a2, back), Ok (b2, _) => Ok (a2, b2, front ++ back, length front)
              | _, _ => Panic
              end
          | _ => Panic
          end
      | _, _ => Panic
      end
  | _ => Panic
  end.

(* ---- function.rs: the body of `if take_intersecting(..)` -------------------------------------- *)
Definition first_of {A} (l : list A) : option A := hd_error l.
Definition last_of {A} (l : list A) : option A := hd_error (rev l).
Definition or_else {A} (a b : option A) : option A := match a with Some _ => a | None => b end.
Definition is_nil {A} (l : list A) : bool := match l with [] => true | _ => false end.

Definition by_side (filled_side : side) (filled inter : list hunk) : outcome (list hunk * list hunk) unit :=
  match filled_side with
  | Current => Ok (filled, inter)
  | Other => Ok (inter, filled)
  | Ancestor => Panic                                   (* unreachable!("initial hunks are never ancestors") *)
  end.

Definition style_is_diff3 (s : style) : bool := match s with Diff3 => true | _ => false end.

(* state threaded through the main loop: (out, ancestor_integrated_until, resolution = Conflict?) *)
Definition group_keep (e : env) (lb : labels) (st : style) (msize : nat) (fside : side)
           (filled inter : list hunk) (until : nat) (out : list piece) (conf : bool)
  : outcome (list piece * nat * bool) unit :=
  match (if style_is_diff3 st then Ok (filled, inter, [], O) else zealously_contract_hunks filled inter e) with
  | Ok (a, b, fb, nfront) =>
    match by_side fside a b with
    | Ok (ours, theirs) =>
      let front := firstn nfront fb in
      let back := skipn nfront fb in
      match or_else (first_of front) (or_else (first_of ours) (or_else (first_of theirs) (first_of back))),
            or_else (last_of back) (or_else (last_of theirs) (or_else (last_of ours) (last_of front))) with
      | Some first_hunk, Some last_hunk =>
        let out := write_ancestor e until (bstart first_hunk) out in
        match write_hunks e true front out with
        | Ok out =>
          match
            (if is_nil theirs then omap (fun o => (o, conf)) (write_hunks e true ours out)
             else if is_nil ours then omap (fun o => (o, conf)) (write_hunks e true theirs out)
             else
               let nl :=
                 match or_else (detect_line_ending
                                  (if is_nil front then [mkHunk until (bstart first_hunk) 0 0 Ancestor] else front) e)
                               (detect_line_ending ours e) with
                 | Some n => n | None => lf end in
               if contains_lines ours || contains_lines theirs then
                 match st with
                 | Merge =>
                     let out := write_conflict_marker out x3c (l_cur lb) msize nl in
                     match write_hunks e true ours out with
                     | Ok out =>
                         let out := write_conflict_marker out x3d None msize nl in
                         match write_hunks e true theirs out with
                         | Ok out => Ok (write_conflict_marker out x3e (l_oth lb) msize nl, true)
                         | _ => Panic
                         end
                     | _ => Panic
                     end
                 | _ =>
                     if hunks_differ_in_diff3 st ours theirs e then
                       let out := write_conflict_marker out x3c (l_cur lb) msize nl in
                       match write_hunks e true ours out with
                       | Ok out =>
                           let ah := [mkHunk (bstart first_hunk) (bend last_hunk) 0 0 Ancestor] in
                           let anl := detect_line_ending_or_nl ah e in
                           let out := write_conflict_marker out x7c (l_anc lb) msize anl in
                           match write_hunks e true ah out with
                           | Ok out =>
                               let out := write_conflict_marker out x3d None msize nl in
                               match write_hunks e true theirs out with
                               | Ok out => Ok (write_conflict_marker out x3e (l_oth lb) msize nl, true)
                               | _ => Panic
                               end
                           | _ => Panic
                           end
                       | _ => Panic
                       end
                     else omap (fun o => (o, conf)) (write_hunks e true ours out)
                 end
               else Ok (out, conf))
          with
          | Ok (out, conf) =>
              match write_hunks e true back out with
              | Ok out => Ok (out, bend last_hunk, conf)
              | _ => Panic
              end
          | _ => Panic
          end
        | _ => Panic
        end
      | _, _ => Panic                                   (* expect("at least one hunk …") *)
      end
    | _ => Panic
    end
  | _ => Panic
  end.

Definition group_resolve (e : env) (take_ours : bool) (fside : side)
           (filled inter : list hunk) (until : nat) (out : list piece) (conf : bool)
  : outcome (list piece * nat * bool) unit :=
  match by_side fside filled inter with
  | Ok (ours, theirs) =>
      let to_write := if take_ours then ours else theirs in
      let out := match first_of to_write with
                 | Some fh => write_ancestor e until (bstart fh) out
                 | None => out end in
      match write_hunks e true to_write out with
      | Ok out => Ok (out, match last_of to_write with Some lh => bend lh | None => until end, conf)
      | _ => Panic
      end
  | _ => Panic
  end.

Definition group_union (e : env) (fside : side)
           (filled inter : list hunk) (until : nat) (out : list piece) (conf : bool)
  : outcome (list piece * nat * bool) unit :=
  match zealously_contract_hunks filled inter e with
  | Ok (a, b, fb, nfront) =>
    match by_side fside a b with
    | Ok (ours, theirs) =>
      let front := firstn nfront fb in
      let back := skipn nfront fb in
      match or_else (first_of front) (or_else (first_of ours) (or_else (first_of theirs) (first_of back))) with
      | Some first_hunk =>
        let out := write_ancestor e until (bstart first_hunk) out in
        match write_hunks e true front out with
        | Ok out =>
          let out := if contains_lines ours || contains_lines theirs || negb (is_nil back)
                     then assure_ends_with_nl out (detect_line_ending_or_nl front e) else out in
          match write_hunks e true ours out with
          | Ok out =>
            let out := if contains_lines ours
                       then assure_ends_with_nl out (detect_line_ending_or_nl ours e) else out in
            match write_hunks e true theirs out with
            | Ok out =>
              let out := if negb (is_nil back)
                         then assure_ends_with_nl out (detect_line_ending_or_nl theirs e) else out in
              match write_hunks e true back out with
              | Ok out =>
                match or_else (last_of back) (or_else (last_of theirs) (or_else (last_of ours) (last_of front))) with
                | Some last_hunk => Ok (out, bend last_hunk, conf)
                | None => Panic
                end
              | _ => Panic
              end
            | _ => Panic
            end
          | _ => Panic
          end
        | _ => Panic
        end
      | None => Panic
      end
    | _ => Panic
    end
  | _ => Panic
  end.

Definition group (e : env) (lb : labels) (c : conflict) (h : hunk) (inter0 : list hunk)
           (until : nat) (out : list piece) (conf : bool)
  : outcome (list piece * nat * bool) unit :=
  let inter := fill_ancestor (bstart h) (bend h) inter0 in
  match first_of inter, last_of inter with
  | Some f, Some l =>
      let filled := fill_ancestor (bstart f) (bend l) [h] in
      match c with
      | Keep st msize => group_keep e lb st msize (hside h) filled inter until out conf
      | ResolveWithOurs => group_resolve e true (hside h) filled inter until out conf
      | ResolveWithTheirs => group_resolve e false (hside h) filled inter until out conf
      | ResolveWithUnion => group_union e (hside h) filled inter until out conf
      end
  | _, _ => Panic                                        (* expect("at least one entry") *)
  end.

(* the `while let Some(hunk) = hunks.next()` loop; one unit of fuel per iteration *)
Fixpoint merge_loop (fuel : nat) (e : env) (lb : labels) (c : conflict) (hs : list hunk)
         (until : nat) (out : list piece) (conf : bool) : outcome (list piece * bool) unit :=
  match hs with
  | [] => Ok (write_ancestor e until (length (e_anc e)) out, conf)
  | h :: rest =>
      match fuel with
      | O => OutOfFuel
      | S fuel' =>
          let (inter, rest') := take_intersecting h rest in
          if is_nil inter then
            let out := write_ancestor e until (bstart h) out in
            match write_hunks e false [h] out with
            | Ok out => merge_loop fuel' e lb c rest' (bend h) out conf
            | _ => Panic
            end
          else
            match group e lb c h inter until out conf with
            | Ok (out, until, conf) => merge_loop fuel' e lb c rest' until out conf
            | _ => Panic
            end
      end
  end.

(* an edit script as it comes out of imara-diff: (before.start, before.end, after.start, after.end) *)
Definition range4 := (nat * nat * nat * nat)%type.
Definition to_hunk (s : side) (r : range4) : hunk :=
  let '(a, b, c, d) := r in mkHunk a b c d s.

(* merge() with the tokens and the two edit scripts given *)
Definition merge_tokens (e : env) (lb : labels) (c : conflict) (hc ho : list range4)
  : outcome (list piece * bool) unit :=
  let hunks := sort_hunks (map (to_hunk Current) hc ++ map (to_hunk Other) ho) in
  merge_loop (length hunks) e lb c hunks 0 [] false.

Definition mk_env (base ours theirs : bytes) : env := mkEnv (tokens base) (tokens ours) (tokens theirs).

(* (output bytes, resolution is Conflict) *)
Definition merge (base ours theirs : bytes) (lb : labels) (c : conflict) (hc ho : list range4)
  : outcome (bytes * bool) unit :=
  omap (fun '(out, conf) => (out_bytes out, conf)) (merge_tokens (mk_env base ours theirs) lb c hc ho).

(* ---- the contract of the diff ----------------------------------------------------------------- *)
(* hunks ascending, inside both token lists, separated by at least one unchanged line, no hunk empty on both
   sides, and the lines between hunks (and before the first / after the last) pairwise equal *)
Fixpoint valid_script_from (pb pa : nat) (first : bool) (B S : list bytes) (hs : list range4) : bool :=
  match hs with
  | [] => lines_eqb (skipn pb B) (skipn pa S)
  | (bs_, be, as_, ae) :: r =>
      Nat.leb pb bs_ && Nat.leb bs_ be && Nat.leb be (length B) &&
      Nat.leb pa as_ && Nat.leb as_ ae && Nat.leb ae (length S) &&
      (first || Nat.ltb pb bs_) &&
      (Nat.ltb bs_ be || Nat.ltb as_ ae) &&
      Nat.eqb (bs_ - pb) (as_ - pa) &&
      lines_eqb (firstn (bs_ - pb) (skipn pb B)) (firstn (as_ - pa) (skipn pa S)) &&
      valid_script_from be ae false B S r
  end.
Definition valid_script (B S : list bytes) (hs : list range4) : bool := valid_script_from 0 0 true B S hs.

Fixpoint range4s_eqb (a b : list range4) : bool :=
  match a, b with
  | [], [] => true
  | (a1, a2, a3, a4) :: a', (b1, b2, b3, b4) :: b' =>
      Nat.eqb a1 b1 && Nat.eqb a2 b2 && Nat.eqb a3 b3 && Nat.eqb a4 b4 && range4s_eqb a' b'
  | _, _ => false
  end.

(* what the theorems assume of the two scripts: valid; empty for equal texts; equal for equal sides *)
Definition contract (e : env) (hc ho : list range4) : bool :=
  valid_script (e_anc e) (e_cur e) hc && valid_script (e_anc e) (e_oth e) ho &&
  (if lines_eqb (e_anc e) (e_cur e) then is_nil hc else true) &&
  (if lines_eqb (e_anc e) (e_oth e) then is_nil ho else true) &&
  (if lines_eqb (e_cur e) (e_oth e) then range4s_eqb hc ho else true).
