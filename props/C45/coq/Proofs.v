(* C45 — lemmas about the model of the builtin text merge. *)
From Coq Require Import Lia Arith List Bool.
From GixV.Base Require Import Bytes BytesFacts Outcome.
From GixV.C45 Require Import Model.
Import ListNotations.

(* ---------------------------------------------------------------- generic list facts *)
Lemma lines_eqb_eq a : forall b, lines_eqb a b = true <-> a = b.
Proof.
  induction a as [|x a IH]; intros [|y b]; cbn [lines_eqb]; split; intros H; try reflexivity; try discriminate.
  - apply andb_true_iff in H as [H1 H2]. apply bytes_eqb_eq in H1. apply IH in H2. now subst.
  - injection H as -> ->. apply andb_true_iff. split; [now apply bytes_eqb_eq | now apply IH].
Qed.

Lemma lines_eqb_refl a : lines_eqb a a = true.
Proof. now apply lines_eqb_eq. Qed.

Lemma firstn_app_skipn {A} (l : list A) : forall a b, a <= b ->
  firstn a l ++ firstn (b - a) (skipn a l) = firstn b l.
Proof.
  induction l as [|x l IH]; intros a b Hab.
  - now rewrite skipn_nil, !firstn_nil.
  - destruct a as [|a].
    + cbn [firstn skipn app]. now rewrite Nat.sub_0_r.
    + destruct b as [|b]; [lia|]. cbn [firstn skipn app Nat.sub]. f_equal. apply IH. lia.
Qed.

Lemma firstn_len_skipn {A} (l : list A) k : firstn (length l - k) (skipn k l) = skipn k l.
Proof. apply firstn_all2. rewrite skipn_length. lia. Qed.

Lemma concat_tokens_aux l : forall cur, concat (tokens_aux l cur) = rev cur ++ l.
Proof.
  induction l as [|b r IH]; intros cur; cbn [tokens_aux].
  - destruct cur as [|c cur]; [reflexivity|]. cbn [concat]. now rewrite !app_nil_r.
  - destruct (beqb b x0a).
    + cbn [concat]. rewrite IH. cbn [rev app]. now rewrite <- app_assoc.
    + rewrite IH. cbn [rev]. now rewrite <- app_assoc.
Qed.

(* the tokens of a text concatenate back to the text *)
Lemma concat_tokens l : concat (tokens l) = l.
Proof. unfold tokens. now rewrite concat_tokens_aux. Qed.

(* ---------------------------------------------------------------- output as a list of lines *)
Definition plines (out : list piece) : list bytes := map piece_bytes (rev out).

Lemma out_bytes_plines out : out_bytes out = concat (plines out).
Proof. reflexivity. Qed.

Lemma plines_push s c ls out : plines (push_lines s c ls out) = plines out ++ ls.
Proof.
  unfold plines, push_lines. rewrite rev_append_rev, rev_app_distr, rev_involutive, map_app, map_map.
  f_equal. now rewrite map_id.
Qed.

Lemma slice_some {A} (l : list A) s t : s <= t -> t <= length l ->
  slice l s t = Some (firstn (t - s) (skipn s l)).
Proof.
  intros H1 H2. unfold slice.
  destruct (Nat.leb_spec s t); [|lia]. destruct (Nat.leb_spec t (length l)); [|lia]. reflexivity.
Qed.

Lemma In_firstn' {A} (x : A) : forall n l, In x (firstn n l) -> In x l.
Proof.
  induction n as [|n IH]; intros l H; [destruct l; contradiction H|].
  destruct l as [|y l]; [contradiction H|]. cbn [firstn] in H. destruct H; [now left | right; auto].
Qed.
Lemma In_skipn' {A} (x : A) : forall n l, In x (skipn n l) -> In x l.
Proof.
  induction n as [|n IH]; intros l H; [exact H|].
  destruct l as [|y l]; [contradiction H|]. cbn [skipn] in H. right; auto.
Qed.

Lemma slice_in {A} (l : list A) s t r x : slice l s t = Some r -> In x r -> In x l.
Proof.
  unfold slice. destruct (_ && _); [|discriminate]. intros [= <-] H.
  eapply In_skipn', In_firstn'; eauto.
Qed.

(* ---------------------------------------------------------------- fuel *)
Lemma take_intersecting_length h : forall rest i r, take_intersecting h rest = (i, r) -> length r <= length rest.
Proof.
  induction rest as [|b rest IH]; intros i r H; cbn [take_intersecting] in H.
  - injection H as <- <-. auto.
  - destruct (intersects h b).
    + destruct (take_intersecting h rest) as [t r'] eqn:E. injection H as <- <-.
      specialize (IH _ _ eq_refl). cbn [length]. lia.
    + injection H as <- <-. auto.
Qed.

Lemma merge_loop_fuel e lb c : forall fuel hs until out conf,
  length hs <= fuel -> merge_loop fuel e lb c hs until out conf <> OutOfFuel.
Proof.
  induction fuel as [|fuel IH]; intros hs until out conf Hl.
  - destruct hs; [discriminate | cbn [length] in Hl; lia].
  - destruct hs as [|h rest]; [discriminate|]. cbn [merge_loop].
    destruct (take_intersecting h rest) as [inter rest'] eqn:E.
    apply take_intersecting_length in E. cbn [length] in Hl.
    destruct (is_nil inter).
    + destruct (write_hunks _ _ _ _); try discriminate. apply IH. lia.
    + destruct (group _ _ _ _ _ _ _ _) as [[[o u] cf]| | |]; try discriminate. apply IH. lia.
Qed.

Lemma L_never_hangs base ours theirs lb c hc ho : merge base ours theirs lb c hc ho <> OutOfFuel.
Proof.
  unfold merge, omap, obind, merge_tokens.
  destruct (merge_loop _ _ _ _ _ _ _ _) eqn:E; try discriminate.
  exfalso. revert E. apply merge_loop_fuel. auto.
Qed.

Lemma L_never_err base ours theirs lb c hc ho x : merge base ours theirs lb c hc ho <> Err x.
Proof.
  unfold merge, omap, obind, merge_tokens.
  generalize (length (sort_hunks (map (to_hunk Current) hc ++ map (to_hunk Other) ho))) at 1.
  generalize (sort_hunks (map (to_hunk Current) hc ++ map (to_hunk Other) ho)).
  generalize 0 at 1. generalize (@nil piece). generalize false.
  intros cf o u hs fuel. revert hs u o cf.
  induction fuel as [|fuel IH]; intros hs u o cf.
  - destruct hs; cbn [merge_loop]; discriminate.
  - destruct hs as [|h rest]; cbn [merge_loop]; [discriminate|].
    destruct (take_intersecting h rest) as [inter rest'].
    destruct (is_nil inter).
    + destruct (write_hunks _ _ _ _); try discriminate. apply IH.
    + destruct (group _ _ _ _ _ _ _ _) as [[[o' u'] cf']| | |]; try discriminate. apply IH.
Qed.

(* ---------------------------------------------------------------- one side equals the base *)
Lemma to_hunk_eq s a b c d : to_hunk s (a, b, c, d) = mkHunk a b c d s.
Proof. reflexivity. Qed.

Lemma take_intersecting_same_side s h : forall rs, hside h = s ->
  take_intersecting h (map (to_hunk s) rs) = ([], map (to_hunk s) rs).
Proof.
  intros [|[[[a b] c] d] rs] Hs; [reflexivity|].
  cbn [map take_intersecting]. rewrite to_hunk_eq. unfold intersects. cbn [hside]. rewrite Hs.
  destruct s; reflexivity.
Qed.

Lemma valid_script_sorted s B S : forall hs pb pa first,
  valid_script_from pb pa first B S hs = true -> sort_hunks (map (to_hunk s) hs) = map (to_hunk s) hs.
Proof.
  induction hs as [|[[[a b] c] d] hs IH]; intros pb pa first H; [reflexivity|].
  cbn [valid_script_from] in H. repeat (apply andb_true_iff in H as [H ?]).
  unfold sort_hunks in *. cbn [map fold_right]. erewrite IH by eassumption.
  destruct hs as [|[[[a' b'] c'] d'] hs']; [reflexivity|].
  cbn [map insert_sorted]. rewrite !to_hunk_eq. cbn [bstart].
  match goal with H : valid_script_from _ _ _ _ _ (_ :: _) = true |- _ => cbn [valid_script_from] in H;
    repeat (apply andb_true_iff in H as [H ?]) end.
  repeat match goal with H : Nat.leb _ _ = true |- _ => apply Nat.leb_le in H end.
  destruct (Nat.leb_spec a a'); [reflexivity | lia].
Qed.

Lemma side_range_mk s a b c d : s <> Ancestor -> side_range (mkHunk a b c d s) = (c, d).
Proof. unfold side_range. cbn [hside astart aend]. destruct s; congruence. Qed.

Section OneSide.
  Variables (e : env) (lb : labels) (c : conflict) (s : side).
  Hypothesis Hs : s <> Ancestor.
  Let B := e_anc e.
  Let S := tokens_for_side s e.

  Lemma loop_one_side : forall hs pb pa first fuel out conf,
    valid_script_from pb pa first B S hs = true ->
    length hs <= fuel -> pb <= length B -> pa <= length S ->
    plines out = firstn pa S ->
    exists out', merge_loop fuel e lb c (map (to_hunk s) hs) pb out conf = Ok (out', conf) /\ plines out' = S.
  Proof.
    induction hs as [|[[[bs_ be] as_] ae] hs IH]; intros pb pa first fuel out conf Hv Hf Hpb Hpa Hout.
    - cbn [valid_script_from] in Hv. apply lines_eqb_eq in Hv.
      destruct fuel; cbn [map merge_loop]; (eexists; split; [reflexivity|]);
        unfold write_ancestor; fold B;
        (destruct (Nat.ltb_spec (length B) pb); [lia|]);
        rewrite slice_some by lia; rewrite plines_push, Hout, firstn_len_skipn, Hv; apply firstn_skipn.
    - destruct fuel as [|fuel]; [cbn [length] in Hf; lia|].
      cbn [valid_script_from] in Hv. repeat (apply andb_true_iff in Hv as [Hv ?]).
      repeat match goal with H : Nat.leb _ _ = true |- _ => apply Nat.leb_le in H end.
      match goal with H : Nat.eqb _ _ = true |- _ => apply Nat.eqb_eq in H; rename H into Hgap end.
      match goal with H : lines_eqb _ _ = true |- _ => apply lines_eqb_eq in H; rename H into Heq end.
      cbn [map merge_loop]. rewrite to_hunk_eq.
      rewrite take_intersecting_same_side by reflexivity. cbn [is_nil].
      cbn [write_hunks]. rewrite side_range_mk by exact Hs. cbn [bstart bend hside]. fold S. rewrite (slice_some S as_ ae) by lia.
      edestruct (IH be ae false fuel) as [out' [Hl Hp]]; [eassumption | cbn [length] in Hf; lia | lia | lia | | ].
      2:{ exists out'. split; [exact Hl | exact Hp]. }
      rewrite plines_push. unfold write_ancestor. fold B.
      destruct (Nat.ltb_spec bs_ pb); [lia|]. rewrite slice_some by lia.
      rewrite plines_push, Hout, Heq.
      rewrite (firstn_app_skipn S pa as_) by lia. apply firstn_app_skipn. lia.
  Qed.
End OneSide.

Lemma merge_one_side e lb c s hs : s <> Ancestor ->
  valid_script (e_anc e) (tokens_for_side s e) hs = true ->
  exists out, merge_loop (length (map (to_hunk s) hs)) e lb c (map (to_hunk s) hs) 0 [] false = Ok (out, false)
              /\ plines out = tokens_for_side s e.
Proof.
  intros Hs Hv. eapply loop_one_side; eauto.
  - rewrite map_length. auto.
  - lia.
  - lia.
Qed.

Lemma is_nil_true {A} (l : list A) : is_nil l = true -> l = [].
Proof. destruct l; [reflexivity | discriminate]. Qed.

Lemma contract_parts e hc ho : contract e hc ho = true ->
  valid_script (e_anc e) (e_cur e) hc = true /\ valid_script (e_anc e) (e_oth e) ho = true /\
  (e_anc e = e_cur e -> hc = []) /\ (e_anc e = e_oth e -> ho = []) /\
  (e_cur e = e_oth e -> range4s_eqb hc ho = true).
Proof.
  unfold contract. intros H. repeat (apply andb_true_iff in H as [H ?]).
  repeat split; auto; intros E; rewrite E, lines_eqb_refl in *; auto using is_nil_true.
Qed.

(* ours = base: the result is theirs, no conflict; under every option *)
Lemma L_ours_is_base base theirs lb c hc ho :
  contract (mk_env base base theirs) hc ho = true ->
  merge base base theirs lb c hc ho = Ok (theirs, false).
Proof.
  intros H. apply contract_parts in H as (_ & Hvo & Hc & _ & _).
  cbn [mk_env e_anc e_cur e_oth] in *. rewrite (Hc eq_refl).
  unfold merge, merge_tokens. cbn [map app].
  erewrite valid_script_sorted by exact Hvo.
  destruct (merge_one_side (mk_env base base theirs) lb c Other ho) as [out [Hl Hp]]; [discriminate | exact Hvo |].
  rewrite Hl. cbn [omap obind]. rewrite out_bytes_plines, Hp. cbn [tokens_for_side mk_env e_oth].
  now rewrite concat_tokens.
Qed.

(* theirs = base: the result is ours, no conflict *)
Lemma L_theirs_is_base base ours lb c hc ho :
  contract (mk_env base ours base) hc ho = true ->
  merge base ours base lb c hc ho = Ok (ours, false).
Proof.
  intros H. apply contract_parts in H as (Hvc & _ & _ & Ho & _).
  cbn [mk_env e_anc e_cur e_oth] in *. rewrite (Ho eq_refl).
  unfold merge, merge_tokens. cbn [map]. rewrite app_nil_r.
  erewrite valid_script_sorted by exact Hvc.
  destruct (merge_one_side (mk_env base ours base) lb c Current hc) as [out [Hl Hp]]; [discriminate | exact Hvc |].
  rewrite Hl. cbn [omap obind]. rewrite out_bytes_plines, Hp. cbn [tokens_for_side mk_env e_cur].
  now rewrite concat_tokens.
Qed.
