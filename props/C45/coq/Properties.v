(* C45 — Text merges obey merge identities and never panic.
   Only statements here; every proof is [exact <lemma of Proofs*.v>].
   Model: Model.v (gix-merge builtin_driver::text::merge with utils.rs).  [merge base ours theirs labels
   conflict hc ho] is the merge of three byte strings where [hc] / [ho] are the edit scripts
   diff(base, ours) / diff(base, theirs) that imara-diff returned; [contract] is what is assumed of them
   (valid edit scripts, hunks separated by an unchanged line, no hunks for equal texts, equal scripts for
   equal sides).  The result is [Ok (bytes written to out, resolution = Conflict?)]. *)
From GixV.Base Require Import Bytes BytesFacts Outcome.
From GixV.C45 Require Import Model Proofs.

(* the main loop terminates for every input (also for scripts violating the contract) *)
Theorem merge_never_hangs : forall base ours theirs lb c hc ho,
  merge base ours theirs lb c hc ho <> OutOfFuel /\ forall x, merge base ours theirs lb c hc ho <> Err x.
Proof. intros. split; [apply L_never_hangs | intros; apply L_never_err]. Qed.

(* ours = base: the result is theirs, reported conflict-free, without panic, under every conflict style,
   marker size, resolution mode and label set *)
Theorem ours_is_base_gives_theirs : forall base theirs lb c hc ho,
  contract (mk_env base base theirs) hc ho = true ->
  merge base base theirs lb c hc ho = Ok (theirs, false).
Proof. exact L_ours_is_base. Qed.

(* theirs = base: the result is ours *)
Theorem theirs_is_base_gives_ours : forall base ours lb c hc ho,
  contract (mk_env base ours base) hc ho = true ->
  merge base ours base lb c hc ho = Ok (ours, false).
Proof. exact L_theirs_is_base. Qed.

(* non-vacuity: a CRLF text without final newline, two separate hunks *)
Example one_side_example :
  let base := bs "a
b
c
d" in
  let theirs := bs "a
X
c
Y
Z" in
  contract (mk_env base base theirs) [] [(1, 2, 1, 2); (3, 4, 3, 5)]%nat = true /\
  merge base base theirs (mkLabels None None None) (Keep ZealousDiff3 7) [] [(1, 2, 1, 2); (3, 4, 3, 5)]%nat
    = Ok (theirs, false).
Proof. split; reflexivity. Qed.
