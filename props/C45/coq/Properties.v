(* C45 — Text merges obey merge identities and never panic.
   Only statements here; every proof is [exact <lemma of Proofs*.v>].
   Model: Model.v (gix-merge builtin_driver::text::merge with utils.rs).  [merge base ours theirs labels
   conflict hc ho] is the merge of three byte strings where [hc] / [ho] are the edit scripts
   diff(base, ours) / diff(base, theirs) that imara-diff returned; [contract] is what is assumed of them
   (valid edit scripts, hunks separated by an unchanged line, no hunks for equal texts, equal scripts for
   equal sides).  The result is [Ok (bytes written to out, resolution = Conflict?)]. *)
From GixV.Base Require Import Bytes BytesFacts Outcome.
From GixV.C45 Require Import Model Proofs Proofs2 Proofs3.

(* the main loop terminates for every input (also for scripts violating the contract) *)
Theorem merge_never_hangs : forall base ours theirs lb c hc ho,
  merge base ours theirs lb c hc ho <> OutOfFuel /\ forall x, merge base ours theirs lb c hc ho <> Err x.
Proof. intros. split; [apply L_never_hangs | intros; apply L_never_err]. Qed.

(* ours = base: the result is theirs, reported conflict-free, without panic, under every conflict style,
   marker size, resolution mode and label set *)
Theorem ours_is_base_gives_theirs : forall base theirs lb c hc ho,
  contract (mk_env base base theirs) hc ho = true ->
  merge base base theirs lb c hc ho = Ok (theirs, false).
Proof. exact L_ours_is_base. Qed.

(* theirs = base: the result is ours *)
Theorem theirs_is_base_gives_ours : forall base ours lb c hc ho,
  contract (mk_env base ours base) hc ho = true ->
  merge base ours base lb c hc ho = Ok (ours, false).
Proof. exact L_theirs_is_base. Qed.

(* non-vacuity: a CRLF text without final newline, two separate hunks *)
Example one_side_example :
  let base := bs "a
b
c
d" in
  let theirs := bs "a
X
c
Y
Z" in
  contract (mk_env base base theirs) [] [(1, 2, 1, 2); (3, 4, 3, 5)]%nat = true /\
  merge base base theirs (mkLabels None None None) (Keep ZealousDiff3 7) [] [(1, 2, 1, 2); (3, 4, 3, 5)]%nat
    = Ok (theirs, false).
Proof. split; reflexivity. Qed.

(* [merge] writes the concatenation of the pieces [merge_tokens] produced; the next theorems speak about pieces:
   [PLine s c l] a line copied from side s (c: inside a group of intersecting hunks), [PMarker] a conflict
   marker line, [PNl] a line ending inserted by assure_ends_with_nl *)
Theorem merge_writes_the_pieces : forall base ours theirs lb c hc ho,
  merge base ours theirs lb c hc ho =
  omap (fun '(out, conf) => (out_bytes out, conf)) (merge_tokens (mk_env base ours theirs) lb c hc ho).
Proof. reflexivity. Qed.

(* a result reported as conflict-free contains no inserted conflict marker — for EVERY input and edit script
   (no contract needed), every style, marker size and resolution *)
Theorem clean_result_has_no_marker : forall e lb c hc ho out,
  merge_tokens e lb c hc ho = Ok (out, false) -> Forall (fun p => is_marker p = false) out.
Proof. exact L_clean_no_marker. Qed.

(* stronger: in a clean result every piece is a line of the input it is attributed to; only the union resolution
   may insert a line ending *)
Theorem clean_result_only_input_lines : forall e lb c hc ho out,
  merge_tokens e lb c hc ho = Ok (out, false) -> Forall (clean_piece e (is_union c)) out.
Proof. exact L_clean_only_input_lines. Qed.

(* ResolveWithOurs (take_ours = true) / ResolveWithTheirs (false): the result is always reported conflict-free,
   consists of input lines only (no marker, no inserted line ending), and inside a group of intersecting hunks
   (a conflict) no line of the rejected side is written: there the lines come from the base or the chosen side.
   Lines of the rejected side appear only where that side alone changed the base.  For every input, no contract. *)
Theorem resolution_takes_base_or_chosen_side : forall e lb take_ours hc ho out conf,
  merge_tokens e lb (res_conflict take_ours) hc ho = Ok (out, conf) ->
  conf = false /\ Forall (res_piece e take_ours) out.
Proof. exact L_resolve. Qed.

(* non-vacuity of the two theorems above: a conflict resolved with ours; the same conflict kept (not clean) *)
Example resolve_example :
  let e := mk_env (bs "a
b
c
") (bs "a
X
c
") (bs "a
Y
c
Z
") in
  merge_tokens e (mkLabels None None None) (res_conflict true) [(1, 2, 1, 2)]%nat [(1, 2, 1, 2); (3, 3, 3, 4)]%nat
    = Ok ([PLine Other false (bs "Z
"); PLine Ancestor false (bs "c
"); PLine Current true (bs "X
"); PLine Ancestor false (bs "a
")], false) /\
  exists out, merge_tokens e (mkLabels None None None) (Keep Merge 7) [(1, 2, 1, 2)]%nat [(1, 2, 1, 2); (3, 3, 3, 4)]%nat
    = Ok (out, true) /\ existsb is_marker out = true.
Proof. split; [reflexivity | eexists; split; reflexivity]. Qed.

(* ---- not proved, only tested by the correspondence run and prop() ------------------------------------------ *)
(* merge never panics on inputs satisfying the diff contract (proved above only when one side equals the base) *)
Definition never_panics_full_statement : Prop := forall base ours theirs lb c hc ho,
  contract (mk_env base ours theirs) hc ho = true -> merge base ours theirs lb c hc ho <> Panic.
(* both sides made the same change: the result is that change *)
Definition same_change_full_statement : Prop := forall base ours lb c hc ho,
  contract (mk_env base ours ours) hc ho = true -> merge base ours ours lb c hc ho = Ok (ours, false).

(* ... proved for the modes that do not contract hunks: Keep Diff3 (any marker size), ResolveWithOurs,
   ResolveWithTheirs ([plain_mode]); result byte-identical, conflict-free, no panic.  Merge / ZealousDiff3 / union:
   tested only. *)
Theorem same_change_partial : forall base ours lb c hc ho, plain_mode c ->
  contract (mk_env base ours ours) hc ho = true -> merge base ours ours lb c hc ho = Ok (ours, false).
Proof. exact L_same_change. Qed.

Example same_change_example :
  let base := bs "a
b
c" in
  let ours := bs "a
c" in
  plain_mode (Keep Diff3 3) /\
  contract (mk_env base ours ours) [(1, 3, 1, 2)]%nat [(1, 3, 1, 2)]%nat = true /\
  merge base ours ours (mkLabels None None None) (Keep Diff3 3) [(1, 3, 1, 2)]%nat [(1, 3, 1, 2)]%nat = Ok (ours, false).
Proof. split; [constructor | split; reflexivity]. Qed.

(* known class resolve-glued-eof-line: read on BYTES, "the ours resolution contains only lines of the inputs" is
   false: a piece that is an unterminated last line can be followed by another piece, and the two run together.
   (The piece-level theorem above is what holds; bytes and pieces agree line by line whenever every piece but the
   last ends in LF.) *)
Theorem resolution_lines_refuted_on_bytes :
  exists base ours theirs hc ho out,
    contract (mk_env base ours theirs) hc ho = true /\
    merge base ours theirs (mkLabels None None None) ResolveWithOurs hc ho = Ok (out, false) /\
    exists l, In l (tokens out) /\ ~ In l (tokens base) /\ ~ In l (tokens ours) /\ ~ In l (tokens theirs).
Proof. exact L_glued_witness. Qed.
