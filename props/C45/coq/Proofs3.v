(* C45 — both sides made the same change (proved for the modes that do not contract hunks:
   Keep Diff3, ResolveWithOurs, ResolveWithTheirs). *)
From Coq Require Import Lia Arith List Bool.
From GixV.Base Require Import Bytes BytesFacts Outcome.
From GixV.C45 Require Import Model Proofs.
Import ListNotations.

Fixpoint interleave (rs : list range4) : list hunk :=
  match rs with
  | [] => []
  | r :: rs' => to_hunk Current r :: to_hunk Other r :: interleave rs'
  end.

Definition r_bstart (r : range4) : nat := let '(a, _, _, _) := r in a.

Lemma valid_script_lower B S : forall hs pb pa first,
  valid_script_from pb pa first B S hs = true ->
  Forall (fun r => pb <= r_bstart r /\ (first = false -> pb < r_bstart r)) hs.
Proof.
  induction hs as [|[[[a b] c] d] hs IH]; intros pb pa first H; [constructor|].
  cbn [valid_script_from] in H. repeat (apply andb_true_iff in H as [H ?]).
  repeat match goal with H : Nat.leb _ _ = true |- _ => apply Nat.leb_le in H end.
  constructor.
  - cbn [r_bstart]. split; [lia|]. intros ->.
    match goal with H : false || _ = true |- _ => cbn [orb] in H; apply Nat.ltb_lt in H; exact H end.
  - eapply Forall_impl; [|eapply IH; eassumption]. cbn beta. intros r [G1 G2]. specialize (G2 eq_refl). split; intros; lia.
Qed.

Lemma insert_past s r L : forall rs',
  Forall (fun r' => r_bstart r < r_bstart r') rs' ->
  fold_right insert_sorted (to_hunk s r :: L) (map (to_hunk Current) rs') =
  to_hunk s r :: fold_right insert_sorted L (map (to_hunk Current) rs').
Proof.
  induction rs' as [|r' rs' IH]; intros HF; [reflexivity|].
  inversion HF as [|? ? Hr Hrest]; subst. cbn [map fold_right]. rewrite IH by exact Hrest.
  cbn [insert_sorted]. destruct r as [[[a b] c] d], r' as [[[a' b'] c'] d']. rewrite !to_hunk_eq.
  cbn [bstart r_bstart] in *. destruct (Nat.leb_spec a' a); [lia | reflexivity].
Qed.

Lemma sort_same B S : forall rs pb pa first,
  valid_script_from pb pa first B S rs = true ->
  fold_right insert_sorted (map (to_hunk Other) rs) (map (to_hunk Current) rs) = interleave rs.
Proof.
  induction rs as [|r rs IH]; intros pb pa first H; [reflexivity|].
  cbn [map fold_right interleave].
  assert (Hlow : Forall (fun r' => r_bstart r < r_bstart r') rs).
  { destruct r as [[[a b] c] d]. cbn [valid_script_from] in H. repeat (apply andb_true_iff in H as [H ?]).
    match goal with H : valid_script_from _ _ _ _ _ _ = true |- _ => apply valid_script_lower in H; rename H into HL end.
    repeat match goal with H : Nat.leb _ _ = true |- _ => apply Nat.leb_le in H end.
    eapply Forall_impl; [|exact HL]. cbn beta. intros r' [_ G2]. specialize (G2 eq_refl). cbn [r_bstart]. lia. }
  rewrite insert_past by exact Hlow.
  destruct r as [[[a b] c] d]. cbn [valid_script_from] in H. repeat (apply andb_true_iff in H as [H ?]).
  erewrite IH by eassumption.
  cbn [insert_sorted]. rewrite !to_hunk_eq. cbn [bstart]. now rewrite Nat.leb_refl.
Qed.

Lemma sort_same_full B S rs : valid_script B S rs = true ->
  sort_hunks (map (to_hunk Current) rs ++ map (to_hunk Other) rs) = interleave rs.
Proof.
  intros H. unfold sort_hunks. rewrite fold_right_app.
  change (fold_right insert_sorted [] (map (to_hunk Other) rs)) with (sort_hunks (map (to_hunk Other) rs)).
  erewrite valid_script_sorted by exact H. eapply sort_same; exact H.
Qed.

Lemma sub_nz_refl a : sub_nz a a = None.
Proof. unfold sub_nz. now rewrite Nat.ltb_irrefl. Qed.

Lemma fill_ancestor_single a b h : bstart h = a -> bend h = b -> fill_ancestor a b [h] = [h].
Proof.
  intros <- <-. unfold fill_ancestor. rewrite sub_nz_refl. cbn [length Nat.sub seq fill_loop nth_error rev app].
  now rewrite sub_nz_refl.
Qed.

Inductive plain_mode : conflict -> Prop :=
| pm_diff3 ms : plain_mode (Keep Diff3 ms)
| pm_ours : plain_mode ResolveWithOurs
| pm_theirs : plain_mode ResolveWithTheirs.

Section Same.
  Variables (e : env) (lb : labels) (c : conflict).
  Hypothesis Hmode : plain_mode c.
  Let B := e_anc e.
  Let S := e_cur e.
  Hypothesis Hsame : e_oth e = e_cur e.

  Lemma take_same r rs : 
    (let '(a, b, _, _) := r in a <= b) ->
    take_intersecting (to_hunk Current r) (to_hunk Other r :: interleave rs) = ([to_hunk Other r], interleave rs).
  Proof.
    destruct r as [[[a b] c'] d]. intros Hab. cbn [take_intersecting]. rewrite !to_hunk_eq.
    unfold intersects at 1. cbn [hside bstart bend side_eqb negb andb].
    assert (E : (Nat.leb a a && Nat.ltb a b) || (range_empty a b && Nat.eqb a a) = true).
    { rewrite Nat.leb_refl, Nat.eqb_refl. unfold range_empty. destruct (Nat.ltb a b); reflexivity. }
    rewrite E. destruct rs as [|[[[a2 b2] c2] d2] rs]; [reflexivity|].
    cbn [interleave take_intersecting]. rewrite !to_hunk_eq. unfold intersects. cbn [hside side_eqb negb andb]. reflexivity.
  Qed.

  Lemma group_same a b c' d until out conf :
    c' <= d -> d <= length S ->
    group e lb c (mkHunk a b c' d Current) [mkHunk a b c' d Other] until out conf =
    Ok (push_lines Current true (firstn (d - c') (skipn c' S)) (write_ancestor e until a out), b, conf)
    \/
    group e lb c (mkHunk a b c' d Current) [mkHunk a b c' d Other] until out conf =
    Ok (push_lines Other true (firstn (d - c') (skipn c' S)) (write_ancestor e until a out), b, conf)
    \/
    (c' = d /\ group e lb c (mkHunk a b c' d Current) [mkHunk a b c' d Other] until out conf =
    Ok (write_ancestor e until a out, b, conf)).
  Proof.
    intros Hcd Hd. unfold group. cbn [bstart bend].
    rewrite (fill_ancestor_single a b (mkHunk a b c' d Other)) by reflexivity.
    cbn [first_of last_of hd_error rev app bstart bend].
    rewrite (fill_ancestor_single a b (mkHunk a b c' d Current)) by reflexivity.
    cbn [hside].
    destruct Hmode.
    - (* Keep Diff3 *)
      unfold group_keep. cbn [style_is_diff3 by_side firstn skipn first_of last_of hd_error rev app or_else
                                write_hunks is_nil bstart bend].
      unfold contains_lines. cbn [existsb astart aend orb]. rewrite !orb_false_r, orb_diag.
      unfold range_empty. destruct (Nat.ltb_spec c' d); cbn [negb].
      + unfold hunks_differ_in_diff3. cbn [flat_map hside tokens_for_side]. rewrite !app_nil_r, Hsame, lines_eqb_refl.
        cbn [negb]. rewrite side_range_mk by discriminate. cbn [tokens_for_side hside]. fold S.
        rewrite slice_some by lia. cbn [omap obind]. left. reflexivity.
      + right. right. split; [lia | reflexivity].
    - unfold group_resolve. cbn [by_side first_of last_of hd_error rev app bstart bend write_hunks].
      rewrite side_range_mk by discriminate. cbn [tokens_for_side hside]. fold S.
      rewrite slice_some by lia. left. reflexivity.
    - unfold group_resolve. cbn [by_side first_of last_of hd_error rev app bstart bend write_hunks].
      rewrite side_range_mk by discriminate. cbn [tokens_for_side hside]. rewrite Hsame. fold S.
      rewrite slice_some by lia. right. left. reflexivity.
  Qed.

  Lemma loop_same : forall rs pb pa first fuel out conf,
    valid_script_from pb pa first B S rs = true ->
    length rs <= fuel -> pb <= length B -> pa <= length S ->
    plines out = firstn pa S ->
    exists out', merge_loop fuel e lb c (interleave rs) pb out conf = Ok (out', conf) /\ plines out' = S.
  Proof.
    induction rs as [|[[[bs_ be] as_] ae] rs IH]; intros pb pa first fuel out conf Hv Hf Hpb Hpa Hout.
    - cbn [valid_script_from] in Hv. apply lines_eqb_eq in Hv.
      destruct fuel; cbn [interleave merge_loop]; (eexists; split; [reflexivity|]);
        unfold write_ancestor; fold B;
        (destruct (Nat.ltb_spec (length B) pb); [lia|]);
        rewrite slice_some by lia; rewrite plines_push, Hout, firstn_len_skipn, Hv; apply firstn_skipn.
    - destruct fuel as [|fuel]; [cbn [length] in Hf; lia|].
      cbn [valid_script_from] in Hv. repeat (apply andb_true_iff in Hv as [Hv ?]).
      repeat match goal with H : Nat.leb _ _ = true |- _ => apply Nat.leb_le in H end.
      match goal with H : Nat.eqb _ _ = true |- _ => apply Nat.eqb_eq in H; rename H into Hgap end.
      match goal with H : lines_eqb _ _ = true |- _ => apply lines_eqb_eq in H; rename H into Heq end.
      cbn [interleave merge_loop].
      rewrite (take_same (bs_, be, as_, ae) rs) by lia. cbn [is_nil]. rewrite !to_hunk_eq.
      assert (Hanc : plines (write_ancestor e pb bs_ out) = firstn as_ S).
      { unfold write_ancestor. fold B. destruct (Nat.ltb_spec bs_ pb); [lia|]. rewrite slice_some by lia.
        rewrite plines_push, Hout, Heq. apply firstn_app_skipn. lia. }
      destruct (group_same bs_ be as_ ae pb out conf) as [G|[G|[Eq G]]]; try lia; rewrite G;
        (edestruct (IH be ae false fuel) as [out' [Hl Hp]];
         [eassumption | cbn [length] in Hf; lia | lia | lia | | exists out'; split; [exact Hl | exact Hp]]).
      + rewrite plines_push, Hanc. apply firstn_app_skipn. lia.
      + rewrite plines_push, Hanc. apply firstn_app_skipn. lia.
      + rewrite Hanc. now subst.
  Qed.
End Same.

Lemma L_same_change base ours lb c hc ho : plain_mode c ->
  contract (mk_env base ours ours) hc ho = true ->
  merge base ours ours lb c hc ho = Ok (ours, false).
Proof.
  intros Hm H. apply contract_parts in H as (Hvc & _ & _ & _ & Heq).
  cbn [mk_env e_anc e_cur e_oth] in *. specialize (Heq eq_refl).
  assert (ho = hc) as ->.
  { clear -Heq. revert ho Heq. induction hc as [|[[[a b] c] d] hc IH]; intros [|[[[a' b'] c'] d'] ho] H;
      cbn [range4s_eqb] in H; try discriminate; [reflexivity|].
    repeat (apply andb_true_iff in H as [H ?]).
    repeat match goal with H : Nat.eqb _ _ = true |- _ => apply Nat.eqb_eq in H end. subst.
    f_equal. apply IH. assumption. }
  unfold merge, merge_tokens.
  erewrite sort_same_full by exact Hvc.
  destruct (loop_same (mk_env base ours ours) lb c Hm eq_refl hc 0 0 true
              (length (interleave hc)) [] false) as [out [Hl Hp]]; try exact Hvc; try reflexivity; try (cbn; lia).
  { clear. induction hc as [|r hc IH]; cbn [interleave length]; lia. }
  rewrite Hl. cbn [omap obind]. rewrite out_bytes_plines, Hp. cbn [mk_env e_cur]. now rewrite concat_tokens.
Qed.
