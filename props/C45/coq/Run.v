(* C45 — transcript printer: the same observable string the Rust harness prints for a case. *)
From GixV.Base Require Import Bytes Outcome.
From GixV.C45 Require Import Model.

(* decimal numbers separated by anything else *)
Fixpoint nums_aux (l : bytes) (cur : option N) (acc : list nat) : list nat :=
  match l with
  | [] => rev (match cur with Some n => N.to_nat n :: acc | None => acc end)
  | b :: r =>
      if is_digit b
      then nums_aux r (Some (10 * (match cur with Some n => n | None => 0 end) + (b2N b - 48))%N) acc
      else nums_aux r None (match cur with Some n => N.to_nat n :: acc | None => acc end)
  end.
Fixpoint group4 (l : list nat) : list range4 :=
  match l with
  | a :: b :: c :: d :: r => (a, b, c, d) :: group4 r
  | _ => []
  end.
Definition parse_hunks (f : bytes) : list range4 := group4 (nums_aux f None []).

Definition parse_conflict (mode : bytes) (msize : nat) : conflict :=
  if bytes_eqb mode (bs "merge") then Keep Merge msize
  else if bytes_eqb mode (bs "diff3") then Keep Diff3 msize
  else if bytes_eqb mode (bs "zdiff3") then Keep ZealousDiff3 msize
  else if bytes_eqb mode (bs "ours") then ResolveWithOurs
  else if bytes_eqb mode (bs "theirs") then ResolveWithTheirs
  else ResolveWithUnion.

Definition parse_labels (mask : N) (a c o : bytes) : labels :=
  mkLabels (if N.testbit mask 0 then Some a else None)
           (if N.testbit mask 1 then Some c else None)
           (if N.testbit mask 2 then Some o else None).

Definition hex_or_dash (b : bytes) : bytes := match b with [] => bs "-" | _ => hex_encode b end.

(* case:  m <base> <ours> <theirs> <mode> <msize> <labelmask> <lanc> <lcur> <loth> <algo> <hunks ours> <hunks theirs> *)
Definition run_model (fs : list bytes) : bytes :=
  if bytes_eqb (nth_field 0 fs) (bs "m") then
    let base := nth_field 1 fs in
    let ours := nth_field 2 fs in
    let theirs := nth_field 3 fs in
    let c := parse_conflict (nth_field 4 fs) (N.to_nat (field_N 5 fs)) in
    let lb := parse_labels (field_N 6 fs) (nth_field 7 fs) (nth_field 8 fs) (nth_field 9 fs) in
    let hc := parse_hunks (nth_field 11 fs) in
    let ho := parse_hunks (nth_field 12 fs) in
    if contract (mk_env base ours theirs) hc ho then
      match merge base ours theirs lb c hc ho with
      | Ok (out, conf) =>
          bs "ok " ++ (if conf then bs "Conflict " else bs "Complete ") ++ hex_or_dash out
      | Err _ => bs "err"
      | Panic => bs "PANIC"
      | OutOfFuel => bs "HANG"
      end
    else bs "contract-violated"
  else bs "?".

Definition run (fs : list bytes) : bytes :=
  match fs with
  | _mode :: rest => run_model rest
  | [] => bs "?"
  end.
