(* C45 — provenance of the written pieces: no markers in a clean result; ours/theirs resolutions. *)
From Coq Require Import Lia Arith List Bool.
From GixV.Base Require Import Bytes BytesFacts Outcome.
From GixV.C45 Require Import Model Proofs.
Import ListNotations.

Section Pieces.
  Variable P : piece -> Prop.

  Lemma all_push s c ls out :
    Forall P out -> (forall l, In l ls -> P (PLine s c l)) -> Forall P (push_lines s c ls out).
  Proof.
    intros Ho Hl. unfold push_lines. rewrite rev_append_rev. apply Forall_app. split; [|exact Ho].
    apply Forall_forall. intros x Hx. apply in_rev in Hx. apply in_map_iff in Hx as [l [<- Hin]]. auto.
  Qed.

  Lemma all_write_ancestor e a b out :
    Forall P out -> (forall l, In l (e_anc e) -> P (PLine Ancestor false l)) -> Forall P (write_ancestor e a b out).
  Proof.
    intros Ho Hl. unfold write_ancestor. destruct (Nat.ltb b a); [exact Ho|].
    destruct (slice (e_anc e) a b) as [ls|] eqn:E; [|exact Ho].
    apply all_push; [exact Ho|]. intros l Hin. apply Hl. eapply slice_in; eauto.
  Qed.

  Lemma all_write_hunks e c : forall hs out out',
    Forall P out ->
    (forall h l, In h hs -> In l (tokens_for_side (hside h) e) -> P (PLine (hside h) c l)) ->
    write_hunks e c hs out = Ok out' -> Forall P out'.
  Proof.
    induction hs as [|h hs IH]; intros out out' Ho Hl H; cbn [write_hunks] in H.
    - now injection H as <-.
    - destruct (side_range h) as [s t]. destruct (slice _ s t) as [ls|] eqn:E; [|discriminate].
      eapply IH; [| |exact H].
      + apply all_push; [exact Ho|]. intros l Hin. apply Hl; [now left|]. eapply slice_in; eauto.
      + intros h' l Hh Hin. apply Hl; [now right | exact Hin].
  Qed.

  Lemma all_assure out nl : Forall P out -> P (PNl nl) -> Forall P (assure_ends_with_nl out nl).
  Proof.
    intros Ho Hn. unfold assure_ends_with_nl. destruct (out_last_byte out); [|exact Ho].
    destruct (beqb _ _); [exact Ho | now constructor].
  Qed.
End Pieces.

(* ---------------------------------------------------------------- clean => no marker *)
Definition is_marker (p : piece) : bool := match p with PMarker _ => true | _ => false end.
Definition NM (out : list piece) : Prop := Forall (fun p => is_marker p = false) out.
Definition Inv (out : list piece) (conf : bool) : Prop := conf = false -> NM out.

Lemma nm_anc e a b out : NM out -> NM (write_ancestor e a b out).
Proof. intros H. apply all_write_ancestor; auto. Qed.
Lemma nm_hunks e c hs out out' : write_hunks e c hs out = Ok out' -> NM out -> NM out'.
Proof. intros H Ho. eapply all_write_hunks; eauto. Qed.
Lemma nm_assure out nl : NM out -> NM (assure_ends_with_nl out nl).
Proof. intros H. apply all_assure; auto. Qed.
Lemma nm_if (b : bool) out nl : NM out -> NM (if b then assure_ends_with_nl out nl else out).
Proof. destruct b; auto using nm_assure. Qed.

Ltac break_all :=
  repeat match goal with
         | H : ?l = _ |- _ =>
             match l with
             | context [match ?x with _ => _ end] => destruct x eqn:?; cbv beta iota zeta in H; try discriminate H
             end
         end.
Ltac break_hyp H := cbv beta iota zeta in H; break_all.

Ltac inj_oks :=
  repeat match goal with
         | E : Ok _ = Ok _ |- _ => inversion E; subst; clear E
         | E : (_, _) = (_, _) |- _ => inversion E; subst; clear E
         end.
Ltac chain_nm :=
  repeat match goal with
         | E : write_hunks _ _ _ ?o = Ok ?o' |- NM ?o' => apply (nm_hunks _ _ _ _ _ E)
         | |- NM (write_ancestor _ _ _ _) => apply nm_anc
         | |- NM (assure_ends_with_nl _ _) => apply nm_assure
         end; try assumption.

Lemma group_keep_inv e lb st ms fs filled inter until out conf out' u' conf' :
  group_keep e lb st ms fs filled inter until out conf = Ok (out', u', conf') ->
  Inv out conf -> Inv out' conf'.
Proof.
  unfold group_keep, omap, obind. intros H HI.
  break_hyp H; inj_oks; intros Hc; try discriminate Hc; specialize (HI Hc); chain_nm.
Qed.

Lemma group_resolve_inv e t fs filled inter until out conf out' u' conf' :
  group_resolve e t fs filled inter until out conf = Ok (out', u', conf') ->
  Inv out conf -> Inv out' conf'.
Proof.
  unfold group_resolve. intros H HI.
  break_hyp H; inj_oks; intros Hc; try discriminate Hc; specialize (HI Hc); chain_nm.
Qed.

Lemma group_union_inv e fs filled inter until out conf out' u' conf' :
  group_union e fs filled inter until out conf = Ok (out', u', conf') ->
  Inv out conf -> Inv out' conf'.
Proof.
  unfold group_union. intros H HI.
  break_hyp H; inj_oks; intros Hc; try discriminate Hc; specialize (HI Hc); chain_nm.
Qed.

Lemma group_inv e lb c h inter until out conf out' u' conf' :
  group e lb c h inter until out conf = Ok (out', u', conf') -> Inv out conf -> Inv out' conf'.
Proof.
  unfold group. intros H HI.
  destruct (first_of _); [|discriminate]. destruct (last_of _); [|discriminate].
  destruct c; eauto using group_keep_inv, group_resolve_inv, group_union_inv.
Qed.

Lemma merge_loop_inv e lb c : forall fuel hs until out conf out' conf',
  merge_loop fuel e lb c hs until out conf = Ok (out', conf') -> Inv out conf -> Inv out' conf'.
Proof.
  induction fuel as [|fuel IH]; intros hs until out conf out' conf' H HI.
  - destruct hs; cbn [merge_loop] in H; [|discriminate]. injection H as <- <-.
    intros Hc. apply nm_anc. auto.
  - destruct hs as [|h rest]; cbn [merge_loop] in H.
    + injection H as <- <-. intros Hc. apply nm_anc. auto.
    + destruct (take_intersecting h rest) as [inter rest'].
      destruct (is_nil inter).
      * destruct (write_hunks _ _ _ _) as [o| | |] eqn:E; try discriminate.
        eapply IH; [exact H|]. intros Hc. eapply nm_hunks; [exact E|]. apply nm_anc. auto.
      * destruct (group _ _ _ _ _ _ _ _) as [[[o u] cf]| | |] eqn:E; try discriminate.
        eapply IH; [exact H|]. eapply group_inv; eauto.
Qed.

(* a result reported conflict-free contains no conflict marker piece; for every input, also outside the contract *)
Lemma L_clean_no_marker e lb c hc ho out :
  merge_tokens e lb c hc ho = Ok (out, false) -> Forall (fun p => is_marker p = false) out.
Proof.
  unfold merge_tokens. intros H. eapply merge_loop_inv in H; [exact (H eq_refl)|].
  intros _. constructor.
Qed.

(* ---------------------------------------------------------------- clean => only input lines *)
Section CleanLines.
  Variables (e : env) (u : bool).
  (* a piece of a clean result: a line of the token list it is attributed to; an inserted line ending only
     with the union resolution *)
  Definition clean_piece (p : piece) : Prop :=
    match p with
    | PLine s _ l => In l (tokens_for_side s e)
    | PMarker _ => False
    | PNl _ => u = true
    end.
  Definition CL (out : list piece) : Prop := Forall clean_piece out.
  Definition InvC (out : list piece) (conf : bool) : Prop := conf = false -> CL out.

  Lemma cl_anc a b out : CL out -> CL (write_ancestor e a b out).
  Proof. intros H. apply all_write_ancestor; auto. Qed.
  Lemma cl_hunks c hs out out' : write_hunks e c hs out = Ok out' -> CL out -> CL out'.
  Proof. intros H Ho. eapply all_write_hunks; eauto. Qed.
  Lemma cl_assure out nl : u = true -> CL out -> CL (assure_ends_with_nl out nl).
  Proof. intros Hu H. apply all_assure; auto. Qed.

  Ltac chain_cl :=
    repeat match goal with
           | E : write_hunks _ _ _ ?o = Ok ?o' |- CL ?o' => apply (cl_hunks _ _ _ _ E)
           | |- CL (write_ancestor _ _ _ _) => apply cl_anc
           | |- CL (assure_ends_with_nl _ _) => apply cl_assure; [assumption|]
           end; try assumption.

  Lemma group_keep_invc lb st ms fs filled inter until out conf out' u' conf' :
    group_keep e lb st ms fs filled inter until out conf = Ok (out', u', conf') ->
    InvC out conf -> InvC out' conf'.
  Proof.
    unfold group_keep, omap, obind. intros H HI.
    break_hyp H; inj_oks; intros Hc; try discriminate Hc; specialize (HI Hc); chain_cl.
  Qed.

  Lemma group_resolve_invc t fs filled inter until out conf out' u' conf' :
    group_resolve e t fs filled inter until out conf = Ok (out', u', conf') ->
    InvC out conf -> InvC out' conf'.
  Proof.
    unfold group_resolve. intros H HI.
    break_hyp H; inj_oks; intros Hc; try discriminate Hc; specialize (HI Hc); chain_cl.
  Qed.

  Lemma group_union_invc fs filled inter until out conf out' u' conf' : u = true ->
    group_union e fs filled inter until out conf = Ok (out', u', conf') ->
    InvC out conf -> InvC out' conf'.
  Proof.
    unfold group_union. intros Hu H HI.
    break_hyp H; inj_oks; intros Hc; try discriminate Hc; specialize (HI Hc); chain_cl.
  Qed.

  Definition is_union (c : conflict) : bool := match c with ResolveWithUnion => true | _ => false end.

  Lemma group_invc lb c h inter until out conf out' u' conf' : u = is_union c ->
    group e lb c h inter until out conf = Ok (out', u', conf') -> InvC out conf -> InvC out' conf'.
  Proof.
    unfold group. intros Hu H HI.
    destruct (first_of _); [|discriminate]. destruct (last_of _); [|discriminate].
    destruct c; eauto using group_keep_invc, group_resolve_invc, group_union_invc.
  Qed.

  Lemma merge_loop_invc lb c : u = is_union c -> forall fuel hs until out conf out' conf',
    merge_loop fuel e lb c hs until out conf = Ok (out', conf') -> InvC out conf -> InvC out' conf'.
  Proof.
    intros Hu. induction fuel as [|fuel IH]; intros hs until out conf out' conf' H HI.
    - destruct hs; cbn [merge_loop] in H; [|discriminate]. injection H as <- <-.
      intros Hc. apply cl_anc. auto.
    - destruct hs as [|h rest]; cbn [merge_loop] in H.
      + injection H as <- <-. intros Hc. apply cl_anc. auto.
      + destruct (take_intersecting h rest) as [inter rest'].
        destruct (is_nil inter).
        * destruct (write_hunks _ _ _ _) as [o| | |] eqn:E; try discriminate.
          eapply IH; [exact H|]. intros Hc. eapply cl_hunks; [exact E|]. apply cl_anc. auto.
        * destruct (group _ _ _ _ _ _ _ _) as [[[o u0] cf]| | |] eqn:E; try discriminate.
          eapply IH; [exact H|]. eapply group_invc; eauto.
  Qed.
End CleanLines.

Lemma L_clean_only_input_lines e lb c hc ho out :
  merge_tokens e lb c hc ho = Ok (out, false) -> Forall (clean_piece e (is_union c)) out.
Proof.
  unfold merge_tokens. intros H. eapply merge_loop_invc in H; [exact (H eq_refl) | reflexivity |].
  intros _. constructor.
Qed.

(* ---------------------------------------------------------------- ours / theirs resolutions *)
Lemma insert_sorted_forall (Q : hunk -> Prop) h : forall l, Q h -> Forall Q l -> Forall Q (insert_sorted h l).
Proof.
  induction l as [|x l IH]; intros Hh Hl; cbn [insert_sorted]; [now constructor|].
  destruct (Nat.leb _ _); [now constructor|]. inversion Hl; subst. constructor; auto.
Qed.
Lemma sort_hunks_forall (Q : hunk -> Prop) l : Forall Q l -> Forall Q (sort_hunks l).
Proof.
  unfold sort_hunks. induction 1; cbn [fold_right]; [constructor|]. now apply insert_sorted_forall.
Qed.
Lemma Forall_firstn {A} (Q : A -> Prop) n l : Forall Q l -> Forall Q (firstn n l).
Proof. intros H. apply Forall_forall. intros x Hx. eapply Forall_forall; [exact H|]. eapply In_firstn'; eauto. Qed.
Lemma Forall_skipn {A} (Q : A -> Prop) n l : Forall Q l -> Forall Q (skipn n l).
Proof. intros H. apply Forall_forall. intros x Hx. eapply Forall_forall; [exact H|]. eapply In_skipn'; eauto. Qed.

Section FillForall.
  Variable Q : hunk -> Prop.
  Hypothesis Qanc : forall a n, Q (ancestor_hunk a n).

  Lemma fill_loop_forall : forall idxs v added, Forall Q v -> Forall Q (fst (fill_loop idxs v added)).
  Proof.
    induction idxs as [|i idxs IH]; intros v added Hv; cbn [fill_loop]; [exact Hv|].
    destruct (nth_error v (S i)); [|exact Hv]. destruct (nth_error v i); [|exact Hv].
    destruct (sub_nz _ _); apply IH; [|exact Hv]. apply Forall_app. split; [exact Hv|]. constructor; auto.
  Qed.

  Lemma fill_ancestor_forall s t l : Forall Q l -> Forall Q (fill_ancestor s t l).
  Proof.
    intros Hl. unfold fill_ancestor. destruct l as [|first l']; [constructor|].
    set (v0 := match sub_nz (bstart first) s with
               | Some n => (ancestor_hunk s n :: first :: l', 1) | None => (first :: l', 0) end).
    assert (Hv0 : Forall Q (fst v0)) by (unfold v0; destruct (sub_nz _ _); cbn [fst]; auto).
    destruct v0 as [v fi]. cbn [fst] in Hv0.
    pose proof (fill_loop_forall (seq fi (length v - fi)) v false Hv0) as Hf.
    destruct (fill_loop _ v false) as [v1 added]. cbn [fst] in Hf.
    set (v2 := if added then firstn fi v1 ++ sort_hunks (skipn fi v1) else v1).
    assert (Hv2 : Forall Q v2).
    { unfold v2. destruct added; [|exact Hf]. apply Forall_app. split.
      - now apply Forall_firstn.
      - apply sort_hunks_forall. now apply Forall_skipn. }
    destruct (rev v2); [exact Hv2|]. destruct (sub_nz _ _); [|exact Hv2].
    apply Forall_app. split; [exact Hv2|]. constructor; auto.
  Qed.
End FillForall.

Lemma side_eqb_false a b : side_eqb a b = false -> a <> b.
Proof. destruct a, b; cbn; congruence. Qed.

Lemma take_intersecting_facts h (Q : hunk -> Prop) : forall rest i r,
  take_intersecting h rest = (i, r) -> Forall Q rest ->
  Forall (fun b => hside b <> hside h) i /\ Forall Q i /\ Forall Q r.
Proof.
  induction rest as [|b rest IH]; intros i r H HQ; cbn [take_intersecting] in H.
  - injection H as <- <-. auto.
  - destruct (intersects h b) eqn:Ei.
    + destruct (take_intersecting h rest) as [t r'] eqn:E. injection H as <- <-.
      inversion HQ as [|? ? Qb Qrest]; subst. destruct (IH _ _ eq_refl Qrest) as (G1 & G2 & G3).
      unfold intersects in Ei. apply andb_true_iff in Ei as [Ei _]. apply negb_true_iff in Ei.
      apply side_eqb_false in Ei. repeat split; auto.
    + injection H as <- <-. auto.
Qed.

Section Resolve.
  Variables (e : env) (take_ours : bool).
  (* the side that was not chosen *)
  Definition rejected : side := if take_ours then Other else Current.
  Definition res_conflict : conflict := if take_ours then ResolveWithOurs else ResolveWithTheirs.

  (* every piece is a line of the token list it is attributed to, and inside a group of intersecting hunks
     no line of the rejected side is written *)
  Definition res_piece (p : piece) : Prop :=
    match p with
    | PLine s c l => In l (tokens_for_side s e) /\ (c = true -> s <> rejected)
    | _ => False
    end.
  Definition RS (out : list piece) : Prop := Forall res_piece out.

  Lemma rs_anc a b out : RS out -> RS (write_ancestor e a b out).
  Proof. intros H. apply all_write_ancestor; auto. intros l Hl. split; [exact Hl | discriminate]. Qed.

  Lemma rs_hunks_free hs out out' : write_hunks e false hs out = Ok out' -> RS out -> RS out'.
  Proof. intros H Ho. eapply all_write_hunks; eauto. intros h l _ Hl. split; [exact Hl | discriminate]. Qed.

  Lemma rs_hunks_conf hs out out' : Forall (fun h => hside h <> rejected) hs ->
    write_hunks e true hs out = Ok out' -> RS out -> RS out'.
  Proof.
    intros Hs H Ho. eapply all_write_hunks; eauto. intros h l Hh Hl. split; [exact Hl|].
    intros _. eapply Forall_forall in Hs; eauto.
  Qed.

  Lemma group_resolve_rs h inter0 until out conf out' u' conf' :
    hside h <> Ancestor ->
    Forall (fun b => hside b <> hside h) inter0 -> Forall (fun b => hside b <> Ancestor) inter0 ->
    group e (mkLabels None None None) res_conflict h inter0 until out conf = Ok (out', u', conf') ->
    RS out -> RS out' /\ conf' = conf.
  Proof.
    intros Hh Hi1 Hi2 H Ho. unfold group in H.
    destruct (first_of _) as [f|]; [|discriminate]. destruct (last_of _) as [l|]; [|discriminate].
    set (inter := fill_ancestor (bstart h) (bend h) inter0) in *.
    set (filled := fill_ancestor (bstart f) (bend l) [h]) in *.
    assert (Hgr : group_resolve e take_ours (hside h) filled inter until out conf = Ok (out', u', conf'))
      by (unfold res_conflict in H; destruct take_ours; exact H).
    clear H. unfold group_resolve, by_side in Hgr.
    assert (Hw : Forall (fun b => hside b <> rejected)
                   (if take_ours then (match hside h with Current => filled | _ => inter end)
                    else (match hside h with Current => inter | _ => filled end))).
    { unfold rejected, filled, inter.
      destruct take_ours, (hside h) eqn:Es; try congruence;
        apply fill_ancestor_forall; try (intros; cbn; discriminate);
        try (constructor; [congruence | constructor]).
      all: eapply Forall_impl; [|apply (Forall_and Hi1 Hi2)]; cbn beta;
        intros b [Hb1 Hb2]; destruct (hside b); congruence. }
    destruct (hside h) eqn:Es; try congruence; cbv beta iota zeta in Hgr;
      match type of Hgr with context [write_hunks e true ?w ?o] =>
        destruct (write_hunks e true w o) as [o'| | |] eqn:E; try discriminate Hgr end;
      injection Hgr as <- <- <-; (split; [|reflexivity]);
      (eapply rs_hunks_conf; [|exact E|]; [destruct take_ours; exact Hw|]);
      destruct (first_of _); try apply rs_anc; exact Ho.
  Qed.

  Lemma merge_loop_rs lb : forall fuel hs until out conf out' conf',
    Forall (fun h => hside h <> Ancestor) hs ->
    merge_loop fuel e lb res_conflict hs until out conf = Ok (out', conf') ->
    RS out -> RS out' /\ conf' = conf.
  Proof.
    induction fuel as [|fuel IH]; intros hs until out conf out' conf' Hs H Ho.
    - destruct hs; cbn [merge_loop] in H; [|discriminate]. injection H as <- <-.
      split; [apply rs_anc; auto | reflexivity].
    - destruct hs as [|h rest]; cbn [merge_loop] in H.
      + injection H as <- <-. split; [apply rs_anc; auto | reflexivity].
      + inversion Hs as [|? ? Hh Hrest]; subst.
        destruct (take_intersecting h rest) as [inter rest'] eqn:Et.
        destruct (take_intersecting_facts h _ _ _ _ Et Hrest) as (Hi1 & Hi2 & Hr).
        destruct (is_nil inter).
        * destruct (write_hunks _ _ _ _) as [o| | |] eqn:E; try discriminate.
          eapply IH; [exact Hr | exact H |]. eapply rs_hunks_free; [exact E|]. apply rs_anc. auto.
        * destruct (group _ _ _ _ _ _ _ _) as [[[o u0] cf]| | |] eqn:E; try discriminate.
          assert (E' : group e (mkLabels None None None) res_conflict h inter until out conf = Ok (o, u0, cf)).
          { rewrite <- E. unfold group, res_conflict. destruct take_ours; reflexivity. }
          destruct (group_resolve_rs _ _ _ _ _ _ _ _ Hh Hi1 Hi2 E' Ho) as [Ho' ->].
          eapply IH; [exact Hr | exact H | exact Ho'].
  Qed.
End Resolve.

Lemma to_hunk_side s r : hside (to_hunk s r) = s.
Proof. destruct r as [[[a b] c] d]. reflexivity. Qed.

Lemma L_resolve e lb take_ours hc ho out conf :
  merge_tokens e lb (res_conflict take_ours) hc ho = Ok (out, conf) ->
  conf = false /\ Forall (res_piece e take_ours) out.
Proof.
  unfold merge_tokens. intros H. eapply merge_loop_rs in H.
  - destruct H as [H ->]. split; [reflexivity | exact H].
  - apply sort_hunks_forall. apply Forall_app. split; apply Forall_forall; intros h Hin;
      apply in_map_iff in Hin as [r [<- _]]; rewrite to_hunk_side; discriminate.
  - constructor.
Qed.

Lemma L_glued_witness :
  exists base ours theirs hc ho out,
    contract (mk_env base ours theirs) hc ho = true /\
    merge base ours theirs (mkLabels None None None) ResolveWithOurs hc ho = Ok (out, false) /\
    exists l, In l (tokens out) /\ ~ In l (tokens base) /\ ~ In l (tokens ours) /\ ~ In l (tokens theirs).
Proof.
  exists (bs "e
"), (bs "e
e
"), (bs "e"), [(1, 1, 1, 2)]%nat, [(0, 1, 0, 1)]%nat, (bs "ee
").
  split; [reflexivity|]. split; [reflexivity|].
  exists (bs "ee
"). split; [now left|].
  repeat split; intros H; cbn in H; repeat (destruct H as [H|H]; [discriminate H|]); exact H.
Qed.
