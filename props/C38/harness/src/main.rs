//! C38 harness: attribute values computed by gix_worktree::Stack (gix-attributes search + parse) against
//! `git check-attr -a`.
//!
//! case:  q <flags> <global> <info> <nfiles> (<dir> <content>)* <nqueries> (<path> <isdir>)*
//!   flags (decimal): bit0 = case folding (core.ignorecase), bit1 = no info/attributes path configured at all
//!   global = content of core.attributesFile, info = content of $GIT_DIR/info/attributes (empty = absent),
//!   dir = directory of a `.gitattributes` file relative to the worktree root (empty = root),
//!   path = queried path (no trailing slash), isdir = "1" when it is queried as a directory.
//! transcript (impl/model):  per query `m<0|1>{ name=<S|U|!|V hex>}` joined by `;`   (sorted by name,
//!   `!` = explicitly unspecified by `!attr`)
//! transcript (git/spec):    per query `{ name=<S|U|V hex>}` joined by `;`
use bstr::{BString, ByteSlice};
use gixv_common::*;
use std::collections::BTreeMap;
use std::path::PathBuf;

mod gen;

pub struct Parsed {
    pub fold: bool,
    pub no_info: bool,
    pub global: Vec<u8>,
    pub info: Vec<u8>,
    pub files: Vec<(Vec<u8>, Vec<u8>)>,
    pub queries: Vec<(Vec<u8>, bool)>,
}

pub fn parse(c: &Case) -> Option<Parsed> {
    if f_str(c, 0) != b"q" {
        return None;
    }
    let flags = f_u64(c, 1);
    let nfiles = f_u64(c, 4) as usize;
    let mut files = Vec::new();
    let mut i = 5;
    for _ in 0..nfiles {
        files.push((f_str(c, i).to_vec(), f_str(c, i + 1).to_vec()));
        i += 2;
    }
    let nq = f_u64(c, i) as usize;
    i += 1;
    let mut queries = Vec::new();
    for _ in 0..nq {
        queries.push((f_str(c, i).to_vec(), f_str(c, i + 1) == b"1"));
        i += 2;
    }
    Some(Parsed {
        fold: flags & 1 != 0,
        no_info: flags & 2 != 0,
        global: f_str(c, 2).to_vec(),
        info: f_str(c, 3).to_vec(),
        files,
        queries,
    })
}

// ------------------------------------------------------------------------------------------------
// implementation under test
// ------------------------------------------------------------------------------------------------
struct MemObjects(std::collections::HashMap<gix_hash::ObjectId, Vec<u8>>);
impl gix_object::Find for MemObjects {
    fn try_find<'a>(
        &self,
        id: &gix_hash::oid,
        buffer: &'a mut Vec<u8>,
    ) -> Result<Option<gix_object::Data<'a>>, gix_object::find::Error> {
        match self.0.get(&id.to_owned()) {
            Some(d) => {
                buffer.clear();
                buffer.extend_from_slice(d);
                Ok(Some(gix_object::Data { kind: gix_object::Kind::Blob, data: buffer }))
            }
            None => Ok(None),
        }
    }
}

static CTR: std::sync::atomic::AtomicU64 = std::sync::atomic::AtomicU64::new(0);
fn scratch(kind: &str) -> PathBuf {
    let k = CTR.fetch_add(1, std::sync::atomic::Ordering::SeqCst);
    let base = if std::path::Path::new("/dev/shm").is_dir() { PathBuf::from("/dev/shm") } else { std::env::temp_dir() };
    base.join(format!("gixv-c38-{}-{}-{}", kind, std::process::id(), k))
}

fn state_str(s: gix_attributes::StateRef<'_>) -> String {
    use gix_attributes::StateRef::*;
    match s {
        Set => "S".into(),
        Unset => "U".into(),
        Unspecified => "!".into(),
        Value(v) => format!("V{}", hexs(v.as_bstr())),
    }
}

fn imp(c: &Case) -> String {
    let Some(p) = parse(c) else { return "skip".into() };
    let mut buf = Vec::new();
    let mut collection = gix_attributes::search::MetadataCollection::default();
    let mut globals =
        gix_attributes::Search::new_globals(std::iter::empty::<PathBuf>(), &mut buf, &mut collection).expect("no io");
    if !p.global.is_empty() {
        globals.add_patterns_buffer(&p.global, "<global>".into(), None, &mut collection, true);
    }
    let mut tmp = None;
    let info_path = if p.no_info && p.info.is_empty() {
        None
    } else if p.info.is_empty() {
        Some(PathBuf::from("/nonexistent-gixv-c38/info/attributes"))
    } else {
        let d = scratch("impl");
        std::fs::create_dir_all(&d).unwrap();
        let f = d.join("attributes");
        std::fs::write(&f, &p.info).unwrap();
        tmp = Some(d);
        Some(f)
    };
    let mut objects = MemObjects(Default::default());
    let mut mappings: Vec<(BString, gix_hash::ObjectId)> = Vec::new();
    for (i, (dir, content)) in p.files.iter().enumerate() {
        let mut path = dir.clone();
        if !path.is_empty() {
            path.push(b'/');
        }
        path.extend_from_slice(b".gitattributes");
        let mut raw = [0u8; 20];
        raw[0] = 0xc3;
        raw[1] = 0x80;
        raw[18] = (i >> 8) as u8;
        raw[19] = i as u8;
        let id = gix_hash::ObjectId::from(raw);
        objects.0.insert(id, content.clone());
        mappings.push((path.into(), id));
    }
    mappings.sort_by(|a, b| a.0.cmp(&b.0));
    mappings.dedup_by(|a, b| a.0 == b.0);
    let attrs = gix_worktree::stack::state::Attributes::new(
        globals,
        info_path,
        gix_worktree::stack::state::attributes::Source::IdMapping,
        collection,
    );
    let state = gix_worktree::stack::State::AttributesStack(attrs);
    let case = if p.fold { gix_glob::pattern::Case::Fold } else { gix_glob::pattern::Case::Sensitive };
    let mut stack = gix_worktree::Stack::new("/nonexistent-gixv-c38/wt", state, case, Vec::new(), mappings);
    // the documented usage: the outcome is created once, before the first path is visited
    let mut out = stack.attribute_matches();
    let mut res = Vec::new();
    for (path, isdir) in &p.queries {
        let mode = if *isdir { Some(gix_index::entry::Mode::DIR) } else { None };
        let line = match stack.at_entry(path.as_bstr(), mode, &objects) {
            Err(_) => "err".to_string(),
            Ok(platform) => {
                let has = platform.matching_attributes(&mut out);
                let mut m: BTreeMap<String, String> = BTreeMap::new();
                for x in out.iter() {
                    m.insert(x.assignment.name.as_str().to_string(), state_str(x.assignment.state));
                }
                let mut s = format!("m{}", has as u8);
                for (k, v) in m {
                    s.push_str(&format!(" {k}={v}"));
                }
                s
            }
        };
        res.push(line);
    }
    if let Some(d) = tmp {
        let _ = std::fs::remove_dir_all(d);
    }
    res.join(";")
}

// ------------------------------------------------------------------------------------------------
// git
// ------------------------------------------------------------------------------------------------
/// can this case be laid out on disk and passed through git's C strings / path normalisation?
pub fn git_applicable(p: &Parsed) -> bool {
    let comp_ok = |comp: &[u8]| {
        !comp.is_empty() && comp != b"." && comp != b".." && !comp.eq_ignore_ascii_case(b".git") && !comp.contains(&0) && comp.len() < 200
    };
    for (d, content) in &p.files {
        if !d.is_empty() && !d.split(|b| *b == b'/').all(comp_ok) {
            return false;
        }
        if content.contains(&0) {
            return false;
        }
    }
    if p.global.contains(&0) || p.info.contains(&0) {
        return false;
    }
    let mut seen = std::collections::BTreeSet::new();
    for (q, d) in &p.queries {
        if q.is_empty() || !q.split(|b| *b == b'/').all(comp_ok) {
            return false;
        }
        if !seen.insert((q.clone(), *d)) {
            return false;
        }
    }
    // a directory holding a .gitattributes file must not also be needed as a file and vice versa: nothing else is
    // written to disk, so no conflict can arise.
    true
}

/// per query: sorted (name -> S|U|V hex); None when git could not be asked
pub fn git_run(p: &Parsed) -> Option<Vec<BTreeMap<String, String>>> {
    use std::io::Write as _;
    use std::os::unix::ffi::OsStrExt;
    if !git_applicable(p) {
        return None;
    }
    let dir = scratch("git");
    let _ = std::fs::remove_dir_all(&dir);
    std::fs::create_dir_all(dir.join(".git/objects")).unwrap();
    std::fs::create_dir_all(dir.join(".git/refs")).unwrap();
    std::fs::create_dir_all(dir.join(".git/info")).unwrap();
    std::fs::write(dir.join(".git/HEAD"), "ref: refs/heads/main\n").unwrap();
    if !p.info.is_empty() {
        std::fs::write(dir.join(".git/info/attributes"), &p.info).unwrap();
    }
    let global = dir.join(".git/gixv-global-attributes");
    std::fs::write(&global, &p.global).unwrap();
    for (d, content) in &p.files {
        let dd = dir.join(std::ffi::OsStr::from_bytes(d));
        std::fs::create_dir_all(&dd).unwrap();
        let f = dd.join(".gitattributes");
        if !f.exists() {
            std::fs::write(f, content).unwrap();
        }
    }
    let mut child = std::process::Command::new("git")
        .current_dir(&dir)
        .env("GIT_CONFIG_NOSYSTEM", "1")
        .env("GIT_ATTR_NOSYSTEM", "1")
        .env("GIT_CONFIG_GLOBAL", "/dev/null")
        .env("HOME", &dir)
        .env_remove("XDG_CONFIG_HOME")
        .env_remove("GIT_DIR")
        .env("LC_ALL", "C")
        .arg("-c")
        .arg(format!("core.attributesFile={}", global.display()))
        .arg("-c")
        .arg(if p.fold { "core.ignorecase=true" } else { "core.ignorecase=false" })
        .args(["check-attr", "-a", "-z", "--stdin"])
        .stdin(std::process::Stdio::piped())
        .stdout(std::process::Stdio::piped())
        .stderr(std::process::Stdio::null())
        .spawn()
        .expect("git");
    let mut input = Vec::new();
    let mut keys = Vec::new();
    for (q, d) in &p.queries {
        let mut k = q.clone();
        if *d {
            k.push(b'/');
        }
        input.extend_from_slice(&k);
        input.push(0);
        keys.push(k);
    }
    {
        let mut si = child.stdin.take().unwrap();
        let _ = si.write_all(&input);
    }
    let o = child.wait_with_output().expect("git out");
    let _ = std::fs::remove_dir_all(&dir);
    if !o.status.success() {
        return None;
    }
    let mut by_path: BTreeMap<Vec<u8>, BTreeMap<String, String>> = BTreeMap::new();
    let toks: Vec<&[u8]> = o.stdout.split(|b| *b == 0).collect();
    let mut i = 0;
    while i + 2 < toks.len() {
        let (path, attr, val) = (toks[i], toks[i + 1], toks[i + 2]);
        i += 3;
        let v = match val {
            b"set" => "S".to_string(),
            b"unset" => "U".to_string(),
            b"unspecified" => continue,
            v => format!("V{}", hexs(v)),
        };
        by_path.entry(path.to_vec()).or_default().insert(String::from_utf8_lossy(attr).into_owned(), v);
    }
    Some(keys.iter().map(|k| by_path.get(k).cloned().unwrap_or_default()).collect())
}

fn fmt_git(m: &BTreeMap<String, String>) -> String {
    let mut s = String::new();
    for (k, v) in m {
        s.push_str(&format!(" {k}={v}"));
    }
    s
}

fn git(c: &Case) -> String {
    let Some(p) = parse(c) else { return "-".into() };
    if gen::classify(&p).is_some() {
        return "-".into(); // the Spec shares the line parser and matcher of the model
    }
    match git_run(&p) {
        None => "-".into(),
        Some(r) => r.iter().map(fmt_git).collect::<Vec<_>>().join(";"),
    }
}

/// the implementation's answer reduced to what the property talks about
fn impl_values(line: &str) -> Option<Vec<BTreeMap<String, String>>> {
    let mut out = Vec::new();
    for q in line.split(';') {
        let mut m = BTreeMap::new();
        let mut it = q.split(' ');
        let head = it.next()?;
        if head == "err" {
            return None;
        }
        for kv in it {
            let (k, v) = kv.split_once('=')?;
            // a value spelled `set`/`unset`/`unspecified` is printed by git like the state
            let v = match v {
                "!" => continue,
                "V736574" => "S",
                "V756e736574" => "U",
                "V756e737065636966696564" => continue,
                v => v,
            };
            m.insert(k.to_string(), v.to_string());
        }
        out.push(m);
    }
    Some(out)
}

fn prop(c: &Case) -> Verdict {
    let Some(p) = parse(c) else { return Verdict::ok(false, "skip") };
    let line = imp(c);
    let Some(mine) = impl_values(&line) else { return Verdict::ok(false, "path-rejected") };
    let Some(gits) = git_run(&p) else { return Verdict::ok(false, "git-not-applicable") };
    if mine.len() != gits.len() {
        return Verdict::fail("harness", "length");
    }
    let class = gen::classify(&p);
    for (i, (a, b)) in mine.iter().zip(gits.iter()).enumerate() {
        if a != b {
            let q = &p.queries[i];
            return Verdict::fail(
                class.unwrap_or("attrs-differ-from-git"),
                format!("path={:?} dir={} gix:{} git:{}", q.0.as_bstr(), q.1, fmt_git(a), fmt_git(b)),
            );
        }
    }
    let nontrivial = gits.iter().any(|m| !m.is_empty());
    Verdict::ok(nontrivial, if nontrivial { "agree" } else { "agree-nothing-assigned" })
}

fn main() {
    main_with(Harness { gen: gen::gen, imp, prop, git: Some(git), deadline: std::time::Duration::from_secs(180) });
}
