//! generator and known-class predicate
use crate::Parsed;
use gixv_common::*;

// ------------------------------------------------------------------------------------------------
// known classes (only consulted when gix and git differ)
// ------------------------------------------------------------------------------------------------
fn is_blank(b: u8) -> bool {
    matches!(b, b' ' | b'\t' | b'\r')
}

/// git's unquote_c_style on a token that starts with `"`: Some(unquoted) or None when git falls back to the raw token
fn git_unquote(line: &[u8]) -> Option<Vec<u8>> {
    let mut out = Vec::new();
    let mut i = 1;
    loop {
        let c = *line.get(i)?;
        i += 1;
        match c {
            b'"' => return Some(out),
            b'\\' => {
                let e = *line.get(i)?;
                i += 1;
                match e {
                    b'a' => out.push(7),
                    b'b' => out.push(8),
                    b'f' => out.push(12),
                    b'n' => out.push(10),
                    b'r' => out.push(13),
                    b't' => out.push(9),
                    b'v' => out.push(11),
                    b'\\' | b'"' => out.push(e),
                    b'0'..=b'3' => {
                        let d1 = *line.get(i)?;
                        let d2 = *line.get(i + 1)?;
                        if !(b'0'..=b'7').contains(&d1) || !(b'0'..=b'7').contains(&d2) {
                            return None;
                        }
                        out.push(((e - b'0') << 6) | ((d1 - b'0') << 3) | (d2 - b'0'));
                        i += 2;
                    }
                    _ => return None,
                }
            }
            c => out.push(c),
        }
    }
}

fn line_classes(content: &[u8], fold: bool, found: &mut Vec<&'static str>) {
    for raw in content.split(|b| *b == b'\n') {
        if raw.len() >= 2048 {
            found.push("overlong-line");
        }
        let start = raw.iter().position(|b| !is_blank(*b)).unwrap_or(raw.len());
        let line = &raw[start..];
        if line.is_empty() || line[0] == b'#' {
            continue;
        }
        let pat: Vec<u8> = if line[0] == b'"' {
            match git_unquote(line) {
                None => {
                    found.push("quoted-pattern-malformed");
                    continue;
                }
                Some(p) => {
                    if p.starts_with(b"[attr]") && p[6..].iter().any(|b| is_blank(*b) || *b == b'\n') {
                        found.push("quoted-macro-with-blank");
                    }
                    p
                }
            }
        } else {
            line.iter().take_while(|b| !is_blank(**b)).copied().collect()
        };
        if !pat.is_empty() && pat.iter().all(|b| b.is_ascii_whitespace()) {
            found.push("blank-only-pattern");
        }
        let body = pat.strip_prefix(b"/").unwrap_or(&pat);
        let body = body.strip_suffix(b"/").unwrap_or(body);
        if pat.first() == Some(&b'/') || body.contains(&b'/') {
            // git's match_pathname compares the literal prefix and hands only the rest to wildmatch
            if let Some(pos) = body.iter().position(|b| matches!(b, b'*' | b'?' | b'[' | b'\\')) {
                if pos > 0 && body[pos - 1] != b'/' && body[pos..].starts_with(b"**") {
                    found.push("doublestar-after-literal-prefix");
                }
            }
        }
        if fold && pat.iter().any(|b| matches!(b, b'[' | b'\\')) {
            found.push("icase-bracket-or-escape");
        }
    }
}

pub fn classify(p: &Parsed) -> Option<&'static str> {
    let mut found = Vec::new();
    line_classes(&p.global, p.fold, &mut found);
    line_classes(&p.info, p.fold, &mut found);
    for (_, c) in &p.files {
        line_classes(c, p.fold, &mut found);
    }
    // most specific first
    for k in [
        "quoted-pattern-malformed",
        "quoted-macro-with-blank",
        "blank-only-pattern",
        "overlong-line",
        "doublestar-after-literal-prefix",
        "icase-bracket-or-escape",
    ] {
        if found.contains(&k) {
            return Some(k);
        }
    }
    None
}

// ------------------------------------------------------------------------------------------------
// case construction
// ------------------------------------------------------------------------------------------------
pub fn mk(flags: u64, global: &[u8], info: &[u8], files: &[(Vec<u8>, Vec<u8>)], queries: &[(Vec<u8>, bool)]) -> Case {
    let mut c = vec![tag("q"), num(flags), global.to_vec(), info.to_vec(), num(files.len())];
    for (d, t) in files {
        c.push(d.clone());
        c.push(t.clone());
    }
    c.push(num(queries.len()));
    for (q, d) in queries {
        c.push(q.clone());
        c.push(if *d { b"1".to_vec() } else { b"0".to_vec() });
    }
    c
}

fn v(s: &str) -> Vec<u8> {
    s.as_bytes().to_vec()
}

const ATTRS: &[&str] = &["a", "b", "c", "text", "diff", "merge", "binary", "m1", "m2", "m3"];
const PLAIN_ATTRS: &[&str] = &["a", "b", "c", "text", "diff", "merge"];
const MACROS: &[&str] = &["m1", "m2", "m3", "binary", "a"];
const COMPS: &[&str] = &["a", "b", "c", "ab", "x.c", "y.c", "A", "B", "a b", "d"];
const DIRS: &[&str] = &["a", "b", "a/b", "a/a", "a/b/c", "A", "d"];

fn attr_token(rng: &mut Rng, names: &[&str]) -> Vec<u8> {
    let n = *rng.pick(names);
    match rng.below(16) {
        0..=5 => v(n),
        6..=8 => v(&format!("-{n}")),
        9..=10 => v(&format!("!{n}")),
        11 => v(&format!("{n}=")),
        12 => v(&format!("-{n}=x")),
        _ => v(&format!("{n}={}", rng.pick(&["x", "y", "a/b", "0", "se t", "é", "set", "unset"]).replace(' ', ""))),
    }
}

fn bad_token(rng: &mut Rng) -> Vec<u8> {
    rng.pick(&[
        "-", "!", "=x", "-=x", "--a", "!-a", "!!a", "a!", "a,b", "é", "a\u{b}b", "a\u{c}", "a\u{a0}b", "-!a", "a=x\u{b}y", "a=\u{85}",
        "A.b-c_9", "9", ".", "_", "a-",
    ])
    .as_bytes()
    .to_vec()
}

fn pattern(rng: &mut Rng, fold: bool) -> Vec<u8> {
    let c = |rng: &mut Rng| rng.pick(COMPS).to_string();
    let s = match rng.below(40) {
        0..=5 => "*".to_string(),
        6..=8 => c(rng),
        9..=10 => format!("*.{}", rng.pick(&["c", "b", "C"])),
        11..=12 => format!("{}*", rng.pick(&["a", "x", "A"])),
        13..=14 => format!("/{}", c(rng)),
        15..=16 => format!("{}/{}", c(rng), c(rng)),
        17 => format!("{}/*", c(rng)),
        18 => format!("**/{}", c(rng)),
        19 => format!("{}/**", c(rng)),
        20 => format!("{}/", c(rng)),
        21 => format!("/{}/", c(rng)),
        22 => format!("{}/**/{}", c(rng), c(rng)),
        23 => "?".to_string(),
        24 => format!("{}?", rng.pick(&["a", "x.", ""])),
        25 => "[ab]".to_string(),
        26 => "[!a]*".to_string(),
        27 => format!("\\{}", rng.pick(&["!a", "#a", "a", "*"])),
        28 => format!("*/{}", c(rng)),
        29 => format!("/*/{}", c(rng)),
        30 => format!("{}/{}/{}", c(rng), c(rng), c(rng)),
        31 => "**".to_string(),
        32 => "/**".to_string(),
        33 => format!("{}/*.c", c(rng)),
        34 => "[attr]".to_string(),
        35 => format!("{}**", rng.pick(&["a", "a", "a", "x", "/a", "a/b"])),
        36 => "/".to_string(),
        37 => format!("!{}", c(rng)),
        38 => "a*b*".to_string(),
        _ => format!("/{}/*", c(rng)),
    };
    let mut p = s.into_bytes();
    if fold {
        p.retain(|b| !matches!(b, b'[' | b'\\'));
        if p.is_empty() {
            p = v("*");
        }
    }
    p
}

fn quote(p: &[u8], rng: &mut Rng) -> Vec<u8> {
    let mut o = vec![b'"'];
    for &b in p {
        match b {
            b'"' | b'\\' => {
                o.push(b'\\');
                o.push(b)
            }
            b' ' if rng.chance(1, 3) => o.extend_from_slice(b"\\040"),
            b'a' if rng.chance(1, 4) => o.extend_from_slice(b"\\141"),
            _ => o.push(b),
        }
    }
    o.push(b'"');
    o
}

fn sep(rng: &mut Rng) -> &'static str {
    *rng.pick(&[" ", " ", " ", "\t", "  ", " \t ", "\r", " \r"])
}

fn line(rng: &mut Rng, fold: bool, macros_likely: bool) -> Vec<u8> {
    let mut l = Vec::new();
    if rng.chance(1, 12) {
        l.extend_from_slice(sep(rng).as_bytes());
    }
    match rng.below(100) {
        0..=2 => return v("# comment a b"),
        3 => return v(""),
        4 => return v("   \t"),
        _ => {}
    }
    let is_macro = rng.chance(if macros_likely { 30 } else { 6 }, 100);
    if is_macro {
        let name = *rng.pick(MACROS);
        let head = match rng.below(20) {
            0 => format!("\"[attr]{name}\""),
            1 => "[attr]-bad".to_string(),
            2 => "[attr]".to_string(),
            3 => format!("[attr] {name}"),
            _ => format!("[attr]{name}"),
        };
        l.extend_from_slice(head.as_bytes());
    } else {
        let p = pattern(rng, fold);
        if p.contains(&b' ') || rng.chance(1, 10) {
            let q = quote(&p, rng);
            l.extend_from_slice(&q);
            if rng.chance(1, 8) {
                // attributes right behind the closing quote
                l.extend_from_slice(attr_token(rng, ATTRS).as_slice());
            }
        } else {
            l.extend_from_slice(&p);
        }
    }
    let n = match rng.below(10) {
        0 => 0,
        1..=4 => 1,
        5..=7 => 2,
        8 => 3,
        _ => 5,
    };
    for _ in 0..n {
        l.extend_from_slice(sep(rng).as_bytes());
        if rng.chance(1, 40) {
            l.extend_from_slice(&bad_token(rng));
        } else if is_macro {
            let names = if rng.chance(1, 3) { ATTRS } else { PLAIN_ATTRS };
            l.extend_from_slice(&attr_token(rng, names));
        } else {
            l.extend_from_slice(&attr_token(rng, ATTRS));
        }
    }
    if rng.chance(1, 10) {
        l.extend_from_slice(sep(rng).as_bytes());
    }
    l
}

fn file(rng: &mut Rng, fold: bool, macros_likely: bool, max_lines: usize) -> Vec<u8> {
    let n = rng.range(1, max_lines as i64) as usize;
    let mut f = Vec::new();
    if rng.chance(1, 30) {
        f.extend_from_slice(b"\xef\xbb\xbf");
    }
    for i in 0..n {
        f.extend_from_slice(&line(rng, fold, macros_likely));
        if i + 1 < n || rng.chance(4, 5) {
            f.extend_from_slice(if rng.chance(1, 8) { b"\r\n" } else { b"\n" });
        }
    }
    f
}

fn mutate(rng: &mut Rng, f: &mut Vec<u8>) {
    if f.is_empty() {
        return;
    }
    for _ in 0..rng.range(1, 3) {
        let i = rng.below(f.len() as u64) as usize;
        match rng.below(6) {
            0 => {
                f.remove(i);
            }
            1 => f.insert(i, *rng.pick(b" \t\r\n\"\\[]!#=-*/?a\x0b\x0c\xc2\xa0\xef")),
            2 => f[i] = *rng.pick(b" \t\r\n\"\\[]!#=-*/?ab\x0b\x0c\xff"),
            3 => f.truncate(i),
            4 => {
                let b = f[i];
                f.insert(i, b)
            }
            _ => f[i] = rng.range(1, 255) as u8,
        }
        if f.is_empty() {
            return;
        }
    }
    f.retain(|b| *b != 0);
}

fn query_paths(rng: &mut Rng, n: usize) -> Vec<(Vec<u8>, bool)> {
    let mut qs: Vec<(Vec<u8>, bool)> = Vec::new();
    let mut tries = 0;
    while qs.len() < n && tries < 100 {
        tries += 1;
        let depth = match rng.below(10) {
            0..=3 => 1,
            4..=6 => 2,
            7..=8 => 3,
            _ => 4,
        };
        let mut p = Vec::new();
        if depth > 1 && rng.chance(2, 3) {
            // below one of the directories that may carry a .gitattributes file
            p.extend_from_slice(rng.pick(DIRS).as_bytes());
        }
        let have = if p.is_empty() { 0 } else { p.split(|b| *b == b'/').count() };
        for _ in have..depth.max(have + 1) {
            if !p.is_empty() {
                p.push(b'/');
            }
            p.extend_from_slice(rng.pick(COMPS).as_bytes());
        }
        let d = rng.chance(1, 5);
        if !qs.iter().any(|(q, dd)| *q == p && *dd == d) {
            qs.push((p, d));
        }
    }
    qs
}

fn random_case(rng: &mut Rng) -> Case {
    let fold = rng.chance(1, 8);
    let mut flags = fold as u64;
    let global = if rng.chance(2, 5) { file(rng, fold, true, 4) } else { vec![] };
    let info = if rng.chance(2, 5) { file(rng, fold, true, 4) } else { vec![] };
    if info.is_empty() && rng.chance(1, 4) {
        flags |= 2;
    }
    let mut files: Vec<(Vec<u8>, Vec<u8>)> = Vec::new();
    if rng.chance(4, 5) {
        files.push((vec![], file(rng, fold, true, 6)));
    }
    for d in DIRS {
        if rng.chance(1, 4) {
            files.push((v(d), file(rng, fold, false, 4)));
        }
    }
    let mut global = global;
    let mut info = info;
    if rng.chance(1, 6) {
        // malformed stream
        match rng.below(3) {
            0 => mutate(rng, &mut global),
            1 => mutate(rng, &mut info),
            _ => {}
        }
        for f in files.iter_mut() {
            if rng.chance(1, 2) {
                mutate(rng, &mut f.1);
            }
        }
    }
    let nq = rng.range(4, 10) as usize;
    let qs = query_paths(rng, nq);
    mk(flags, &global, &info, &files, &qs)
}

fn boundary() -> Vec<Case> {
    let mut out = Vec::new();
    let q = |l: &[(&str, bool)]| l.iter().map(|(p, d)| (v(p), *d)).collect::<Vec<_>>();
    let std_q = q(&[("x", false), ("a/x", false), ("a/b/x", false), ("a", true), ("a/b", true), ("x.c", false), ("a/x.c", false)]);
    let root = |s: &str| vec![(vec![], v(s))];
    // macro expansion: every state of the macro attribute, nesting, cycles, redefinition, order on one line
    for s in [
        "* binary\n", "* -binary\n", "* !binary\n", "* binary=x\n", "* binary=\n", "* binary text\n", "* text binary\n",
        "* -text binary diff\n", "* diff binary\n", "[attr]m1 a -b c=1\n* m1\n", "[attr]m1 a -b\n* -m1\n", "[attr]m1 a -b\n* !m1\n",
        "[attr]m1 a -b\n* m1=v\n", "[attr]m1 m2 a\n[attr]m2 m1 b\n* m1\n", "[attr]m1 m2 a\n[attr]m2 m1 b\n* m2\n",
        "[attr]m1 m1 a\n* m1\n", "[attr]m1 -m1 a\n* m1\n", "[attr]m1 a\n[attr]m1 b\n* m1\n", "[attr]m1 a\n* m1\n[attr]m1 b\n",
        "[attr]m1 a b\n[attr]m1\n* m1\n", "[attr]m1 m2 -m2 a\n[attr]m2 b\n* m1\n", "[attr]m1 -m2 m2 a\n[attr]m2 b\n* m1\n",
        "[attr]m1 a\n[attr]m2 m1 -a\n* m2\n", "[attr]m1 a\n[attr]m2 -a m1\n* m2\n", "[attr]a b\n* a\n* -b\n", "[attr]a b\n* -b\n* a\n",
        "[attr]binary -diff\n* binary\n", "[attr]binary\n* binary\n", "[attr]binary diff merge text\n* binary\n",
        "[attr]m1 m2\n[attr]m2 m3\n[attr]m3 a\n* m1\n", "[attr]m1 m2\n[attr]m2 m3\n[attr]m3 a\n* m1 !m3\n", "* m1 !m3\n[attr]m1 m2\n[attr]m2 m3\n[attr]m3 a\n",
        "*.c a\n* !a b\n", "* a=1\n*.c a=2\n", "*.c a=2\n* a=1\n", "* a -a !a a=3\n", "* a=3 !a -a a\n",
    ] {
        out.push(mk(0, b"", b"", &root(s), &std_q));
        out.push(mk(0, s.as_bytes(), b"", &[], &std_q));
        out.push(mk(0, b"", s.as_bytes(), &[], &std_q));
        // macros defined below the root are not allowed
        out.push(mk(0, b"", b"", &[(v("a"), v(s))], &std_q));
    }
    // precedence of the files
    let lv = |n: &str| v(&format!("* lvl={n}\n*.c only-{n}\n[attr]m1 from-{n}\n* m1\n"));
    let names = ["global", "info", "root", "a", "a/b"];
    for mask in 0..32u32 {
        let has = |i: usize| mask & (1 << i) != 0;
        let mut files = Vec::new();
        if has(2) {
            files.push((vec![], lv("root")));
        }
        if has(3) {
            files.push((v("a"), lv("a")));
        }
        if has(4) {
            files.push((v("a/b"), lv("ab")));
        }
        let g = if has(0) { lv(names[0]) } else { vec![] };
        let i = if has(1) { lv(names[1]) } else { vec![] };
        out.push(mk(if has(1) { 0 } else { (mask as u64 & 1) << 1 }, &g, &i, &files, &std_q));
    }
    // line syntax
    for s in [
        "a x\n", "a\tx\n", "a\rx\n", " \t a x \t\r\n", "a x\r\n", "a x", "a x\r", "\"a\" x\n", "\"a\"x\n", "\"a b\" x\n", "\"a\\040b\" x\n",
        "\"\\141\" x\n", "\"a\\\\b\" x\n", "\"a\\\"b\" x\n", "\"a\\tb\" x\n", "\"a\\nb\" x\n", "\"\\377\" x\n", "\"\\400\" x\n", "\"\\08\" x\n",
        "\"a x\n", "\"a\\q\" x\n", "\" \" x\n", "\"\" x\n", "\"", "\"\"", "\"a\\", "#a x\n", " #a x\n", "\\#a x\n", "\"#a\" x\n", "!a x\n", "\\!a x\n",
        "\"!a\" x\n", "\"\\\\!a\" x\n", "[attr] x\n", "[attr]\n", "[attr]m1\n* m1\n", "[attr]-m x\n", "[attr]m=1 x\n", "\"[attr]m1\" x\n* m1\n",
        "\"[attr]m1 q\" x\n* m1\n", "[attr]m1\tx\n* m1\n", "[attr]x\n", "a -\n", "a !\n", "a =v\n", "a -=v\n", "a x -\n", "a - x\n", "a x=\n", "a x==\n",
        "a x=y=z\n", "a -x=y\n", "a !x=y\n", "a x=-y\n", "a -x -x\n", "a --x\n", "a !-x\n", "a !!x\n", "a x!\n", "a x\u{b}y\n", "a x\u{c}\n", "a\u{b}x\n",
        "a\u{c} x\n", "\u{c} x\n", "\u{b} x\n", "a x\u{a0}y\n", "a x=\u{a0}\n", "a\u{a0}x\n", "a é\n", "a x=é\n", "é x\n", "\u{feff}a x\n", "+/v8a x\n",
        "\u{feff}\u{feff}a x\n", "a x.y-z_9\n", "a .x\n", "a _\n", "a 9\n", "a x=set\n", "a x=unset\n", "a x=unspecified\n", "a x=!\n",
        "/ x\n", "// x\n", "/a x\n", "a/ x\n", "/a/ x\n", "a// x\n", "* x\n", "** x\n", "/** x\n", "**/ x\n", "/**/ x\n", "*/ x\n", "*.c x\n", "*c x\n",
        "/*.c x\n", "*/x.c x\n", "a/*.c x\n", "a/** x\n", "a/**/x x\n", "**/x x\n", "a/b x\n", "/a/b x\n", "b/x x\n", "a** x\n", "/a** x\n", "a/b** x\n",
        "a**/x x\n", "x* x\n", "?.c x\n", "[ax] x\n", "[!a] x\n", "[attr]\tx\n", "a/[b]/x x\n", "a\\/x x\n", "x\\ x\n", "\\x x\n", "\\ x\n",
        "a\n", "a \n", "\n\n a x\n\n", "a x\n\na y\n", "a x\n#\na y\n",
    ] {
        let qs = q(&[
            ("a", false), ("a", true), ("x", false), ("a/x", false), ("a/b/x", false), ("a/b", true), ("x.c", false), ("a/x.c", false), ("a b", false),
            ("a/b", false), ("b/x", false), ("a/b/x", true), ("ab/x", false), ("#a", false), ("!a", false), ("\"a", false), ("a\\b", false), ("t", false),
            ("é", false), ("\u{c}", false), (" ", false), ("a\"b", false), ("a\tb", false), ("ax", false), ("a/bc", false),
        ]);
        out.push(mk(0, b"", b"", &root(s), &qs));
        out.push(mk(0, b"", b"", &[(v("a"), v(s))], &qs));
        out.push(mk(1, b"", b"", &[(v("A"), v(s)), (v("a"), v("x from-a\n"))], &q(&[("a/x", false), ("A/x", false), ("A/a/X", false), ("a/A", true), ("A/X.C", false)])));
    }
    // git ignores lines of 2048 bytes and more (gix does not: known class)
    for n in [2046usize, 2047, 2048] {
        let mut l = vec![b'a'; 1];
        l.extend_from_slice(b" x=");
        while l.len() < n {
            l.push(b'v');
        }
        l.extend_from_slice(b"\n* y\n");
        out.push(mk(0, b"", b"", &[(vec![], l)], &q(&[("a", false)])));
    }
    // directories and files with the same name, case folding of the base
    out.push(mk(1, b"", b"", &[(v("a"), v("B/x y\nb z\n")), (v("a/B"), v("x w\n"))], &q(&[("a/B/x", false), ("a/b/x", false), ("A/B/x", false), ("a/b", true)])));
    out
}

pub fn gen(rng: &mut Rng, n: usize) -> Vec<Case> {
    let mut out = boundary();
    while out.len() < n {
        out.push(random_case(rng));
    }
    out.truncate(n.max(1));
    out
}
