From GixV.Base Require Import Bytes BytesFacts.
From GixV.C38 Require Import Glob Model Spec Proofs.
