(* C38 — Attribute values agree with git check-attr: the theorems.
   Model.v = gitoxide (gix-attributes parse/search/outcome, gix-worktree stack), Spec.v = git 2.39.5 attr.c
   (fill, fill_one, macroexpand_one, determine_macros, attr_name_valid, parse_attr).
   What is proved: for every set of attribute files, every path, directory flag and case mode, the values gitoxide
   assigns equal what git's resolution algorithm assigns over git's attribute stack, given the same parsed lines and
   the same pattern matcher (the matcher is arbitrary in [one_pattern_list_is_gits]; wildmatch itself is C36).
   Not proved here (tested against git check-attr): that the line tokenizer, unquoting, glob-pattern flags and
   path_matches/match_basename/match_pathname agree with git. *)
From GixV.Base Require Import Bytes BytesFacts.
From GixV.C38 Require Import Glob Model Spec Proofs ProofsEarly.

(* attribute names: check_attr accepts exactly what attr_name_valid accepts, for every byte string *)
Theorem attr_name_valid_is_gits : forall n, attr_valid n = g_attr_name_valid n.
Proof. exact attr_valid_is_gits. Qed.

(* one attribute token: Iter::parse_attr computes the name and state (set, unset, unspecified, value) that
   attr.c parse_attr computes, and rejects the same tokens, for every byte string *)
Theorem attr_token_is_gits : forall tok, parse_attr tok = g_parse_attr tok.
Proof. exact parse_attr_is_gits. Qed.

(* MetadataCollection: overwriting macro definitions in reading order leaves the last definition *)
Theorem macro_table_last_definition_wins : forall defs M n,
  lookup (set_all M defs) n =
  match find (keyb n) (rev defs) with Some e => snd e | None => lookup M n end.
Proof. exact lookup_set_all. Qed.

(* ... which is what determine_macros finds walking git's stack from the top (info, directories, root, global,
   builtin), every file from its last line *)
Theorem macro_table_is_determine_macros : forall s, dirs_no_macros s -> forall n,
  lookup (macros_of s) n =
  match g_macro (map l_maps (search_order s)) n with Some a => a | None => [] end.
Proof. exact Proofs.macro_table_is_determine_macros. Qed.

(* Outcome::fill_attributes (explicit stack, filter at push, test at pop) never runs out of fuel and computes
   exactly fill_one/macroexpand_one (recursion), for every macro table, every assignment list and every state of
   the slots; git's recursion terminates within one level per macro definition *)
Theorem fill_attributes_is_fill_one : forall M gm (defs : list (bytes * list assignment)),
  (forall n, lookup M n = match gm n with Some a => a | None => [] end) ->
  (forall n a, gm n = Some a -> exists e, In e defs /\ bytes_eqb (fst e) n = true) ->
  forall attrs o,
  exists o', fill_attributes M attrs o = Some o' /\
             g_fill_one (S (length defs)) gm (rev attrs) o = Some o'.
Proof. exact fill_is_fill_one. Qed.

(* the stack machine terminates with the fuel the model gives it, whatever the table (also cyclic macros) *)
Theorem fill_attributes_terminates : forall M attrs o, fill_attributes M attrs o <> None.
Proof. exact fill_terminates. Qed.

(* one pattern list, for EVERY matcher: skipping lines whose attributes are all decided
   (has_unspecified_attributes) and the per-attribute first match = git's loop over stack->attrs[] *)
Theorem one_pattern_list_is_gits : forall M gm (defs : list (bytes * list assignment)),
  (forall n, lookup M n = match gm n with Some a => a | None => [] end) ->
  (forall n a, gm n = Some a -> exists e, In e defs /\ bytes_eqb (fst e) n = true) ->
  forall matchf rmaps o,
  exists o', search_maps matchf M rmaps o = Some o' /\
             g_fill_maps (S (length defs)) matchf gm rmaps o = Some o'.
Proof. exact search_maps_is_fill. Qed.

(* the property, modulo the shared parser and matcher: for all files, paths and modes the slots filled by
   gix_worktree's stack (with the collection's macro table) are the values git's fill() computes over its stack
   with determine_macros *)
Theorem attrs_is_git_partial : forall global info files cf path isdir,
  exists o, matching_attributes global info files cf path isdir = Some o /\
            git_attrs global info files cf path isdir = Some o.
Proof. exact matching_attributes_is_git. Qed.

(* the early exits of gix (Outcome::remaining reaching 0: `return true` in fill_attributes, `break 'outer`,
   `out.is_done()`): for every set [u] of names known to the collection that contains the names used in macros and
   in the lines of the list, stopping early returns exactly what running to the end returns *)
Theorem early_exit_in_fill_changes_nothing : forall u M,
  (forall n a, In a (lookup M n) -> In (fst a) u) ->
  forall attrs o, (forall a, In a attrs -> In (fst a) u) ->
  fill_attributes_early u M attrs o = fill_attributes M attrs o.
Proof. exact fill_early_eq. Qed.

Theorem early_exit_in_list_changes_nothing : forall u M,
  (forall n a, In a (lookup M n) -> In (fst a) u) ->
  forall matchf rmaps o, maps_known u rmaps ->
  search_maps_early u matchf M rmaps o = search_maps matchf M rmaps o.
Proof. exact search_maps_early_eq. Qed.

(* ---- non-vacuity ------------------------------------------------------------------------------------ *)
(* `* binary` expands the builtin macro; `-binary` and `binary=x` do not (git: value must be ATTR__TRUE) *)
Example binary_set_expands :
  matching_attributes [] [] [([], bs "* binary")] false (bs "x") false
  = Some [(bs "diff", SUnset); (bs "merge", SUnset); (bs "text", SUnset); (bs "binary", SSet)].
Proof. vm_compute. reflexivity. Qed.
Example binary_unset_does_not_expand :
  matching_attributes [] [] [([], bs "* -binary")] false (bs "x") false = Some [(bs "binary", SUnset)].
Proof. vm_compute. reflexivity. Qed.
(* info/attributes wins over the innermost directory; a redefined macro uses its last definition; cycles end *)
Example info_wins_and_cycles_end :
  matching_attributes (bs "[attr]m1 m2 a") (bs "a/* b=info")
    [([], bs "[attr]m2 m1 c" ++ [x0a] ++ bs "* m1"); (bs "a", bs "* b=dir")] false (bs "a/x") false
  = Some [(bs "c", SSet); (bs "m2", SSet); (bs "a", SSet); (bs "m1", SSet); (bs "b", SValue (bs "info"))].
Proof. vm_compute. reflexivity. Qed.
Example hypotheses_satisfiable :
  let s := make_setup (bs "[attr]m1 a") [] [([], bs "[attr]m1 b")] (bs "x") in
  dirs_no_macros s /\ lookup (macros_of s) (bs "m1") = [(bs "b", SSet)].
Proof. split; [apply make_setup_no_macros | vm_compute; reflexivity]. Qed.
Example tokens_examples :
  parse_attr (bs "-a=b") = Some (bs "a", SUnset) /\ parse_attr (bs "a=") = Some (bs "a", SValue []) /\
  parse_attr (bs "!") = None /\ parse_attr (bs "=v") = None /\ parse_attr (bs "a=b=c") = Some (bs "a", SValue (bs "b=c")).
Proof. vm_compute. repeat split; reflexivity. Qed.
Example early_exit_taken :
  let M := [(bs "m", [(bs "a", SSet); (bs "b", SUnset)])] in
  let u := [bs "m"; bs "a"; bs "b"] in
  (forall n a, In a (lookup M n) -> In (fst a) u) /\
  fill_attributes_early u M [(bs "b", SSet); (bs "m", SSet)] [] = Some [(bs "a", SSet); (bs "b", SUnset); (bs "m", SSet)].
Proof.
  split; [|vm_compute; reflexivity].
  intros n a H. cbn [lookup] in H. destruct (bytes_eqb (bs "m") n); [|destruct H].
  destruct H as [<- | [<- | []]]; cbn; auto.
Qed.
