(* C38 — transcript printer.
   case:  q <flags> <global> <info> <nfiles> (<dir> <content>)* <nqueries> (<path> <isdir>)*
          flags bit0 = case folding
   model: per query `m<0|1>{ name=<S|U|!|V hex>}` (sorted by name), joined by `;`; HANG when the fuel of the
          fill loop runs out (Properties: it never does)
   spec:  per query `{ name=<S|U|V hex>}`: git's fill/fill_one/macroexpand_one/determine_macros (Spec.v) over git's
          attribute stack (info, directories innermost first, root, core.attributesFile, builtin), with the lines and
          pattern matches of the model. *)
From GixV.Base Require Import Bytes Outcome.
From GixV.C38 Require Import Glob Model Spec.

Fixpoint take_pairs (n : nat) (fs : list bytes) : list (bytes * bytes) * list bytes :=
  match n with
  | O => ([], fs)
  | S n' => match fs with
            | a :: b :: r => let '(ps, rest) := take_pairs n' r in ((a, b) :: ps, rest)
            | _ => ([], [])
            end
  end.

Definition dec_nat (b : bytes) : nat := match dec_to_N b with Some v => N.to_nat v | None => O end.

Fixpoint insert_sorted (a : assignment) (l : list assignment) : list assignment :=
  match l with
  | [] => [a]
  | b :: r => match bytes_cmp (fst a) (fst b) with
              | Gt => b :: insert_sorted a r
              | _ => a :: l
              end
  end.
Definition sort_filled (o : filled) : list assignment := fold_right insert_sorted [] o.

Definition show_state (s : state) : bytes :=
  match s with
  | SSet => bs "S" | SUnset => bs "U" | SUnspecified => bs "!"
  | SValue v => bs "V" ++ hex_encode v
  end.
Definition show_filled (o : filled) : bytes :=
  flat_map (fun a => bs " " ++ fst a ++ bs "=" ++ show_state (snd a)) (sort_filled o).

Fixpoint join_semi (ls : list bytes) : bytes :=
  match ls with
  | [] => []
  | [x] => x
  | x :: r => x ++ bs ";" ++ join_semi r
  end.

Definition is_one (b : bytes) : bool := bytes_eqb b (bs "1").

Definition model_query (global info : bytes) (files : list (bytes * bytes)) (cf : bool) (q : bytes * bytes) : bytes :=
  match matching_attributes global info files cf (fst q) (is_one (snd q)) with
  | None => bs "HANG"
  | Some o => bs "m" ++ bool_to_bytes (negb (is_nil o)) ++ show_filled o
  end.

(* what check-attr prints: a value spelled like a state cannot be told from the state *)
Definition git_view (a : assignment) : option assignment :=
  match snd a with
  | SUnspecified => None
  | SValue v => if bytes_eqb v (bs "set") then Some (fst a, SSet)
                else if bytes_eqb v (bs "unset") then Some (fst a, SUnset)
                else if bytes_eqb v (bs "unspecified") then None
                else Some a
  | _ => Some a
  end.
Definition git_filter (o : filled) : filled :=
  flat_map (fun a => match git_view a with Some b => [b] | None => [] end) o.

Definition spec_query (global info : bytes) (files : list (bytes * bytes)) (cf : bool) (q : bytes * bytes) : bytes :=
  match git_attrs global info files cf (fst q) (is_one (snd q)) with
  | None => bs "HANG"
  | Some o => show_filled (git_filter o)
  end.

Definition run (fs : list bytes) : bytes :=
  match fs with
  | mode :: rest =>
      if bytes_eqb (nth_field 0 rest) (bs "q") then
        let cf := N.odd (field_N 1 rest) in
        let global := nth_field 2 rest in
        let info := nth_field 3 rest in
        let nfiles := dec_nat (nth_field 4 rest) in
        let '(files, rest1) := take_pairs nfiles (skipn 5 rest) in
        match rest1 with
        | nq :: rest2 =>
            let '(queries, _) := take_pairs (dec_nat nq) rest2 in
            join_semi (map (if bytes_eqb mode (bs "spec")
                            then spec_query global info files cf
                            else model_query global info files cf) queries)
        | [] => bs "?"
        end
      else bs "skip"
  | [] => bs "?"
  end.
