(* C38 — specification: git 2.39.5 attr.c, the part that decides the value of every attribute once the
   attribute stack is built and the patterns are matched:

     static int fill_one(const char *what, struct all_attrs_item *all_attrs, const struct match_attr *a, int rem)
     {   for (i = a->num_attr - 1; rem > 0 && i >= 0; i--) {
             const struct git_attr *attr = a->state[i].attr;
             const char **n = & (all_attrs[attr->attr_nr].value);
             const char *v = a->state[i].setto;
             if ( *n == ATTR__UNKNOWN ) { *n = v; rem--; rem = macroexpand_one(all_attrs, attr->attr_nr, rem); }
         }
         return rem; }
     static int macroexpand_one(struct all_attrs_item *all_attrs, int nr, int rem)
     {   const struct all_attrs_item *item = &all_attrs[nr];
         if (item->macro && item->value == ATTR__TRUE) return fill_one("expand", all_attrs, item->macro, rem);
         else return rem; }
     static int fill(path, pathlen, basename_offset, stack, all_attrs, rem)
     {   for (; rem > 0 && stack; stack = stack->prev)
             for (i = stack->num_matches - 1; 0 < rem && 0 <= i; i--) {
                 const struct match_attr *a = stack->attrs[i];
                 if (a->is_macro) continue;
                 if (path_matches(path, pathlen, basename_offset, &a->u.pat, base, stack->originlen))
                     rem = fill_one("fill", all_attrs, a, rem); }
         return rem; }
     static void determine_macros(all_attrs, stack)
     {   for (; stack; stack = stack->prev)
             for (i = stack->num_matches - 1; i >= 0; i--) {
                 const struct match_attr *ma = stack->attrs[i];
                 if (ma->is_macro) { int n = ma->u.attr->attr_nr; if (!all_attrs[n].macro) all_attrs[n].macro = ma; } } }

   `all_attrs[].value` is the association list [filled] (ATTR__UNKNOWN = absent; ATTR__UNSET, the `!attr` state, is a
   value like the others).  `rem` only ends loops early when nothing is ATTR__UNKNOWN any more, where the loops
   cannot change anything; it is left out.  Attribute numbers are the interned names.
   Also: attr_name_valid() and the state part of parse_attr().  No proofs in this file. *)
From GixV.Base Require Import Bytes.
From GixV.C38 Require Import Glob Model.
Local Open Scope N_scope.

(* determine_macros: the stack from the top, every file from its last line: the first definition found *)
Definition macro_defs (ms : list mapping) : list (bytes * list assignment) :=
  flat_map (fun m => match m with MMacro n a => [(n, a)] | MPat _ _ => [] end) ms.
(* [stack_top_first]: the match_attr lists of the stack, top first, each in file order *)
Definition g_macro (stack_top_first : list (list mapping)) (n : bytes) : option (list assignment) :=
  option_map snd
    (find (fun e => bytes_eqb (fst e) n)
          (flat_map (fun ms => rev (macro_defs ms)) stack_top_first)).

(* fill_one + macroexpand_one; [fuel] bounds the nesting of macro expansions; the list is a->state[] from
   its last element *)
Fixpoint g_fill_one (fuel : nat) (gm : bytes -> option (list assignment)) (states_rev : list assignment) (o : filled)
  {struct fuel} : option filled :=
  (fix loop (l : list assignment) (o : filled) {struct l} : option filled :=
     match l with
     | [] => Some o
     | (n, v) :: rest =>
         if is_filled o n then loop rest o
         else
           let o1 := (n, v) :: o in
           match (if is_set_state v then gm n else None) with
           | Some macro =>
               match fuel with
               | O => None
               | S f => match g_fill_one f gm (rev macro) o1 with
                        | Some o2 => loop rest o2
                        | None => None
                        end
               end
           | None => loop rest o1
           end
     end) states_rev o.

(* fill over one stack element: match_attr entries from the last, macros skipped *)
Fixpoint g_fill_maps (fuel : nat) (matchf : pattern -> bool) (gm : bytes -> option (list assignment))
         (rmaps : list mapping) (o : filled) : option filled :=
  match rmaps with
  | [] => Some o
  | MMacro _ _ :: r => g_fill_maps fuel matchf gm r o
  | MPat p attrs :: r =>
      if matchf p
      then match g_fill_one fuel gm (rev attrs) o with
           | Some o1 => g_fill_maps fuel matchf gm r o1
           | None => None
           end
      else g_fill_maps fuel matchf gm r o
  end.

(* fill: the stack from the top *)
Definition g_fill_list (fuel : nat) (gm : bytes -> option (list assignment)) (cf isdir : bool) (path : bytes)
           (l : plist) (o : filled) : option filled :=
  match strip_base (l_base l) cf path (basename_pos path) with
  | None => Some o
  | Some (rel, bpos) => g_fill_maps fuel (fun p => matches_rrp p rel bpos isdir cf) gm (rev (l_maps l)) o
  end.
Fixpoint g_fill (fuel : nat) (gm : bytes -> option (list assignment)) (cf isdir : bool) (path : bytes)
         (stack : list plist) (o : filled) : option filled :=
  match stack with
  | [] => Some o
  | l :: r => match g_fill_list fuel gm cf isdir path l o with
              | Some o1 => g_fill fuel gm cf isdir path r o1
              | None => None
              end
  end.

Definition git_attrs (global info : bytes) (files : list (bytes * bytes)) (cf : bool) (path : bytes) (isdir : bool)
  : option filled :=
  let s := make_setup global info files path in
  let stack := search_order s in                       (* = git's stack from the top *)
  let tops := map l_maps stack in
  let fuel := S (length (flat_map macro_defs tops)) in
  g_fill fuel (g_macro tops) cf isdir path stack [].

(* attr_name_valid *)
Definition g_name_char (ch : byte) : bool :=
  beqb ch cDASH || beqb ch cDOT || beqb ch cUNDER ||
  (N.leb 48 (b2N ch) && N.leb (b2N ch) 57) || (N.leb 97 (b2N ch) && N.leb (b2N ch) 122) ||
  (N.leb 65 (b2N ch) && N.leb (b2N ch) 90).
Definition g_attr_name_valid (name : bytes) : bool :=
  match name with
  | [] => false
  | c :: _ => if beqb c cDASH then false else forallb g_name_char name
  end.

(* parse_attr on one token (the bytes up to the next blank): equals = strchr(cp, '='), len, the `-`/`!` prefix *)
Fixpoint g_strchr_eq (l : bytes) : option (bytes * bytes) :=      (* (before '=', after '=') *)
  match l with
  | [] => None
  | c :: r => if beqb c cEQ then Some ([], r)
              else match g_strchr_eq r with Some (a, b) => Some (c :: a, b) | None => None end
  end.
Definition g_parse_attr (tok : bytes) : option assignment :=
  let name0 := match g_strchr_eq tok with Some (a, _) => a | None => tok end in
  match name0 with
  | c :: r =>
      if beqb c cDASH || beqb c cBANG
      then if g_attr_name_valid r then Some (r, if beqb c cDASH then SUnset else SUnspecified) else None
      else if g_attr_name_valid name0
           then Some (name0, match g_strchr_eq tok with Some (_, v) => SValue v | None => SSet end)
           else None
  | [] => None
  end.
