(* C38 — the early exits of gix (`remaining`, `is_done()`, `all_filled`) never change a result: when the number of
   names without a match reaches zero every attribute that can still be visited is already decided. *)
From Coq Require Import Lia Arith.
From GixV.Base Require Import Bytes BytesFacts.
From GixV.C38 Require Import Glob Model Spec Proofs.

Lemma filter_nil_all {A} (P : A -> bool) l : filter P l = [] -> forall x, In x l -> P x = false.
Proof.
  induction l as [|y l IH]; intros H x Hx; [destruct Hx|]. cbn [filter] in H.
  destruct (P y) eqn:E; [discriminate|]. destruct Hx as [<- | Hx]; [exact E | apply IH; assumption].
Qed.

Section Early.
  Variable u : list bytes.
  Variable M : mtable.
  (* the collection knows every name that occurs in a macro *)
  Hypothesis HuM : forall n a, In a (lookup M n) -> In (fst a) u.

  Lemma rem0_filled o : remaining u o = 0 -> forall n, In n u -> is_filled o n = true.
  Proof.
    unfold remaining. intros H n Hn. apply length_zero_iff_nil in H.
    pose proof (filter_nil_all _ _ H n Hn) as E. cbv beta in E. now apply Bool.negb_false_iff in E.
  Qed.

  Lemma x_noop : forall f s o r, (forall a, In a s -> is_filled o (fst a) = true) ->
    x_run f M s o = Some r -> r = o.
  Proof.
    induction f as [|f IH]; intros s o r Hs H; [discriminate|].
    destruct s as [|[n v] rest]; cbn [x_run] in H; [now injection H|].
    pose proof (Hs (n, v) (or_introl eq_refl)) as Hn. cbn [fst] in Hn. rewrite Hn in H. apply (IH rest o r); [|exact H].
    intros a Ha. apply Hs. right. exact Ha.
  Qed.

  Lemma x_early_eq : forall f s o r, (forall a, In a s -> In (fst a) u) ->
    x_run f M s o = Some r -> x_run_early f u M s o = Some r.
  Proof.
    induction f as [|f IH]; intros s o r Hs H; [discriminate|].
    destruct s as [|[n v] rest]; cbn [x_run x_run_early] in H |- *; [exact H|].
    assert (Hrest : forall a, In a rest -> In (fst a) u) by (intros a Ha; apply Hs; right; exact Ha).
    destruct (is_filled o n); [apply IH; assumption|].
    assert (Hstk : forall a, In a (rev (filter (unfilled ((n, v) :: o)) (lookup M n)) ++ rest) -> In (fst a) u).
    { intros a Ha. apply in_app_or in Ha. destruct Ha as [Ha | Ha]; [|apply Hrest, Ha].
      apply in_rev in Ha. apply filter_In in Ha. destruct Ha as [Ha _]. eapply HuM, Ha. }
    destruct (Nat.eqb (remaining u ((n, v) :: o)) 0) eqn:E0.
    - apply Nat.eqb_eq in E0. apply f_equal. symmetry.
      destruct (is_set_state v && negb (is_nil (lookup M n))).
      + apply (x_noop f _ _ _ (fun a Ha => rem0_filled _ E0 _ (Hstk a Ha)) H).
      + apply (x_noop f _ _ _ (fun a Ha => rem0_filled _ E0 _ (Hrest a Ha)) H).
    - destruct (is_set_state v && negb (is_nil (lookup M n))); apply IH; assumption.
  Qed.

  Lemma fill_early_eq attrs o : (forall a, In a attrs -> In (fst a) u) ->
    fill_attributes_early u M attrs o = fill_attributes M attrs o.
  Proof.
    intros Ha. unfold fill_attributes_early.
    destruct (fill_attributes M attrs o) as [r|] eqn:E; [|exfalso; exact (fill_terminates M attrs o E)].
    unfold fill_attributes in E. apply x_early_eq; [|exact E].
    intros a Hin. apply in_rev in Hin. apply filter_In in Hin. apply Ha, Hin.
  Qed.

  Definition maps_known (rmaps : list mapping) : Prop :=
    forall p attrs, In (MPat p attrs) rmaps -> forall a, In a attrs -> In (fst a) u.

  Lemma search_noop matchf : forall rmaps o, maps_known rmaps -> remaining u o = 0 ->
    search_maps matchf M rmaps o = Some o.
  Proof.
    induction rmaps as [|m rmaps IH]; intros o Hk H0; [reflexivity|].
    assert (Hk' : maps_known rmaps) by (intros p attrs Hin; apply (Hk p attrs); right; exact Hin).
    destruct m as [n a|p attrs]; cbn [search_maps]; [apply IH; assumption|].
    assert (E : has_unspecified o attrs = false).
    { unfold has_unspecified. apply Bool.not_true_is_false. intros Hx. apply existsb_exists in Hx.
      destruct Hx as [a [Ha Hu]]. unfold unfilled in Hu.
      rewrite (rem0_filled o H0 _ (Hk p attrs (or_introl eq_refl) a Ha)) in Hu. discriminate. }
    rewrite E. cbn [andb]. apply IH; assumption.
  Qed.

  Lemma search_maps_early_eq matchf : forall rmaps o, maps_known rmaps ->
    search_maps_early u matchf M rmaps o = search_maps matchf M rmaps o.
  Proof.
    induction rmaps as [|m rmaps IH]; intros o Hk; [reflexivity|].
    assert (Hk' : maps_known rmaps) by (intros p attrs Hin; apply (Hk p attrs); right; exact Hin).
    destruct m as [n a|p attrs]; cbn [search_maps search_maps_early]; [apply IH; assumption|].
    destruct (has_unspecified o attrs && matchf p); [|apply IH; assumption].
    rewrite fill_early_eq by (apply (Hk p attrs); left; reflexivity).
    destruct (fill_attributes M attrs o) as [o1|]; [|reflexivity].
    destruct (Nat.eqb (remaining u o1) 0) eqn:E0; [|apply IH; assumption].
    apply Nat.eqb_eq in E0. symmetry. apply search_noop; assumption.
  Qed.
End Early.
