(* C38 — lemmas.
     1. attribute names and tokens: check_attr = attr_name_valid, Iter::parse_attr = parse_attr of attr.c
     2. the macro table: overwriting in reading order = determine_macros (first definition found from the top)
     3. fill_attributes (explicit stack) = fill_one/macroexpand_one (recursion): simulation, monotonicity,
        termination of both with the fuel the executable definitions use
     4. one pattern list, the whole stack, matching_attributes = git_attrs *)
From Coq Require Import Lia Arith.
From GixV.Base Require Import Bytes BytesFacts.
From GixV.C38 Require Import Glob Model Spec.

(* ---- 1. names and tokens ------------------------------------------------------------------------------ *)
Lemma name_byte_is_gits : forall b, Bool.eqb (name_byte b) (g_name_char b) = true.
Proof. apply forall_bytes. vm_compute. reflexivity. Qed.

Lemma name_byte_eq b : name_byte b = g_name_char b.
Proof. apply Bool.eqb_prop. apply name_byte_is_gits. Qed.

Lemma forallb_name l : forallb name_byte l = forallb g_name_char l.
Proof. induction l as [|b l IH]; [reflexivity|]. cbn [forallb]. now rewrite IH, name_byte_eq. Qed.

Lemma attr_valid_is_gits n : attr_valid n = g_attr_name_valid n.
Proof.
  destruct n as [|c r]; [reflexivity|]. unfold attr_valid, g_attr_name_valid.
  rewrite forallb_name. destruct (beqb c cDASH); reflexivity.
Qed.

Lemma split_eq_strchr tok :
  split_eq tok = match g_strchr_eq tok with Some (a, v) => (a, Some v) | None => (tok, None) end.
Proof.
  induction tok as [|c r IH]; [reflexivity|]. cbn [split_eq g_strchr_eq].
  destruct (beqb c cEQ); [reflexivity|]. rewrite IH.
  destruct (g_strchr_eq r) as [[a v]|]; reflexivity.
Qed.

Lemma parse_attr_is_gits tok : parse_attr tok = g_parse_attr tok.
Proof.
  unfold parse_attr, g_parse_attr. rewrite split_eq_strchr.
  destruct (g_strchr_eq tok) as [[a v]|].
  - destruct a as [|c r].
    + reflexivity.
    + destruct (beqb c cDASH) eqn:Ed; cbn [orb].
      * rewrite attr_valid_is_gits. reflexivity.
      * destruct (beqb c cBANG) eqn:Eb; rewrite attr_valid_is_gits; reflexivity.
  - destruct tok as [|c r].
    + reflexivity.
    + destruct (beqb c cDASH) eqn:Ed; cbn [orb].
      * rewrite attr_valid_is_gits. reflexivity.
      * destruct (beqb c cBANG) eqn:Eb; rewrite attr_valid_is_gits; reflexivity.
Qed.

(* ---- 2. macro table ---------------------------------------------------------------------------------- *)
Definition keyb (n : bytes) (e : bytes * list assignment) : bool := bytes_eqb (fst e) n.

Lemma bytes_eqb_refl a : bytes_eqb a a = true.
Proof. apply bytes_eqb_eq. reflexivity. Qed.

Lemma bytes_eqb_trans_l k n m : bytes_eqb k n = true -> bytes_eqb k m = bytes_eqb n m.
Proof. intros H. apply bytes_eqb_eq in H. now subst. Qed.

Lemma lookup_set_same M n a : lookup (set_macro M n a) n = a.
Proof.
  induction M as [|[k v] M IH]; cbn [set_macro lookup].
  - now rewrite bytes_eqb_refl.
  - destruct (bytes_eqb k n) eqn:E; cbn [lookup]; rewrite E; [reflexivity | exact IH].
Qed.

Lemma lookup_set_other M n a m : bytes_eqb n m = false -> lookup (set_macro M n a) m = lookup M m.
Proof.
  intros Hne. induction M as [|[k v] M IH]; cbn [set_macro lookup].
  - now rewrite Hne.
  - destruct (bytes_eqb k n) eqn:E; cbn [lookup].
    + rewrite (bytes_eqb_trans_l _ _ m E), Hne. reflexivity.
    + destruct (bytes_eqb k m); [reflexivity | exact IH].
Qed.

Lemma find_app' {A} (f : A -> bool) l1 l2 :
  find f (l1 ++ l2) = match find f l1 with Some x => Some x | None => find f l2 end.
Proof. induction l1 as [|x l1 IH]; [reflexivity|]. cbn [app find]. destruct (f x); [reflexivity | exact IH]. Qed.

(* the table after reading the definitions [defs] (in reading order) on top of [M] *)
Definition set_all (M : mtable) (defs : list (bytes * list assignment)) : mtable :=
  fold_left (fun M e => set_macro M (fst e) (snd e)) defs M.

Lemma lookup_set_all defs : forall M n,
  lookup (set_all M defs) n =
  match find (keyb n) (rev defs) with Some e => snd e | None => lookup M n end.
Proof.
  induction defs as [|[k a] defs IH]; intros M n; [reflexivity|].
  cbn [set_all fold_left fst snd]. fold (set_all (set_macro M k a) defs). rewrite IH.
  cbn [rev]. rewrite find_app'.
  destruct (find (keyb n) (rev defs)) as [e|]; [reflexivity|].
  cbn [find keyb fst]. unfold keyb at 1. cbn [fst].
  destruct (bytes_eqb k n) eqn:E.
  - apply bytes_eqb_eq in E. subst. cbn [snd]. apply lookup_set_same.
  - apply lookup_set_other. exact E.
Qed.

Lemma update_is_set_all ms : forall M, update_from_maps M ms = set_all M (macro_defs ms).
Proof.
  induction ms as [|m ms IH]; intros M; [reflexivity|].
  unfold update_from_maps. cbn [fold_left]. fold (update_from_maps (match m with MMacro n a => set_macro M n a | MPat _ _ => M end) ms).
  rewrite IH. destruct m as [n a|p a]; reflexivity.
Qed.

Lemma set_all_app M d1 d2 : set_all M (d1 ++ d2) = set_all (set_all M d1) d2.
Proof. unfold set_all. apply fold_left_app. Qed.

(* ---- 3. fill ------------------------------------------------------------------------------------------ *)
Definition sub (o o' : filled) : Prop := forall n, is_filled o n = true -> is_filled o' n = true.

Lemma sub_refl o : sub o o.
Proof. intros n H. exact H. Qed.
Lemma sub_trans a b c : sub a b -> sub b c -> sub a c.
Proof. intros H1 H2 n H. apply H2, H1, H. Qed.
Lemma is_filled_cons o n v m : is_filled ((n, v) :: o) m = bytes_eqb n m || is_filled o m.
Proof. reflexivity. Qed.
Lemma sub_cons o n v : sub o ((n, v) :: o).
Proof. intros m H. rewrite is_filled_cons, H. apply Bool.orb_true_r. Qed.

Lemma g_nil fuel gm o : g_fill_one fuel gm [] o = Some o.
Proof. destruct fuel; reflexivity. Qed.
Lemma g_cons fuel gm n v rest o :
  g_fill_one fuel gm ((n, v) :: rest) o =
  if is_filled o n then g_fill_one fuel gm rest o
  else match (if is_set_state v then gm n else None) with
       | Some macro =>
           match fuel with
           | O => None
           | S f => match g_fill_one f gm (rev macro) ((n, v) :: o) with
                    | Some o2 => g_fill_one fuel gm rest o2
                    | None => None
                    end
           end
       | None => g_fill_one fuel gm rest ((n, v) :: o)
       end.
Proof. destruct fuel; reflexivity. Qed.

Lemma g_sub gm : forall fg l o o', g_fill_one fg gm l o = Some o' -> sub o o'.
Proof.
  intros fg. induction fg as [fg IHf] using lt_wf_ind.
  intros l. induction l as [|[n v] l IHl]; intros o o' Hg.
  - rewrite g_nil in Hg. injection Hg as <-. apply sub_refl.
  - rewrite g_cons in Hg. destruct (is_filled o n).
    + eapply IHl, Hg.
    + destruct (if is_set_state v then gm n else None) as [macro|].
      * destruct fg as [|f]; [discriminate|].
        destruct (g_fill_one f gm (rev macro) ((n, v) :: o)) as [o2|] eqn:E2; [|discriminate].
        eapply sub_trans; [apply sub_cons|]. eapply sub_trans; [eapply (IHf f); [lia | exact E2]|].
        eapply IHl, Hg.
      * eapply sub_trans; [apply sub_cons|]. eapply IHl, Hg.
Qed.

Lemma x_mono M : forall f s o r, x_run f M s o = Some r -> forall f', f <= f' -> x_run f' M s o = Some r.
Proof.
  induction f as [|f IH]; intros s o r H f' Hle; [discriminate|].
  destruct f' as [|f']; [lia|]. cbn [x_run] in H |- *.
  destruct s as [|[n v] rest]; [exact H|].
  destruct (is_filled o n); [apply (IH _ _ _ H); lia|].
  destruct (is_set_state v && negb (is_nil (lookup M n))); apply (IH _ _ _ H); lia.
Qed.

Lemma filter_rev {A} (P : A -> bool) l : rev (filter P l) = filter P (rev l).
Proof.
  induction l as [|x l IH]; [reflexivity|]. cbn [filter rev]. rewrite filter_app. cbn [filter].
  destruct (P x); cbn [rev]; rewrite IH; [reflexivity | now rewrite app_nil_r].
Qed.

Section Fill.
  Variable M : mtable.
  Variable gm : bytes -> option (list assignment).
  Hypothesis HM : forall n, lookup M n = match gm n with Some a => a | None => [] end.

  Lemma x_step f n v rest o :
    x_run (S f) M ((n, v) :: rest) o =
    if is_filled o n then x_run f M rest o
    else if is_set_state v && negb (is_nil (lookup M n))
         then x_run f M (rev (filter (unfilled ((n, v) :: o)) (lookup M n)) ++ rest) ((n, v) :: o)
         else x_run f M rest ((n, v) :: o).
  Proof. reflexivity. Qed.

  (* the recursion of git, run as the stack machine of gix: the items still to be visited are on the stack,
     filtered by an older state [op] of the slots *)
  Lemma sim : forall fg l o o', g_fill_one fg gm l o = Some o' ->
    forall op rest, sub op o ->
    exists k, forall f r, x_run f M rest o' = Some r ->
                          x_run (k + f) M (filter (unfilled op) l ++ rest) o = Some r.
  Proof.
    intros fg. induction fg as [fg IHf] using lt_wf_ind.
    intros l. induction l as [|[n v] l IHl]; intros o o' Hg op rest Hsub.
    - rewrite g_nil in Hg. injection Hg as <-. exists O. intros f r H. exact H.
    - rewrite g_cons in Hg. cbn [filter]. unfold unfilled at 1. cbn [fst].
      destruct (is_filled o n) eqn:Eo.
      + destruct (IHl _ _ Hg op rest Hsub) as [k Hk].
        destruct (is_filled op n); cbn [negb].
        * exists k. exact Hk.
        * exists (S k). intros f r H. change (S k + f) with (S (k + f)). cbn [app].
          rewrite x_step, Eo. apply Hk, H.
      + assert (Eop : is_filled op n = false).
        { destruct (is_filled op n) eqn:E; [|reflexivity]. apply Hsub in E. congruence. }
        rewrite Eop. cbn [negb app].
        pose proof (HM n) as Hn.
        destruct (is_set_state v) eqn:Ev; cbn [andb].
        * destruct (gm n) as [macro|] eqn:Eg.
          -- destruct fg as [|fg']; [discriminate|].
             destruct (g_fill_one fg' gm (rev macro) ((n, v) :: o)) as [o2|] eqn:E2; [|discriminate].
             assert (S1 : sub op o2).
             { eapply sub_trans; [exact Hsub|]. eapply sub_trans; [apply sub_cons|]. eapply g_sub, E2. }
             destruct (IHl _ _ Hg op rest S1) as [k2 Hk2].
             destruct (IHf fg' ltac:(lia) _ _ _ E2 ((n, v) :: o) (filter (unfilled op) l ++ rest) (sub_refl _))
               as [k1 Hk1].
             exists (S (k1 + k2)). intros f r H.
             change (S (k1 + k2) + f) with (S (k1 + k2 + f)). rewrite x_step, Eo, Ev. cbn [andb].
             rewrite Hn. destruct macro as [|a macro'].
             ++ cbn [is_nil negb]. cbn [rev g_fill_one] in E2. rewrite g_nil in E2. injection E2 as <-.
                apply (x_mono M (k2 + f)); [apply Hk2, H | lia].
             ++ cbn [is_nil negb]. rewrite filter_rev. rewrite <- Nat.add_assoc. apply Hk1, Hk2, H.
          -- destruct (IHl _ _ Hg op rest (sub_trans _ _ _ Hsub (sub_cons o n v))) as [k Hk].
             exists (S k). intros f r H. change (S k + f) with (S (k + f)). rewrite x_step, Eo, Ev. cbn [andb].
             rewrite Hn. cbn [is_nil negb]. apply Hk, H.
        * destruct (IHl _ _ Hg op rest (sub_trans _ _ _ Hsub (sub_cons o n v))) as [k Hk].
          exists (S k). intros f r H. change (S k + f) with (S (k + f)). rewrite x_step, Eo, Ev. cbn [andb].
          apply Hk, H.
  Qed.
End Fill.

(* ---- termination of the stack machine --------------------------------------------------------------- *)
Section Weight.
  Variable M : mtable.
  Definition w (M' : mtable) (o : filled) : nat :=
    fold_right (fun e acc => ((if is_filled o (fst e) then 0 else length (lookup M (fst e))) + acc)%nat) O M'.

  Lemma w_le M' o n v : w M' ((n, v) :: o) <= w M' o.
  Proof.
    induction M' as [|e M' IH]; [apply le_n|]. cbn [w fold_right]. fold (w M' ((n, v) :: o)). fold (w M' o).
    rewrite is_filled_cons. destruct (bytes_eqb n (fst e)); cbn [orb]; destruct (is_filled o (fst e)); lia.
  Qed.

  Lemma w_drop M' o n v : is_filled o n = false ->
    (exists e, In e M' /\ bytes_eqb (fst e) n = true) ->
    w M' ((n, v) :: o) + length (lookup M n) <= w M' o.
  Proof.
    intros Hn. induction M' as [|e M' IH]; intros [e0 [Hin He0]]; [destruct Hin|].
    cbn [w fold_right]. fold (w M' ((n, v) :: o)). fold (w M' o). rewrite is_filled_cons.
    destruct (bytes_eqb (fst e) n) eqn:E.
    - apply bytes_eqb_eq in E. rewrite E, bytes_eqb_refl, Hn. cbn [orb]. pose proof (w_le M' o n v). lia.
    - destruct Hin as [-> | Hin]; [congruence|].
      specialize (IH (ex_intro _ e0 (conj Hin He0))).
      destruct (bytes_eqb n (fst e)); cbn [orb]; destruct (is_filled o (fst e)); lia.
  Qed.

  Lemma lookup_in M' n : lookup M' n <> [] -> exists e, In e M' /\ bytes_eqb (fst e) n = true.
  Proof.
    induction M' as [|[k a] M' IH]; cbn [lookup]; [congruence|].
    destruct (bytes_eqb k n) eqn:E; intros H.
    - exists (k, a). split; [left; reflexivity | exact E].
    - destruct (IH H) as [e [Hin He]]. exists e. split; [right; exact Hin | exact He].
  Qed.

  Lemma w_table M' o : w M' o <= fold_right (fun e acc => (length (lookup M (fst e)) + acc)%nat) O M'.
  Proof.
    induction M' as [|e M' IH]; [apply le_n|]. cbn [w fold_right]. fold (w M' o).
    destruct (is_filled o (fst e)); lia.
  Qed.

  Lemma filter_length_le {A} (P : A -> bool) l : length (filter P l) <= length l.
  Proof. induction l as [|x l IH]; [apply le_n|]. cbn [filter]. destruct (P x); cbn [length]; lia. Qed.

  Lemma x_total : forall f s o, length s + w M o < f -> exists r, x_run f M s o = Some r.
  Proof.
    induction f as [|f IH]; intros s o H; [lia|].
    destruct s as [|[n v] rest]; [eexists; reflexivity|].
    cbn [length] in H. cbn [x_run].
    destruct (is_filled o n) eqn:Eo.
    - apply IH. lia.
    - destruct (is_set_state v && negb (is_nil (lookup M n))) eqn:Ex.
      + apply IH. rewrite app_length, rev_length.
        pose proof (filter_length_le (unfilled ((n, v) :: o)) (lookup M n)).
        assert (Hne : lookup M n <> []).
        { apply Bool.andb_true_iff in Ex. destruct Ex as [_ Ex]. destruct (lookup M n); [discriminate|congruence]. }
        pose proof (w_drop M o n v Eo (lookup_in M n Hne)). lia.
      + apply IH. pose proof (w_le M o n v). lia.
  Qed.
End Weight.

(* ---- termination of git's recursion ------------------------------------------------------------------- *)
Section Count.
  Variable defs : list (bytes * list assignment).
  Definition cnt (o : filled) : nat := length (filter (fun e => negb (is_filled o (fst e))) defs).

  Lemma cnt_sub_gen (d : list (bytes * list assignment)) o o' : sub o o' ->
    length (filter (fun e => negb (is_filled o' (fst e))) d) <= length (filter (fun e => negb (is_filled o (fst e))) d).
  Proof.
    intros Hs. induction d as [|e d IH]; [apply le_n|]. cbn [filter].
    destruct (is_filled o (fst e)) eqn:E.
    - rewrite (Hs _ E). exact IH.
    - cbn [negb]. destruct (is_filled o' (fst e)); cbn [negb length]; lia.
  Qed.

  Lemma cnt_drop_gen (d : list (bytes * list assignment)) o n v : is_filled o n = false ->
    (exists e, In e d /\ bytes_eqb (fst e) n = true) ->
    S (length (filter (fun e => negb (is_filled ((n, v) :: o) (fst e))) d))
    <= length (filter (fun e => negb (is_filled o (fst e))) d).
  Proof.
    intros Hn. induction d as [|e d IH]; intros [e0 [Hin He0]]; [destruct Hin|].
    cbn [filter]. rewrite is_filled_cons.
    destruct (bytes_eqb (fst e) n) eqn:E.
    - apply bytes_eqb_eq in E. rewrite E, bytes_eqb_refl, Hn. cbn [orb negb length].
      pose proof (cnt_sub_gen d o ((n, v) :: o) (sub_cons o n v)). lia.
    - destruct Hin as [-> | Hin]; [congruence|].
      specialize (IH (ex_intro _ e0 (conj Hin He0))).
      destruct (bytes_eqb n (fst e)); cbn [orb]; destruct (is_filled o (fst e)); cbn [negb length]; lia.
  Qed.

  Variable gm : bytes -> option (list assignment).
  Hypothesis Hdefs : forall n a, gm n = Some a -> exists e, In e defs /\ bytes_eqb (fst e) n = true.

  Lemma g_total : forall fg l o, cnt o <= fg -> exists o', g_fill_one fg gm l o = Some o'.
  Proof.
    intros fg. induction fg as [fg IHf] using lt_wf_ind.
    intros l. induction l as [|[n v] l IHl]; intros o Hc.
    - rewrite g_nil. eexists; reflexivity.
    - rewrite g_cons. destruct (is_filled o n) eqn:Eo; [apply IHl, Hc|].
      assert (Hc1 : cnt ((n, v) :: o) <= fg).
      { pose proof (cnt_sub_gen defs o ((n, v) :: o) (sub_cons o n v)). unfold cnt in *. lia. }
      destruct (is_set_state v); [|apply IHl, Hc1].
      destruct (gm n) as [macro|] eqn:Eg; [|apply IHl, Hc1].
      pose proof (cnt_drop_gen defs o n v Eo (Hdefs _ _ Eg)) as Hd. fold (cnt ((n, v) :: o)) in Hd. fold (cnt o) in Hd.
      destruct fg as [|f]; [lia|].
      destruct (IHf f ltac:(lia) (rev macro) ((n, v) :: o) ltac:(lia)) as [o2 E2]. rewrite E2.
      apply IHl. pose proof (cnt_sub_gen defs _ _ (g_sub gm _ _ _ _ E2)). unfold cnt in *. lia.
  Qed.
End Count.

(* ---- fill_attributes = fill_one ---------------------------------------------------------------------------- *)
Section FillEq.
  Variable M : mtable.
  Variable gm : bytes -> option (list assignment).
  Variable defs : list (bytes * list assignment).
  Hypothesis HM : forall n, lookup M n = match gm n with Some a => a | None => [] end.
  Hypothesis Hdefs : forall n a, gm n = Some a -> exists e, In e defs /\ bytes_eqb (fst e) n = true.

  Lemma cnt_le_length o : cnt defs o <= length defs.
  Proof. unfold cnt. apply filter_length_le. Qed.

  Lemma fill_is_fill_one attrs o :
    exists o', fill_attributes M attrs o = Some o' /\ g_fill_one (S (length defs)) gm (rev attrs) o = Some o'.
  Proof.
    destruct (g_total defs gm Hdefs (S (length defs)) (rev attrs) o) as [o' Hg].
    { pose proof (cnt_le_length o). lia. }
    exists o'. split; [|exact Hg].
    destruct (sim M gm HM _ _ _ _ Hg o [] (sub_refl o)) as [k Hk].
    specialize (Hk 1 o' eq_refl). rewrite app_nil_r in Hk.
    unfold fill_attributes. rewrite filter_rev.
    destruct (x_total M (fill_fuel M attrs) (filter (unfilled o) (rev attrs)) o) as [r Hr].
    { unfold fill_fuel. pose proof (filter_length_le (unfilled o) (rev attrs)). rewrite rev_length in *.
      pose proof (w_table M M o). unfold table_weight. lia. }
    rewrite Hr. f_equal.
    pose proof (x_mono M _ _ _ _ Hr (fill_fuel M attrs + (k + 1)) ltac:(lia)) as H1.
    pose proof (x_mono M _ _ _ _ Hk (fill_fuel M attrs + (k + 1)) ltac:(lia)) as H2.
    congruence.
  Qed.

  Lemma g_all_filled : forall fg l o, existsb (unfilled o) l = false -> g_fill_one fg gm l o = Some o.
  Proof.
    intros fg l. induction l as [|[n v] l IH]; intros o H; [apply g_nil|].
    cbn [existsb] in H. apply Bool.orb_false_iff in H. destruct H as [H1 H2].
    unfold unfilled in H1. cbn [fst] in H1. apply Bool.negb_false_iff in H1.
    rewrite g_cons, H1. apply IH, H2.
  Qed.

  Lemma existsb_rev {A} (P : A -> bool) l : existsb P (rev l) = existsb P l.
  Proof.
    induction l as [|x l IH]; [reflexivity|]. cbn [rev existsb]. rewrite existsb_app, IH. cbn [existsb].
    rewrite Bool.orb_false_r. apply Bool.orb_comm.
  Qed.

  (* one pattern list *)
  Lemma search_maps_is_fill matchf : forall rmaps o,
    exists o', search_maps matchf M rmaps o = Some o' /\
               g_fill_maps (S (length defs)) matchf gm rmaps o = Some o'.
  Proof.
    induction rmaps as [|m rmaps IH]; intros o.
    - exists o. split; reflexivity.
    - destruct m as [n a|p attrs]; cbn [search_maps g_fill_maps]; [apply IH|].
      destruct (matchf p).
      + destruct (has_unspecified o attrs) eqn:Eh; cbn [andb].
        * destruct (fill_is_fill_one attrs o) as [o1 [H1 H2]]. rewrite H1, H2. apply IH.
        * rewrite (g_all_filled _ (rev attrs) o).
          -- apply IH.
          -- rewrite existsb_rev. exact Eh.
      + rewrite Bool.andb_false_r. apply IH.
  Qed.
End FillEq.

(* ---- 4. the whole stack ---------------------------------------------------------------------------------- *)
Section Stack.
  Variable M : mtable.
  Variable gm : bytes -> option (list assignment).
  Variable defs : list (bytes * list assignment).
  Hypothesis HM : forall n, lookup M n = match gm n with Some a => a | None => [] end.
  Hypothesis Hdefs : forall n a, gm n = Some a -> exists e, In e defs /\ bytes_eqb (fst e) n = true.

  Lemma search_list_is_fill cf isdir path l o :
    exists o', search_list M cf isdir path l o = Some o' /\
               g_fill_list (S (length defs)) gm cf isdir path l o = Some o'.
  Proof.
    unfold search_list, g_fill_list.
    destruct (strip_base (l_base l) cf path (basename_pos path)) as [[rel bpos]|].
    - apply (search_maps_is_fill M gm defs HM Hdefs).
    - exists o. split; reflexivity.
  Qed.

  Lemma search_lists_is_fill cf isdir path : forall lists o,
    exists o', search_lists M cf isdir path lists o = Some o' /\
               g_fill (S (length defs)) gm cf isdir path lists o = Some o'.
  Proof.
    induction lists as [|l lists IH]; intros o.
    - exists o. split; reflexivity.
    - cbn [search_lists g_fill]. destruct (search_list_is_fill cf isdir path l o) as [o1 [H1 H2]].
      rewrite H1, H2. apply IH.
  Qed.
End Stack.

Definition dirs_no_macros (s : setup) : Prop := forall d, In d (s_dirs s) -> macro_defs (l_maps d) = [].

Lemma macro_defs_filtered ms : macro_defs (filter (fun m => negb (is_macro_mapping m)) ms) = [].
Proof.
  induction ms as [|m ms IH]; [reflexivity|]. cbn [filter]. destruct m as [n a|p a]; cbn [is_macro_mapping negb].
  - exact IH.
  - unfold macro_defs. cbn [flat_map app]. exact IH.
Qed.

Lemma make_setup_no_macros global info files path : dirs_no_macros (make_setup global info files path).
Proof.
  intros d Hd. cbn [make_setup s_dirs] in Hd. apply in_map_iff in Hd. destruct Hd as [x [<- _]].
  destruct (find_file files x); [|reflexivity]. cbn [add_patterns l_maps]. apply macro_defs_filtered.
Qed.

Lemma flat_map_nil {A B} (f : A -> list B) l : (forall x, In x l -> f x = []) -> flat_map f l = [].
Proof.
  induction l as [|x l IH]; intros H; [reflexivity|]. cbn [flat_map]. rewrite (H x (or_introl eq_refl)).
  apply IH. intros y Hy. apply H. right. exact Hy.
Qed.

Lemma tops_defs s : dirs_no_macros s ->
  flat_map (fun ms => rev (macro_defs ms)) (map l_maps (search_order s)) =
  rev (macro_defs (l_maps (s_builtin s)) ++ macro_defs (l_maps (s_global s)) ++
       macro_defs (l_maps (s_root s)) ++ macro_defs (l_maps (s_info s))).
Proof.
  intros Hd. unfold search_order. cbn [map flat_map]. rewrite map_app, flat_map_app. cbn [map flat_map].
  rewrite (flat_map_nil _ (map l_maps (rev (s_dirs s)))).
  - rewrite !rev_app_distr, app_nil_r. cbn [app]. rewrite <- !app_assoc. reflexivity.
  - intros ms Hin. apply in_map_iff in Hin. destruct Hin as [d [<- Hin]]. apply in_rev in Hin.
    rewrite (Hd d Hin). reflexivity.
Qed.

Lemma macros_of_is_set_all s :
  macros_of s = set_all [] (macro_defs (l_maps (s_builtin s)) ++ macro_defs (l_maps (s_global s)) ++
                            macro_defs (l_maps (s_root s)) ++ macro_defs (l_maps (s_info s))).
Proof.
  unfold macros_of. cbn [fold_left]. rewrite !update_is_set_all, !set_all_app. reflexivity.
Qed.

(* the table of the collection is determine_macros *)
Lemma macro_table_is_determine_macros s : dirs_no_macros s -> forall n,
  lookup (macros_of s) n =
  match g_macro (map l_maps (search_order s)) n with Some a => a | None => [] end.
Proof.
  intros Hd n. rewrite macros_of_is_set_all, lookup_set_all. unfold g_macro. rewrite (tops_defs s Hd).
  unfold keyb. destruct (find _ _) as [e|]; reflexivity.
Qed.

Lemma g_macro_in tops n a : g_macro tops n = Some a ->
  exists e, In e (flat_map macro_defs tops) /\ bytes_eqb (fst e) n = true.
Proof.
  unfold g_macro. destruct (find _ _) as [e|] eqn:E; [|discriminate]. intros _.
  apply find_some in E. destruct E as [Hin He]. exists e. split; [|exact He].
  apply in_flat_map in Hin. destruct Hin as [ms [Hms Hin]]. apply in_flat_map. exists ms. split; [exact Hms|].
  apply in_rev. exact Hin.
Qed.

Lemma setup_attrs_are_gits s cf isdir path : dirs_no_macros s ->
  let tops := map l_maps (search_order s) in
  exists o, search_lists (macros_of s) cf isdir path (search_order s) [] = Some o /\
            g_fill (S (length (flat_map macro_defs tops))) (g_macro tops) cf isdir path (search_order s) [] = Some o.
Proof.
  intros Hd tops.
  apply (search_lists_is_fill (macros_of s) (g_macro tops) (flat_map macro_defs tops)).
  - apply macro_table_is_determine_macros, Hd.
  - apply g_macro_in.
Qed.

Lemma matching_attributes_is_git global info files cf path isdir :
  exists o, matching_attributes global info files cf path isdir = Some o /\
            git_attrs global info files cf path isdir = Some o.
Proof.
  unfold matching_attributes, git_attrs.
  apply (setup_attrs_are_gits (make_setup global info files path) cf isdir path).
  apply make_setup_no_macros.
Qed.

Lemma fill_terminates M attrs o : fill_attributes M attrs o <> None.
Proof.
  unfold fill_attributes.
  destruct (x_total M (fill_fuel M attrs) (rev (filter (unfilled o) attrs)) o) as [r Hr].
  - unfold fill_fuel. rewrite rev_length. pose proof (filter_length_le (unfilled o) attrs).
    pose proof (w_table M M o). unfold table_weight. lia.
  - rewrite Hr. discriminate.
Qed.
