(* C38 — executable model of attribute lookup in gitoxide, as the code is after the `fix:` commits listed in
   NOTES.md:
     gix-attributes/src/parse.rs            Lines / parse_line / Iter::parse_attr / check_attr
     gix-quote/src/ansi_c.rs                undo (byte-by-byte form; props/C57 proves it equal to the slice-level loop)
     gix-glob/src/parse.rs                  pattern (may_alter = true) on top of Glob.parse_pattern
     gix-glob/src/pattern.rs                Pattern::matches_repo_relative_path (Glob.pattern_matches = Pattern::matches)
     gix-glob/src/search/pattern.rs         strip_base_handle_recompute_basename_pos
     gix-attributes/src/search/attributes.rs  bytes_to_patterns, add_patterns_buffer (allow_macros), pattern_matching_relative_path
     gix-attributes/src/search/outcome.rs   MetadataCollection::id_for_macro (last definition wins), Outcome::fill_attributes
     gix-worktree/src/stack/state/attributes.rs  which lists are on the stack for a path, matching_attributes
   Abstractions: attribute ids are the attribute names (the collection interns names, an id is the position of the
   first occurrence); `Outcome::matches_by_id` is the association list [filled] of the slots that have a match (most
   recent first), `remaining` is modelled by [remaining] over an explicit universe of names (the *_early
   definitions; Properties: the early exits never change a result, so the executed path is the one without them).  No proofs in this file. *)
From GixV.Base Require Import Bytes.
From GixV.C38 Require Import Glob.
Local Open Scope N_scope.

(* ---- attribute states and assignments ------------------------------------------------------ *)
Inductive state := SSet | SUnset | SUnspecified | SValue (v : bytes).
Definition assignment : Type := bytes * state.

Definition cSP : byte := x20.
Definition cTAB : byte := x09.
Definition cCR : byte := x0d.
Definition cLF : byte := x0a.
Definition cHASH : byte := x23.
Definition cDQ : byte := x22.
Definition cEQ : byte := x3d.
Definition cUNDER : byte := x5f.
Definition cDOT : byte := x2e.

(* const BLANKS: &[u8] = b" \t\r" *)
Definition is_blank (b : byte) : bool := beqb b cSP || beqb b cTAB || beqb b cCR.

(* ---- bstr lines(): pieces end after each LF; the LF and one CR before it are stripped --------- *)
Definition strip_cr_rev (acc : bytes) : bytes :=
  match acc with c :: a => if beqb c cCR then a else acc | [] => [] end.
Fixpoint lines_aux (acc : bytes) (l : bytes) : list bytes :=
  match l with
  | [] => match acc with [] => [] | _ => [rev acc] end
  | c :: r => if beqb c cLF then rev (strip_cr_rev acc) :: lines_aux [] r else lines_aux (c :: acc) r
  end.
Definition lines (l : bytes) : list bytes := lines_aux [] l.

(* only the UTF-8 byte order mark is skipped *)
Definition skip_bom (l : bytes) : bytes :=
  match l with
  | xef :: xbb :: xbf :: r => r
  | _ => l
  end.

Fixpoint drop_blanks (l : bytes) : bytes :=
  match l with c :: r => if is_blank c then drop_blanks r else l | [] => [] end.
(* line.find_not_byteset(BLANKS).map_or(line, |pos| &line[pos..]) *)
Definition skip_blanks (l : bytes) : bytes :=
  match drop_blanks l with [] => l | d => d end.

(* ---- check_attr ---------------------------------------------------------------------------- *)
Definition name_byte (b : byte) : bool :=
  beqb b cDASH || beqb b cDOT || beqb b cUNDER || is_upper b || is_lower b || is_digit_b b.
Definition attr_valid (n : bytes) : bool :=
  match n with
  | [] => false
  | c :: _ => negb (beqb c cDASH) && forallb name_byte n
  end.

(* attr.splitn(2, '=') *)
Fixpoint split_eq (l : bytes) : bytes * option bytes :=
  match l with
  | [] => ([], None)
  | c :: r => if beqb c cEQ then ([], Some r)
              else let '(a, v) := split_eq r in (c :: a, v)
  end.

(* Iter::parse_attr: None = name::Error *)
Definition parse_attr (tok : bytes) : option assignment :=
  let '(attr, pv) := split_eq tok in
  let '(name, st) :=
    match attr with
    | c :: r => if beqb c cDASH then (r, SUnset)
                else if beqb c cBANG then (r, SUnspecified)
                else (attr, match pv with None => SSet | Some v => SValue v end)
    | [] => (attr, match pv with None => SSet | Some v => SValue v end)
    end in
  if attr_valid name then Some (name, st) else None.

(* input.split(is_blank): all pieces, also the empty ones *)
Fixpoint split_blank_aux (acc : bytes) (l : bytes) : list bytes :=
  match l with
  | [] => [rev acc]
  | c :: r => if is_blank c then rev acc :: split_blank_aux [] r else split_blank_aux (c :: acc) r
  end.
Definition tokens (l : bytes) : list bytes :=
  filter (fun t => match t with [] => false | _ => true end) (split_blank_aux [] l).

(* into_owned_assignments: None when one attribute is invalid (the line is dropped with a warning) *)
Fixpoint parse_attrs (toks : list bytes) : option (list assignment) :=
  match toks with
  | [] => Some []
  | t :: r => match parse_attr t, parse_attrs r with
              | Some a, Some l => Some (a :: l)
              | _, _ => None
              end
  end.

(* ---- gix_quote::ansi_c::undo ------------------------------------------------------------------ *)
Definition simple_escape (next : byte) : option byte :=
  if beqb next x6e then Some x0a        (* n *)
  else if beqb next x72 then Some x0d   (* r *)
  else if beqb next x74 then Some x09   (* t *)
  else if beqb next x61 then Some x07   (* a *)
  else if beqb next x62 then Some x08   (* b *)
  else if beqb next x76 then Some x0b   (* v *)
  else if beqb next x66 then Some x0c   (* f *)
  else if beqb next cDQ then Some cDQ
  else if beqb next cBSL then Some cBSL
  else None.
Definition octal_digit (b : byte) : option N :=
  if in_range 48 55 b then Some (b2N b - 48) else None.
(* the loop of undo; [out] is reversed; result = (unquoted, consumed) or None for every error *)
Fixpoint undo_loop (input : bytes) (out : bytes) (consumed : nat) : option (bytes * nat) :=
  match input with
  | [] => Some (rev out, consumed)
  | c :: r =>
      if beqb c cDQ then Some (rev out, S consumed)
      else if beqb c cBSL then
        match r with
        | [] => None
        | next :: r1 =>
            match simple_escape next with
            | Some b => undo_loop r1 (b :: out) (consumed + 2)
            | None =>
                if in_range 48 51 next then
                  match r1 with
                  | d1 :: d2 :: r2 =>
                      match octal_digit next, octal_digit d1, octal_digit d2 with
                      | Some a, Some b, Some c2 => undo_loop r2 (N2b (64 * a + 8 * b + c2) :: out) (consumed + 4)
                      | _, _, _ => None
                      end
                  | _ => None
                  end
                else None
            end
        end
      else undo_loop r (c :: out) (S consumed)
  end.
(* for an input that starts with a double quote *)
Definition undo_quoted (input : bytes) : option (bytes * nat) :=
  match input with
  | _ :: nil => None
  | _ :: r => undo_loop r [] 1
  | [] => None
  end.

(* ---- gix_glob::parse::pattern(pat, may_alter = true) ------------------------------------------ *)
(* None also stands for a NEGATIVE pattern: parse_line turns it into an error and the line is dropped *)
Definition parse_glob (pat : bytes) : option pattern :=
  match pat with
  | [] => None
  | c :: r =>
      if beqb c cBANG then None
      else if beqb c cBSL then
        match r with
        | d :: _ => if beqb d cBANG || beqb d cHASH then parse_pattern r else parse_pattern pat
        | [] => parse_pattern pat
        end
      else parse_pattern pat
  end.

(* ---- parse_line + bytes_to_patterns ---------------------------------------------------------- *)
Inductive mapping :=
| MMacro (name : bytes) (a : list assignment)
| MPat (p : pattern) (a : list assignment).

Fixpoint break_blank (l : bytes) : bytes * bytes :=
  match l with
  | [] => ([], [])
  | c :: r => if is_blank c then ([], l) else let '(a, b) := break_blank r in (c :: a, b)
  end.

Definition attr_prefix : bytes := bs "[attr]".
Fixpoint strip_prefix (pre l : bytes) : option bytes :=
  match pre, l with
  | [], _ => Some l
  | x :: pre', y :: l' => if beqb x y then strip_prefix pre' l' else None
  | _ :: _, [] => None
  end.

(* one line after skip_blanks and the comment test; None = nothing is added for this line *)
Definition parse_line (line : bytes) : option mapping :=
  match line with
  | [] => None
  | c :: _ =>
      match (if beqb c cDQ
             then match undo_quoted line with
                  | Some (unq, consumed) => Some (unq, skipn consumed line)
                  | None => None
                  end
             else Some (break_blank line)) with
      | None => None
      | Some (pat, attrs) =>
          match (match strip_prefix attr_prefix pat with
                 | Some ((_ :: _) as name) => Some name
                 | _ => None
                 end) with
          | Some name =>
              if attr_valid name
              then option_map (MMacro name) (parse_attrs (tokens attrs))
              else None
          | None =>
              match parse_glob pat with
              | None => None
              | Some p => option_map (MPat p) (parse_attrs (tokens attrs))
              end
          end
      end
  end.

Definition is_comment (l : bytes) : bool := match l with c :: _ => beqb c cHASH | [] => false end.

Fixpoint parse_lines (ls : list bytes) : list mapping :=
  match ls with
  | [] => []
  | l :: r =>
      let l1 := skip_blanks l in
      if is_comment l1 then parse_lines r
      else match parse_line l1 with
           | Some m => m :: parse_lines r
           | None => parse_lines r
           end
  end.
Definition parse_file (content : bytes) : list mapping := parse_lines (lines (skip_bom content)).

Definition is_macro_mapping (m : mapping) : bool := match m with MMacro _ _ => true | _ => false end.

(* pattern::List: base = None or the directory with a trailing slash *)
Record plist := { l_base : option bytes; l_maps : list mapping }.
(* add_patterns_buffer(bytes, source, root, collection, allow_macros) *)
Definition add_patterns (content : bytes) (base : option bytes) (allow_macros : bool) : plist :=
  let ms := parse_file content in
  {| l_base := base; l_maps := if allow_macros then ms else filter (fun m => negb (is_macro_mapping m)) ms |}.

(* ---- MetadataCollection: the macro table, last definition wins ---------------------------------- *)
Definition mtable : Type := list (bytes * list assignment).
Fixpoint lookup (M : mtable) (n : bytes) : list assignment :=
  match M with
  | [] => []
  | (k, v) :: r => if bytes_eqb k n then v else lookup r n
  end.
Fixpoint set_macro (M : mtable) (n : bytes) (a : list assignment) : mtable :=
  match M with
  | [] => [(n, a)]
  | (k, v) :: r => if bytes_eqb k n then (k, a) :: r else (k, v) :: set_macro r n a
  end.
(* update_from_list for every list, in the order the lists were read *)
Definition update_from_maps (M : mtable) (ms : list mapping) : mtable :=
  fold_left (fun M m => match m with MMacro n a => set_macro M n a | MPat _ _ => M end) ms M.

(* ---- Outcome ------------------------------------------------------------------------------------ *)
Definition filled : Type := list assignment.            (* slots with a match, most recent first *)
Definition is_filled (o : filled) (n : bytes) : bool := existsb (fun e => bytes_eqb (fst e) n) o.
Definition unfilled (o : filled) (a : assignment) : bool := negb (is_filled o (fst a)).
Definition is_set_state (s : state) : bool := match s with SSet => true | _ => false end.
Definition is_nil {A} (l : list A) : bool := match l with [] => true | _ => false end.

(* the `while let Some(..) = self.attrs_stack.pop()` loop of fill_attributes; head of [stk] = top of the stack *)
Fixpoint x_run (fuel : nat) (M : mtable) (stk : list assignment) (o : filled) : option filled :=
  match fuel with
  | O => None
  | S f =>
      match stk with
      | [] => Some o
      | (n, v) :: rest =>
          if is_filled o n then x_run f M rest o
          else
            let o1 := (n, v) :: o in
            if is_set_state v && negb (is_nil (lookup M n))
            then x_run f M (rev (filter (unfilled o1) (lookup M n)) ++ rest) o1
            else x_run f M rest o1
      end
  end.

Definition table_weight (M : mtable) : nat :=
  fold_right (fun e acc => (length (lookup M (fst e)) + acc)%nat) O M.
Definition fill_fuel (M : mtable) (attrs : list assignment) : nat := S (length attrs + table_weight M).

(* Outcome::fill_attributes(attrs, ..) *)
Definition fill_attributes (M : mtable) (attrs : list assignment) (o : filled) : option filled :=
  x_run (fill_fuel M attrs) M (rev (filter (unfilled o) attrs)) o.

(* has_unspecified_attributes *)
Definition has_unspecified (o : filled) (attrs : list assignment) : bool := existsb (unfilled o) attrs.

(* ---- matching ------------------------------------------------------------------------------------- *)
(* strip_base_handle_recompute_basename_pos *)
Definition strip_base (base : option bytes) (cf : bool) (path : bytes) (bpos : option nat)
  : option (bytes * option nat) :=
  match base with
  | None => Some (path, bpos)
  | Some b =>
      let n := length b in
      if (if cf then Nat.leb n (length path) && eq_ignore_case (firstn n path) b else starts_with path b)
      then Some (skipn n path,
                 match bpos with
                 | Some pos => let p := (pos - n)%nat in if Nat.eqb p 0 then None else Some p
                 | None => None
                 end)
      else None
  end.

(* Pattern::matches_repo_relative_path(path, basename_start_pos, is_dir, case, NO_MATCH_SLASH_LITERAL) *)
Definition matches_rrp (pt : pattern) (path : bytes) (bpos : option nat) (isdir cf : bool) : bool :=
  if negb isdir && has_flag (pmode pt) MUST_BE_DIR then false
  else if has_flag (pmode pt) NO_SUB_DIR && negb (has_flag (pmode pt) ABSOLUTE)
       then pattern_matches pt cf true (skipn (match bpos with Some p => p | None => O end) path)
       else pattern_matches pt cf true path.

(* relative_path.rfind("/").map(|p| p + 1) *)
Fixpoint rfind_slash_aux (l : bytes) (i : nat) (acc : option nat) : option nat :=
  match l with
  | [] => acc
  | c :: r => rfind_slash_aux r (S i) (if beqb c cSLASH then Some (S i) else acc)
  end.
Definition basename_pos (path : bytes) : option nat := rfind_slash_aux path O None.

(* the loop over one pattern list (patterns in reverse, macros skipped); the matcher is a parameter so that
   the theorems hold for every matcher *)
Fixpoint search_maps (matchf : pattern -> bool) (M : mtable) (rmaps : list mapping) (o : filled) : option filled :=
  match rmaps with
  | [] => Some o
  | MMacro _ _ :: r => search_maps matchf M r o
  | MPat p attrs :: r =>
      if has_unspecified o attrs && matchf p
      then match fill_attributes M attrs o with
           | Some o1 => search_maps matchf M r o1
           | None => None
           end
      else search_maps matchf M r o
  end.

Definition search_list (M : mtable) (cf isdir : bool) (path : bytes) (l : plist) (o : filled) : option filled :=
  match strip_base (l_base l) cf path (basename_pos path) with
  | None => Some o
  | Some (rel, bpos) =>
      search_maps (fun p => matches_rrp p rel bpos isdir cf) M (rev (l_maps l)) o
  end.

(* Search::pattern_matching_relative_path over the lists of one group (last list first), then the groups
   in reverse; [lists] here is already in search order *)
Fixpoint search_lists (M : mtable) (cf isdir : bool) (path : bytes) (lists : list plist) (o : filled) : option filled :=
  match lists with
  | [] => Some o
  | l :: r => match search_list M cf isdir path l o with
              | Some o1 => search_lists M cf isdir path r o1
              | None => None
              end
  end.

(* ---- the early exits: `remaining`, `is_done()`, `all_filled` --------------------------------------- *)
(* [u] = the names known to the collection (duplicate free); remaining = number of names without a match *)
Definition remaining (u : list bytes) (o : filled) : nat :=
  length (filter (fun n => negb (is_filled o n)) u).

(* fill_attributes returning as soon as remaining = 0 *)
Fixpoint x_run_early (fuel : nat) (u : list bytes) (M : mtable) (stk : list assignment) (o : filled) : option filled :=
  match fuel with
  | O => None
  | S f =>
      match stk with
      | [] => Some o
      | (n, v) :: rest =>
          if is_filled o n then x_run_early f u M rest o
          else
            let o1 := (n, v) :: o in
            if Nat.eqb (remaining u o1) 0 then Some o1
            else if is_set_state v && negb (is_nil (lookup M n))
            then x_run_early f u M (rev (filter (unfilled o1) (lookup M n)) ++ rest) o1
            else x_run_early f u M rest o1
      end
  end.
Definition fill_attributes_early (u : list bytes) (M : mtable) (attrs : list assignment) (o : filled) : option filled :=
  x_run_early (fill_fuel M attrs) u M (rev (filter (unfilled o) attrs)) o.

Fixpoint search_maps_early (u : list bytes) (matchf : pattern -> bool) (M : mtable) (rmaps : list mapping) (o : filled)
  : option filled :=
  match rmaps with
  | [] => Some o
  | MMacro _ _ :: r => search_maps_early u matchf M r o
  | MPat p attrs :: r =>
      if has_unspecified o attrs && matchf p
      then match fill_attributes_early u M attrs o with
           | Some o1 => if Nat.eqb (remaining u o1) 0 then Some o1 else search_maps_early u matchf M r o1
           | None => None
           end
      else search_maps_early u matchf M r o
  end.

(* ---- gix_worktree::stack::state::Attributes ------------------------------------------------------- *)
Definition builtin_content : bytes := bs "[attr]binary -diff -merge -text".

(* "a/b/c" -> ["a"; "a/b"]: the directories pushed for the path (the last component is never a directory) *)
Fixpoint dir_chain_aux (acc : bytes) (l : bytes) : list bytes :=
  match l with
  | [] => []
  | c :: r => if beqb c cSLASH then rev acc :: dir_chain_aux (c :: acc) r else dir_chain_aux (c :: acc) r
  end.
Definition dir_chain (path : bytes) : list bytes := dir_chain_aux [] path.

Fixpoint find_file (files : list (bytes * bytes)) (d : bytes) : option bytes :=
  match files with
  | [] => None
  | (k, v) :: r => if bytes_eqb k d then Some v else find_file r d
  end.

Record setup := {
  s_builtin : plist; s_global : plist; s_root : plist; s_info : plist;
  s_dirs : list plist                     (* outermost first *)
}.
Definition empty_list : plist := {| l_base := None; l_maps := [] |}.
Definition make_setup (global info : bytes) (files : list (bytes * bytes)) (path : bytes) : setup :=
  {| s_builtin := add_patterns builtin_content None true;
     s_global := add_patterns global None true;
     s_root := match find_file files [] with Some c => add_patterns c None true | None => empty_list end;
     s_info := add_patterns info None true;
     s_dirs := map (fun d => match find_file files d with
                             | Some c => add_patterns c (Some (d ++ [cSLASH])) false
                             | None => empty_list
                             end) (dir_chain path) |}.

(* the collection sees the lists in the order they are read: builtin, global, root, info (sub-directories
   cannot define macros) *)
Definition macros_of (s : setup) : mtable :=
  fold_left update_from_maps
    [l_maps (s_builtin s); l_maps (s_global s); l_maps (s_root s); l_maps (s_info s)] [].

(* search order: info, the stack from the innermost directory to the root, the globals in reverse *)
Definition search_order (s : setup) : list plist :=
  s_info s :: rev (s_dirs s) ++ [s_root s; s_global s; s_builtin s].

Definition matching_attributes (global info : bytes) (files : list (bytes * bytes)) (cf : bool)
           (path : bytes) (isdir : bool) : option filled :=
  let s := make_setup global info files path in
  search_lists (macros_of s) cf isdir path (search_order s) [].
