From GixV.Base Require Import Bytes BytesFacts Outcome.
From GixV.C35 Require Import Model.
