(* C35 — lemmas about Model.v.  Theorem statements live in Properties.v. *)
From Coq Require Import Lia.
From GixV.Base Require Import Bytes BytesFacts Outcome.
From GixV.C35 Require Import Model.

(* ---- vocabulary of the statements ------------------------------------------------------ *)

Definition kv := (bytes * bytes)%type.

(* the text of one attribute line, without its terminator *)
Definition line (p : kv) : bytes := fst p ++ EQS :: snd p.

(* a value that may be sent: no NUL, no LF, no CR *)
Definition clean (v : bytes) : bool := negb (has_byte NUL v || has_byte LF v || has_byte CR v).

(* keys as write_to uses them: no NUL/LF/CR/'=' and UTF-8 *)
Definition key_ok (k : bytes) : bool :=
  negb (has_byte NUL k || has_byte LF k || has_byte CR k || has_byte EQS k) && utf8_valid k.

(* the (key, value) pairs of the fields that are Some, in the order write_to visits them *)
Fixpoint pres (fs : list (bytes * option bytes)) : list kv :=
  match fs with
  | [] => []
  | (_, None) :: r => pres r
  | (k, Some v) :: r => (k, v) :: pres r
  end.
Definition present (c : ctx) : list kv := pres (write_fields c).

Fixpoint encode (kvs : list kv) : bytes :=
  match kvs with
  | [] => []
  | p :: r => write_key (fst p) (snd p) ++ encode r
  end.

(* longest prefix of pairs with clean values, and the first offending pair if any *)
Fixpoint clean_prefix (kvs : list kv) : list kv * option kv :=
  match kvs with
  | [] => ([], None)
  | p :: r =>
      if clean (snd p) then let '(a, b) := clean_prefix r in (p :: a, b) else ([], Some p)
  end.

Definition clear_quit (c : ctx) : ctx :=
  mk_ctx (c_protocol c) (c_host c) (c_path c) (c_username c) (c_password c) (c_url c) None.

(* a reader that cuts its input at every byte satisfying [sep] (the last piece is what follows
   the last separator) *)
Fixpoint split_on (sep : byte -> bool) (l : bytes) : list bytes :=
  match l with
  | [] => [[]]
  | b :: r =>
      if sep b then [] :: split_on sep r
      else match split_on sep r with
           | [] => [[b]]
           | p :: ps => (b :: p) :: ps
           end
  end.
Definition is_lf (b : byte) : bool := beqb b LF.
Definition is_cr_or_lf (b : byte) : bool := beqb b LF || beqb b CR.

(* ---- has_byte -------------------------------------------------------------------------- *)

Lemma has_byte_app b x y : has_byte b (x ++ y) = has_byte b x || has_byte b y.
Proof. unfold has_byte. apply existsb_app. Qed.

Lemma has_byte_cons b x l : has_byte b (x :: l) = beqb b x || has_byte b l.
Proof. reflexivity. Qed.

Lemma has_byte_false_in b l : has_byte b l = false -> ~ In b l.
Proof.
  intros H Hin. unfold has_byte in H.
  assert (existsb (beqb b) l = true) as E.
  { apply existsb_exists. exists b. split; [exact Hin | apply beqb_eq; reflexivity]. }
  congruence.
Qed.

Lemma beqb_sym a b : beqb a b = beqb b a.
Proof.
  destruct (beqb a b) eqn:E1, (beqb b a) eqn:E2; try reflexivity.
  - apply beqb_eq in E1. subst. assert (beqb b b = true) by (apply beqb_eq; reflexivity). congruence.
  - apply beqb_eq in E2. subst. assert (beqb a a = true) by (apply beqb_eq; reflexivity). congruence.
Qed.

Lemma clean_parts v : clean v = true ->
  has_byte NUL v = false /\ has_byte LF v = false /\ has_byte CR v = false.
Proof.
  unfold clean. intros H. apply Bool.negb_true_iff in H.
  apply Bool.orb_false_iff in H. destruct H as [H H3].
  apply Bool.orb_false_iff in H. destruct H as [H1 H2]. auto.
Qed.

Lemma key_ok_parts k : key_ok k = true ->
  has_byte NUL k = false /\ has_byte LF k = false /\ has_byte CR k = false /\
  has_byte EQS k = false /\ utf8_valid k = true.
Proof.
  unfold key_ok. intros H. apply Bool.andb_true_iff in H. destruct H as [H Hu].
  apply Bool.negb_true_iff in H.
  apply Bool.orb_false_iff in H. destruct H as [H H4].
  apply Bool.orb_false_iff in H. destruct H as [H H3].
  apply Bool.orb_false_iff in H. destruct H as [H1 H2]. auto.
Qed.

Lemma validate_clean k v : key_ok k = true -> validate k v = clean v.
Proof.
  intros Hk. apply key_ok_parts in Hk. destruct Hk as (H1 & H2 & _).
  unfold validate, clean. rewrite H1, H2. reflexivity.
Qed.

(* ---- write_to -------------------------------------------------------------------------- *)

Lemma write_loop_spec fs : forall out,
  Forall (fun f => key_ok (fst f) = true) fs ->
  write_loop fs out =
    (out ++ encode (fst (clean_prefix (pres fs))),
     match snd (clean_prefix (pres fs)) with None => Ok tt | Some _ => Err Encoding end).
Proof.
  induction fs as [|[k [v|]] fs IH]; intros out HF.
  - cbn. rewrite app_nil_r. reflexivity.
  - inversion HF as [|? ? Hk HF']; subst. cbn [fst] in Hk.
    cbn [write_loop pres clean_prefix snd fst]. rewrite (validate_clean k v Hk).
    destruct (clean v) eqn:Ec.
    + rewrite (IH _ HF'). destruct (clean_prefix (pres fs)) as [a b].
      cbn [fst snd encode]. rewrite <- app_assoc. reflexivity.
    + cbn [fst snd encode]. rewrite app_nil_r. reflexivity.
  - inversion HF as [|? ? Hk HF']; subst. cbn [write_loop pres]. apply IH. exact HF'.
Qed.

Lemma write_fields_keys_ok c : Forall (fun f => key_ok (fst f) = true) (write_fields c).
Proof. unfold write_fields. repeat constructor. Qed.

Lemma write_to_spec c :
  write_to c =
    (encode (fst (clean_prefix (present c))),
     match snd (clean_prefix (present c)) with None => Ok tt | Some _ => Err Encoding end).
Proof. unfold write_to, present. rewrite write_loop_spec by apply write_fields_keys_ok. reflexivity. Qed.

Lemma clean_prefix_all kvs : forallb (fun p => clean (snd p)) kvs = true ->
  clean_prefix kvs = (kvs, None).
Proof.
  induction kvs as [|p r IH]; cbn [forallb clean_prefix]; [reflexivity|].
  intros H. apply Bool.andb_true_iff in H. destruct H as [H1 H2].
  rewrite H1, (IH H2). reflexivity.
Qed.

(* structure of clean_prefix: kvs = pre ++ rest, pre all clean, rest starts with the offender *)
Lemma clean_prefix_split kvs :
  let '(pre, bad) := clean_prefix kvs in
  forallb (fun p => clean (snd p)) pre = true /\
  match bad with
  | None => kvs = pre
  | Some p => clean (snd p) = false /\ exists post, kvs = pre ++ p :: post
  end.
Proof.
  induction kvs as [|p r IH]; cbn [clean_prefix].
  - split; reflexivity.
  - destruct (clean (snd p)) eqn:Ec.
    + destruct (clean_prefix r) as [a b]. destruct IH as [IH1 IH2]. split.
      * cbn [forallb]. rewrite Ec, IH1. reflexivity.
      * destruct b as [q|].
        -- destruct IH2 as [Hq [post ->]]. split; [exact Hq|]. exists post. reflexivity.
        -- rewrite IH2. reflexivity.
    + split; [reflexivity|]. split; [exact Ec|]. exists r. reflexivity.
Qed.

Lemma L_write_ok_iff c out :
  write_to c = (out, Ok tt) <->
  (forallb (fun p => clean (snd p)) (present c) = true /\ out = encode (present c)).
Proof.
  rewrite write_to_spec. pose proof (clean_prefix_split (present c)) as S.
  destruct (clean_prefix (present c)) as [pre bad]. destruct S as [S1 S2]. cbn [fst snd]. split.
  - intros H. destruct bad as [q|]; [inversion H|]. inversion H. subst. split; [exact S1 | reflexivity].
  - intros [Hc ->]. destruct bad as [q|].
    + destruct S2 as [Hq [post E]]. rewrite E in Hc. rewrite forallb_app in Hc.
      apply Bool.andb_true_iff in Hc. destruct Hc as [_ Hc]. cbn [forallb] in Hc.
      rewrite Hq in Hc. discriminate.
    + subst. reflexivity.
Qed.

Lemma L_write_err c out e :
  write_to c = (out, Err e) ->
  e = Encoding /\
  exists pre k v post, present c = pre ++ (k, v) :: post /\
    forallb (fun p => clean (snd p)) pre = true /\ clean v = false /\ out = encode pre.
Proof.
  rewrite write_to_spec. pose proof (clean_prefix_split (present c)) as S.
  destruct (clean_prefix (present c)) as [pre bad]. destruct S as [S1 S2]. cbn [fst snd].
  intros H. destruct bad as [[k v]|]; [|inversion H]. inversion H. subst. split; [reflexivity|].
  destruct S2 as [Hq [post E]]. exists pre, k, v, post. cbn [snd] in Hq. auto.
Qed.

Lemma L_write_total c : exists out r, write_to c = (out, r) /\ r <> Panic /\ r <> OutOfFuel.
Proof.
  rewrite write_to_spec. eexists. eexists. split; [reflexivity|].
  destruct (snd (clean_prefix (present c))); split; discriminate.
Qed.

(* ---- lines() of what write_to emits ---------------------------------------------------- *)

Lemma lwt_line ln rest : has_byte LF ln = false ->
  lines_with_terminator (ln ++ LF :: rest) = (ln ++ [LF]) :: lines_with_terminator rest.
Proof.
  induction ln as [|b ln IH]; intros H.
  - reflexivity.
  - rewrite has_byte_cons in H. apply Bool.orb_false_iff in H. destruct H as [Hb Hl].
    cbn [app lines_with_terminator]. rewrite beqb_sym, Hb. rewrite (IH Hl). reflexivity.
Qed.

Lemma trim_line ln : has_byte CR ln = false -> trim_last_terminator (ln ++ [LF]) = ln.
Proof.
  intros H. unfold trim_last_terminator. rewrite rev_app_distr. cbn [rev app].
  replace (beqb LF LF) with true by reflexivity.
  destruct (rev ln) as [|c r'] eqn:E.
  - apply (f_equal (@rev byte)) in E. rewrite rev_involutive in E. cbn in E. symmetry. exact E.
  - destruct (beqb c CR) eqn:Ec.
    + exfalso. apply beqb_eq in Ec. subst c. apply (has_byte_false_in _ _ H).
      apply in_rev. rewrite E. left. reflexivity.
    + rewrite <- E. apply rev_involutive.
Qed.

Definition pair_ok (p : kv) : bool := key_ok (fst p) && clean (snd p).

Lemma line_no_lf_cr p : pair_ok p = true ->
  has_byte LF (line p) = false /\ has_byte CR (line p) = false /\ has_byte NUL (line p) = false.
Proof.
  unfold pair_ok. intros H. apply Bool.andb_true_iff in H. destruct H as [Hk Hv].
  apply key_ok_parts in Hk. destruct Hk as (K1 & K2 & K3 & _).
  apply clean_parts in Hv. destruct Hv as (V1 & V2 & V3).
  unfold line. rewrite !has_byte_app, !has_byte_cons, K1, K2, K3, V1, V2, V3. repeat split.
Qed.

Lemma encode_cons p r : encode (p :: r) = line p ++ LF :: encode r.
Proof. cbn [encode]. unfold write_key, line. rewrite <- !app_assoc. cbn [app]. rewrite <- app_assoc. reflexivity. Qed.

Lemma lines_encode kvs : forallb pair_ok kvs = true -> lines (encode kvs) = map line kvs.
Proof.
  induction kvs as [|p r IH]; intros H; [reflexivity|].
  cbn [forallb] in H. apply Bool.andb_true_iff in H. destruct H as [Hp Hr].
  destruct (line_no_lf_cr p Hp) as (L1 & L2 & _).
  rewrite encode_cons. unfold lines in *. rewrite (lwt_line _ _ L1).
  cbn [map]. rewrite (trim_line _ L2), (IH Hr). reflexivity.
Qed.

Lemma line_nonempty p : line p <> [].
Proof. unfold line. destruct (fst p); discriminate. Qed.

Lemma take_while_lines kvs : take_while_nonempty (map line kvs) = map line kvs.
Proof.
  induction kvs as [|p r IH]; [reflexivity|]. cbn [map take_while_nonempty].
  destruct (line p) eqn:E; [exfalso; exact (line_nonempty p E)|]. rewrite IH. reflexivity.
Qed.

Lemma splitn2_line k v : has_byte EQS k = false -> splitn2_eq (k ++ EQS :: v) = (k, Some v).
Proof.
  induction k as [|b k IH]; intros H.
  - reflexivity.
  - rewrite has_byte_cons in H. apply Bool.orb_false_iff in H. destruct H as [Hb Hk].
    cbn [app splitn2_eq]. rewrite beqb_sym, Hb, (IH Hk). reflexivity.
Qed.

Lemma parse_line_line p : pair_ok p = true -> parse_line (line p) = Ok p.
Proof.
  destruct p as [k v]. unfold pair_ok. cbn [fst snd]. intros H.
  apply Bool.andb_true_iff in H. destruct H as [Hk Hv].
  pose proof (key_ok_parts k Hk) as (_ & _ & _ & K4 & K5).
  unfold parse_line, line. cbn [fst snd]. rewrite (splitn2_line k v K4), K5.
  rewrite (validate_clean k v Hk), Hv. reflexivity.
Qed.

(* ---- from_bytes of what write_to emits -------------------------------------------------- *)

Fixpoint apply_kvs (kvs : list kv) (c : ctx) : outcome ctx err :=
  match kvs with
  | [] => Ok c
  | (k, v) :: r =>
      match apply_kv c k v with
      | Ok c' => apply_kvs r c'
      | Err e => Err e
      | Panic => Panic
      | OutOfFuel => OutOfFuel
      end
  end.

Lemma from_lines_lines kvs : forall c, forallb pair_ok kvs = true ->
  from_lines (map line kvs) c = apply_kvs kvs c.
Proof.
  induction kvs as [|[k v] r IH]; intros c H; [reflexivity|].
  cbn [forallb] in H. apply Bool.andb_true_iff in H. destruct H as [Hp Hr].
  cbn [map from_lines apply_kvs]. rewrite (parse_line_line _ Hp).
  destruct (apply_kv c k v); try reflexivity. apply IH. exact Hr.
Qed.

Lemma from_bytes_encode kvs : forallb pair_ok kvs = true ->
  from_bytes (encode kvs) = apply_kvs kvs ctx_default.
Proof.
  intros H. unfold from_bytes. rewrite (lines_encode _ H), take_while_lines.
  apply from_lines_lines. exact H.
Qed.

Lemma pres_keys_ok fs : Forall (fun f => key_ok (fst f) = true) fs ->
  forallb (fun p => clean (snd p)) (pres fs) = true -> forallb pair_ok (pres fs) = true.
Proof.
  induction fs as [|[k [v|]] fs IH]; intros HF H; [reflexivity| |].
  - inversion HF as [|? ? Hk HF']; subst. cbn [pres forallb] in *.
    apply Bool.andb_true_iff in H. destruct H as [H1 H2].
    unfold pair_ok at 1. cbn [fst snd] in *. rewrite Hk, H1, (IH HF' H2). reflexivity.
  - inversion HF as [|? ? Hk HF']; subst. cbn [pres]. apply IH; assumption.
Qed.

Lemma present_pairs_ok c : forallb (fun p => clean (snd p)) (present c) = true ->
  forallb pair_ok (present c) = true.
Proof. apply pres_keys_ok, write_fields_keys_ok. Qed.

Lemma apply_kv_url c v : apply_kv c (bs "url") v =
  Ok (mk_ctx (c_protocol c) (c_host c) (c_path c) (c_username c) (c_password c) (Some v) (c_quit c)).
Proof. reflexivity. Qed.
Lemma apply_kv_path c v : apply_kv c (bs "path") v =
  Ok (mk_ctx (c_protocol c) (c_host c) (Some v) (c_username c) (c_password c) (c_url c) (c_quit c)).
Proof. reflexivity. Qed.
Lemma apply_kv_protocol c v : apply_kv c (bs "protocol") v =
  if utf8_valid v then
    Ok (mk_ctx (Some v) (c_host c) (c_path c) (c_username c) (c_password c) (c_url c) (c_quit c))
  else Err IllformedUtf8.
Proof. reflexivity. Qed.
Lemma apply_kv_host c v : apply_kv c (bs "host") v =
  if utf8_valid v then
    Ok (mk_ctx (c_protocol c) (Some v) (c_path c) (c_username c) (c_password c) (c_url c) (c_quit c))
  else Err IllformedUtf8.
Proof. reflexivity. Qed.
Lemma apply_kv_username c v : apply_kv c (bs "username") v =
  if utf8_valid v then
    Ok (mk_ctx (c_protocol c) (c_host c) (c_path c) (Some v) (c_password c) (c_url c) (c_quit c))
  else Err IllformedUtf8.
Proof. reflexivity. Qed.
Lemma apply_kv_password c v : apply_kv c (bs "password") v =
  if utf8_valid v then
    Ok (mk_ctx (c_protocol c) (c_host c) (c_path c) (c_username c) (Some v) (c_url c) (c_quit c))
  else Err IllformedUtf8.
Proof. reflexivity. Qed.

(* applying the present fields of c to the default context rebuilds c (without quit) *)
Lemma apply_present c : strings_utf8 c = true ->
  apply_kvs (present c) ctx_default = Ok (clear_quit c).
Proof.
  destruct c as [p h pa u pw url q]. unfold strings_utf8, clear_quit.
  cbn [c_protocol c_host c_username c_password c_path c_url].
  intros H. apply Bool.andb_true_iff in H. destruct H as [H H4].
  apply Bool.andb_true_iff in H. destruct H as [H H3].
  apply Bool.andb_true_iff in H. destruct H as [H1 H2].
  destruct p as [p|], h as [h|], pa as [pa|], u as [u|], pw as [pw|], url as [url|];
    cbn [opt_utf8] in *; unfold present, write_fields;
    cbn [pres c_protocol c_host c_username c_password c_path c_url apply_kvs];
    repeat (first [ rewrite apply_kv_url | rewrite apply_kv_path
                  | rewrite apply_kv_protocol, H1 | rewrite apply_kv_host, H2
                  | rewrite apply_kv_username, H3 | rewrite apply_kv_password, H4 ];
            cbv beta iota);
    reflexivity.
Qed.

Lemma L_round_trip c out : strings_utf8 c = true ->
  write_to c = (out, Ok tt) -> from_bytes out = Ok (clear_quit c).
Proof.
  intros Hu H. apply L_write_ok_iff in H. destruct H as [Hc ->].
  rewrite (from_bytes_encode _ (present_pairs_ok c Hc)). apply apply_present. exact Hu.
Qed.

(* ---- what any line-oriented reader sees -------------------------------------------------- *)

(* a separator predicate that cuts at LF and possibly at CR, but nowhere else *)
Definition sep_ok (sep : byte -> bool) : Prop :=
  sep LF = true /\ forall b, sep b = true -> b = LF \/ b = CR.

Lemma no_sep_in_line sep p : sep_ok sep -> pair_ok p = true -> existsb sep (line p) = false.
Proof.
  intros [_ Hs] Hp. destruct (line_no_lf_cr p Hp) as (L1 & L2 & _).
  destruct (existsb sep (line p)) eqn:E; [|reflexivity]. exfalso.
  apply existsb_exists in E. destruct E as [x [Hin Hx]].
  destruct (Hs x Hx) as [-> | ->].
  - exact (has_byte_false_in _ _ L1 Hin).
  - exact (has_byte_false_in _ _ L2 Hin).
Qed.

Lemma split_on_line sep ln rest : sep LF = true -> existsb sep ln = false ->
  split_on sep (ln ++ LF :: rest) = ln :: split_on sep rest.
Proof.
  intros HL. induction ln as [|b ln IH]; intros H.
  - cbn [app split_on]. rewrite HL. reflexivity.
  - cbn [existsb] in H. apply Bool.orb_false_iff in H. destruct H as [Hb Hl].
    cbn [app split_on]. rewrite Hb, (IH Hl). reflexivity.
Qed.

Lemma split_on_encode sep kvs : sep_ok sep -> forallb pair_ok kvs = true ->
  split_on sep (encode kvs) = map line kvs ++ [[]].
Proof.
  intros Hs. induction kvs as [|p r IH]; intros H; [reflexivity|].
  cbn [forallb] in H. apply Bool.andb_true_iff in H. destruct H as [Hp Hr].
  rewrite encode_cons, (split_on_line sep _ _ (proj1 Hs) (no_sep_in_line sep p Hs Hp)), (IH Hr).
  reflexivity.
Qed.

Lemma filter_none {A} (f : A -> bool) l : existsb f l = false -> filter f l = [].
Proof.
  induction l as [|x l IH]; [reflexivity|]. cbn [existsb filter]. intros H.
  apply Bool.orb_false_iff in H. destruct H as [Hx Hl]. rewrite Hx. exact (IH Hl).
Qed.

Lemma filter_encode sep kvs : sep_ok sep -> forallb pair_ok kvs = true ->
  length (filter sep (encode kvs)) = length kvs.
Proof.
  intros Hs. induction kvs as [|p r IH]; intros H; [reflexivity|].
  cbn [forallb] in H. apply Bool.andb_true_iff in H. destruct H as [Hp Hr].
  rewrite encode_cons, filter_app, (filter_none _ _ (no_sep_in_line sep p Hs Hp)).
  cbn [app filter]. rewrite (proj1 Hs). cbn [length]. rewrite (IH Hr). reflexivity.
Qed.

Lemma is_lf_ok : sep_ok is_lf.
Proof. split; [reflexivity|]. intros b H. left. apply beqb_eq in H. exact H. Qed.
Lemma is_cr_or_lf_ok : sep_ok is_cr_or_lf.
Proof.
  split; [reflexivity|]. intros b H. unfold is_cr_or_lf in H. apply Bool.orb_true_iff in H.
  destruct H as [H|H]; apply beqb_eq in H; auto.
Qed.

Lemma splitn2_pair p : pair_ok p = true -> splitn2_eq (line p) = (fst p, Some (snd p)).
Proof.
  unfold pair_ok. intros H. apply Bool.andb_true_iff in H. destruct H as [Hk _].
  apply key_ok_parts in Hk. destruct Hk as (_ & _ & _ & K4 & _). apply splitn2_line. exact K4.
Qed.

Lemma forallb_pair_ok_app a b : forallb pair_ok (a ++ b) = true -> forallb pair_ok a = true.
Proof. rewrite forallb_app. intros H. apply Bool.andb_true_iff in H. tauto. Qed.

(* the pairs of a prefix of `present c` with clean values are pair_ok *)
Lemma present_prefix_ok c pre post : present c = pre ++ post ->
  forallb (fun p => clean (snd p)) pre = true -> forallb pair_ok pre = true.
Proof.
  intros E Hc.
  assert (K : forallb (fun p : kv => key_ok (fst p)) (present c) = true).
  { destruct c as [p h pa u pw url q]. 
    destruct p, h, pa, u, pw, url; reflexivity. }
  rewrite E, forallb_app in K. apply Bool.andb_true_iff in K. destruct K as [K _].
  clear E. induction pre as [|x pre IH]; [reflexivity|].
  cbn [forallb] in *. apply Bool.andb_true_iff in K. destruct K as [K1 K2].
  apply Bool.andb_true_iff in Hc. destruct Hc as [C1 C2].
  unfold pair_ok at 1. rewrite K1, C1, (IH C2 K2). reflexivity.
Qed.

Lemma L_no_injection c out r : write_to c = (out, r) ->
  exists sent post,
    present c = sent ++ post /\ (r = Ok tt -> post = []) /\
    out = encode sent /\
    forallb (fun p => clean (snd p)) sent = true /\
    (forall sep, sep_ok sep -> split_on sep out = map line sent ++ [[]]) /\
    (forall sep, sep_ok sep -> length (filter sep out) = length sent) /\
    Forall (fun p => splitn2_eq (line p) = (fst p, Some (snd p))) sent.
Proof.
  rewrite write_to_spec. pose proof (clean_prefix_split (present c)) as S.
  destruct (clean_prefix (present c)) as [pre bad]. destruct S as [S1 S2]. cbn [fst snd].
  intros H. injection H as Ho Hr. subst out r.
  assert (exists post, present c = pre ++ post /\
            (match bad with None => Ok tt | Some _ => @Err unit err Encoding end = Ok tt -> post = []))
    as [post [E Hpost]].
  { destruct bad as [q|].
    - destruct S2 as [_ [post E]]. exists (q :: post). split; [exact E|]. intros Hq. discriminate.
    - exists []. rewrite app_nil_r. split; [exact S2 | reflexivity]. }
  pose proof (present_prefix_ok c pre post E S1) as Hok.
  exists pre, post. split; [exact E|]. split; [exact Hpost|]. split; [reflexivity|].
  split; [exact S1|]. split; [|split].
  - intros sep Hs. apply split_on_encode; assumption.
  - intros sep Hs. apply filter_encode; assumption.
  - apply Forall_forall. intros p Hin. apply splitn2_pair.
    rewrite forallb_forall in Hok. apply Hok. exact Hin.
Qed.

(* a value with NUL, LF or CR is refused, and neither it nor anything after it is sent *)
Lemma L_refuses c k v : In (k, v) (present c) -> clean v = false ->
  exists pre post, write_to c = (encode pre, Err Encoding) /\ present c = pre ++ post /\
    forallb (fun p => clean (snd p)) pre = true /\ ~ In (k, v) pre.
Proof.
  intros Hin Hv. destruct (write_to c) as [out r] eqn:E.
  destruct r as [[]|e| |].
  - apply L_write_ok_iff in E. destruct E as [Hc _]. rewrite forallb_forall in Hc.
    specialize (Hc _ Hin). cbn [snd] in Hc. congruence.
  - apply L_write_err in E. destruct E as [-> (pre & k' & v' & post & E1 & E2 & E3 & ->)].
    exists pre, ((k', v') :: post). repeat split; try assumption.
    intros Hpre. rewrite forallb_forall in E2. specialize (E2 _ Hpre). cbn [snd] in E2. congruence.
  - exfalso. destruct (L_write_total c) as (o & r & E' & Hp & _). rewrite E in E'. inversion E'. congruence.
  - exfalso. destruct (L_write_total c) as (o & r & E' & _ & Hf). rewrite E in E'. inversion E'. congruence.
Qed.

Definition opt_pair (k : bytes) (o : option bytes) : list kv :=
  match o with Some v => [(k, v)] | None => [] end.

Lemma L_present_fields c :
  present c = opt_pair (bs "url") (c_url c) ++ opt_pair (bs "path") (c_path c)
           ++ opt_pair (bs "protocol") (c_protocol c) ++ opt_pair (bs "host") (c_host c)
           ++ opt_pair (bs "username") (c_username c) ++ opt_pair (bs "password") (c_password c).
Proof. destruct c as [p h pa u pw url q]. destruct p, h, pa, u, pw, url; reflexivity. Qed.

(* ---- from_bytes: totality and what it lets through ----------------------------------------- *)

Lemma parse_line_total l : parse_line l <> Panic /\ parse_line l <> OutOfFuel.
Proof.
  unfold parse_line. destruct (splitn2_eq l) as [k ov].
  destruct (utf8_valid k), ov as [v|]; try (split; discriminate).
  destruct (validate k v); split; discriminate.
Qed.

Lemma apply_kv_total c k v : apply_kv c k v <> Panic /\ apply_kv c k v <> OutOfFuel.
Proof.
  unfold apply_kv.
  repeat match goal with |- context [if ?b then _ else _] => destruct b end; split; discriminate.
Qed.

Lemma from_lines_total ls : forall c, from_lines ls c <> Panic /\ from_lines ls c <> OutOfFuel.
Proof.
  induction ls as [|l r IH]; intros c; cbn [from_lines]; [split; discriminate|].
  pose proof (parse_line_total l) as [P1 P2].
  destruct (parse_line l) as [[k v]|e| |]; try (split; discriminate); try congruence.
  pose proof (apply_kv_total c k v) as [A1 A2].
  destruct (apply_kv c k v) as [c'|e| |]; try (split; discriminate); try congruence.
  apply IH.
Qed.

Lemma L_from_bytes_total input : from_bytes input <> Panic /\ from_bytes input <> OutOfFuel.
Proof. apply from_lines_total. Qed.

Definition opt_clean (o : option bytes) : bool := match o with None => true | Some v => clean v end.
Definition ctx_clean (c : ctx) : bool :=
  opt_clean (c_protocol c) && opt_clean (c_host c) && opt_clean (c_path c)
  && opt_clean (c_username c) && opt_clean (c_password c) && opt_clean (c_url c).
Definition inv (c : ctx) : bool := ctx_clean c && strings_utf8 c.

Lemma validate_value_clean k v : validate k v = true -> clean v = true.
Proof.
  unfold validate, clean. intros H. apply Bool.negb_true_iff in H.
  apply Bool.orb_false_iff in H. destruct H as [H H5].
  apply Bool.orb_false_iff in H. destruct H as [H H4].
  apply Bool.orb_false_iff in H. destruct H as [H H3].
  rewrite H3, H4, H5. reflexivity.
Qed.

Lemma parse_line_validate l k v : parse_line l = Ok (k, v) -> validate k v = true.
Proof.
  unfold parse_line. destruct (splitn2_eq l) as [k0 ov].
  destruct (utf8_valid k0), ov as [v0|]; try discriminate.
  destruct (validate k0 v0) eqn:E; [|discriminate]. intros H. inversion H. subst. exact E.
Qed.

Lemma inv_parts c : inv c = true ->
  opt_clean (c_protocol c) = true /\ opt_clean (c_host c) = true /\ opt_clean (c_path c) = true /\
  opt_clean (c_username c) = true /\ opt_clean (c_password c) = true /\ opt_clean (c_url c) = true /\
  opt_utf8 (c_protocol c) = true /\ opt_utf8 (c_host c) = true /\
  opt_utf8 (c_username c) = true /\ opt_utf8 (c_password c) = true.
Proof.
  unfold inv, ctx_clean, strings_utf8. intros H.
  repeat match goal with H : _ && _ = true |- _ => apply Bool.andb_true_iff in H; destruct H end.
  repeat split; assumption.
Qed.

Lemma inv_build p h pa u pw url q :
  opt_clean p = true -> opt_clean h = true -> opt_clean pa = true ->
  opt_clean u = true -> opt_clean pw = true -> opt_clean url = true ->
  opt_utf8 p = true -> opt_utf8 h = true -> opt_utf8 u = true -> opt_utf8 pw = true ->
  inv (mk_ctx p h pa u pw url q) = true.
Proof.
  intros. unfold inv, ctx_clean, strings_utf8. cbn [c_protocol c_host c_path c_username c_password c_url].
  repeat (apply Bool.andb_true_iff; split); assumption.
Qed.

Lemma apply_kv_inv c k v c' : clean v = true -> inv c = true -> apply_kv c k v = Ok c' -> inv c' = true.
Proof.
  intros Hv Hi. destruct (inv_parts c Hi) as (C1 & C2 & C3 & C4 & C5 & C6 & U1 & U2 & U3 & U4).
  unfold apply_kv, set_string.
  destruct (bytes_eqb k (bs "protocol") || bytes_eqb k (bs "host")
            || bytes_eqb k (bs "username") || bytes_eqb k (bs "password")).
  - destruct (utf8_valid v) eqn:Eu; [|discriminate].
    destruct (bytes_eqb k (bs "protocol")); [|destruct (bytes_eqb k (bs "host")); [|destruct (bytes_eqb k (bs "username"))]];
      intros H; inversion H; subst; apply inv_build; assumption.
  - destruct (bytes_eqb k (bs "url")); [|destruct (bytes_eqb k (bs "path")); [|destruct (bytes_eqb k (bs "quit"))]];
      intros H; inversion H; subst; try (apply inv_build; assumption). exact Hi.
Qed.

Lemma from_lines_inv ls : forall c c', inv c = true -> from_lines ls c = Ok c' -> inv c' = true.
Proof.
  induction ls as [|l r IH]; intros c c' Hi; cbn [from_lines].
  - intros H. inversion H. subst. exact Hi.
  - destruct (parse_line l) as [[k v]|e| |] eqn:Ep; try discriminate.
    apply parse_line_validate, validate_value_clean in Ep.
    destruct (apply_kv c k v) as [c1|e| |] eqn:Ea; try discriminate.
    intros H. apply (IH c1 c'); [|exact H]. exact (apply_kv_inv c k v c1 Ep Hi Ea).
Qed.

Lemma inv_present_clean c : inv c = true -> forallb (fun p => clean (snd p)) (present c) = true.
Proof.
  intros Hi. destruct (inv_parts c Hi) as (C1 & C2 & C3 & C4 & C5 & C6 & _).
  rewrite L_present_fields. rewrite !forallb_app.
  destruct c as [p h pa u pw url q]. cbn [c_protocol c_host c_path c_username c_password c_url] in *.
  destruct p, h, pa, u, pw, url; cbn [opt_pair forallb snd opt_clean] in *;
    rewrite ?C1, ?C2, ?C3, ?C4, ?C5, ?C6; reflexivity.
Qed.

(* whatever from_bytes accepts can be written again, and reads back the same *)
Lemma L_read_write_read input c : from_bytes input = Ok c ->
  strings_utf8 c = true /\
  write_to c = (encode (present c), Ok tt) /\
  from_bytes (encode (present c)) = Ok (clear_quit c).
Proof.
  intros H. unfold from_bytes in H.
  assert (Hi : inv c = true) by (exact (from_lines_inv _ ctx_default c eq_refl H)).
  pose proof (inv_present_clean c Hi) as Hc.
  assert (Hu : strings_utf8 c = true).
  { unfold inv in Hi. apply Bool.andb_true_iff in Hi. tauto. }
  assert (Hw : write_to c = (encode (present c), Ok tt)) by (apply L_write_ok_iff; auto).
  repeat split; try assumption. exact (L_round_trip c _ Hu Hw).
Qed.

Lemma in_has_byte b v : In b v -> has_byte b v = true.
Proof.
  intros H. unfold has_byte. apply existsb_exists. exists b. split; [exact H | apply beqb_eq; reflexivity].
Qed.

Lemma L_refuses_in c k v : In (k, v) (present c) -> In NUL v \/ In LF v \/ In CR v ->
  exists pre post, write_to c = (encode pre, Err Encoding) /\ present c = pre ++ post /\
    forallb (fun p => clean (snd p)) pre = true /\ ~ In (k, v) pre.
Proof.
  intros Hin Hb. apply L_refuses; [exact Hin|]. unfold clean.
  destruct Hb as [H|[H|H]]; apply in_has_byte in H; rewrite H; rewrite ?Bool.orb_true_r; reflexivity.
Qed.

Lemma L_line_count c out : write_to c = (out, Ok tt) ->
  length (filter is_lf out) = length (present c) /\
  length (filter is_cr_or_lf out) = length (present c) /\
  split_on is_lf out = map line (present c) ++ [[]] /\
  split_on is_cr_or_lf out = map line (present c) ++ [[]].
Proof.
  intros H. destruct (L_no_injection c out _ H) as (sent & post & E & Hp & _ & _ & Hs & Hf & _).
  rewrite (Hp eq_refl), app_nil_r in E. subst sent.
  repeat split.
  - apply Hf, is_lf_ok.
  - apply Hf, is_cr_or_lf_ok.
  - apply Hs, is_lf_ok.
  - apply Hs, is_cr_or_lf_ok.
Qed.

(* ---- to_bstring --------------------------------------------------------------------------- *)

Lemma L_to_bstring c :
  (forallb (fun p => clean (snd p)) (present c) = true -> to_bstring c = Ok (encode (present c))) /\
  (forallb (fun p => clean (snd p)) (present c) = false -> to_bstring c = Panic) /\
  to_bstring c <> OutOfFuel /\ (forall e, to_bstring c <> Err e).
Proof.
  unfold to_bstring. destruct (write_to c) as [out r] eqn:E. repeat split.
  - intros H. assert (W : write_to c = (encode (present c), Ok tt)) by (apply L_write_ok_iff; auto).
    rewrite E in W. inversion W. reflexivity.
  - intros H. destruct r as [[]|e| |]; try reflexivity.
    apply L_write_ok_iff in E. destruct E as [Hc _]. congruence.
  - destruct r; discriminate.
  - intros e. destruct r; discriminate.
Qed.
