(* C35 — transcript printer: the same observable string the Rust harness prints for a case. *)
From GixV.Base Require Import Bytes Outcome.
From GixV.C35 Require Import Model.

Definition err_name (e : err) : bytes :=
  match e with
  | Encoding => bs "Encoding" | Syntax => bs "Syntax" | IllformedUtf8 => bs "Utf8"
  end.

(* hex with `-` for the empty string *)
Definition hx (l : bytes) : bytes := match l with [] => bs "-" | _ => hex_encode l end.

Definition show_opt (o : option bytes) : bytes :=
  match o with None => bs "N" | Some v => bs "S" ++ hex_encode v end.
Definition show_quit (q : option bool) : bytes :=
  match q with None => bs "N" | Some true => bs "T" | Some false => bs "F" end.

Definition show_ctx (c : ctx) : bytes :=
  join_sp [ show_opt (c_protocol c); show_opt (c_host c); show_opt (c_path c);
            show_opt (c_username c); show_opt (c_password c); show_opt (c_url c);
            show_quit (c_quit c) ].

Definition show_parse (o : outcome ctx err) : bytes :=
  match o with
  | Ok c => bs "ok " ++ show_ctx c
  | Err e => bs "err " ++ err_name e
  | Panic => bs "PANIC"
  | OutOfFuel => bs "HANG"
  end.

(* an optional field travels as: empty = None, otherwise one marker byte followed by the value *)
Definition dec_opt (f : bytes) : option bytes :=
  match f with [] => None | _ :: v => Some v end.
Definition dec_quit (f : bytes) : option bool :=
  if bytes_eqb f (bs "T") then Some true else if bytes_eqb f (bs "F") then Some false else None.

(* cases:  rt|tb <protocol> <host> <path> <username> <password> <url> <quit>  |  parse <bytes> *)
Definition run_model (fs : list bytes) : bytes :=
  let op := nth_field 0 fs in
  if bytes_eqb op (bs "rt") then
    let c := mk_ctx (dec_opt (nth_field 1 fs)) (dec_opt (nth_field 2 fs)) (dec_opt (nth_field 3 fs))
                    (dec_opt (nth_field 4 fs)) (dec_opt (nth_field 5 fs)) (dec_opt (nth_field 6 fs))
                    (dec_quit (nth_field 7 fs)) in
    if strings_utf8 c then
      match write_to c with
      | (out, Ok _) => bs "w ok " ++ hx out ++ bs " r " ++ show_parse (from_bytes out)
      | (out, Err e) => bs "w err " ++ err_name e ++ bs " " ++ hx out
      | (_, Panic) => bs "PANIC"
      | (_, OutOfFuel) => bs "HANG"
      end
    else bs "notutf8"
  else if bytes_eqb op (bs "tb") then
    let c := mk_ctx (dec_opt (nth_field 1 fs)) (dec_opt (nth_field 2 fs)) (dec_opt (nth_field 3 fs))
                    (dec_opt (nth_field 4 fs)) (dec_opt (nth_field 5 fs)) (dec_opt (nth_field 6 fs))
                    (dec_quit (nth_field 7 fs)) in
    if strings_utf8 c then
      match to_bstring c with
      | Ok out => bs "ok " ++ hx out
      | Err e => bs "err " ++ err_name e
      | Panic => bs "PANIC"
      | OutOfFuel => bs "HANG"
      end
    else bs "notutf8"
  else if bytes_eqb op (bs "parse") then
    show_parse (from_bytes (nth_field 1 fs))
  else bs "?".

Definition run (fs : list bytes) : bytes :=
  match fs with
  | _mode :: rest => run_model rest
  | [] => bs "?"
  end.
