(* C35 — Credential helper messages cannot be forged.
   Only statements here; every proof is [exact <lemma of Proofs.v>].
   Model: Model.v (gix-credentials Context::write_to, validate, Context::from_bytes, with bstr
   lines(), splitn(2,'='), UTF-8 validity and Boolean::try_from), after the `fix:` commit that makes
   validate refuse CR in values.

   Vocabulary (Proofs.v):
   [present c]      the (key, value) pairs of the fields of c that are Some, in the order write_to
                    visits them: url, path, protocol, host, username, password (theorem present_fields)
   [line (k,v)]     k ++ "=" ++ v            [encode kvs]  the lines of kvs, each followed by LF
   [clean v]        v contains no NUL, no LF and no CR
   [clear_quit c]   c with quit := None (write_to never writes quit, by design and like git)
   [strings_utf8 c] the four String fields hold well-formed UTF-8 (Rust's String invariant)
   [split_on sep s] the pieces a reader gets that cuts s at every byte satisfying sep
   [sep_ok sep]     sep holds for LF, and for nothing but LF and CR
   write_to returns (bytes written so far, result). *)
From GixV.Base Require Import Bytes BytesFacts Outcome.
From GixV.C35 Require Import Model Proofs.

(* every context that write_to accepts decodes back to the same fields *)
Theorem ctx_round_trip : forall c out, strings_utf8 c = true ->
  write_to c = (out, Ok tt) -> from_bytes out = Ok (clear_quit c).
Proof. exact L_round_trip. Qed.

(* write_to succeeds exactly when every present value is free of NUL, LF and CR, and then writes
   exactly one line per present field *)
Theorem write_accepts_exactly_clean_values : forall c out,
  write_to c = (out, Ok tt) <->
  (forallb (fun p => clean (snd p)) (present c) = true /\ out = encode (present c)).
Proof. exact L_write_ok_iff. Qed.

(* a value containing NUL, LF or CR is refused rather than sent: write_to fails, and what it has
   written before failing are the intact lines of earlier fields only — not the offending pair *)
Theorem bad_value_is_refused_not_sent : forall c k v,
  In (k, v) (present c) -> In NUL v \/ In LF v \/ In CR v ->
  exists pre post, write_to c = (encode pre, Err Encoding) /\ present c = pre ++ post /\
    forallb (fun p => clean (snd p)) pre = true /\ ~ In (k, v) pre.
Proof. exact L_refuses_in. Qed.

(* no injection, whatever the result (Ok or refused half-way): the bytes that reached the helper
   are the lines of a prefix [sent] of the present fields (all of them when Ok); a reader cutting
   at LF, or at LF and CR, sees exactly those lines and one empty piece after the last LF; the
   number of line breaks equals the number of fields sent; and in each line the first '=' is the
   one write_to put there, so key and value are the field's own — no value can introduce a key *)
Theorem no_injection : forall c out r, write_to c = (out, r) ->
  exists sent post,
    present c = sent ++ post /\ (r = Ok tt -> post = []) /\
    out = encode sent /\
    forallb (fun p => clean (snd p)) sent = true /\
    (forall sep, sep_ok sep -> split_on sep out = map line sent ++ [[]]) /\
    (forall sep, sep_ok sep -> length (filter sep out) = length sent) /\
    Forall (fun p => splitn2_eq (line p) = (fst p, Some (snd p))) sent.
Proof. exact L_no_injection. Qed.

(* number of lines = number of present fields, for LF-only and for CR-or-LF readers *)
Theorem line_count_is_field_count : forall c out, write_to c = (out, Ok tt) ->
  length (filter is_lf out) = length (present c) /\
  length (filter is_cr_or_lf out) = length (present c) /\
  split_on is_lf out = map line (present c) ++ [[]] /\
  split_on is_cr_or_lf out = map line (present c) ++ [[]].
Proof. exact L_line_count. Qed.

Theorem present_fields : forall c,
  present c = opt_pair (bs "url") (c_url c) ++ opt_pair (bs "path") (c_path c)
           ++ opt_pair (bs "protocol") (c_protocol c) ++ opt_pair (bs "host") (c_host c)
           ++ opt_pair (bs "username") (c_username c) ++ opt_pair (bs "password") (c_password c).
Proof. exact L_present_fields. Qed.

(* neither direction can panic or hang *)
Theorem write_to_total : forall c, exists out r, write_to c = (out, r) /\ r <> Panic /\ r <> OutOfFuel.
Proof. exact L_write_total. Qed.
Theorem from_bytes_total : forall input, from_bytes input <> Panic /\ from_bytes input <> OutOfFuel.
Proof. exact L_from_bytes_total. Qed.

(* to_bstring() ("writes infallibly into memory") is write_to plus expect(): it returns the
   encoding when every present value is clean and PANICS otherwise — it never returns a forged
   message, but it is not infallible *)
Theorem to_bstring_ok_or_panic : forall c,
  (forallb (fun p => clean (snd p)) (present c) = true -> to_bstring c = Ok (encode (present c))) /\
  (forallb (fun p => clean (snd p)) (present c) = false -> to_bstring c = Panic) /\
  to_bstring c <> OutOfFuel /\ (forall e, to_bstring c <> Err e).
Proof. exact L_to_bstring. Qed.

(* the other direction: whatever from_bytes accepts (from any input at all, e.g. a helper's
   answer) is a context that write_to accepts, and it survives being sent on and read again *)
Theorem read_write_read : forall input c, from_bytes input = Ok c ->
  strings_utf8 c = true /\
  write_to c = (encode (present c), Ok tt) /\
  from_bytes (encode (present c)) = Ok (clear_quit c).
Proof. exact L_read_write_read. Qed.

(* ---- non-vacuity ------------------------------------------------------------------------ *)

Definition ex_ctx : ctx :=
  mk_ctx (Some (bs "https")) (Some (bs "example.com:8080")) None (Some (bs "host=evil"))
         (Some (bs "pass=word ")) (Some (bs "https://example.com:8080/a=b")) (Some true).

(* a context whose values contain '=' and look like attribute lines is accepted and round-trips *)
Example round_trip_example :
  strings_utf8 ex_ctx = true /\
  write_to ex_ctx =
    (bs "url=https://example.com:8080/a=b" ++ [LF] ++ bs "protocol=https" ++ [LF]
     ++ bs "host=example.com:8080" ++ [LF] ++ bs "username=host=evil" ++ [LF]
     ++ bs "password=pass=word " ++ [LF], Ok tt) /\
  from_bytes (fst (write_to ex_ctx)) = Ok (clear_quit ex_ctx) /\
  length (present ex_ctx) = 5%nat.
Proof. repeat split. Qed.

(* refusal half-way: url is sent, the username with an embedded LF is not, nor is the password *)
Example refusal_example :
  let c := mk_ctx None None None (Some (bs "u" ++ [LF] ++ bs "host=evil")) (Some (bs "pw"))
                  (Some (bs "https://h")) None in
  In (bs "username", bs "u" ++ [LF] ++ bs "host=evil") (present c) /\
  write_to c = (bs "url=https://h" ++ [LF], Err Encoding).
Proof. cbv zeta. split; [right; left; reflexivity | reflexivity]. Qed.

(* why CR has to be refused: the reader (like git) takes CR LF as the line ending, so a
   username "user\r", if it were written, would come back as "user" *)
Example reader_strips_cr_before_lf :
  from_bytes (bs "username=user" ++ [CR; LF]) =
  Ok (mk_ctx None None None (Some (bs "user")) None None None) /\
  fst (write_to (mk_ctx None None None (Some (bs "user" ++ [CR])) None None None)) = [].
Proof. split; reflexivity. Qed.

(* read_write_read has a non-trivial instance: CRLF input, duplicate key, unknown key, quit *)
Example read_example :
  from_bytes (bs "host=a" ++ [CR; LF] ++ bs "host=b" ++ [LF] ++ bs "x=y" ++ [LF] ++ bs "quit=1" ++ [LF]
              ++ [LF] ++ bs "username=ignored" ++ [LF]) =
  Ok (mk_ctx None (Some (bs "b")) None None None None (Some true)).
Proof. reflexivity. Qed.

Example sep_ok_instances : sep_ok is_lf /\ sep_ok is_cr_or_lf.
Proof. split; [exact is_lf_ok | exact is_cr_or_lf_ok]. Qed.

Example to_bstring_panics_example :
  to_bstring (mk_ctx None None None None (Some [LF]) None None) = Panic /\
  to_bstring ex_ctx = Ok (fst (write_to ex_ctx)).
Proof. split; reflexivity. Qed.
