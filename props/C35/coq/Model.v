(* C35 — executable model of gix-credentials/src/protocol/context/serde.rs
   (Context::write_to, validate, Context::from_bytes) together with the library functions it
   calls: bstr `lines()` (LinesWithTerminator + trim_last_terminator), slice `splitn(2, '=')`,
   UTF-8 validity (`to_str()`, `is_utf8()`), gix_config_value::Boolean::try_from (for `quit`).
   No proofs here.  The model follows the code after the `fix:` commit recorded in findings.txt
   (validate refuses CR in values); see NOTES.md. *)
From GixV.Base Require Import Bytes Outcome.
Local Open Scope N_scope.

Inductive err := Encoding | Syntax | IllformedUtf8.

(* gix_credentials::protocol::Context; the four `String` fields are byte strings that are
   well-formed UTF-8 (a premise wherever it matters), `url`/`path` are BString. *)
Record ctx := mk_ctx {
  c_protocol : option bytes;
  c_host     : option bytes;
  c_path     : option bytes;
  c_username : option bytes;
  c_password : option bytes;
  c_url      : option bytes;
  c_quit     : option bool }.

Definition ctx_default : ctx := mk_ctx None None None None None None None.

Definition LF : byte := x0a.
Definition CR : byte := x0d.
Definition NUL : byte := x00.
Definition EQS : byte := x3d.

Definition has_byte (b : byte) (l : bytes) : bool := existsb (beqb b) l.

(* fn validate(key, value): true = Ok(()), false = Err(Error::Encoding) *)
Definition validate (key value : bytes) : bool :=
  negb (has_byte NUL key || has_byte LF key
        || has_byte NUL value || has_byte LF value || has_byte CR value).

(* ---- write_to ------------------------------------------------------------------------ *)

Definition write_key (key value : bytes) : bytes := key ++ EQS :: value ++ [LF].

(* the two loops of write_to, in order: url, path, then protocol, host, username, password *)
Definition write_fields (c : ctx) : list (bytes * option bytes) :=
  [ (bs "url", c_url c); (bs "path", c_path c);
    (bs "protocol", c_protocol c); (bs "host", c_host c);
    (bs "username", c_username c); (bs "password", c_password c) ].

(* returns what has been written to `out` so far and the result; a failing validate returns
   early with the earlier fields already written *)
Fixpoint write_loop (fs : list (bytes * option bytes)) (out : bytes) : bytes * outcome unit err :=
  match fs with
  | [] => (out, Ok tt)
  | (_, None) :: r => write_loop r out
  | (k, Some v) :: r =>
      if validate k v then write_loop r (out ++ write_key k v) else (out, Err Encoding)
  end.

Definition write_to (c : ctx) : bytes * outcome unit err := write_loop (write_fields c) [].

(* to_bstring(): `self.write_to(&mut buf).expect("infallible")` — a refused value is a panic here *)
Definition to_bstring (c : ctx) : outcome bytes err :=
  match write_to c with
  | (out, Ok _) => Ok out
  | (_, _) => Panic
  end.

(* ---- bstr lines() --------------------------------------------------------------------- *)

(* LinesWithTerminator: cut after every LF; a non-empty unterminated rest is the last line *)
Fixpoint lines_with_terminator (l : bytes) : list bytes :=
  match l with
  | [] => []
  | b :: r =>
      if beqb b LF then [b] :: lines_with_terminator r
      else match lines_with_terminator r with
           | [] => [[b]]
           | ln :: rest => (b :: ln) :: rest
           end
  end.

(* trim_last_terminator: strip one trailing LF, and then one CR before it *)
Definition trim_last_terminator (s : bytes) : bytes :=
  match rev s with
  | b :: r =>
      if beqb b LF then
        match r with
        | c :: r' => if beqb c CR then rev r' else rev r
        | [] => []
        end
      else s
  | [] => s
  end.

Definition lines (l : bytes) : list bytes := map trim_last_terminator (lines_with_terminator l).

(* .take_while(|line| !line.is_empty()) *)
Fixpoint take_while_nonempty (ls : list bytes) : list bytes :=
  match ls with
  | [] => []
  | [] :: _ => []
  | l :: r => l :: take_while_nonempty r
  end.

(* line.splitn(2, |b| *b == b'='): (first item, second item if any) *)
Fixpoint splitn2_eq (l : bytes) : bytes * option bytes :=
  match l with
  | [] => ([], None)
  | b :: r =>
      if beqb b EQS then ([], Some r)
      else let '(k, v) := splitn2_eq r in (b :: k, v)
  end.

(* ---- UTF-8 well-formedness (Unicode Table 3-7), what to_str()/is_utf8() accept -------- *)

Definition in_range (lo hi : N) (b : byte) : bool := N.leb lo (b2N b) && N.leb (b2N b) hi.
Definition is_cont (b : byte) : bool := in_range 128 191 b.

Fixpoint utf8_valid (l : bytes) : bool :=
  match l with
  | [] => true
  | b0 :: r0 =>
      if N.leb (b2N b0) 127 then utf8_valid r0
      else if in_range 194 223 b0 then
        match r0 with
        | b1 :: r1 => is_cont b1 && utf8_valid r1
        | _ => false
        end
      else if in_range 224 239 b0 then
        match r0 with
        | b1 :: b2 :: r2 =>
            (if N.eqb (b2N b0) 224 then in_range 160 191 b1
             else if N.eqb (b2N b0) 237 then in_range 128 159 b1
             else is_cont b1)
            && is_cont b2 && utf8_valid r2
        | _ => false
        end
      else if in_range 240 244 b0 then
        match r0 with
        | b1 :: b2 :: b3 :: r3 =>
            (if N.eqb (b2N b0) 240 then in_range 144 191 b1
             else if N.eqb (b2N b0) 244 then in_range 128 143 b1
             else is_cont b1)
            && is_cont b2 && is_cont b3 && utf8_valid r3
        | _ => false
        end
      else false
  end.

Definition opt_utf8 (o : option bytes) : bool :=
  match o with None => true | Some v => utf8_valid v end.
(* the invariant of Rust's `String` for the four String fields *)
Definition strings_utf8 (c : ctx) : bool :=
  opt_utf8 (c_protocol c) && opt_utf8 (c_host c) && opt_utf8 (c_username c) && opt_utf8 (c_password c).

(* ---- gix_config_value::Boolean::try_from(&BStr) ---------------------------------------- *)

Definition ascii_lower (b : byte) : byte :=
  let n := b2N b in if N.leb 65 n && N.leb n 90 then N2b (n + 32) else b.
Definition eq_ignore_ascii_case (a b : bytes) : bool :=
  bytes_eqb (map ascii_lower a) (map ascii_lower b).

(* i64::from_str: optional sign, at least one ASCII digit, value within i64 *)
Definition parse_i64 (s : bytes) : option Z :=
  match s with
  | [] => None
  | b :: r =>
      let '(neg, digits) :=
        if beqb b x2d then (true, r) else if beqb b x2b then (false, r) else (false, s) in
      match dec_to_N digits with
      | None => None
      | Some n =>
          let z := if neg then Z.opp (Z.of_N n) else Z.of_N n in
          if Z.leb (-9223372036854775808) z && Z.leb z 9223372036854775807 then Some z else None
      end
  end.

Definition boolean_try_from (v : bytes) : option bool :=
  if eq_ignore_ascii_case v (bs "yes") || eq_ignore_ascii_case v (bs "on")
     || eq_ignore_ascii_case v (bs "true") then Some true
  else if eq_ignore_ascii_case v (bs "no") || eq_ignore_ascii_case v (bs "off")
     || eq_ignore_ascii_case v (bs "false") || (match v with [] => true | _ => false end) then Some false
  else if utf8_valid v then
    match parse_i64 v with
    | Some z => Some (negb (Z.eqb z 0))
    | None => None
    end
  else None.

(* ---- from_bytes ----------------------------------------------------------------------- *)

(* the closure mapped over the lines: key must be UTF-8 and a '=' must be present, else Syntax;
   then validate *)
Definition parse_line (line : bytes) : outcome (bytes * bytes) err :=
  let '(k, ov) := splitn2_eq line in
  match (if utf8_valid k then Some k else None), ov with
  | Some key, Some value => if validate key value then Ok (key, value) else Err Encoding
  | _, _ => Err Syntax
  end.

Definition set_string (c : ctx) (key value : bytes) : ctx :=
  if bytes_eqb key (bs "protocol") then
    mk_ctx (Some value) (c_host c) (c_path c) (c_username c) (c_password c) (c_url c) (c_quit c)
  else if bytes_eqb key (bs "host") then
    mk_ctx (c_protocol c) (Some value) (c_path c) (c_username c) (c_password c) (c_url c) (c_quit c)
  else if bytes_eqb key (bs "username") then
    mk_ctx (c_protocol c) (c_host c) (c_path c) (Some value) (c_password c) (c_url c) (c_quit c)
  else
    mk_ctx (c_protocol c) (c_host c) (c_path c) (c_username c) (Some value) (c_url c) (c_quit c).

(* the body of the for loop after `let (key, value) = res?;` *)
Definition apply_kv (c : ctx) (key value : bytes) : outcome ctx err :=
  if bytes_eqb key (bs "protocol") || bytes_eqb key (bs "host")
     || bytes_eqb key (bs "username") || bytes_eqb key (bs "password") then
    if utf8_valid value then Ok (set_string c key value) else Err IllformedUtf8
  else if bytes_eqb key (bs "url") then
    Ok (mk_ctx (c_protocol c) (c_host c) (c_path c) (c_username c) (c_password c) (Some value) (c_quit c))
  else if bytes_eqb key (bs "path") then
    Ok (mk_ctx (c_protocol c) (c_host c) (Some value) (c_username c) (c_password c) (c_url c) (c_quit c))
  else if bytes_eqb key (bs "quit") then
    Ok (mk_ctx (c_protocol c) (c_host c) (c_path c) (c_username c) (c_password c) (c_url c)
               (boolean_try_from value))
  else Ok c.

(* the (lazy) iteration: the first failing line, in input order, decides the error *)
Fixpoint from_lines (ls : list bytes) (c : ctx) : outcome ctx err :=
  match ls with
  | [] => Ok c
  | l :: r =>
      match parse_line l with
      | Ok (k, v) =>
          match apply_kv c k v with
          | Ok c' => from_lines r c'
          | Err e => Err e
          | Panic => Panic
          | OutOfFuel => OutOfFuel
          end
      | Err e => Err e
      | Panic => Panic
      | OutOfFuel => OutOfFuel
      end
  end.

Definition from_bytes (input : bytes) : outcome ctx err :=
  from_lines (take_while_nonempty (lines input)) ctx_default.
