//! C35 harness: gix-credentials Context::write_to -> Context::from_bytes.
//!
//! cases:  rt|tb <protocol> <host> <path> <username> <password> <url> <quit>   (struct field order)
//!         parse <bytes>
//! an optional field travels as: empty = None, otherwise the marker byte `S` followed by the value;
//! quit is `T`, `F` or anything else for None.
use bstr::BString;
use gix_credentials::protocol::context::decode;
use gix_credentials::protocol::Context;
use gixv_common::*;

fn enc(o: &Option<Vec<u8>>) -> Vec<u8> {
    match o {
        None => vec![],
        Some(v) => {
            let mut f = vec![b'S'];
            f.extend_from_slice(v);
            f
        }
    }
}
fn dec(f: &[u8]) -> Option<Vec<u8>> {
    if f.is_empty() {
        None
    } else {
        Some(f[1..].to_vec())
    }
}

/// the six optional values in struct order: protocol host path username password url
type Raw = [Option<Vec<u8>>; 6];

fn raw_of(c: &Case) -> (Raw, Option<bool>) {
    let r: Raw = [
        dec(f_str(c, 1)),
        dec(f_str(c, 2)),
        dec(f_str(c, 3)),
        dec(f_str(c, 4)),
        dec(f_str(c, 5)),
        dec(f_str(c, 6)),
    ];
    let q = match f_str(c, 7) {
        b"T" => Some(true),
        b"F" => Some(false),
        _ => None,
    };
    (r, q)
}

fn rt_case(r: &Raw, quit: u8) -> Case {
    vec![
        tag("rt"),
        enc(&r[0]),
        enc(&r[1]),
        enc(&r[2]),
        enc(&r[3]),
        enc(&r[4]),
        enc(&r[5]),
        match quit {
            1 => tag("T"),
            2 => tag("F"),
            _ => tag("N"),
        },
    ]
}

/// None when a `String` field is not UTF-8 (such a Context cannot exist)
fn build_ctx(r: &Raw, quit: Option<bool>) -> Option<Context> {
    fn s(o: &Option<Vec<u8>>) -> Option<Option<String>> {
        match o {
            None => Some(None),
            Some(v) => String::from_utf8(v.clone()).ok().map(Some),
        }
    }
    Some(Context {
        protocol: s(&r[0])?,
        host: s(&r[1])?,
        path: r[2].clone().map(BString::from),
        username: s(&r[3])?,
        password: s(&r[4])?,
        url: r[5].clone().map(BString::from),
        quit,
    })
}

// ---------------------------------------------------------------------------------- generator

const PLAIN: &[u8] = b"abz=:/@.-_ %09";
const SPECIAL: &[&[u8]] = &[
    b"\r",
    b"\n",
    b"\0",
    b"\r\n",
    b"\nhost=evil",
    b"\rhost=evil",
    b"\r\nusername=evil",
    b"\n\n",
    b"\r\r",
];
const UNI: &[&str] = &["\u{e9}", "\u{20ac}", "\u{1d11e}", "\u{7f}", "\u{80}", "\u{7ff}", "\u{800}", "\u{ffff}", "\u{10000}", "\u{10ffff}", "\u{d7ff}", "\u{e000}"];
const BADUTF8: &[&[u8]] = &[
    b"\xff",
    b"\xc3",
    b"\xc0\xaf",
    b"\xc1\xbf",
    b"\xe0\x9f\xbf",
    b"\xed\xa0\x80",
    b"\xf0\x8f\xbf\xbf",
    b"\xf4\x90\x80\x80",
    b"\xf5\x80\x80\x80",
    b"\x80",
    b"\xe2\x82",
    b"\xf0\x9d\x84",
    b"\xc2\x41",
    b"\xe1\x80\x41",
    b"\xf1\x80\x80\x41",
];
const KEYS: &[&str] = &["protocol", "host", "path", "username", "password", "url", "quit"];

fn insert_at(v: &mut Vec<u8>, pos: usize, what: &[u8]) {
    let pos = pos.min(v.len());
    let tail = v.split_off(pos);
    v.extend_from_slice(what);
    v.extend_from_slice(&tail);
}

/// a value: mostly clean; `special` per mille chance of a control sequence, `bad` per mille of ill-formed UTF-8
fn value(rng: &mut Rng, special: u64, bad: u64) -> Vec<u8> {
    let mut v = match rng.below(10) {
        0 => vec![],
        1 => {
            // looks like an attribute line itself
            let mut v = rng.pick(KEYS).as_bytes().to_vec();
            v.push(b'=');
            v.extend(rng.word(PLAIN, 0, 4));
            v
        }
        2 => b"https://user:pw@example.com:8080/a/b".to_vec(),
        _ => rng.word(PLAIN, 1, 8),
    };
    if rng.chance(1, 4) {
        let n = rng.range(1, 3);
        for _ in 0..n {
            // insert on the byte level only at char boundaries: v is ASCII so far or we append
            let u = rng.pick(UNI).as_bytes();
            if v.is_ascii() {
                let pos = rng.below(v.len() as u64 + 1) as usize;
                insert_at(&mut v, pos, u);
            } else {
                v.extend_from_slice(u);
            }
        }
    }
    if rng.chance(bad, 1000) {
        let b = *rng.pick(BADUTF8);
        if rng.chance(1, 2) {
            v.extend_from_slice(b);
        } else {
            insert_at(&mut v, 0, b);
        }
    }
    if rng.chance(special, 1000) {
        let s = *rng.pick(SPECIAL);
        match rng.below(3) {
            0 => insert_at(&mut v, 0, s),
            1 => v.extend_from_slice(s),
            _ => {
                // somewhere inside, at a char boundary
                let mut pos = rng.below(v.len() as u64 + 1) as usize;
                while pos < v.len() && (v[pos] & 0xc0) == 0x80 {
                    pos += 1;
                }
                insert_at(&mut v, pos, s)
            }
        }
    }
    v
}

fn raw_ctx(rng: &mut Rng, special: u64) -> Raw {
    let dense = rng.chance(1, 2);
    let mut r: Raw = Default::default();
    for (i, slot) in r.iter_mut().enumerate() {
        let present = if dense { rng.chance(4, 5) } else { rng.chance(1, 3) };
        if present {
            // path (2) and url (5) are byte strings and may carry ill-formed UTF-8
            let bad = if i == 2 || i == 5 { 100 } else { 8 };
            *slot = Some(value(rng, special, bad));
        }
    }
    r
}

fn written(r: &Raw) -> Vec<u8> {
    // what a correct writer emits (used to derive parse inputs)
    let mut out = Vec::new();
    for (k, i) in [("url", 5), ("path", 2), ("protocol", 0), ("host", 1), ("username", 3), ("password", 4)] {
        if let Some(v) = &r[i] {
            out.extend_from_slice(k.as_bytes());
            out.push(b'=');
            out.extend_from_slice(v);
            out.push(b'\n');
        }
    }
    out
}

fn parse_input(rng: &mut Rng) -> Vec<u8> {
    match rng.below(10) {
        0..=2 => {
            // a written context, then damaged
            let r = raw_ctx(rng, 30);
            let mut t = written(&r);
            match rng.below(8) {
                0 => t = t.iter().flat_map(|b| if *b == b'\n' { vec![b'\r', b'\n'] } else { vec![*b] }).collect(),
                1 => {
                    t.pop();
                }
                2 => {
                    if !t.is_empty() {
                        let i = rng.below(t.len() as u64) as usize;
                        t[i] = *rng.pick(b"\r\n\0=\xffa");
                    }
                }
                3 => {
                    let n = rng.below(t.len() as u64 + 1) as usize;
                    t.truncate(n);
                }
                4 => {
                    t.pop();
                    t.push(b'\r');
                }
                5 => t.extend_from_slice(b"\nusername=after-blank\n"),
                _ => {}
            }
            t
        }
        _ => {
            let n = rng.range(0, 6);
            let mut t = Vec::new();
            for _ in 0..n {
                // key
                match rng.below(12) {
                    0 => t.extend(rng.word(b"abhost=\r", 0, 5)),
                    1 => t.extend_from_slice(b"pro\0tocol"),
                    2 => t.extend_from_slice(*rng.pick(BADUTF8)),
                    3 => t.extend_from_slice(b"Host"),
                    4 => t.extend_from_slice(b"quit"),
                    5 => {}
                    _ => t.extend_from_slice(rng.pick(KEYS).as_bytes()),
                }
                let is_quit = t.ends_with(b"quit");
                if !rng.chance(1, 12) {
                    t.push(b'=');
                }
                if is_quit || rng.chance(1, 8) {
                    let q: &[&[u8]] = &[
                        b"true", b"false", b"yes", b"no", b"on", b"off", b"TRUE", b"oN", b"", b"1", b"0", b"-0", b"+0", b"+1", b"-1", b"00", b"007",
                        b"9223372036854775807", b"9223372036854775808", b"-9223372036854775808", b"-9223372036854775809",
                        b"+9223372036854775807", b"00000000000000000000000009", b"99999999999999999999999999", b"-", b"+", b"--1", b"+-1", b"1 ", b" 1",
                        b"1k", b"tru", b"truee", b"0x1", b"1\xff", b"\xc3\xa9", b"on\r",
                    ];
                    t.extend_from_slice(*rng.pick(q));
                } else {
                    t.extend(value(rng, 60, 60));
                }
                match rng.below(12) {
                    0 => t.extend_from_slice(b"\r\n"),
                    1 => t.push(b'\r'),
                    2 => {}
                    3 => t.extend_from_slice(b"\n\n"),
                    4 => t.extend_from_slice(b"\n\r\n"),
                    5 => t.extend_from_slice(b"\r\r\n"),
                    _ => t.push(b'\n'),
                }
            }
            t
        }
    }
}

fn gen(rng: &mut Rng, n: usize) -> Vec<Case> {
    let mut out: Vec<Case> = Vec::new();
    // ---- boundary block
    let none: Raw = Default::default();
    out.push(rt_case(&none, 0));
    out.push(rt_case(&none, 1));
    out.push(rt_case(&none, 2));
    let all_empty: Raw = [Some(vec![]), Some(vec![]), Some(vec![]), Some(vec![]), Some(vec![]), Some(vec![])];
    out.push(rt_case(&all_empty, 0));
    let full: Raw = [
        Some(b"https".to_vec()),
        Some(b"example.com:8080".to_vec()),
        Some(b"a/b.git".to_vec()),
        Some(b"user".to_vec()),
        Some(b"pass=word".to_vec()),
        Some(b"https://user@example.com:8080/a/b.git".to_vec()),
    ];
    out.push(rt_case(&full, 1));
    for r in [&none, &all_empty, &full] {
        let mut case = rt_case(r, 0);
        case[0] = tag("tb");
        out.push(case);
    }
    for s in [&b"\n"[..], b"\0", b"\r"] {
        let mut r = full.clone();
        r[4] = Some(s.to_vec());
        let mut case = rt_case(&r, 0);
        case[0] = tag("tb");
        out.push(case);
    }
    for i in 0..6 {
        // a single field: empty, "=", an attribute look-alike, every control byte at every position
        for v in [&b""[..], b"=", b"==", b"host=evil", b"a=b=c", b" ", b"\t"] {
            let mut r = none.clone();
            r[i] = Some(v.to_vec());
            out.push(rt_case(&r, 0));
        }
        for s in SPECIAL {
            for (pre, post) in [(&b""[..], &b""[..]), (b"ab", b""), (b"", b"ab"), (b"a", b"b")] {
                let mut v = pre.to_vec();
                v.extend_from_slice(s);
                v.extend_from_slice(post);
                let mut r = none.clone();
                r[i] = Some(v.clone());
                out.push(rt_case(&r, 0));
                let mut r = full.clone();
                r[i] = Some(v);
                out.push(rt_case(&r, 0));
            }
        }
        for u in UNI {
            let mut r = none.clone();
            r[i] = Some(u.as_bytes().to_vec());
            out.push(rt_case(&r, 0));
        }
        for b in BADUTF8 {
            let mut r = full.clone();
            r[i] = Some(b.to_vec());
            out.push(rt_case(&r, 0));
        }
    }
    for t in [
        &b""[..],
        b"\n",
        b"\r\n",
        b"\r",
        b"=",
        b"=\n",
        b"url",
        b"url=",
        b"url=\n",
        b"url=a",
        b"url=a\r",
        b"url=a\r\n",
        b"url=a\r\r\n",
        b"url=a\rb\n",
        b"url=a\n\nhost=b\n",
        b"url=a\n\r\nhost=b\n",
        b"host=a\nhost=b\n",
        b"host=\xff\n",
        b"url=\xff\n",
        b"\xff=a\n",
        b"ho\0st=a\n",
        b"host=a\0\n",
        b"other=a\0\n",
        b"other\n",
        b"quit=1\n",
        b"quit=0\n",
        b"quit=\n",
        b"quit=true\nquit=maybe\n",
        b"username=a=b\n",
        b"protocol=https\nhost=example.com\nusername=bob\npassword=secr3t\n",
    ] {
        out.push(vec![tag("parse"), t.to_vec()]);
    }
    // ---- weighted mixture
    while out.len() < n {
        match rng.below(20) {
            0..=9 => {
                // mostly valid contexts
                let r = raw_ctx(rng, 25);
                let q = rng.below(6) as u8;
                let mut case = rt_case(&r, q);
                if rng.chance(1, 8) {
                    case[0] = tag("tb");
                }
                out.push(case);
            }
            10 | 11 => {
                // control-heavy contexts
                let r = raw_ctx(rng, 300);
                out.push(rt_case(&r, 0));
            }
            12 => {
                // exactly one offending field among clean ones: the partial output is visible
                let mut r = raw_ctx(rng, 0);
                let i = rng.below(6) as usize;
                let mut v = rng.word(PLAIN, 0, 4);
                v.extend_from_slice(*rng.pick(SPECIAL));
                v.extend(rng.word(PLAIN, 0, 4));
                r[i] = Some(v);
                out.push(rt_case(&r, 0));
            }
            _ => out.push(vec![tag("parse"), parse_input(rng)]),
        }
    }
    out.truncate(n.max(1));
    out
}

// ---------------------------------------------------------------------------------- transcript

fn show_opt(o: Option<&[u8]>) -> String {
    match o {
        None => "N".into(),
        Some(v) => format!("S{}", hexs(v)),
    }
}
fn show_ctx(c: &Context) -> String {
    format!(
        "{} {} {} {} {} {} {}",
        show_opt(c.protocol.as_deref().map(str::as_bytes)),
        show_opt(c.host.as_deref().map(str::as_bytes)),
        show_opt(c.path.as_ref().map(|b| b.as_slice())),
        show_opt(c.username.as_deref().map(str::as_bytes)),
        show_opt(c.password.as_deref().map(str::as_bytes)),
        show_opt(c.url.as_ref().map(|b| b.as_slice())),
        match c.quit {
            None => "N",
            Some(true) => "T",
            Some(false) => "F",
        }
    )
}
fn show_parse(r: &Result<Context, decode::Error>) -> String {
    match r {
        Ok(c) => format!("ok {}", show_ctx(c)),
        Err(decode::Error::Encoding(_)) => "err Encoding".into(),
        Err(decode::Error::Syntax { .. }) => "err Syntax".into(),
        Err(decode::Error::IllformedUtf8InValue { .. }) => "err Utf8".into(),
    }
}

fn imp(c: &Case) -> String {
    match f_str(c, 0) {
        b"rt" => {
            let (r, q) = raw_of(c);
            let ctx = match build_ctx(&r, q) {
                Some(c) => c,
                None => return "notutf8".into(),
            };
            let mut buf = Vec::<u8>::new();
            match ctx.write_to(&mut buf) {
                Ok(()) => format!("w ok {} r {}", hex(&buf), show_parse(&Context::from_bytes(&buf))),
                Err(_) => format!("w err Encoding {}", hex(&buf)),
            }
        }
        b"tb" => {
            let (r, q) = raw_of(c);
            match build_ctx(&r, q) {
                Some(ctx) => format!("ok {}", hex(&ctx.to_bstring())), // panics when a value is refused
                None => "notutf8".into(),
            }
        }
        b"parse" => show_parse(&Context::from_bytes(f_str(c, 1))),
        _ => "?".into(),
    }
}

// ---------------------------------------------------------------------------------- property

fn refusable(v: &[u8]) -> bool {
    v.iter().any(|b| matches!(b, 0 | b'\n' | b'\r'))
}
fn must_refuse(v: &[u8]) -> bool {
    v.iter().any(|b| matches!(b, 0 | b'\n'))
}

/// The property itself, evaluated on the implementation; the oracle is plain byte-string work.
fn prop(c: &Case) -> Verdict {
    match f_str(c, 0) {
        b"rt" => {
            let (r, q) = raw_of(c);
            let ctx = match build_ctx(&r, q) {
                Some(c) => c,
                None => return Verdict::ok(false, "notutf8"),
            };
            // present fields in the order git and gitoxide write them
            let present: Vec<(&str, &Vec<u8>)> = [("url", 5), ("path", 2), ("protocol", 0), ("host", 1), ("username", 3), ("password", 4)]
                .iter()
                .filter_map(|(k, i)| r[*i].as_ref().map(|v| (*k, v)))
                .collect();
            let line = |k: &str, v: &[u8]| {
                let mut l = k.as_bytes().to_vec();
                l.push(b'=');
                l.extend_from_slice(v);
                l
            };
            let mut buf = Vec::<u8>::new();
            match ctx.write_to(&mut buf) {
                Ok(()) => {
                    if let Some((k, _)) = present.iter().find(|(_, v)| must_refuse(v)) {
                        return Verdict::fail("sends-newline-or-nul", format!("field {k} out {}", hexs(&buf)));
                    }
                    let mut want = ctx.clone();
                    want.quit = None;
                    match Context::from_bytes(&buf) {
                        Ok(back) if back == want => {}
                        Ok(back) => return Verdict::fail("roundtrip", format!("read back {}", show_ctx(&back))),
                        Err(_) => return Verdict::fail("roundtrip", "written context does not parse"),
                    }
                    // no injection: the helper sees exactly one line per present field, whether it
                    // cuts at LF only or (as several real helpers do) at CR as well
                    let pieces: Vec<&[u8]> = buf.split(|b| *b == b'\n').collect();
                    if pieces.len() != present.len() + 1 || !pieces[present.len()].is_empty() {
                        return Verdict::fail("injection", format!("{} lines for {} fields", pieces.len() - 1, present.len()));
                    }
                    for (p, (k, v)) in pieces.iter().zip(present.iter()) {
                        if *p != line(k, v).as_slice() {
                            return Verdict::fail("injection", format!("line {} is not {k}=<value>", hexs(p)));
                        }
                    }
                    let n_cr_lf = buf.iter().filter(|b| matches!(b, b'\n' | b'\r')).count();
                    if n_cr_lf != present.len() {
                        return Verdict::fail("injection-cr", format!("{n_cr_lf} line breaks for {} fields", present.len()));
                    }
                    if present.is_empty() {
                        Verdict::ok(false, "rt-empty")
                    } else {
                        Verdict::ok(true, "rt-ok")
                    }
                }
                Err(_) => {
                    // refused: there must be a reason, and what was already sent must be intact lines
                    // of the fields before the refused one
                    if !present.iter().any(|(_, v)| refusable(v)) {
                        return Verdict::fail("refuses-good-context", "");
                    }
                    // buf must be the lines of the first j present fields, field j being one that may
                    // be refused, and no field that MUST be refused among the first j
                    let mut ok = false;
                    let mut acc = Vec::new();
                    for (key, v) in present.iter() {
                        if acc == buf && refusable(v) {
                            ok = true;
                            break;
                        }
                        if must_refuse(v) {
                            break;
                        }
                        acc.extend_from_slice(&line(key, v));
                        acc.push(b'\n');
                    }
                    if !ok {
                        return Verdict::fail("partial-output", hexs(&buf));
                    }
                    Verdict::ok(true, "rt-refused")
                }
            }
        }
        b"tb" => {
            // to_bstring() is write_to() into memory; it may only panic when a value must be refused
            let (r, q) = raw_of(c);
            let ctx = match build_ctx(&r, q) {
                Some(c) => c,
                None => return Verdict::ok(false, "notutf8"),
            };
            let vals: Vec<&Vec<u8>> = r.iter().flatten().collect();
            if vals.iter().any(|v| refusable(v)) {
                let ctx2 = ctx.clone();
                return match std::panic::catch_unwind(move || ctx2.to_bstring()) {
                    Err(_) => Verdict::ok(true, "tb-refused"),
                    Ok(out) if out.iter().any(|b| *b == 0) || out.iter().filter(|b| **b == b'\n').count() != vals.len() => {
                        Verdict::fail("sends-newline-or-nul", hexs(&out))
                    }
                    Ok(_) => Verdict::ok(true, "tb-ok"),
                };
            }
            let out = ctx.to_bstring();
            let mut want = ctx.clone();
            want.quit = None;
            match Context::from_bytes(&out) {
                Ok(back) if back == want => Verdict::ok(!vals.is_empty(), "tb-ok"),
                _ => Verdict::fail("roundtrip", "to_bstring does not read back"),
            }
        }
        b"parse" => match Context::from_bytes(f_str(c, 1)) {
            Ok(ctx) => {
                // what was read can be sent on and reads back the same
                let mut buf = Vec::<u8>::new();
                if ctx.write_to(&mut buf).is_err() {
                    return Verdict::fail("parsed-unwritable", show_ctx(&ctx));
                }
                let mut want = ctx.clone();
                want.quit = None;
                match Context::from_bytes(&buf) {
                    Ok(back) if back == want => {}
                    _ => return Verdict::fail("roundtrip", format!("parsed {} does not survive write/read", show_ctx(&ctx))),
                }
                Verdict::ok(want != Context::default(), "parse-ok")
            }
            Err(_) => Verdict::ok(false, "parse-err"),
        },
        _ => Verdict::ok(false, "?"),
    }
}

fn main() {
    main_with(Harness { gen, imp, prop, git: None, deadline: std::time::Duration::from_secs(10) });
}
