//! C43 harness: gix-filter's eol and ident filters and the pipeline that combines them, against
//! git's convert.c (transcribed below in plain Rust as `mod reference`, and real `git` in `git()`).
use gixv_common::*;
use gix_filter::eol::{self, AttributesDigest, AutoCrlf, Mode, Stats};
use std::io::Read;

// ------------------------------------------------------------------------------------------- decoding

fn digest_of(f: &[u8]) -> AttributesDigest {
    match f {
        b"Text" => AttributesDigest::Text,
        b"TextInput" => AttributesDigest::TextInput,
        b"TextCrlf" => AttributesDigest::TextCrlf,
        b"TextAuto" => AttributesDigest::TextAuto,
        b"TextAutoCrlf" => AttributesDigest::TextAutoCrlf,
        b"TextAutoInput" => AttributesDigest::TextAutoInput,
        _ => AttributesDigest::Binary,
    }
}
const DIGESTS: &[&str] = &["Binary", "Text", "TextInput", "TextCrlf", "TextAuto", "TextAutoCrlf", "TextAutoInput"];

fn config_of(ac: &[u8], ce: &[u8]) -> eol::Configuration {
    eol::Configuration {
        auto_crlf: match ac {
            b"true" => AutoCrlf::Enabled,
            b"input" => AutoCrlf::Input,
            _ => AutoCrlf::Disabled,
        },
        eol: match ce {
            b"lf" => Some(Mode::Lf),
            b"crlf" => Some(Mode::CrLf),
            _ => None,
        },
    }
}

/// the `.gitattributes` the attribute-state fields stand for
fn gitattributes(text: &[u8], crlf: &[u8], eolattr: &[u8], ident: &[u8], binary: &[u8]) -> Vec<u8> {
    let mut out = Vec::new();
    if binary == b"1" {
        out.extend_from_slice(b"* binary\n");
    }
    let mut line = Vec::new();
    for (name, st) in [("text", text), ("crlf", crlf), ("eol", eolattr), ("ident", ident)] {
        if st == b"set" {
            line.push(name.as_bytes().to_vec());
        } else if st == b"unset" {
            line.push([b"-", name.as_bytes()].concat());
        } else if st.first() == Some(&b'=') {
            line.push([name.as_bytes(), st].concat());
        }
    }
    if !line.is_empty() {
        out.extend_from_slice(b"*");
        for l in line {
            out.push(b' ');
            out.extend_from_slice(&l);
        }
        out.push(b'\n');
    }
    out
}

fn blob_hex(data: &[u8]) -> Vec<u8> {
    gix_object::compute_hash(gix_hash::Kind::Sha1, gix_object::Kind::Blob, data)
        .to_hex()
        .to_string()
        .into_bytes()
}

// ------------------------------------------------------------------------------------------- impl

fn show_opt(changed: bool, buf: &[u8]) -> String {
    if changed {
        format!("changed {}", hexs(buf))
    } else {
        "same".into()
    }
}

fn eol_err(e: &eol::convert_to_git::Error) -> String {
    match e {
        eol::convert_to_git::Error::RoundTrip { msg, .. } => {
            if msg.starts_with("CRLF") {
                "err crlf-lost".into()
            } else {
                "err lf-lost".into()
            }
        }
        _ => "err other".into(),
    }
}

struct Attrs {
    search: gix_attributes::Search,
    collection: gix_attributes::search::MetadataCollection,
}
fn attrs_for(c: &Case) -> Attrs {
    let mut collection = gix_attributes::search::MetadataCollection::default();
    let mut buf = Vec::new();
    let mut search =
        gix_attributes::Search::new_globals(Vec::<std::path::PathBuf>::new(), &mut buf, &mut collection).expect("no io");
    let ga = gitattributes(f_str(c, 1), f_str(c, 2), f_str(c, 3), f_str(c, 4), f_str(c, 5));
    search.add_patterns_buffer(&ga, "/r/.gitattributes".into(), Some(std::path::Path::new("/r")), &mut collection, true);
    Attrs { search, collection }
}

fn pipeline_for(c: &Case, safecrlf: &[u8]) -> gix_filter::Pipeline {
    gix_filter::Pipeline::new(
        Default::default(),
        gix_filter::pipeline::Options {
            drivers: Vec::new(),
            eol_config: config_of(f_str(c, 6), f_str(c, 7)),
            encodings_with_roundtrip_check: Vec::new(),
            crlf_roundtrip_check: match safecrlf {
                b"fail" => gix_filter::pipeline::CrlfRoundTripCheck::Fail,
                b"warn" => gix_filter::pipeline::CrlfRoundTripCheck::Warn,
                _ => gix_filter::pipeline::CrlfRoundTripCheck::Skip,
            },
            object_hash: gix_hash::Kind::Sha1,
        },
    )
}

/// Pipeline::convert_to_git; Ok(bytes) or Err(transcript)
fn impl_togit(c: &Case) -> Result<Vec<u8>, String> {
    let a = attrs_for(c);
    let mut pipe = pipeline_for(c, f_str(c, 8));
    let idx: Option<Vec<u8>> = (f_str(c, 9) == b"1").then(|| f_str(c, 10).to_vec());
    let src = f_str(c, 11);
    let res = pipe.convert_to_git(
        src,
        std::path::Path::new("f"),
        &mut |path, out| {
            out.initialize(&a.collection);
            a.search
                .pattern_matching_relative_path(path, gix_attributes::glob::pattern::Case::Sensitive, Some(false), out);
        },
        &mut |buf| match &idx {
            Some(d) => {
                buf.clear();
                buf.extend_from_slice(d);
                Ok(Some(()))
            }
            None => Ok(None),
        },
    );
    match res {
        Ok(mut out) => {
            let mut v = Vec::new();
            out.read_to_end(&mut v).expect("memory");
            Ok(v)
        }
        Err(gix_filter::pipeline::convert::to_git::Error::Eol(e)) => Err(eol_err(&e)),
        Err(_) => Err("err other".into()),
    }
}

fn impl_towt(c: &Case) -> Result<Vec<u8>, String> {
    let a = attrs_for(c);
    let mut pipe = pipeline_for(c, b"skip");
    let src = f_str(c, 9);
    let res = pipe.convert_to_worktree(
        src,
        "f".into(),
        &mut |path, out| {
            out.initialize(&a.collection);
            a.search
                .pattern_matching_relative_path(path, gix_attributes::glob::pattern::Case::Sensitive, Some(false), out);
        },
        gix_filter::driver::apply::Delay::Forbid,
    );
    match res {
        Ok(mut out) => {
            let mut v = Vec::new();
            out.read_to_end(&mut v).expect("memory");
            Ok(v)
        }
        Err(_) => Err("err other".into()),
    }
}

fn impl_eolgit(c: &Case) -> Result<(bool, Vec<u8>), String> {
    let idx: Option<Vec<u8>> = (f_str(c, 5) == b"1").then(|| f_str(c, 6).to_vec());
    let mut buf = Vec::new();
    let path = std::path::Path::new("f");
    let r = eol::convert_to_git(
        f_str(c, 7),
        digest_of(f_str(c, 1)),
        &mut buf,
        &mut |b| match &idx {
            Some(d) => {
                b.clear();
                b.extend_from_slice(d);
                Ok(Some(()))
            }
            None => Ok(None),
        },
        eol::convert_to_git::Options {
            round_trip_check: match f_str(c, 4) {
                b"fail" => Some(eol::convert_to_git::RoundTripCheck::Fail { rela_path: path }),
                b"warn" => Some(eol::convert_to_git::RoundTripCheck::Warn { rela_path: path }),
                _ => None,
            },
            config: config_of(f_str(c, 2), f_str(c, 3)),
        },
    );
    match r {
        Ok(ch) => Ok((ch, buf)),
        Err(e) => Err(eol_err(&e)),
    }
}

fn impl_eolwt(c: &Case) -> (bool, Vec<u8>) {
    let mut buf = Vec::new();
    let ch = eol::convert_to_worktree(f_str(c, 4), digest_of(f_str(c, 1)), &mut buf, config_of(f_str(c, 2), f_str(c, 3)))
        .expect("memory");
    (ch, buf)
}

fn imp(c: &Case) -> String {
    match f_str(c, 0) {
        b"stats" => {
            let s = Stats::from_bytes(f_str(c, 1));
            format!(
                "{} {} {} {} {} {} {}",
                s.null,
                s.lone_cr,
                s.lone_lf,
                s.crlf,
                s.printable,
                s.non_printable,
                s.is_binary() as u8
            )
        }
        b"eolgit" => match impl_eolgit(c) {
            Ok((ch, buf)) => show_opt(ch, &buf),
            Err(e) => e,
        },
        b"eolwt" => {
            let (ch, buf) = impl_eolwt(c);
            show_opt(ch, &buf)
        }
        b"undo" => {
            let mut buf = Vec::new();
            let ch = gix_filter::ident::undo(f_str(c, 1), &mut buf).expect("memory");
            show_opt(ch, &buf)
        }
        b"apply" => {
            // the blob id is computed by the implementation; the case carries the same id for the model
            let mut buf = Vec::new();
            let ch = gix_filter::ident::apply(f_str(c, 2), gix_hash::Kind::Sha1, &mut buf).expect("memory");
            show_opt(ch, &buf)
        }
        b"togit" => match impl_togit(c) {
            Ok(v) => format!("ok {}", hexs(&v)),
            Err(e) => e,
        },
        b"towt" => match impl_towt(c) {
            Ok(v) => format!("ok {}", hexs(&v)),
            Err(e) => e,
        },
        _ => "?".into(),
    }
}

// ------------------------------------------------------------------------------------------- reference
/// git's convert.c (v2.39), transcribed with indices like the C text.  Independent of gix-filter.
mod reference {
    #[derive(Clone, Copy, PartialEq, Eq, Debug)]
    pub enum Action {
        Undefined,
        Binary,
        Text,
        TextInput,
        TextCrlf,
        Auto,
        AutoInput,
        AutoCrlf,
    }
    #[derive(Clone, Copy, PartialEq, Eq, Debug)]
    pub enum Eol {
        Unset,
        Crlf,
        Lf,
    }
    #[derive(Clone, Copy, PartialEq, Eq, Debug)]
    pub enum AutoCrlfCfg {
        False,
        True,
        Input,
    }
    #[derive(Clone, Copy)]
    pub struct Cfg {
        pub auto_crlf: AutoCrlfCfg,
        pub core_eol: Eol,
    }
    #[derive(Clone, Copy, PartialEq, Eq)]
    pub enum Flags {
        None,
        Warn,
        Die,
    }
    #[derive(Clone, Copy, Default, Debug, PartialEq, Eq)]
    pub struct TextStat {
        pub nul: u64,
        pub lonecr: u64,
        pub lonelf: u64,
        pub crlf: u64,
        pub printable: u64,
        pub nonprintable: u64,
    }

    pub fn gather_stats(buf: &[u8]) -> TextStat {
        let mut st = TextStat::default();
        let size = buf.len();
        let mut i = 0;
        while i < size {
            let c = buf[i];
            if c == b'\r' {
                if i + 1 < size && buf[i + 1] == b'\n' {
                    st.crlf += 1;
                    i += 1;
                } else {
                    st.lonecr += 1;
                }
                i += 1;
                continue;
            }
            if c == b'\n' {
                st.lonelf += 1;
                i += 1;
                continue;
            }
            if c == 127 {
                st.nonprintable += 1;
            } else if c < 32 {
                match c {
                    8 | 9 | 0o33 | 0o14 => st.printable += 1,
                    0 => {
                        st.nul += 1;
                        st.nonprintable += 1;
                    }
                    _ => st.nonprintable += 1,
                }
            } else {
                st.printable += 1;
            }
            i += 1;
        }
        if size >= 1 && buf[size - 1] == 0o32 {
            st.nonprintable -= 1;
        }
        st
    }

    pub fn convert_is_binary(st: &TextStat) -> bool {
        st.lonecr != 0 || st.nul != 0 || (st.printable >> 7) < st.nonprintable
    }

    fn text_eol_is_crlf(cfg: Cfg) -> bool {
        if cfg.auto_crlf == AutoCrlfCfg::True {
            return true;
        } else if cfg.auto_crlf == AutoCrlfCfg::Input {
            return false;
        }
        cfg.core_eol == Eol::Crlf
    }

    fn output_eol(cfg: Cfg, a: Action) -> Eol {
        match a {
            Action::Binary => Eol::Unset,
            Action::TextCrlf => Eol::Crlf,
            Action::TextInput => Eol::Lf,
            Action::Undefined | Action::AutoCrlf => Eol::Crlf,
            Action::AutoInput => Eol::Lf,
            Action::Text | Action::Auto => {
                if text_eol_is_crlf(cfg) {
                    Eol::Crlf
                } else {
                    Eol::Lf
                }
            }
        }
    }

    fn is_auto(a: Action) -> bool {
        matches!(a, Action::Auto | Action::AutoInput | Action::AutoCrlf)
    }

    fn will_convert_lf_to_crlf(cfg: Cfg, st: &TextStat, a: Action) -> bool {
        if output_eol(cfg, a) != Eol::Crlf {
            return false;
        }
        if st.lonelf == 0 {
            return false;
        }
        if is_auto(a) {
            if st.lonecr != 0 || st.crlf != 0 {
                return false;
            }
            if convert_is_binary(st) {
                return false;
            }
        }
        true
    }

    fn has_crlf_in_index(data: Option<&[u8]>) -> bool {
        let Some(data) = data else { return false };
        if data.contains(&b'\r') {
            let st = gather_stats(data);
            if !convert_is_binary(&st) && st.crlf != 0 {
                return true;
            }
        }
        false
    }

    pub enum ToGit {
        Bytes(Vec<u8>),
        DieCrlfLost,
        DieLfLost,
    }

    /// returns None when nothing is to be done
    fn crlf_to_git(cfg: Cfg, index: Option<&[u8]>, src: &[u8], a: Action, fl: Flags) -> Result<Option<Vec<u8>>, bool> {
        if a == Action::Binary || src.is_empty() {
            return Ok(None);
        }
        let stats = gather_stats(src);
        let mut convert_crlf_into_lf = stats.crlf != 0;
        if is_auto(a) {
            if convert_is_binary(&stats) {
                return Ok(None);
            }
            if has_crlf_in_index(index) {
                convert_crlf_into_lf = false;
            }
        }
        if fl != Flags::None {
            let mut new_stats = stats;
            if convert_crlf_into_lf {
                new_stats.lonelf += new_stats.crlf;
                new_stats.crlf = 0;
            }
            if will_convert_lf_to_crlf(cfg, &new_stats, a) {
                new_stats.crlf += new_stats.lonelf;
                new_stats.lonelf = 0;
            }
            if stats.crlf != 0 && new_stats.crlf == 0 {
                if fl == Flags::Die {
                    return Err(true);
                }
            } else if stats.lonelf != 0 && new_stats.lonelf == 0 {
                if fl == Flags::Die {
                    return Err(false);
                }
            }
        }
        if !convert_crlf_into_lf {
            return Ok(None);
        }
        let mut dst = Vec::with_capacity(src.len());
        let mut len = src.len();
        let mut p = 0;
        if is_auto(a) {
            while len > 0 {
                let c = src[p];
                p += 1;
                if c != b'\r' {
                    dst.push(c);
                }
                len -= 1;
            }
        } else {
            while len > 0 {
                let c = src[p];
                p += 1;
                if !(c == b'\r' && (1 < len && src[p] == b'\n')) {
                    dst.push(c);
                }
                len -= 1;
            }
        }
        Ok(Some(dst))
    }

    fn crlf_to_worktree(cfg: Cfg, src: &[u8], a: Action) -> Option<Vec<u8>> {
        if src.is_empty() || output_eol(cfg, a) != Eol::Crlf {
            return None;
        }
        let stats = gather_stats(src);
        if !will_convert_lf_to_crlf(cfg, &stats, a) {
            return None;
        }
        let mut buf = Vec::new();
        let mut s = 0;
        loop {
            let Some(off) = src[s..].iter().position(|b| *b == b'\n') else { break };
            let nl = s + off;
            if nl > s && src[nl - 1] == b'\r' {
                buf.extend_from_slice(&src[s..nl + 1]);
            } else {
                buf.extend_from_slice(&src[s..nl]);
                buf.extend_from_slice(b"\r\n");
            }
            s = nl + 1;
        }
        buf.extend_from_slice(&src[s..]);
        Some(buf)
    }

    pub fn count_ident(buf: &[u8]) -> usize {
        let mut cnt = 0;
        let mut cp = 0;
        let mut size = buf.len();
        while size > 0 {
            let mut ch = buf[cp];
            cp += 1;
            size -= 1;
            if ch != b'$' {
                continue;
            }
            if size < 3 {
                break;
            }
            if &buf[cp..cp + 2] != b"Id" {
                continue;
            }
            ch = buf[cp + 2];
            cp += 3;
            size -= 3;
            if ch == b'$' {
                cnt += 1;
            }
            if ch != b':' {
                continue;
            }
            while size > 0 {
                ch = buf[cp];
                cp += 1;
                size -= 1;
                if ch == b'$' {
                    cnt += 1;
                    break;
                }
                if ch == b'\n' {
                    break;
                }
            }
        }
        cnt
    }

    fn memchr(hay: &[u8], from: usize, len: usize, b: u8) -> Option<usize> {
        hay[from..from + len].iter().position(|x| *x == b).map(|p| from + p)
    }

    fn ident_to_git(buf: &[u8], ident: bool) -> Option<Vec<u8>> {
        if !ident || count_ident(buf) == 0 {
            return None;
        }
        let mut dst = Vec::new();
        let mut src = 0;
        let mut len = buf.len();
        loop {
            let Some(dollar) = memchr(buf, src, len, b'$') else { break };
            dst.extend_from_slice(&buf[src..dollar + 1]);
            len -= dollar + 1 - src;
            src = dollar + 1;
            if len > 3 && &buf[src..src + 3] == b"Id:" {
                let Some(dollar) = memchr(buf, src + 3, len - 3, b'$') else { break };
                if memchr(buf, src + 3, dollar - src - 3, b'\n').is_some() {
                    continue;
                }
                dst.extend_from_slice(b"Id$");
                len -= dollar + 1 - src;
                src = dollar + 1;
            }
        }
        dst.extend_from_slice(&buf[src..src + len]);
        Some(dst)
    }

    /// `suffix` is " $" in git; `collapse_expanded` is true in git (an expanded id in the repository is re-expanded)
    pub fn ident_to_worktree_with(buf: &[u8], ident: bool, hex: &[u8], suffix: &[u8], collapse_expanded: bool) -> Option<Vec<u8>> {
        if !ident {
            return None;
        }
        let cnt = count_ident(buf);
        if cnt == 0 {
            return None;
        }
        let mut out = Vec::new();
        let mut src = 0;
        let mut len = buf.len();
        loop {
            let Some(dollar) = memchr(buf, src, len, b'$') else { break };
            out.extend_from_slice(&buf[src..dollar + 1]);
            len -= dollar + 1 - src;
            src = dollar + 1;
            if len < 3 || &buf[src..src + 2] != b"Id" {
                continue;
            }
            if buf[src + 2] == b'$' {
                src += 3;
                len -= 3;
            } else if buf[src + 2] == b':' {
                if !collapse_expanded {
                    continue;
                }
                let Some(dollar) = memchr(buf, src + 3, len - 3, b'$') else { break };
                if memchr(buf, src + 3, dollar - src - 3, b'\n').is_some() {
                    continue;
                }
                // spc = memchr(src + 4, ' ', dollar - src - 4); a length of -1 ("$Id:$") finds nothing before the dollar
                if dollar >= src + 4 {
                    if let Some(spc) = memchr(buf, src + 4, dollar - src - 4, b' ') {
                        if spc < dollar - 1 {
                            continue;
                        }
                    }
                }
                len -= dollar + 1 - src;
                src = dollar + 1;
            } else {
                continue;
            }
            out.extend_from_slice(b"Id: ");
            out.extend_from_slice(hex);
            out.extend_from_slice(suffix);
        }
        out.extend_from_slice(&buf[src..src + len]);
        Some(out)
    }

    /// attribute value as git sees it
    #[derive(Clone, PartialEq, Eq)]
    pub enum Attr {
        Unspecified, // ATTR_UNSET
        True,
        False,
        Value(Vec<u8>),
    }

    fn check_crlf(v: &Attr) -> Action {
        match v {
            Attr::True => Action::Text,
            Attr::False => Action::Binary,
            Attr::Unspecified => Action::Undefined,
            Attr::Value(s) if s == b"input" => Action::TextInput,
            Attr::Value(s) if s == b"auto" => Action::Auto,
            Attr::Value(_) => Action::Undefined,
        }
    }
    fn check_eol(v: &Attr) -> Eol {
        match v {
            Attr::Value(s) if s == b"lf" => Eol::Lf,
            Attr::Value(s) if s == b"crlf" => Eol::Crlf,
            _ => Eol::Unset,
        }
    }

    pub struct ConvAttrs {
        pub action: Action,
        pub ident: bool,
    }
    pub fn convert_attrs(cfg: Cfg, text: &Attr, crlf: &Attr, eolattr: &Attr, ident: &Attr) -> ConvAttrs {
        let mut a = check_crlf(text);
        if a == Action::Undefined {
            a = check_crlf(crlf);
        }
        if a != Action::Binary {
            let e = check_eol(eolattr);
            if a == Action::Auto && e == Eol::Lf {
                a = Action::AutoInput;
            } else if a == Action::Auto && e == Eol::Crlf {
                a = Action::AutoCrlf;
            } else if e == Eol::Lf {
                a = Action::TextInput;
            } else if e == Eol::Crlf {
                a = Action::TextCrlf;
            }
        }
        if a == Action::Text {
            a = if text_eol_is_crlf(cfg) { Action::TextCrlf } else { Action::TextInput };
        }
        if a == Action::Undefined && cfg.auto_crlf == AutoCrlfCfg::False {
            a = Action::Binary;
        }
        if a == Action::Undefined && cfg.auto_crlf == AutoCrlfCfg::True {
            a = Action::AutoCrlf;
        }
        if a == Action::Undefined && cfg.auto_crlf == AutoCrlfCfg::Input {
            a = Action::AutoInput;
        }
        ConvAttrs { action: a, ident: *ident == Attr::True }
    }

    pub fn convert_to_git(cfg: Cfg, ca: &ConvAttrs, fl: Flags, index: Option<&[u8]>, src: &[u8]) -> ToGit {
        let mut cur = src.to_vec();
        match crlf_to_git(cfg, index, &cur, ca.action, fl) {
            Err(true) => return ToGit::DieCrlfLost,
            Err(false) => return ToGit::DieLfLost,
            Ok(Some(b)) => cur = b,
            Ok(None) => {}
        }
        if let Some(b) = ident_to_git(&cur, ca.ident) {
            cur = b;
        }
        ToGit::Bytes(cur)
    }

    /// the two gitoxide deviations in ident expansion are parameters: git = (" $", true)
    pub fn convert_to_working_tree(cfg: Cfg, ca: &ConvAttrs, hex: &[u8], src: &[u8], suffix: &[u8], collapse: bool) -> Vec<u8> {
        let mut cur = src.to_vec();
        if let Some(b) = ident_to_worktree_with(&cur, ca.ident, hex, suffix, collapse) {
            cur = b;
        }
        if let Some(b) = crlf_to_worktree(cfg, &cur, ca.action) {
            cur = b;
        }
        cur
    }

    pub fn eol_to_git(cfg: Cfg, a: Action, fl: Flags, index: Option<&[u8]>, src: &[u8]) -> Result<Option<Vec<u8>>, bool> {
        crlf_to_git(cfg, index, src, a, fl)
    }
    pub fn eol_to_worktree(cfg: Cfg, a: Action, src: &[u8]) -> Option<Vec<u8>> {
        crlf_to_worktree(cfg, src, a)
    }
    pub fn undo(src: &[u8]) -> Option<Vec<u8>> {
        ident_to_git(src, true)
    }
}
use reference as r;

fn r_cfg(ac: &[u8], ce: &[u8]) -> r::Cfg {
    r::Cfg {
        auto_crlf: match ac {
            b"true" => r::AutoCrlfCfg::True,
            b"input" => r::AutoCrlfCfg::Input,
            _ => r::AutoCrlfCfg::False,
        },
        core_eol: match ce {
            b"lf" => r::Eol::Lf,
            b"crlf" => r::Eol::Crlf,
            _ => r::Eol::Unset,
        },
    }
}
fn r_flags(f: &[u8]) -> r::Flags {
    match f {
        b"fail" => r::Flags::Die,
        b"warn" => r::Flags::Warn,
        _ => r::Flags::None,
    }
}
fn r_attr(f: &[u8]) -> r::Attr {
    if f == b"set" {
        r::Attr::True
    } else if f == b"unset" {
        r::Attr::False
    } else if f.first() == Some(&b'=') {
        r::Attr::Value(f[1..].to_vec())
    } else {
        r::Attr::Unspecified
    }
}
/// the crlf_action git ends up with for the digest gitoxide's pipeline computes
fn r_action_of_digest(d: &[u8]) -> r::Action {
    match d {
        b"Text" => r::Action::Text,
        b"TextInput" => r::Action::TextInput,
        b"TextCrlf" => r::Action::TextCrlf,
        b"TextAuto" => r::Action::Auto,
        b"TextAutoCrlf" => r::Action::AutoCrlf,
        b"TextAutoInput" => r::Action::AutoInput,
        _ => r::Action::Binary,
    }
}
fn r_conv_attrs(c: &Case) -> r::ConvAttrs {
    let mut text = r_attr(f_str(c, 1));
    if text == r::Attr::Unspecified && f_str(c, 5) == b"1" {
        text = r::Attr::False; // the `binary` macro of the first line
    }
    r::convert_attrs(r_cfg(f_str(c, 6), f_str(c, 7)), &text, &r_attr(f_str(c, 2)), &r_attr(f_str(c, 3)), &r_attr(f_str(c, 4)))
}

fn eol_class(src: &[u8]) -> &'static str {
    let st = r::gather_stats(src);
    if r::convert_is_binary(&st) {
        "binary"
    } else if st.crlf > 0 && st.lonelf > 0 {
        "mixed"
    } else if st.crlf > 0 {
        "crlf"
    } else if st.lonelf > 0 {
        "lf"
    } else {
        "noeol"
    }
}

fn prop(c: &Case) -> Verdict {
    match f_str(c, 0) {
        b"stats" => {
            let src = f_str(c, 1);
            let s = Stats::from_bytes(src);
            let g = r::gather_stats(src);
            let same = (s.null as u64, s.lone_cr as u64, s.lone_lf as u64, s.crlf as u64, s.printable as u64, s.non_printable as u64)
                == (g.nul, g.lonecr, g.lonelf, g.crlf, g.printable, g.nonprintable);
            if !same {
                return Verdict::fail("stats-differ", format!("gix {s:?} git {g:?}"));
            }
            if s.is_binary() != r::convert_is_binary(&g) {
                return Verdict::fail("is-binary-differs", format!("gix {} git {}", s.is_binary(), r::convert_is_binary(&g)));
            }
            Verdict::ok(!src.is_empty(), format!("stats-{}", eol_class(src)))
        }
        b"eolgit" => {
            let idx: Option<&[u8]> = (f_str(c, 5) == b"1").then(|| f_str(c, 6));
            let src = f_str(c, 7);
            let want = r::eol_to_git(r_cfg(f_str(c, 2), f_str(c, 3)), r_action_of_digest(f_str(c, 1)), r_flags(f_str(c, 4)), idx, src);
            let got = impl_eolgit(c);
            match (want, got) {
                (Err(w), Err(e)) => {
                    if e == if w { "err crlf-lost" } else { "err lf-lost" } {
                        Verdict::ok(true, "eolgit-roundtrip-error")
                    } else {
                        Verdict::fail("eolgit-wrong-error", e)
                    }
                }
                (Err(_), Ok(_)) => Verdict::fail("eolgit-missing-roundtrip-error", ""),
                (Ok(_), Err(e)) => Verdict::fail("eolgit-spurious-error", e),
                (Ok(w), Ok((ch, buf))) => {
                    let wb = w.as_deref().unwrap_or(src);
                    let gb: &[u8] = if ch { &buf } else { src };
                    if wb != gb {
                        return Verdict::fail("eolgit-bytes", format!("gix {} git {}", hexs(gb), hexs(wb)));
                    }
                    Verdict::ok(!src.is_empty(), format!("eolgit-{}-{}", eol_class(src), if w.is_some() { "conv" } else { "same" }))
                }
            }
        }
        b"eolwt" => {
            let src = f_str(c, 4);
            let want = r::eol_to_worktree(r_cfg(f_str(c, 2), f_str(c, 3)), r_action_of_digest(f_str(c, 1)), src);
            let (ch, buf) = impl_eolwt(c);
            let wb = want.as_deref().unwrap_or(src);
            let gb: &[u8] = if ch { &buf } else { src };
            if wb != gb {
                return Verdict::fail("eolwt-bytes", format!("gix {} git {}", hexs(gb), hexs(wb)));
            }
            Verdict::ok(!src.is_empty(), format!("eolwt-{}-{}", eol_class(src), if want.is_some() { "conv" } else { "same" }))
        }
        b"undo" => {
            let src = f_str(c, 1);
            let want = r::undo(src);
            let mut buf = Vec::new();
            let ch = gix_filter::ident::undo(src, &mut buf).expect("memory");
            let wb = want.as_deref().unwrap_or(src);
            let gb: &[u8] = if ch { &buf } else { src };
            if wb != gb {
                return Verdict::fail("undo-bytes", format!("gix {} git {}", hexs(gb), hexs(wb)));
            }
            Verdict::ok(r::count_ident(src) > 0, if wb != src { "undo-collapsed" } else { "undo-same" })
        }
        b"apply" => {
            let src = f_str(c, 2);
            let hex = blob_hex(src);
            let mut buf = Vec::new();
            let ch = gix_filter::ident::apply(src, gix_hash::Kind::Sha1, &mut buf).expect("memory");
            let gb: &[u8] = if ch { &buf } else { src };
            classify_worktree(
                src,
                gb,
                &r::ident_to_worktree_with(src, true, &hex, b" $", true).unwrap_or_else(|| src.to_vec()),
                &r::ident_to_worktree_with(src, true, &hex, b"$", true).unwrap_or_else(|| src.to_vec()),
                &r::ident_to_worktree_with(src, true, &hex, b"$", false).unwrap_or_else(|| src.to_vec()),
                "apply",
            )
        }
        b"togit" => {
            let ca = r_conv_attrs(c);
            let idx: Option<&[u8]> = (f_str(c, 9) == b"1").then(|| f_str(c, 10));
            let src = f_str(c, 11);
            let want = r::convert_to_git(r_cfg(f_str(c, 6), f_str(c, 7)), &ca, r_flags(f_str(c, 8)), idx, src);
            let got = impl_togit(c);
            match (want, got) {
                (r::ToGit::DieCrlfLost, Err(e)) if e == "err crlf-lost" => Verdict::ok(true, "togit-die-crlf"),
                (r::ToGit::DieLfLost, Err(e)) if e == "err lf-lost" => Verdict::ok(true, "togit-die-lf"),
                (r::ToGit::Bytes(_), Err(e)) => Verdict::fail("togit-spurious-error", e),
                (_, Err(e)) => Verdict::fail("togit-wrong-error", e),
                (r::ToGit::Bytes(w), Ok(g)) => {
                    if w != g {
                        return Verdict::fail("togit-bytes", format!("gix {} git {}", hexs(&g), hexs(&w)));
                    }
                    Verdict::ok(
                        !src.is_empty() && (ca.action != r::Action::Binary || ca.ident),
                        format!("togit-{:?}-{}-{}", ca.action, eol_class(src), if w != src { "conv" } else { "same" }),
                    )
                }
                (_, Ok(_)) => Verdict::fail("togit-missing-roundtrip-error", ""),
            }
        }
        b"towt" => {
            let ca = r_conv_attrs(c);
            let src = f_str(c, 9);
            let hex = blob_hex(src);
            let cfg = r_cfg(f_str(c, 6), f_str(c, 7));
            let got = match impl_towt(c) {
                Ok(g) => g,
                Err(e) => return Verdict::fail("towt-error", e),
            };
            let v = classify_worktree(
                src,
                &got,
                &r::convert_to_working_tree(cfg, &ca, &hex, src, b" $", true),
                &r::convert_to_working_tree(cfg, &ca, &hex, src, b"$", true),
                &r::convert_to_working_tree(cfg, &ca, &hex, src, b"$", false),
                "towt",
            );
            if v.ok {
                Verdict::ok(
                    !src.is_empty() && (ca.action != r::Action::Binary || ca.ident),
                    format!("towt-{:?}-{}-{}", ca.action, eol_class(src), if got != src { "conv" } else { "same" }),
                )
            } else {
                v
            }
        }
        _ => Verdict::ok(false, "?"),
    }
}

/// `git_out` is what git writes.  gitoxide deviates from it in two documented/pinned ways when the
/// ident filter expands something: it writes `$Id: <hex>$` (git: `$Id: <hex> $`), and it leaves an already
/// expanded `$Id: ...$` alone (git re-expands it).  These are the two known classes; anything else fails hard.
fn classify_worktree(src: &[u8], got: &[u8], git_out: &[u8], git_nospace: &[u8], git_nospace_nocollapse: &[u8], what: &str) -> Verdict {
    if got == git_out {
        return Verdict::ok(r::count_ident(src) > 0, format!("{what}-same-as-git"));
    }
    if got == git_nospace {
        return Verdict::fail("ident-expansion-without-space", format!("gix {} git {}", hexs(got), hexs(git_out)));
    }
    if got == git_nospace_nocollapse {
        return Verdict::fail("ident-expanded-id-kept", format!("gix {} git {}", hexs(got), hexs(git_out)));
    }
    Verdict::fail(format!("{what}-bytes"), format!("gix {} git {}", hexs(got), hexs(git_out)))
}

// ------------------------------------------------------------------------------------------- real git

fn git_dir() -> std::path::PathBuf {
    use std::sync::atomic::{AtomicU64, Ordering};
    static N: AtomicU64 = AtomicU64::new(0);
    let d = std::env::temp_dir().join(format!("gixv-c43-{}-{}", std::process::id(), N.fetch_add(1, Ordering::SeqCst)));
    let _ = std::fs::remove_dir_all(&d);
    std::fs::create_dir_all(d.join(".git/objects")).unwrap();
    std::fs::create_dir_all(d.join(".git/refs")).unwrap();
    std::fs::write(d.join(".git/HEAD"), b"ref: refs/heads/main\n").unwrap();
    std::fs::write(d.join(".git/config"), b"[core]\n\trepositoryformatversion = 0\n\tbare = false\n").unwrap();
    d
}

fn run_git(dir: &std::path::Path, cfg: &[String], args: &[&str], stdin: Option<&[u8]>) -> Option<(bool, Vec<u8>, Vec<u8>)> {
    use std::io::Write;
    use std::process::{Command, Stdio};
    let mut cmd = Command::new("/usr/bin/git");
    cmd.current_dir(dir)
        .env_clear()
        .env("HOME", dir)
        .env("GIT_CONFIG_NOSYSTEM", "1")
        .env("GIT_CONFIG_GLOBAL", "/dev/null")
        .env("LC_ALL", "C")
        .env("PATH", "/usr/bin:/bin");
    for c in cfg {
        cmd.arg("-c").arg(c);
    }
    cmd.args(args).stdin(Stdio::piped()).stdout(Stdio::piped()).stderr(Stdio::piped());
    let mut child = cmd.spawn().ok()?;
    {
        let mut si = child.stdin.take()?;
        if let Some(d) = stdin {
            let _ = si.write_all(d);
        }
    }
    let out = child.wait_with_output().ok()?;
    out.status.code()?; // killed by a signal: no answer
    Some((out.status.success(), out.stdout, out.stderr))
}

fn git(c: &Case) -> String {
    let op = f_str(c, 0);
    if op != b"togit" && op != b"towt" {
        return "-".into();
    }
    let dir = git_dir();
    let r = git_inner(c, &dir);
    let _ = std::fs::remove_dir_all(&dir);
    r.unwrap_or_else(|| "-".into())
}

fn git_inner(c: &Case, dir: &std::path::Path) -> Option<String> {
    let op = f_str(c, 0);
    std::fs::write(dir.join(".gitattributes"), gitattributes(f_str(c, 1), f_str(c, 2), f_str(c, 3), f_str(c, 4), f_str(c, 5))).ok()?;
    let mut cfg = vec![format!("core.autocrlf={}", String::from_utf8_lossy(f_str(c, 6)))];
    match f_str(c, 7) {
        b"lf" => cfg.push("core.eol=lf".into()),
        b"crlf" => cfg.push("core.eol=crlf".into()),
        _ => {}
    }
    let s = |b: &[u8]| String::from_utf8_lossy(b).trim().to_string();
    if op == b"togit" {
        cfg.push(format!(
            "core.safecrlf={}",
            match f_str(c, 8) {
                b"fail" => "true",
                b"warn" => "warn",
                _ => "false",
            }
        ));
        let src = f_str(c, 11);
        let (ok, out, err) = if f_str(c, 9) == b"1" {
            // the index holds a blob for `f`: only `git add` consults it
            let (ok, sha, _) = run_git(dir, &[], &["hash-object", "-w", "--stdin", "--no-filters"], Some(f_str(c, 10)))?;
            if !ok {
                return None;
            }
            let info = format!("100644,{},f", s(&sha));
            let (ok, _, _) = run_git(dir, &[], &["update-index", "--add", "--cacheinfo", &info], None)?;
            if !ok {
                return None;
            }
            std::fs::write(dir.join("f"), src).ok()?;
            let (ok, _, err) = run_git(dir, &cfg, &["add", "f"], None)?;
            if !ok {
                (false, Vec::new(), err)
            } else {
                let (ok, out, _) = run_git(dir, &[], &["ls-files", "-s", "f"], None)?;
                if !ok {
                    return None;
                }
                let line = s(&out);
                let sha = line.split_whitespace().nth(1)?.to_string();
                (true, sha.into_bytes(), Vec::new())
            }
        } else {
            run_git(dir, &cfg, &["hash-object", "-w", "--path=f", "--stdin"], Some(src))?
        };
        if !ok {
            let e = String::from_utf8_lossy(&err);
            return Some(if e.contains("CRLF would be replaced by LF") {
                "err crlf-lost".into()
            } else if e.contains("LF would be replaced by CRLF") {
                "err lf-lost".into()
            } else {
                return None;
            });
        }
        let (ok, blob, _) = run_git(dir, &[], &["cat-file", "blob", &s(&out)], None)?;
        if !ok {
            return None;
        }
        Some(format!("ok {}", hexs(&blob)))
    } else {
        let src = f_str(c, 9);
        let (ok, sha, _) = run_git(dir, &[], &["hash-object", "-w", "--stdin", "--no-filters"], Some(src))?;
        if !ok {
            return None;
        }
        let (ok, out, _) = run_git(dir, &cfg, &["cat-file", "--filters", "--path=f", &s(&sha)], None)?;
        if !ok {
            return None;
        }
        Some(format!("ok {}", hexs(&out)))
    }
}

// ------------------------------------------------------------------------------------------- generator

const STATES_TEXT: &[&str] = &["", "", "set", "unset", "=auto", "=auto", "=input", "=bogus"];
const STATES_CRLF: &[&str] = &["", "", "", "set", "unset", "=auto", "=input"];
const STATES_EOL: &[&str] = &["", "", "=lf", "=crlf", "=crlf", "set", "unset", "=native"];
const STATES_IDENT: &[&str] = &["", "set", "set", "unset", "=x"];
const AUTOCRLF: &[&str] = &["false", "true", "input"];
const COREEOL: &[&str] = &["", "lf", "crlf"];
const SAFECRLF: &[&str] = &["skip", "warn", "fail"];

fn line_ending(rng: &mut Rng, style: u64) -> &'static [u8] {
    match style {
        0 => b"\n",
        1 => b"\r\n",
        2 => {
            if rng.chance(1, 2) {
                b"\n"
            } else {
                b"\r\n"
            }
        }
        _ => *rng.pick(&[&b"\n"[..], b"\r\n", b"\r", b"\n\r", b"\r\r\n"]),
    }
}

const ID_BITS: &[&[u8]] = &[
    b"$Id$",
    b"$Id$",
    b"$Id:$",
    b"$Id: $",
    b"$Id: 0123456789abcdef0123456789abcdef01234567 $",
    b"$Id: 0123456789abcdef0123456789abcdef01234567$",
    b"$Id: foreign id $",
    b"$Id: x $",
    b"$Id: a b$",
    b"$Id:  $",
    b"$Id: unterminated",
    b"$Id: broken\n$",
    b"$Id",
    b"$Id:",
    b"$I",
    b"$",
    b"$$",
    b"Id$",
    b"$id$",
    b"$Idx$",
    b"$Id:$Id$",
    b"$Id$Id$",
];

/// content: lines over a small alphabet with a chosen line-ending style, optional ident keywords,
/// optional control bytes near the text/binary threshold
fn content(rng: &mut Rng, with_ident: bool) -> Vec<u8> {
    let style = *rng.pick(&[0u64, 0, 1, 1, 2, 3]);
    let nlines = rng.range(0, 5) as usize;
    let mut out = Vec::new();
    for _ in 0..nlines {
        let w = rng.range(0, 3);
        for _ in 0..w {
            if with_ident && rng.chance(1, 3) {
                { let b: &[u8] = *rng.pick(ID_BITS); out.extend_from_slice(b); }
            } else {
                out.extend_from_slice(&rng.word(b"ab $I:d", 0, 4));
            }
            if rng.chance(1, 4) {
                out.push(b' ');
            }
        }
        out.extend_from_slice(line_ending(rng, style));
    }
    if rng.chance(1, 3) {
        out.extend_from_slice(&rng.word(b"ab$Id:", 0, 5)); // no final newline
    }
    match rng.below(12) {
        0 => out.push(0),
        1 => {
            let i = rng.below(out.len() as u64 + 1) as usize;
            out.insert(i, *rng.pick(&[0u8, 1, 7, 8, 9, 11, 12, 27, 26, 31, 127, 128, 255]));
        }
        2 => out.push(0x1a),
        3 => {
            // around the printable>>7 < nonprintable threshold: p printable bytes and k non-printable ones
            let k = rng.range(1, 2) as usize;
            let p = (128 * k as i64 + rng.range(-2, 1)).max(0) as usize;
            let mut v = vec![b'x'; p];
            for _ in 0..k {
                let i = rng.below(v.len() as u64 + 1) as usize;
                v.insert(i, *rng.pick(&[1u8, 127, 26, 31]));
            }
            if rng.chance(1, 3) {
                v.push(0x1a);
            }
            out.extend_from_slice(&v);
        }
        _ => {}
    }
    out
}

fn pick_s(rng: &mut Rng, xs: &[&str]) -> Vec<u8> {
    rng.pick(xs).as_bytes().to_vec()
}

fn case_togit(rng: &mut Rng, src: Vec<u8>, ident: bool) -> Case {
    let (idxflag, idx) = if rng.chance(1, 5) {
        (tag("1"), if rng.chance(1, 2) { content(rng, false) } else { [&b"x\r\n"[..], &rng.word(b"a\n\r", 0, 3)].concat() })
    } else {
        (vec![], vec![])
    };
    vec![
        tag("togit"),
        pick_s(rng, STATES_TEXT),
        pick_s(rng, STATES_CRLF),
        pick_s(rng, STATES_EOL),
        if ident { pick_s(rng, &["set", "set", "set", "set", "=x", "=true", "unset", ""]) } else { pick_s(rng, STATES_IDENT) },
        if rng.chance(1, 10) { tag("1") } else { vec![] },
        pick_s(rng, AUTOCRLF),
        pick_s(rng, COREEOL),
        pick_s(rng, SAFECRLF),
        idxflag,
        idx,
        src,
    ]
}
fn case_towt(rng: &mut Rng, src: Vec<u8>, ident: bool) -> Case {
    vec![
        tag("towt"),
        pick_s(rng, STATES_TEXT),
        pick_s(rng, STATES_CRLF),
        pick_s(rng, STATES_EOL),
        if ident { pick_s(rng, &["set", "set", "set", "set", "=x", "=true", "unset", ""]) } else { pick_s(rng, STATES_IDENT) },
        if rng.chance(1, 10) { tag("1") } else { vec![] },
        pick_s(rng, AUTOCRLF),
        pick_s(rng, COREEOL),
        blob_hex(&src),
        src,
    ]
}

fn gen(rng: &mut Rng, n: usize) -> Vec<Case> {
    let mut out: Vec<Case> = Vec::new();
    // block A (first: these are the cases the git oracle sees): pipeline cases, deterministic then random
    let shapes: [&[u8]; 10] =
        [b"a\nb\n", b"a\r\nb\r\n", b"a\r\nb\n", b"a\rb\n", b"a\r\n\x1a", b"a\n\0", b"$Id$\n", b"x $Id: abc $ y\r\n", b"", b"$Id: a b $\n$Id:$"];
    let lines: [[&str; 5]; 14] = [
        ["", "", "", "", ""],
        ["set", "", "", "", ""],
        ["=auto", "", "", "set", ""],
        ["=auto", "", "=crlf", "", ""],
        ["=auto", "", "=lf", "set", ""],
        ["set", "", "=crlf", "set", ""],
        ["", "=auto", "", "", ""],
        ["", "set", "=crlf", "", ""],
        ["unset", "", "=crlf", "set", ""],
        ["", "", "=crlf", "", "1"],
        ["=auto", "", "", "", "1"],
        ["", "=input", "", "set", ""],
        ["", "", "", "=x", ""],
        ["=auto", "", "=crlf", "=true", ""],
    ];
    let mut det: Vec<Case> = Vec::new();
    for (i, src) in shapes.iter().enumerate() {
        for (j, l) in lines.iter().enumerate() {
            let ac = AUTOCRLF[(i + j) % 3];
            let ce = COREEOL[(i + 2 * j) % 3];
            let sc = SAFECRLF[(i + j / 3) % 3];
            det.push(vec![tag("togit"), tag(l[0]), tag(l[1]), tag(l[2]), tag(l[3]), tag(l[4]), tag(ac), tag(ce), tag(sc), vec![], vec![], src.to_vec()]);
            det.push(vec![tag("towt"), tag(l[0]), tag(l[1]), tag(l[2]), tag(l[3]), tag(l[4]), tag(ac), tag(ce), blob_hex(src), src.to_vec()]);
        }
    }
    // interleaved with random pipeline cases (half of them with the ident attribute: that part is tested, not proved)
    let mut det = det.into_iter();
    for _ in 0..(n / 10).max(300) {
        let ident = rng.chance(1, 2);
        let src = content(rng, ident);
        let c = if rng.chance(1, 2) { case_togit(rng, src, ident) } else { case_towt(rng, src, ident) };
        out.push(c);
        if let Some(d) = det.next() {
            out.push(d);
        }
    }
    out.extend(det);
    // block B: the text/binary threshold
    for k in 1..=2usize {
        for d in -1i64..=1 {
            for ctl in [1u8, 0x1a, 127] {
                for tail in [&b""[..], b"\x1a", b"\n", b"\r\n\x1a"] {
                    let p = (128 * k as i64 + d) as usize;
                    let mut v = vec![b'a'; p];
                    v.insert(p / 2, b'\n');
                    v.insert(p / 3, b'\r');
                    v.insert(p / 3 + 1, b'\n');
                    for _ in 0..k {
                        v.insert(1, ctl);
                    }
                    v.extend_from_slice(tail);
                    out.push(vec![tag("stats"), v.clone()]);
                    out.push(vec![tag("eolgit"), tag("TextAuto"), tag("false"), vec![], tag("skip"), vec![], vec![], v.clone()]);
                    out.push(vec![tag("eolwt"), tag("TextAutoCrlf"), tag("false"), vec![], v.clone()]);
                }
            }
        }
    }
    // block C: every digest x config x safecrlf on the basic eol shapes
    for src in [&b""[..], b"\n", b"\r\n", b"a\nb\n", b"a\r\nb\r\n", b"a\r\nb\n", b"a\rb\n", b"a\r\n\x1a", b"a\n\0"] {
        for d in DIGESTS {
            for ac in AUTOCRLF {
                for ce in COREEOL {
                    out.push(vec![tag("eolwt"), tag(d), tag(ac), tag(ce), src.to_vec()]);
                    for sc in SAFECRLF {
                        out.push(vec![tag("eolgit"), tag(d), tag(ac), tag(ce), tag(sc), vec![], vec![], src.to_vec()]);
                    }
                }
            }
            out.push(vec![tag("eolgit"), tag(d), tag("false"), vec![], tag("fail"), tag("1"), b"x\r\n".to_vec(), src.to_vec()]);
            out.push(vec![tag("eolgit"), tag(d), tag("false"), vec![], tag("fail"), tag("1"), b"x\r\n\0".to_vec(), src.to_vec()]);
        }
    }
    for bit in ID_BITS {
        for (pre, post) in [(&b""[..], &b""[..]), (b"a ", b" b\n"), (b"$", b"$"), (b"$Id: x\n", b"\n$")] {
            let src = [pre, bit, post].concat();
            out.push(vec![tag("undo"), src.clone()]);
            out.push(vec![tag("apply"), blob_hex(&src), src.clone()]);
        }
    }
    while out.len() < n {
        let c = match rng.below(20) {
            0 => vec![tag("stats"), if rng.chance(1, 4) { let k = rng.range(0, 40) as usize; rng.bytes(k) } else { content(rng, false) }],
            1..=3 => {
                let (idxflag, idx) = if rng.chance(1, 4) { (tag("1"), content(rng, false)) } else { (vec![], vec![]) };
                vec![
                    tag("eolgit"),
                    pick_s(rng, DIGESTS),
                    pick_s(rng, AUTOCRLF),
                    pick_s(rng, COREEOL),
                    pick_s(rng, SAFECRLF),
                    idxflag,
                    idx,
                    content(rng, false),
                ]
            }
            4..=5 => vec![tag("eolwt"), pick_s(rng, DIGESTS), pick_s(rng, AUTOCRLF), pick_s(rng, COREEOL), content(rng, false)],
            6..=7 => vec![tag("undo"), content(rng, true)],
            8 => {
                let src = content(rng, true);
                vec![tag("apply"), blob_hex(&src), src]
            }
            9..=14 => {
                let ident = rng.chance(1, 3);
                let src = content(rng, ident);
                case_togit(rng, src, ident)
            }
            _ => {
                let ident = rng.chance(1, 3);
                let src = content(rng, ident);
                case_towt(rng, src, ident)
            }
        };
        out.push(c);
    }
    out.truncate(n.max(1));
    out
}

fn main() {
    main_with(Harness { gen, imp, prop, git: Some(git), deadline: std::time::Duration::from_secs(120) });
}
