(* C43 — proofs, part 2: LF -> CRLF (to-worktree) direction. *)
From Coq Require Import Lia.
From GixV.Base Require Import Bytes BytesFacts Outcome.
From GixV.C43 Require Import Model Spec ProofsEol.
Local Open Scope nat_scope.

Lemma nth_error_app_len {A} (pre x : list A) k : nth_error (pre ++ x) (length pre + k) = nth_error x k.
Proof. induction pre as [|a pre IH]; [reflexivity|exact IH]. Qed.
Lemma skipn_app_len {A} (pre x : list A) k : skipn (length pre + k) (pre ++ x) = skipn k x.
Proof. induction pre as [|a pre IH]; [reflexivity|exact IH]. Qed.
Lemma firstn_app_len {A} (pre x : list A) k : firstn (length pre + k) (pre ++ x) = pre ++ firstn k x.
Proof. induction pre as [|a pre IH]; [reflexivity|cbn [length Nat.add firstn app]; rewrite IH; reflexivity]. Qed.

Definition plain (b : byte) : bool := negb (is_cr b || is_lf b).

Lemma find_cr_or_lf_none l : find_cr_or_lf l = None -> forallb plain l = true.
Proof.
  induction l as [|b r IH]; [reflexivity|]. cbn [find_cr_or_lf forallb]. unfold plain at 1.
  destruct (is_cr b || is_lf b)%bool; [discriminate|].
  destruct (find_cr_or_lf r); [discriminate|]. intros _. exact (IH eq_refl).
Qed.

Lemma find_cr_or_lf_some l : forall pos, find_cr_or_lf l = Some pos ->
  exists pre b post, l = pre ++ b :: post /\ length pre = pos /\ forallb plain pre = true /\ (is_cr b || is_lf b)%bool = true.
Proof.
  induction l as [|b r IH]; intros pos H; [discriminate|]. cbn [find_cr_or_lf] in H.
  destruct (is_cr b || is_lf b)%bool eqn:E.
  - injection H as <-. exists [], b, r. split; [reflexivity|split; [reflexivity|split; [reflexivity|exact E]]].
  - destruct (find_cr_or_lf r) as [p|]; [|discriminate]. injection H as <-.
    destruct (IH p eq_refl) as (pre & b' & post & -> & Hl & Hp & Hb).
    exists (b :: pre), b', post. split; [reflexivity|split; [cbn [length]; lia|split; [|exact Hb]]].
    cbn [forallb]. unfold plain at 1. rewrite E, Hp. reflexivity.
Qed.

Lemma add_cr_plain pre : forall y, forallb plain pre = true -> add_cr_loop false (pre ++ y) = pre ++ add_cr_loop false y.
Proof.
  induction pre as [|x pre IH]; intros y H; [reflexivity|].
  cbn [forallb] in H. apply Bool.andb_true_iff in H as [Hx Hp].
  unfold plain in Hx. apply Bool.negb_true_iff, Bool.orb_false_iff in Hx as [Hc Hl].
  cbn [app add_cr_loop]. rewrite is_lf_git, is_cr_git, Hc, Hl, IH by exact Hp. reflexivity.
Qed.

Lemma add_cr_all_plain l : forallb plain l = true -> add_cr_loop false l = l.
Proof.
  intros H. rewrite <- (app_nil_r l) at 1. rewrite add_cr_plain by exact H. cbn [add_cr_loop]. apply app_nil_r.
Qed.

Lemma add_cr_prev_irrelevant n post : is_lf n = false -> add_cr_loop true (n :: post) = add_cr_loop false (n :: post).
Proof. intros H. cbn [add_cr_loop]. rewrite is_lf_git, H. reflexivity. Qed.

Lemma add_cr_at_cr p post : add_cr_loop p (CR :: post) = CR :: add_cr_loop true post.
Proof. reflexivity. Qed.
Lemma add_cr_at_lf_true post : add_cr_loop true (LF :: post) = LF :: add_cr_loop false post.
Proof. reflexivity. Qed.
Lemma add_cr_at_lf_false post : add_cr_loop false (LF :: post) = CR :: LF :: add_cr_loop false post.
Proof. reflexivity. Qed.

Lemma to_worktree_loop_is_git fuel : forall rest, length rest < fuel ->
  to_worktree_loop fuel rest = Ok (add_cr_loop false rest).
Proof.
  induction fuel as [|f IH]; intros rest Hlen; [lia|].
  cbn [to_worktree_loop].
  destruct (find_cr_or_lf rest) as [pos|] eqn:Hf.
  2:{ rewrite add_cr_all_plain by (apply find_cr_or_lf_none; exact Hf). reflexivity. }
  destruct (find_cr_or_lf_some _ _ Hf) as (pre & b & post & -> & <- & Hp & Hb).
  rewrite app_length in Hlen. cbn [length] in Hlen.
  replace (length pre) with (length pre + 0) at 1 by lia. rewrite nth_error_app_len. cbn [nth_error].
  rewrite add_cr_plain by exact Hp.
  destruct (is_cr b) eqn:Hc.
  - apply is_cr_true in Hc. subst b.
    rewrite nth_error_app_len. cbn [nth_error Nat.add]. rewrite add_cr_at_cr.
    destruct post as [|n post'].
    + cbn [nth_error]. rewrite skipn_app_len, firstn_app_len. cbn [skipn firstn].
      rewrite IH by (cbn [length]; lia). cbn [omap obind add_cr_loop].
      rewrite !app_nil_r. reflexivity.
    + cbn [nth_error]. destruct (is_lf n) eqn:Hn.
      * apply is_lf_true in Hn. subst n.
        rewrite skipn_app_len, firstn_app_len. cbn [skipn firstn].
        rewrite IH by (cbn [length] in Hlen; lia). cbn [omap obind].
        rewrite add_cr_at_lf_true. rewrite <- app_assoc. reflexivity.
      * rewrite skipn_app_len, firstn_app_len. cbn [skipn firstn].
        rewrite IH by (cbn [length] in *; lia). cbn [omap obind].
        rewrite add_cr_prev_irrelevant by exact Hn. rewrite <- app_assoc. reflexivity.
  - cbn [orb] in Hb. rewrite Hb. apply is_lf_true in Hb. subst b.
    rewrite skipn_app_len. cbn [skipn].
    replace (length pre) with (length pre + 0) at 1 by lia. rewrite firstn_app_len. cbn [firstn]. rewrite app_nil_r.
    rewrite IH by lia. cbn [omap obind]. rewrite add_cr_at_lf_false.
    rewrite <- app_assoc. reflexivity.
Qed.

Lemma eol_to_worktree_is_git src d c :
  result_of (eol_convert_to_worktree src d c) = Some (crlf_to_worktree (cfg_to_git c) src (digest_to_action d)).
Proof.
  unfold eol_convert_to_worktree, crlf_to_worktree.
  destruct src as [|b0 src0]; [reflexivity|]. cbn [orb]. set (src := b0 :: src0).
  rewrite <- to_eol_git. destruct (opt_mode_is_crlf (digest_to_eol d c)); cbn [negb]; [|reflexivity].
  rewrite <- stats_is_git, <- will_convert_git.
  destruct (will_convert_lf_to_crlf (stats_from_bytes src) d c); cbn [negb]; [|reflexivity].
  rewrite to_worktree_loop_is_git by lia. reflexivity.
Qed.
