(* C43 — proofs, part 4: ident::undo computes git's ident_to_git loop, for all byte strings. *)
From Coq Require Import Lia.
From GixV.Base Require Import Bytes BytesFacts Outcome.
From GixV.C43 Require Import Model Spec ProofsEol ProofsWt ProofsPipe.
Local Open Scope nat_scope.

Definition nodollar (l : bytes) : bool := forallb (fun c => negb (is_dollar c)) l.

Lemma split_dollar_some l : forall p q, split_dollar l = Some (p, q) -> l = p ++ DOLLAR :: q /\ nodollar p = true.
Proof.
  induction l as [|c r IH]; intros p q H; [discriminate|]. cbn [split_dollar] in H.
  destruct (is_dollar c) eqn:E.
  - injection H as <- <-. split; [|reflexivity]. rewrite is_dollar_git in E. apply beqb_eq in E. subst c. reflexivity.
  - destruct (split_dollar r) as [[p' q']|]; [|discriminate]. injection H as <- <-.
    destruct (IH p' q' eq_refl) as [-> Hn]. split; [reflexivity|]. cbn [nodollar forallb]. rewrite E. exact Hn.
Qed.
Lemma split_dollar_none l : split_dollar l = None -> nodollar l = true.
Proof.
  induction l as [|c r IH]; [reflexivity|]. cbn [split_dollar]. destruct (is_dollar c) eqn:E; [discriminate|].
  destruct (split_dollar r) as [[p q]|]; [discriminate|]. intros _. cbn [nodollar forallb]. rewrite E. exact (IH eq_refl).
Qed.
Lemma split_dollar_nodollar l : nodollar l = true -> split_dollar l = None.
Proof.
  induction l as [|c r IH]; [reflexivity|]. cbn [nodollar forallb split_dollar]. intros H.
  apply Bool.andb_true_iff in H as [H1 H2]. apply Bool.negb_true_iff in H1. rewrite H1, (IH H2). reflexivity.
Qed.

Notation T := ident_to_git_loop.

Lemma T_cons_plain f c x : is_dollar c = false -> T f (c :: x) = c :: T f x.
Proof.
  intros E. destruct f as [|f]; [reflexivity|]. cbn [ident_to_git_loop split_dollar]. rewrite E.
  destruct (split_dollar x) as [[p q]|]; reflexivity.
Qed.

Definition opens (rest : bytes) : bool := Nat.ltb 3 (length rest) && starts_with (bs "Id:") rest.
Lemma T_dollar f rest : T (S f) (DOLLAR :: rest) = DOLLAR ::
   (if opens rest then
      match split_dollar (skipn 3 rest) with
      | None => rest
      | Some (inner, after) => if has_lf inner then T f rest else bs "Id$" ++ T f after
      end
    else T f rest).
Proof. reflexivity. Qed.

Lemma T_fuel f1 : forall f2 x, length x < f1 -> length x < f2 -> T f1 x = T f2 x.
Proof.
  induction f1 as [|f1 IH]; intros f2 x H1 H2; [lia|]. destruct f2 as [|f2]; [lia|].
  cbn [ident_to_git_loop]. destruct (split_dollar x) as [[pre rest]|] eqn:E; [|reflexivity].
  apply split_dollar_some in E as [-> _]. rewrite app_length in H1, H2. cbn [length] in H1, H2.
  f_equal. f_equal.
  destruct (Nat.ltb 3 (length rest) && starts_with (bs "Id:") rest)%bool.
  - destruct (split_dollar (skipn 3 rest)) as [[inner after]|] eqn:E2; [|reflexivity].
    apply split_dollar_some in E2 as [E2 _].
    assert (length after < length rest).
    { pose proof (skipn_length 3 rest) as L. rewrite E2, app_length in L. cbn [length] in L. lia. }
    destruct (has_lf inner); [apply IH; lia|]. f_equal. apply IH; lia.
  - apply IH; lia.
Qed.

(* the loop with its canonical fuel *)
Definition TT (x : bytes) : bytes := T (S (length x)) x.
Lemma TT_eq f x : length x < f -> T f x = TT x.
Proof. intros H. apply T_fuel; [exact H|lia]. Qed.

Lemma TT_cons_plain c x : is_dollar c = false -> TT (c :: x) = c :: TT x.
Proof. intros E. unfold TT at 1. rewrite T_cons_plain by exact E. f_equal. apply TT_eq. cbn [length]. lia. Qed.
Lemma TT_nil : TT [] = [].
Proof. reflexivity. Qed.
Lemma TT_app_plain pre : forall y, nodollar pre = true -> TT (pre ++ y) = pre ++ TT y.
Proof.
  induction pre as [|c pre IH]; intros y H; [reflexivity|]. cbn [nodollar forallb] in H.
  apply Bool.andb_true_iff in H as [H1 H2]. apply Bool.negb_true_iff in H1.
  cbn [app]. rewrite TT_cons_plain by exact H1. rewrite IH by exact H2. reflexivity.
Qed.
Lemma TT_nodollar l : nodollar l = true -> TT l = l.
Proof. intros H. rewrite <- (app_nil_r l) at 1. rewrite TT_app_plain by exact H. rewrite TT_nil. apply app_nil_r. Qed.

Lemma TT_dollar rest : TT (DOLLAR :: rest) = DOLLAR ::
   (if opens rest then
      match split_dollar (skipn 3 rest) with
      | None => rest
      | Some (inner, after) => if has_lf inner then TT rest else bs "Id$" ++ TT after
      end
    else TT rest).
Proof.
  unfold TT at 1. cbn [length]. rewrite T_dollar. f_equal.
  destruct (opens rest); [|apply TT_eq; lia].
  destruct (split_dollar (skipn 3 rest)) as [[inner after]|] eqn:E2; [|reflexivity].
  apply split_dollar_some in E2 as [E2 _].
  assert (length after < length rest).
  { pose proof (skipn_length 3 rest) as L. rewrite E2, app_length in L. cbn [length] in L. lia. }
  destruct (has_lf inner); [apply TT_eq; lia|]. f_equal. apply TT_eq. lia.
Qed.

Lemma TT_open cursor : TT (DOLLAR :: bs "Id:" ++ cursor) = DOLLAR ::
   match split_dollar cursor with
   | None => bs "Id:" ++ cursor
   | Some (inner, after) => if has_lf inner then bs "Id:" ++ TT cursor else bs "Id$" ++ TT after
   end.
Proof.
  rewrite TT_dollar. f_equal. destruct cursor as [|c0 cs].
  - change (opens (bs "Id:" ++ [])) with false. cbv iota. cbn [split_dollar]. apply TT_nodollar. reflexivity.
  - change (opens (bs "Id:" ++ c0 :: cs)) with true. cbv iota.
    change (skipn 3 (bs "Id:" ++ c0 :: cs)) with (c0 :: cs).
    destruct (split_dollar (c0 :: cs)) as [[inner after]|]; [|reflexivity].
    destruct (has_lf inner); [|reflexivity]. apply TT_app_plain. reflexivity.
Qed.

(* ---- bstr find ---------------------------------------------------------------------------------------- *)
Lemma find_sub_starts p l : forall n, find_sub p l = Some n -> starts_with p (skipn n l) = true.
Proof.
  induction l as [|c r IH]; intros n H.
  - cbn [find_sub] in H. destruct (starts_with p []) eqn:E; [|discriminate H]. injection H as <-. exact E.
  - cbn [find_sub] in H. destruct (starts_with p (c :: r)) eqn:E.
    + injection H as <-. exact E.
    + destruct (find_sub p r) as [m|]; [|discriminate H]. injection H as <-. cbn [skipn]. apply IH. reflexivity.
Qed.

Lemma starts_open_dollar r : starts_with ID_OPEN (DOLLAR :: r) = starts_with (bs "Id:") r.
Proof. reflexivity. Qed.

Lemma TT_find l :
  match find_sub ID_OPEN l with
  | None => TT l = l
  | Some n => TT l = firstn n l ++ TT (skipn n l)
  end.
Proof.
  induction l as [|c r IH].
  - cbn. reflexivity.
  - cbn [find_sub]. destruct (starts_with ID_OPEN (c :: r)) eqn:E; [reflexivity|].
    assert (Hc : TT (c :: r) = c :: TT r).
    { destruct (is_dollar c) eqn:Ed; [|apply TT_cons_plain; exact Ed].
      rewrite is_dollar_git in Ed. apply beqb_eq in Ed. subst c. rewrite starts_open_dollar in E.
      rewrite TT_dollar. unfold opens. rewrite E, Bool.andb_false_r. reflexivity. }
    rewrite Hc. destruct (find_sub ID_OPEN r) as [m|]; cbn [option_map].
    + cbn [firstn skipn app]. rewrite IH. reflexivity.
    + rewrite IH. reflexivity.
Qed.

Lemma starts_open_shape l : starts_with ID_OPEN l = true -> l = DOLLAR :: bs "Id:" ++ skipn 4 l.
Proof.
  intros H. pose proof (starts_with_len _ _ H) as L. change (length ID_OPEN) with 4 in L.
  destruct l as [|a [|b [|c [|d l]]]]; cbn [length] in L; try lia. clear L. revert H.
  change (starts_with ID_OPEN (a :: b :: c :: d :: l))
    with (beqb x24 a && (beqb x49 b && (beqb x64 c && (beqb x3a d && true))))%bool.
  rewrite !Bool.andb_true_iff. intros (Ha & Hb & Hc & Hd & _).
  apply beqb_eq in Ha, Hb, Hc, Hd. subst. reflexivity.
Qed.

Lemma skipn_add {A} a : forall b (l : list A), skipn (a + b) l = skipn b (skipn a l).
Proof. induction a as [|a IH]; intros b l; [reflexivity|]. destruct l; [destruct b; reflexivity|]. apply IH. Qed.

(* ---- find_byteset(b"$\n") versus memchr('$') + memchr('\n') -------------------------------------------- *)
Lemma scan_none x : find_dollar_or_lf x = None -> nodollar x = true.
Proof.
  induction x as [|c r IH]; [reflexivity|]. cbn [find_dollar_or_lf].
  destruct (beqb c DOLLAR) eqn:Ed; [discriminate|]. destruct (is_lf c); [discriminate|]. cbn [orb].
  destruct (find_dollar_or_lf r); [discriminate|]. intros _.
  cbn [nodollar forallb]. rewrite is_dollar_git, Ed. exact (IH eq_refl).
Qed.

Lemma scan_lf x : forall me b, find_dollar_or_lf x = Some me -> nth_error x me = Some b -> is_lf b = true ->
  nodollar (firstn (S me) x) = true /\
  match split_dollar x with None => True | Some (inner, _) => has_lf inner = true end.
Proof.
  induction x as [|c r IH]; intros me b H Hn Hl; [discriminate|]. cbn [find_dollar_or_lf] in H.
  destruct (beqb c DOLLAR) eqn:Ed.
  - injection H as <-. injection Hn as ->. apply beqb_eq in Ed. subst b. vm_compute in Hl. discriminate.
  - destruct (is_lf c) eqn:El; cbn [orb] in H.
    + injection H as <-. split.
      * cbn [firstn nodollar forallb]. rewrite is_dollar_git, Ed. reflexivity.
      * cbn [split_dollar]. rewrite is_dollar_git, Ed. destruct (split_dollar r) as [[p q]|]; [|exact I].
        cbn [has_lf existsb]. rewrite is_lf_git, El. reflexivity.
    + destruct (find_dollar_or_lf r) as [m|]; [|discriminate H]. injection H as <-. cbn [nth_error] in Hn.
      destruct (IH m b eq_refl Hn Hl) as [H1 H2]. split.
      * change (firstn (S (S m)) (c :: r)) with (c :: firstn (S m) r). cbn [nodollar forallb].
        rewrite is_dollar_git, Ed. exact H1.
      * cbn [split_dollar]. rewrite is_dollar_git, Ed. destruct (split_dollar r) as [[p q]|]; [|exact I].
        cbn [has_lf existsb]. rewrite is_lf_git, El. exact H2.
Qed.

Lemma scan_dollar x : forall me b, find_dollar_or_lf x = Some me -> nth_error x me = Some b -> is_lf b = false ->
  split_dollar x = Some (firstn me x, skipn (S me) x) /\ has_lf (firstn me x) = false.
Proof.
  induction x as [|c r IH]; intros me b H Hn Hl; [discriminate|]. cbn [find_dollar_or_lf] in H.
  destruct (beqb c DOLLAR) eqn:Ed.
  - injection H as <-. cbn [split_dollar]. rewrite is_dollar_git, Ed. split; reflexivity.
  - destruct (is_lf c) eqn:El; cbn [orb] in H.
    + injection H as <-. injection Hn as ->. congruence.
    + destruct (find_dollar_or_lf r) as [m|]; [|discriminate H]. injection H as <-. cbn [nth_error] in Hn.
      destruct (IH m b eq_refl Hn Hl) as [H1 H2]. split.
      * cbn [split_dollar]. rewrite is_dollar_git, Ed, H1. reflexivity.
      * cbn [firstn has_lf existsb]. rewrite is_lf_git, El. exact H2.
Qed.

(* ---- undo::find_range ----------------------------------------------------------------------------------- *)
Lemma find_range_git fuel : forall cur ofs, length cur < fuel ->
  match find_range fuel cur ofs with
  | Ok None => TT cur = cur
  | Ok (Some (s, e)) => exists s' e', s = ofs + s' /\ e = ofs + e' /\ s' < e' /\ e' <= length cur /\
        TT cur = firstn s' cur ++ bs "$Id$" ++ TT (skipn e' cur)
  | _ => False
  end.
Proof.
  induction fuel as [|f IH]; intros cur ofs Hlen; [lia|]. cbn [find_range].
  pose proof (TT_find cur) as Hpre.
  destruct (find_sub ID_OPEN cur) as [start|] eqn:Es; [|exact Hpre].
  pose proof (find_sub_bound _ _ _ Es) as Hb. change (length ID_OPEN) with 4 in Hb.
  pose proof (starts_open_shape _ (find_sub_starts _ _ _ Es)) as Hshape.
  rewrite <- skipn_add in Hshape.
  remember (skipn (start + 4) cur) as cursor eqn:Ecursor.
  assert (Hlc : length cursor = length cur - (start + 4)) by (subst cursor; apply skipn_length).
  rewrite Hshape, TT_open in Hpre.
  destruct (find_dollar_or_lf cursor) as [me|] eqn:Ee.
  - pose proof (find_dollar_or_lf_bound _ _ Ee) as Hme.
    destruct (nth_error cursor me) as [b|] eqn:En.
    2:{ apply nth_error_None in En. lia. }
    destruct (is_lf b) eqn:El.
    + (* a line break first: keep looking behind it *)
      destruct (scan_lf _ _ _ Ee En El) as [Hnd Hsplit].
      remember (skipn (me + 1) cursor) as cur2 eqn:Ecur2.
      assert (Hc2 : cursor = firstn (S me) cursor ++ cur2).
      { subst cur2. replace (me + 1) with (S me) by lia. symmetry. apply firstn_skipn. }
      assert (Hl2 : length cur2 = length cursor - (me + 1)) by (subst cur2; apply skipn_length).
      assert (HTc : TT cursor = firstn (S me) cursor ++ TT cur2).
      { rewrite Hc2 at 1. apply TT_app_plain. exact Hnd. }
      assert (Hm : match split_dollar cursor with
                   | None => bs "Id:" ++ cursor
                   | Some (inner, after) => if has_lf inner then bs "Id:" ++ TT cursor else bs "Id$" ++ TT after
                   end = bs "Id:" ++ TT cursor).
      { revert Hsplit. destruct (split_dollar cursor) as [[inner after]|] eqn:Esd; intros Hsplit.
        - rewrite Hsplit. reflexivity.
        - rewrite TT_nodollar by (apply split_dollar_none; exact Esd). reflexivity. }
      rewrite Hm in Hpre.
      assert (HG : TT cur = (firstn start cur ++ DOLLAR :: bs "Id:" ++ firstn (S me) cursor) ++ TT cur2).
      { rewrite Hpre, HTc. rewrite <- !app_assoc. cbn [app]. rewrite <- !app_assoc. reflexivity. }
      assert (Hcur : cur = (firstn start cur ++ DOLLAR :: bs "Id:" ++ firstn (S me) cursor) ++ cur2).
      { rewrite <- app_assoc. cbn [app]. rewrite <- !app_assoc. rewrite <- Hc2.
        change (DOLLAR :: x49 :: x64 :: x3a :: cursor) with (DOLLAR :: bs "Id:" ++ cursor).
        rewrite <- Hshape. symmetry. apply firstn_skipn. }
      remember (firstn start cur ++ DOLLAR :: bs "Id:" ++ firstn (S me) cursor) as P eqn:EP.
      assert (HlP : length P = start + 4 + me + 1).
      { subst P. rewrite app_length. cbn [length]. rewrite app_length. change (length (bs "Id:")) with 3. rewrite !firstn_length. lia. }
      pose proof (f_equal (@length byte) Hcur) as Hlcur. rewrite app_length in Hlcur.
      specialize (IH cur2 (ofs + start + 4 + me + 1) ltac:(lia)).
      destruct (find_range f cur2 (ofs + start + 4 + me + 1)) as [[[s e]|]|x| |]; try exact IH.
      * destruct IH as (s' & e' & -> & -> & Hse & Hel & HT2).
        exists (length P + s'), (length P + e'). repeat split; try lia.
        -- rewrite HG, HT2. rewrite Hcur. rewrite firstn_app_len, skipn_app_len. rewrite <- app_assoc. reflexivity.
      * rewrite HG, IH. symmetry. exact Hcur.
    + (* a closing dollar: this is the range *)
      destruct (scan_dollar _ _ _ Ee En El) as [Hsd Hnl].
      rewrite Hsd, Hnl in Hpre.
      exists start, (start + 4 + me + 1). repeat split; try lia.
      rewrite Hpre. f_equal. change (bs "$Id$" ++ ?x) with (DOLLAR :: bs "Id$" ++ x). f_equal. f_equal. f_equal.
      rewrite Ecursor. rewrite <- skipn_add. f_equal. lia.
  - (* no dollar and no line break behind "$Id:" *)
    rewrite (split_dollar_nodollar _ (scan_none _ Ee)) in Hpre. rewrite Hpre, <- Hshape. apply firstn_skipn.
Qed.

(* ---- ident::undo ---------------------------------------------------------------------------------------- *)
Lemma undo_loop_git fuel : forall rest, length rest < fuel ->
  exists r, undo_loop fuel rest = Ok r /\ or_src rest r = TT rest.
Proof.
  induction fuel as [|f IH]; intros rest Hlen; [lia|]. cbn [undo_loop].
  pose proof (find_range_git (S (length rest)) rest 0 ltac:(lia)) as H.
  destruct (find_range (S (length rest)) rest 0) as [[[s e]|]|x| |]; try contradiction.
  - destruct H as (s' & e' & -> & -> & Hse & Hel & HT). cbn [Nat.add].
    destruct (IH (skipn e' rest)) as (t & Ht & Hor). { rewrite skipn_length. lia. }
    rewrite Ht. cbn [omap obind]. eexists. split; [reflexivity|]. cbn [or_src]. rewrite Hor, HT. reflexivity.
  - exists None. split; [reflexivity|]. cbn [or_src]. symmetry. exact H.
Qed.

Lemma ident_undo_is_git_loop s : undo_stage s = Some (inl (TT s)).
Proof.
  unfold undo_stage, ident_undo. destruct (undo_loop_git (S (length s)) s ltac:(lia)) as (r & Hr & Hor).
  rewrite Hr. cbn [obind pipe_result]. rewrite Hor. reflexivity.
Qed.

(* git's count_ident pre-check only short-cuts the loop: this is the one fact about convert.c itself that
   is needed to pass from the loop to ident_to_git *)
Definition count_ident_precheck_sound : Prop :=
  forall s, g_count_ident s = 0%N -> ident_to_git_loop (S (length s)) s = s.

Lemma ident_undo_is_git_given_precheck : count_ident_precheck_sound ->
  forall s, undo_stage s = Some (inl (ident_to_git s true)).
Proof.
  intros Hc s. rewrite ident_undo_is_git_loop. unfold ident_to_git, TT. cbn [negb orb].
  destruct (N.eqb (g_count_ident s) 0) eqn:E; [|reflexivity].
  apply N.eqb_eq in E. rewrite (Hc s E). reflexivity.
Qed.
