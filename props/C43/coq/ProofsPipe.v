(* C43 — proofs, part 3: the pipeline (attribute digest, stage order), ident totality. *)
From Coq Require Import Lia.
From GixV.Base Require Import Bytes BytesFacts Outcome.
From GixV.C43 Require Import Model Spec ProofsEol ProofsWt.
Local Open Scope nat_scope.

Definition pipe_result (o : outcome bytes eol_err) : option (bytes + bool) :=
  match o with
  | Ok b => Some (inl b)
  | Err RoundTripCrlf => Some (inr true)
  | Err RoundTripLf => Some (inr false)
  | Panic | OutOfFuel => None
  end.

(* what ident::undo leaves in the buffers *)
Definition undo_stage (s : bytes) : option (bytes + bool) :=
  pipe_result (r2 <- ident_undo s ;; Ok (or_src s r2))%outcome.

Lemma to_git_stages src a c rt idx :
  pipe_result (pipeline_to_git src a c rt idx) =
  match crlf_to_git (cfg_to_git c) idx src (digest_to_action (at_path_digest a c)) (rt_to_flags rt) with
  | Die w => Some (inr w)
  | Unchanged => if apply_ident_filter a then undo_stage src else Some (inl src)
  | Changed b => if apply_ident_filter a then undo_stage b else Some (inl b)
  end.
Proof.
  unfold pipeline_to_git.
  pose proof (eol_to_git_is_git src (at_path_digest a c) idx rt c) as H.
  destruct (eol_convert_to_git src (at_path_digest a c) idx rt c) as [[b|]|[|]| |]; cbn [result_of] in H;
    try discriminate H; injection H as <-; cbn [obind or_src pipe_result]; try reflexivity;
    destruct (apply_ident_filter a); reflexivity.
Qed.

Lemma to_git_is_git_no_ident src a c rt idx :
  apply_ident_filter a = false ->
  pipe_result (pipeline_to_git src a c rt idx) = Some (convert_to_git (cfg_to_git c) a (rt_to_flags rt) idx src).
Proof.
  intros Hi. rewrite to_git_stages. unfold convert_to_git. rewrite at_path_git, Hi.
  destruct (crlf_to_git _ _ _ _ _); reflexivity.
Qed.

Lemma to_git_is_git_given_undo :
  (forall s, undo_stage s = Some (inl (ident_to_git s true))) ->
  forall src a c rt idx,
  pipe_result (pipeline_to_git src a c rt idx) = Some (convert_to_git (cfg_to_git c) a (rt_to_flags rt) idx src).
Proof.
  intros Hu src a c rt idx. rewrite to_git_stages. unfold convert_to_git. rewrite at_path_git.
  destruct (crlf_to_git _ _ _ _ _); destruct (apply_ident_filter a); rewrite ?Hu; reflexivity.
Qed.

(* ---- to worktree -------------------------------------------------------------------------------------- *)
Definition is_some {A} (o : option A) : bool := match o with Some _ => true | None => false end.

(* the inputs on which gitoxide's ident expansion is known to differ from git's (or may): the ident
   attribute is set and either git counts a keyword or gitoxide finds a `$Id$` *)
Definition known_towt (a : attrs) (src : bytes) : bool :=
  apply_ident_filter a && (negb (N.eqb (g_count_ident src) 0) || is_some (find_sub ID_PLAIN src)).

Lemma crlf_to_worktree_no_die g s a w : crlf_to_worktree g s a <> Die w.
Proof.
  unfold crlf_to_worktree. destruct s as [|x s]; [discriminate|].
  destruct (negb (eol_is_crlf (output_eol g a))); [discriminate|].
  destruct (negb (g_will_convert_lf_to_crlf g (gather_stats (x :: s)) a)); discriminate.
Qed.

Lemma eol_wt_bytes s d c :
  pipe_result (r2 <- eol_convert_to_worktree s d c ;; Ok (or_src s r2))%outcome =
  Some (inl (match crlf_to_worktree (cfg_to_git c) s (digest_to_action d) with Changed b => b | _ => s end)).
Proof.
  pose proof (eol_to_worktree_is_git s d c) as H.
  destruct (eol_convert_to_worktree s d c) as [[b|]|[|]| |]; cbn [result_of] in H; try discriminate H;
    injection H as H; try (exfalso; symmetry in H; exact (crlf_to_worktree_no_die _ _ _ _ H));
    rewrite <- H; reflexivity.
Qed.

Lemma to_worktree_is_git_except_known hex src a c :
  known_towt a src = false ->
  pipe_result (pipeline_to_worktree hex src a c) = Some (inl (convert_to_working_tree (cfg_to_git c) a hex src)).
Proof.
  intros Hk. unfold pipeline_to_worktree, convert_to_working_tree. rewrite at_path_git.
  unfold known_towt in Hk. destruct (apply_ident_filter a) eqn:Hi.
  - cbn [andb] in Hk. apply Bool.orb_false_iff in Hk as [Hc Hf]. apply Bool.negb_false_iff in Hc.
    unfold ident_to_worktree. rewrite Hc. cbn [negb orb].
    unfold ident_apply. cbn [apply_loop]. destruct (find_sub ID_PLAIN src); [discriminate Hf|].
    cbn [obind or_src]. apply eol_wt_bytes.
  - unfold ident_to_worktree. cbn [negb orb obind]. apply eol_wt_bytes.
Qed.

Lemma to_worktree_refuted :
  exists hex src a c,
    pipe_result (pipeline_to_worktree hex src a c) <> Some (inl (convert_to_working_tree (cfg_to_git c) a hex src)).
Proof.
  exists (bs "b3f5ebfb5843bc43ceecff6d4f26bb37c615beb1"), (bs "$Id$"),
    {| a_crlf := Unspecified; a_ident := ASet; a_eol := Unspecified; a_text := Unspecified |},
    {| auto_crlf := AcDisabled; cfg_eol := None |}.
  vm_compute. discriminate.
Qed.

(* ---- ident::apply never panics, never hangs ------------------------------------------------------------ *)
Lemma starts_with_len p : forall l, starts_with p l = true -> length p <= length l.
Proof.
  induction p as [|x p IH]; intros l H; [cbn; lia|]. destruct l as [|y l]; [discriminate H|].
  cbn [starts_with] in H. apply Bool.andb_true_iff in H as [_ H]. specialize (IH l H). cbn [length]. lia.
Qed.
Lemma find_sub_bound p l : forall pos, find_sub p l = Some pos -> pos + length p <= length l.
Proof.
  induction l as [|y l IH]; intros pos H.
  - cbn [find_sub] in H. destruct (starts_with p []) eqn:E; [|discriminate H]. injection H as <-.
    apply starts_with_len in E. lia.
  - cbn [find_sub] in H. destruct (starts_with p (y :: l)) eqn:E.
    + injection H as <-. apply starts_with_len in E. lia.
    + destruct (find_sub p l) as [q|]; [|discriminate H]. injection H as <-. specialize (IH q eq_refl). cbn [length]. lia.
Qed.

Lemma apply_loop_total hex fuel : forall rest, length rest < fuel -> exists r, apply_loop fuel hex rest = Ok r.
Proof.
  induction fuel as [|f IH]; intros rest Hlen; [lia|]. cbn [apply_loop].
  destruct (find_sub ID_PLAIN rest) as [pos|] eqn:E; [|eexists; reflexivity].
  apply find_sub_bound in E. change (length ID_PLAIN) with 4 in E.
  destruct (IH (skipn (pos + 4) rest)) as [r Hr]. { rewrite skipn_length. lia. }
  rewrite Hr. eexists. reflexivity.
Qed.
Lemma ident_apply_total hex src : exists r, ident_apply hex src = Ok r.
Proof. apply apply_loop_total. lia. Qed.

(* ---- ident::undo never panics, never hangs -------------------------------------------------------------- *)
Lemma find_dollar_or_lf_bound l : forall e, find_dollar_or_lf l = Some e -> e < length l.
Proof.
  induction l as [|b r IH]; intros e H; [discriminate H|]. cbn [find_dollar_or_lf] in H.
  destruct (beqb b DOLLAR || is_lf b)%bool.
  - injection H as <-. cbn [length]. lia.
  - destruct (find_dollar_or_lf r) as [q|]; [|discriminate H]. injection H as <-. specialize (IH q eq_refl). cbn [length]. lia.
Qed.

Lemma find_range_total fuel : forall cur ofs, length cur < fuel ->
  exists r, find_range fuel cur ofs = Ok r /\
            match r with Some (s, e) => ofs <= s /\ s < e /\ e <= ofs + length cur | None => True end.
Proof.
  induction fuel as [|f IH]; intros cur ofs Hlen; [lia|]. cbn [find_range].
  destruct (find_sub ID_OPEN cur) as [start|] eqn:Es; [|exists None; split; [reflexivity|exact I]].
  apply find_sub_bound in Es. change (length ID_OPEN) with 4 in Es.
  destruct (find_dollar_or_lf (skipn (start + 4) cur)) as [me|] eqn:Ee; [|exists None; split; [reflexivity|exact I]].
  pose proof (find_dollar_or_lf_bound _ _ Ee) as Hb. rewrite skipn_length in Hb.
  destruct (nth_error (skipn (start + 4) cur) me) as [b|] eqn:En.
  2:{ apply nth_error_None in En. rewrite skipn_length in En. lia. }
  destruct (is_lf b).
  - destruct (IH (skipn (me + 1) (skipn (start + 4) cur)) (ofs + start + 4 + me + 1)) as (r & Hr & Hp).
    { rewrite !skipn_length. lia. }
    exists r. split; [exact Hr|]. destruct r as [[s e]|]; [|exact I]. rewrite !skipn_length in Hp. lia.
  - eexists. split; [reflexivity|]. cbv beta iota. lia.
Qed.

Lemma undo_loop_total fuel : forall rest, length rest < fuel -> exists r, undo_loop fuel rest = Ok r.
Proof.
  induction fuel as [|f IH]; intros rest Hlen; [lia|]. cbn [undo_loop].
  destruct (find_range_total (S (length rest)) rest 0 ltac:(lia)) as (r & Hr & Hp). rewrite Hr.
  destruct r as [[s e]|]; [|eexists; reflexivity].
  destruct (IH (skipn e rest)) as [t Ht]. { rewrite skipn_length. lia. }
  rewrite Ht. eexists. reflexivity.
Qed.
Lemma ident_undo_total src : exists r, ident_undo src = Ok r.
Proof. apply undo_loop_total. lia. Qed.
