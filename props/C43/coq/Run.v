(* C43 — transcript printer.  Cases (field 0 = op):
     stats  <src>
     eolgit <digest> <autocrlf> <coreeol> <safecrlf> <idxflag> <idx> <src>      eol::convert_to_git
     eolwt  <digest> <autocrlf> <coreeol> <src>                                  eol::convert_to_worktree
     undo   <src>                                                                ident::undo
     apply  <hex> <src>                                                          ident::apply
     togit  <text> <crlf> <eol> <ident> <binary> <autocrlf> <coreeol> <safecrlf> <idxflag> <idx> <src>   Pipeline::convert_to_git
     towt   <text> <crlf> <eol> <ident> <binary> <autocrlf> <coreeol> <hex> <src>                        Pipeline::convert_to_worktree
   attribute state fields: empty = unspecified, "set", "unset", "=value".  <binary> = "1": the line
   `* binary` precedes the line with the other attributes (macro: -text unless text is given later).
   mode "spec": git's answer (Spec.v) for togit/towt in the same format. *)
From GixV.Base Require Import Bytes Outcome.
From GixV.C43 Require Import Model Spec.
Local Open Scope N_scope.

Definition parse_digest (f : bytes) : digest :=
  if bytes_eqb f (bs "Text") then Text
  else if bytes_eqb f (bs "TextInput") then TextInput
  else if bytes_eqb f (bs "TextCrlf") then TextCrlf
  else if bytes_eqb f (bs "TextAuto") then TextAuto
  else if bytes_eqb f (bs "TextAutoCrlf") then TextAutoCrlf
  else if bytes_eqb f (bs "TextAutoInput") then TextAutoInput
  else Binary.
Definition parse_autocrlf (f : bytes) : autocrlf :=
  if bytes_eqb f (bs "true") then AcEnabled else if bytes_eqb f (bs "input") then AcInput else AcDisabled.
Definition parse_coreeol (f : bytes) : option mode :=
  if bytes_eqb f (bs "lf") then Some Lf else if bytes_eqb f (bs "crlf") then Some CrLf else None.
Definition parse_config (ac ce : bytes) : config := {| auto_crlf := parse_autocrlf ac; cfg_eol := parse_coreeol ce |}.
Definition parse_safecrlf (f : bytes) : option rtcheck :=
  if bytes_eqb f (bs "fail") then Some RtFail else if bytes_eqb f (bs "warn") then Some RtWarn else None.
Definition parse_state (f : bytes) : attr_state :=
  match f with
  | [] => Unspecified
  | x3d :: v => AValue v
  | _ => if bytes_eqb f (bs "set") then ASet else if bytes_eqb f (bs "unset") then AUnset else Unspecified
  end.
(* what gix-attributes / git's attr.c resolve for the two-line .gitattributes the harness writes *)
Definition parse_attrs (text crlf eol ident binary : bytes) : attrs :=
  let t := parse_state text in
  let t := match t with Unspecified => if bytes_eqb binary (bs "1") then AUnset else Unspecified | _ => t end in
  {| a_crlf := parse_state crlf; a_ident := parse_state ident; a_eol := parse_state eol; a_text := t |}.
Definition parse_idx (flag data : bytes) : option bytes :=
  if bytes_eqb flag (bs "1") then Some data else None.

(* the same decoding for git's side *)
Definition g_parse_config (ac ce : bytes) : g_config :=
  {| g_autocrlf := if bytes_eqb ac (bs "true") then AUTO_CRLF_TRUE else if bytes_eqb ac (bs "input") then AUTO_CRLF_INPUT else AUTO_CRLF_FALSE;
     g_core_eol := if bytes_eqb ce (bs "lf") then EOL_LF else if bytes_eqb ce (bs "crlf") then EOL_CRLF else EOL_UNSET |}.
Definition g_parse_flags (f : bytes) : conv_flags :=
  if bytes_eqb f (bs "fail") then CONV_EOL_RNDTRP_DIE else if bytes_eqb f (bs "warn") then CONV_EOL_RNDTRP_WARN else CONV_NONE.

Definition err_name (e : eol_err) : bytes :=
  match e with RoundTripCrlf => bs "crlf-lost" | RoundTripLf => bs "lf-lost" end.

Definition show {A} (f : A -> bytes) (o : outcome A eol_err) : bytes :=
  match o with
  | Ok a => f a
  | Err e => bs "err " ++ err_name e
  | Panic => bs "PANIC"
  | OutOfFuel => bs "HANG"
  end.
Definition show_opt (o : option bytes) : bytes :=
  match o with None => bs "same" | Some b => bs "changed " ++ hex_encode b end.
Definition show_bytes (b : bytes) : bytes := bs "ok " ++ hex_encode b.

Definition show_stats (s : stats) : bytes :=
  join_sp [N_to_dec (null s); N_to_dec (lone_cr s); N_to_dec (lone_lf s); N_to_dec (crlf s);
           N_to_dec (printable s); N_to_dec (non_printable s); bool_to_bytes (is_binary s)].

Definition run_model (fs : list bytes) : bytes :=
  let op := nth_field 0 fs in
  let f := fun n => nth_field n fs in
  if bytes_eqb op (bs "stats") then show_stats (stats_from_bytes (f 1%nat))
  else if bytes_eqb op (bs "eolgit") then
    show show_opt (eol_convert_to_git (f 7%nat) (parse_digest (f 1%nat)) (parse_idx (f 5%nat) (f 6%nat))
                     (parse_safecrlf (f 4%nat)) (parse_config (f 2%nat) (f 3%nat)))
  else if bytes_eqb op (bs "eolwt") then
    show show_opt (eol_convert_to_worktree (f 4%nat) (parse_digest (f 1%nat)) (parse_config (f 2%nat) (f 3%nat)))
  else if bytes_eqb op (bs "undo") then show show_opt (ident_undo (f 1%nat))
  else if bytes_eqb op (bs "apply") then show show_opt (ident_apply (f 1%nat) (f 2%nat))
  else if bytes_eqb op (bs "togit") then
    show show_bytes (pipeline_to_git (f 11%nat) (parse_attrs (f 1%nat) (f 2%nat) (f 3%nat) (f 4%nat) (f 5%nat))
                       (parse_config (f 6%nat) (f 7%nat)) (parse_safecrlf (f 8%nat)) (parse_idx (f 9%nat) (f 10%nat)))
  else if bytes_eqb op (bs "towt") then
    show show_bytes (pipeline_to_worktree (f 8%nat) (f 9%nat) (parse_attrs (f 1%nat) (f 2%nat) (f 3%nat) (f 4%nat) (f 5%nat))
                       (parse_config (f 6%nat) (f 7%nat)))
  else bs "?".

Definition run_spec (fs : list bytes) : bytes :=
  let op := nth_field 0 fs in
  let f := fun n => nth_field n fs in
  if bytes_eqb op (bs "togit") then
    match convert_to_git (g_parse_config (f 6%nat) (f 7%nat)) (parse_attrs (f 1%nat) (f 2%nat) (f 3%nat) (f 4%nat) (f 5%nat))
            (g_parse_flags (f 8%nat)) (parse_idx (f 9%nat) (f 10%nat)) (f 11%nat) with
    | inl b => show_bytes b
    | inr true => bs "err crlf-lost"
    | inr false => bs "err lf-lost"
    end
  else if bytes_eqb op (bs "towt") then
    show_bytes (convert_to_working_tree (g_parse_config (f 6%nat) (f 7%nat))
                  (parse_attrs (f 1%nat) (f 2%nat) (f 3%nat) (f 4%nat) (f 5%nat)) (f 8%nat) (f 9%nat))
  else bs "-".

Definition run (fs : list bytes) : bytes :=
  match fs with
  | mode :: rest => if bytes_eqb mode (bs "spec") then run_spec rest else run_model rest
  | [] => bs "?"
  end.
