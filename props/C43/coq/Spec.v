(* C43 — Spec: git's convert.c (v2.39) transcribed function by function.  Independent of Model.v except
   for the input types (attribute states, byte strings).  This text is what the `git` oracle of the
   harness (real `git hash-object --path` / `git cat-file --filters`) is compared with.
   Platform: EOL_NATIVE = EOL_LF.  `unsigned` counters are unbounded here (git's wrap at 2^32 bytes).
   Loops over `memchr` results carry fuel = remaining length + 1; running out is unreachable and
   returns the remaining input unchanged. *)
From GixV.Base Require Import Bytes.
From GixV.C43 Require Import Model.   (* attr_state, attrs, CR/LF/DOLLAR, starts_with only *)
Local Open Scope N_scope.

Inductive crlf_action :=
  CRLF_UNDEFINED | CRLF_BINARY | CRLF_TEXT | CRLF_TEXT_INPUT | CRLF_TEXT_CRLF | CRLF_AUTO | CRLF_AUTO_INPUT | CRLF_AUTO_CRLF.
Inductive eol := EOL_UNSET | EOL_CRLF | EOL_LF.
Inductive g_auto_crlf := AUTO_CRLF_FALSE | AUTO_CRLF_TRUE | AUTO_CRLF_INPUT.
Record g_config := { g_autocrlf : g_auto_crlf; g_core_eol : eol }.
Inductive conv_flags := CONV_NONE | CONV_EOL_RNDTRP_WARN | CONV_EOL_RNDTRP_DIE.

Record text_stat := { nul : N; lonecr : N; lonelf : N; t_crlf : N; t_printable : N; nonprintable : N }.

Definition byte_is (b : byte) (n : N) : bool := N.eqb (b2N b) n.

(* gather_stats: the for loop *)
Fixpoint gather_loop (buf : bytes) (s : text_stat) : text_stat :=
  match buf with
  | [] => s
  | c :: rest =>
      if byte_is c 13 then
        match rest with
        | c2 :: rest2 =>
            if byte_is c2 10
            then gather_loop rest2 {| nul := nul s; lonecr := lonecr s; lonelf := lonelf s; t_crlf := t_crlf s + 1;
                                      t_printable := t_printable s; nonprintable := nonprintable s |}
            else gather_loop rest {| nul := nul s; lonecr := lonecr s + 1; lonelf := lonelf s; t_crlf := t_crlf s;
                                     t_printable := t_printable s; nonprintable := nonprintable s |}
        | [] => gather_loop rest {| nul := nul s; lonecr := lonecr s + 1; lonelf := lonelf s; t_crlf := t_crlf s;
                                    t_printable := t_printable s; nonprintable := nonprintable s |}
        end
      else if byte_is c 10 then
        gather_loop rest {| nul := nul s; lonecr := lonecr s; lonelf := lonelf s + 1; t_crlf := t_crlf s;
                            t_printable := t_printable s; nonprintable := nonprintable s |}
      else if byte_is c 127 then
        gather_loop rest {| nul := nul s; lonecr := lonecr s; lonelf := lonelf s; t_crlf := t_crlf s;
                            t_printable := t_printable s; nonprintable := nonprintable s + 1 |}
      else if N.ltb (b2N c) 32 then
        if byte_is c 8 || byte_is c 9 || byte_is c 27 || byte_is c 12 then
          gather_loop rest {| nul := nul s; lonecr := lonecr s; lonelf := lonelf s; t_crlf := t_crlf s;
                              t_printable := t_printable s + 1; nonprintable := nonprintable s |}
        else if byte_is c 0 then
          gather_loop rest {| nul := nul s + 1; lonecr := lonecr s; lonelf := lonelf s; t_crlf := t_crlf s;
                              t_printable := t_printable s; nonprintable := nonprintable s + 1 |}
        else
          gather_loop rest {| nul := nul s; lonecr := lonecr s; lonelf := lonelf s; t_crlf := t_crlf s;
                              t_printable := t_printable s; nonprintable := nonprintable s + 1 |}
      else
        gather_loop rest {| nul := nul s; lonecr := lonecr s; lonelf := lonelf s; t_crlf := t_crlf s;
                            t_printable := t_printable s + 1; nonprintable := nonprintable s |}
  end.

(* gather_stats, with: "If file ends with EOF then don't count this EOF as non-printable." *)
Definition gather_stats (buf : bytes) : text_stat :=
  let s := gather_loop buf {| nul := 0; lonecr := 0; lonelf := 0; t_crlf := 0; t_printable := 0; nonprintable := 0 |} in
  if negb (Nat.eqb (length buf) 0) && byte_is (last buf x00) 26
  then {| nul := nul s; lonecr := lonecr s; lonelf := lonelf s; t_crlf := t_crlf s;
          t_printable := t_printable s; nonprintable := N.pred (nonprintable s) |}
  else s.

Definition convert_is_binary (s : text_stat) : bool :=
  if negb (N.eqb (lonecr s) 0) then true
  else if negb (N.eqb (nul s) 0) then true
  else if N.ltb (N.shiftr (t_printable s) 7) (nonprintable s) then true
  else false.

Definition text_eol_is_crlf (g : g_config) : bool :=
  match g_autocrlf g with
  | AUTO_CRLF_TRUE => true
  | AUTO_CRLF_INPUT => false
  | AUTO_CRLF_FALSE =>
      match g_core_eol g with
      | EOL_CRLF => true
      | _ => false                 (* EOL_UNSET && EOL_NATIVE == EOL_CRLF is false here *)
      end
  end.

Definition output_eol (g : g_config) (a : crlf_action) : eol :=
  match a with
  | CRLF_BINARY => EOL_UNSET
  | CRLF_TEXT_CRLF => EOL_CRLF
  | CRLF_TEXT_INPUT => EOL_LF
  | CRLF_UNDEFINED | CRLF_AUTO_CRLF => EOL_CRLF
  | CRLF_AUTO_INPUT => EOL_LF
  | CRLF_TEXT | CRLF_AUTO => if text_eol_is_crlf g then EOL_CRLF else EOL_LF
  end.

Definition is_auto_action (a : crlf_action) : bool :=
  match a with CRLF_AUTO | CRLF_AUTO_INPUT | CRLF_AUTO_CRLF => true | _ => false end.
Definition eol_is_crlf (e : eol) : bool := match e with EOL_CRLF => true | _ => false end.

Definition g_will_convert_lf_to_crlf (g : g_config) (s : text_stat) (a : crlf_action) : bool :=
  if negb (eol_is_crlf (output_eol g a)) then false
  else if N.eqb (lonelf s) 0 then false
  else if is_auto_action a then
    if negb (N.eqb (lonecr s) 0) || negb (N.eqb (t_crlf s) 0) then false
    else if convert_is_binary s then false
    else true
  else true.

(* has_crlf_in_index with [data] = read_blob_data_from_index (None: not in the index) *)
Definition g_has_crlf_in_index (data : option bytes) : bool :=
  match data with
  | None => false
  | Some d =>
      if existsb (fun b => byte_is b 13) d then      (* memchr(data, '\r', sz) *)
        (* gather_convert_stats: size 0 gives 0, but then memchr found nothing anyway *)
        let s := gather_stats d in
        negb (convert_is_binary s) && negb (N.eqb (t_crlf s) 0)
      else false
  end.

Definition with_eols (s : text_stat) (lf crlf : N) : text_stat :=
  {| nul := nul s; lonecr := lonecr s; lonelf := lf; t_crlf := crlf;
     t_printable := t_printable s; nonprintable := nonprintable s |}.

Inductive g_result := Unchanged | Changed (b : bytes) | Die (crlf_lost : bool).

(* the two copy loops at the end of crlf_to_git *)
Definition drop_every_cr (src : bytes) : bytes := filter (fun c => negb (byte_is c 13)) src.
Fixpoint drop_cr_of_crlf (src : bytes) : bytes :=
  match src with
  | [] => []
  | c :: rest =>
      if byte_is c 13 && match rest with c2 :: _ => byte_is c2 10 | [] => false end
      then drop_cr_of_crlf rest else c :: drop_cr_of_crlf rest
  end.

(* crlf_to_git after the two early returns *)
Definition crlf_to_git_body (g : g_config) (index_data : option bytes) (src : bytes) (a : crlf_action) (fl : conv_flags) : g_result :=
  let stats := gather_stats src in
  let convert0 := negb (N.eqb (t_crlf stats) 0) in
  if is_auto_action a && convert_is_binary stats then Unchanged
  else
    let convert_crlf_into_lf :=
      if is_auto_action a && g_has_crlf_in_index index_data then false else convert0 in
    let check : option bool :=              (* check_global_conv_flags_eol: Some true = CRLF lost, Some false = LF lost *)
      match fl with
      | CONV_NONE => None
      | _ =>
          let ns := if convert_crlf_into_lf                          (* simulate "git add" *)
                    then with_eols stats (lonelf stats + t_crlf stats) 0 else stats in
          let ns := if g_will_convert_lf_to_crlf g ns a              (* simulate "git checkout" *)
                    then with_eols ns 0 (t_crlf ns + lonelf ns) else ns in
          if negb (N.eqb (t_crlf stats) 0) && N.eqb (t_crlf ns) 0 then Some true
          else if negb (N.eqb (lonelf stats) 0) && N.eqb (lonelf ns) 0 then Some false
          else None
      end in
    match fl, check with
    | CONV_EOL_RNDTRP_DIE, Some w => Die w
    | _, _ =>
        if negb convert_crlf_into_lf then Unchanged
        else if is_auto_action a then Changed (drop_every_cr src)
        else Changed (drop_cr_of_crlf src)
    end.

Definition crlf_to_git (g : g_config) (index_data : option bytes) (src : bytes) (a : crlf_action) (fl : conv_flags) : g_result :=
  match a, src with
  | CRLF_BINARY, _ => Unchanged
  | _, [] => Unchanged
  | _, _ => crlf_to_git_body g index_data src a fl
  end.

(* crlf_to_worktree's loop: every LF not preceded by CR gets one *)
Fixpoint add_cr_loop (prev_is_cr : bool) (src : bytes) : bytes :=
  match src with
  | [] => []
  | c :: rest =>
      if byte_is c 10
      then (if prev_is_cr then [c] else [CR; c]) ++ add_cr_loop false rest
      else c :: add_cr_loop (byte_is c 13) rest
  end.

Definition crlf_to_worktree (g : g_config) (src : bytes) (a : crlf_action) : g_result :=
  match src with
  | [] => Unchanged
  | _ =>
      if negb (eol_is_crlf (output_eol g a)) then Unchanged
      else if negb (g_will_convert_lf_to_crlf g (gather_stats src) a) then Unchanged
      else Changed (add_cr_loop false src)
  end.

(* ---- ident ------------------------------------------------------------------------------------ *)
Definition is_dollar (c : byte) : bool := byte_is c 36.

(* inner loop of count_ident after "$Id:": scan to the closing dollar (count it) or a line break;
   returns what is left and whether a dollar closed the keyword *)
Fixpoint count_scan (cp : bytes) : bytes * bool :=
  match cp with
  | [] => ([], false)
  | ch :: r => if is_dollar ch then (r, true) else if byte_is ch 10 then (r, false) else count_scan r
  end.

Fixpoint count_ident (fuel : nat) (cp : bytes) : N :=
  match fuel with
  | O => 0
  | S f =>
      match cp with
      | [] => 0
      | ch :: r =>
          if negb (is_dollar ch) then count_ident f r
          else if Nat.ltb (length r) 3 then 0
          else if negb (starts_with (bs "Id") r) then count_ident f r
          else
            match r with
            | _ :: _ :: c2 :: r3 =>
                if is_dollar c2 then 1 + count_ident f r3
                else if byte_is c2 58 then
                  let '(r4, closed) := count_scan r3 in (if closed then 1 else 0) + count_ident f r4
                else count_ident f r3
            | _ => 0
            end
      end
  end.
Definition g_count_ident (src : bytes) : N := count_ident (S (length src)) src.

(* memchr(src, '$', len): bytes before the dollar, bytes after it *)
Fixpoint split_dollar (src : bytes) : option (bytes * bytes) :=
  match src with
  | [] => None
  | c :: r => if is_dollar c then Some ([], r)
              else match split_dollar r with Some (p, q) => Some (c :: p, q) | None => None end
  end.
Definition has_lf (l : bytes) : bool := existsb (fun c => byte_is c 10) l.

Fixpoint ident_to_git_loop (fuel : nat) (src : bytes) : bytes :=
  match fuel with
  | O => src
  | S f =>
      match split_dollar src with
      | None => src                                           (* break; memmove the rest *)
      | Some (pre, rest) =>
          pre ++ DOLLAR ::
          (if Nat.ltb 3 (length rest) && starts_with (bs "Id:") rest then
             match split_dollar (skipn 3 rest) with
             | None => rest                                   (* break *)
             | Some (inner, after) =>
                 if has_lf inner then ident_to_git_loop f rest          (* continue *)
                 else bs "Id$" ++ ident_to_git_loop f after
             end
           else ident_to_git_loop f rest)
      end
  end.

Definition ident_to_git (src : bytes) (ident : bool) : bytes :=
  if negb ident || N.eqb (g_count_ident src) 0 then src
  else ident_to_git_loop (S (length src)) src.

(* memchr(src + 4, ' ', dollar - src - 4) && spc < dollar - 1, with [inner] = src+3 .. dollar *)
Definition foreign_id (inner : bytes) : bool :=
  match inner with
  | [] => false
  | _ :: tl =>                      (* tl = src+4 .. dollar *)
      (fix go (l : bytes) : bool :=
         match l with
         | [] => false
         | c :: r => if byte_is c 32 then negb (Nat.eqb (length r) 0) else go r
         end) tl
  end.

(* [expansion] = "Id: " ++ hex ++ " $" in git *)
Fixpoint ident_to_worktree_loop (fuel : nat) (expansion : bytes) (src : bytes) : bytes :=
  match fuel with
  | O => src
  | S f =>
      match split_dollar src with
      | None => src
      | Some (pre, rest) =>
          pre ++ DOLLAR ::
          (if Nat.ltb (length rest) 3 || negb (starts_with (bs "Id") rest) then ident_to_worktree_loop f expansion rest
           else
             match rest with
             | _ :: _ :: c2 :: r3 =>
                 if is_dollar c2 then expansion ++ ident_to_worktree_loop f expansion r3
                 else if byte_is c2 58 then
                   match split_dollar r3 with
                   | None => rest                             (* incomplete keyword: quit the loop *)
                   | Some (inner, after) =>
                       if has_lf inner then ident_to_worktree_loop f expansion rest
                       else if foreign_id inner then ident_to_worktree_loop f expansion rest
                       else expansion ++ ident_to_worktree_loop f expansion after
                   end
                 else ident_to_worktree_loop f expansion rest
             | _ => rest
             end)
      end
  end.

Definition ident_to_worktree (hex : bytes) (src : bytes) (ident : bool) : bytes :=
  if negb ident || N.eqb (g_count_ident src) 0 then src
  else ident_to_worktree_loop (S (length src)) (bs "Id: " ++ hex ++ bs " $") src.

(* ---- convert_attrs ------------------------------------------------------------------------------ *)
Definition git_path_check_crlf (v : attr_state) : crlf_action :=
  match v with
  | ASet => CRLF_TEXT
  | AUnset => CRLF_BINARY
  | Unspecified => CRLF_UNDEFINED
  | AValue s => if bytes_eqb s (bs "input") then CRLF_TEXT_INPUT
                else if bytes_eqb s (bs "auto") then CRLF_AUTO else CRLF_UNDEFINED
  end.
Definition git_path_check_eol (v : attr_state) : eol :=
  match v with
  | AValue s => if bytes_eqb s (bs "lf") then EOL_LF else if bytes_eqb s (bs "crlf") then EOL_CRLF else EOL_UNSET
  | _ => EOL_UNSET
  end.
Definition git_path_check_ident (v : attr_state) : bool := match v with ASet => true | _ => false end.

Definition action_is_undefined (a : crlf_action) : bool := match a with CRLF_UNDEFINED => true | _ => false end.
Definition convert_attrs (g : g_config) (at_ : attrs) : crlf_action * bool :=
  let a := git_path_check_crlf (a_text at_) in
  let a := if action_is_undefined a then git_path_check_crlf (a_crlf at_) else a in
  let a :=
    match a with
    | CRLF_BINARY => a
    | _ =>
        match a, git_path_check_eol (a_eol at_) with
        | CRLF_AUTO, EOL_LF => CRLF_AUTO_INPUT
        | CRLF_AUTO, EOL_CRLF => CRLF_AUTO_CRLF
        | _, EOL_LF => CRLF_TEXT_INPUT
        | _, EOL_CRLF => CRLF_TEXT_CRLF
        | _, EOL_UNSET => a
        end
    end in
  let a := match a with CRLF_TEXT => if text_eol_is_crlf g then CRLF_TEXT_CRLF else CRLF_TEXT_INPUT | _ => a end in
  let a := match a, g_autocrlf g with
           | CRLF_UNDEFINED, AUTO_CRLF_FALSE => CRLF_BINARY
           | CRLF_UNDEFINED, AUTO_CRLF_TRUE => CRLF_AUTO_CRLF
           | CRLF_UNDEFINED, AUTO_CRLF_INPUT => CRLF_AUTO_INPUT
           | _, _ => a
           end in
  (a, git_path_check_ident (a_ident at_)).

(* convert_to_git without clean filter / working-tree-encoding: crlf_to_git, then ident_to_git.
   None = git dies (core.safecrlf=true) *)
Definition convert_to_git (g : g_config) (at_ : attrs) (fl : conv_flags) (index_data : option bytes) (src : bytes)
  : bytes + bool :=
  let '(a, ident) := convert_attrs g at_ in
  match crlf_to_git g index_data src a fl with
  | Die w => inr w
  | Unchanged => inl (ident_to_git src ident)
  | Changed b => inl (ident_to_git b ident)
  end.

(* convert_to_working_tree: ident_to_worktree, then crlf_to_worktree *)
Definition convert_to_working_tree (g : g_config) (at_ : attrs) (hex : bytes) (src : bytes) : bytes :=
  let '(a, ident) := convert_attrs g at_ in
  let s1 := ident_to_worktree hex src ident in
  match crlf_to_worktree g s1 a with
  | Changed b => b
  | _ => s1
  end.
