(* C43 — Content filters agree with git.  Statements only; proofs are in Proofs*.v.
   Model.v = gix-filter (eol::{Stats, convert_to_git, convert_to_worktree}, ident::{undo, apply},
   pipeline::{Configuration::at_path, convert_to_git, convert_to_worktree});  Spec.v = git's convert.c.
   Translations of gitoxide's types into git's (definitions in ProofsEol.v / ProofsPipe.v):
     cfg_to_git        core.autocrlf / core.eol            digest_to_action   AttributesDigest -> crlf_action
     rt_to_flags       CrlfRoundTripCheck -> conv_flags    to_text_stat       Stats -> struct text_stat
     result_of         Ok(false) / Ok(true)+buf / Err(RoundTrip) -> Unchanged / Changed b / Die; None = panic or hang
     pipe_result       the bytes read back from the pipeline, or which round-trip error; None = panic or hang *)
From GixV.Base Require Import Bytes BytesFacts Outcome.
From GixV.C43 Require Import Model Spec ProofsEol ProofsWt ProofsPipe ProofsIdent ProofsCount ProofsApply.
Local Open Scope N_scope.

(* the statistics gathered over any byte string are git's gather_stats, including the trailing ^Z rule *)
Theorem stats_is_git : forall l, to_text_stat (stats_from_bytes l) = gather_stats l.
Proof. exact ProofsEol.stats_is_git. Qed.

(* ... and the text/binary verdict on them is git's convert_is_binary *)
Theorem is_binary_is_git : forall l, is_binary (stats_from_bytes l) = convert_is_binary (gather_stats l).
Proof. intros l. rewrite <- ProofsEol.stats_is_git. apply is_binary_git. Qed.

(* for every assignment of the text/crlf/eol/ident attributes (any values) and every core.autocrlf/core.eol,
   the pipeline picks git's crlf_action and ident flag *)
Theorem attributes_digest_is_git : forall a c,
  convert_attrs (cfg_to_git c) a = (digest_to_action (at_path_digest a c), apply_ident_filter a).
Proof. exact at_path_git. Qed.

(* the "would checkout add CRs" decision is git's, for all statistics, digests and configurations *)
Theorem will_convert_is_git : forall s d c,
  will_convert_lf_to_crlf s d c = g_will_convert_lf_to_crlf (cfg_to_git c) (to_text_stat s) (digest_to_action d).
Proof. exact will_convert_git. Qed.

(* CRLF -> LF (to-git) conversion: for every content, digest, index blob, core.safecrlf mode and config,
   gitoxide returns git's bytes / "unchanged" / the same round-trip failure; it never panics *)
Theorem eol_to_git_is_git : forall src d idx rt c,
  result_of (eol_convert_to_git src d idx rt c) =
  Some (crlf_to_git (cfg_to_git c) idx src (digest_to_action d) (rt_to_flags rt)).
Proof. exact ProofsEol.eol_to_git_is_git. Qed.

(* LF -> CRLF (to-worktree) conversion: the same for every content, digest and config; the
   find_byteset loop never indexes out of bounds and terminates within length+1 iterations *)
Theorem eol_to_worktree_is_git : forall src d c,
  result_of (eol_convert_to_worktree src d c) = Some (crlf_to_worktree (cfg_to_git c) src (digest_to_action d)).
Proof. exact ProofsWt.eol_to_worktree_is_git. Qed.

(* Pipeline::convert_to_git: git's stage order (eol, then ident) with git's eol stage, for all inputs *)
Theorem to_git_stages_are_git : forall src a c rt idx,
  pipe_result (pipeline_to_git src a c rt idx) =
  match crlf_to_git (cfg_to_git c) idx src (digest_to_action (at_path_digest a c)) (rt_to_flags rt) with
  | Die w => Some (inr w)
  | Unchanged => if apply_ident_filter a then undo_stage src else Some (inl src)
  | Changed b => if apply_ident_filter a then undo_stage b else Some (inl b)
  end.
Proof. exact to_git_stages. Qed.

(* to_git_is_git, without the ident attribute: the bytes `git hash-object --path` stores *)
Theorem to_git_is_git_without_ident : forall src a c rt idx,
  apply_ident_filter a = false ->
  pipe_result (pipeline_to_git src a c rt idx) = Some (convert_to_git (cfg_to_git c) a (rt_to_flags rt) idx src).
Proof. exact to_git_is_git_no_ident. Qed.

(* ident::undo: for every byte string the buffers hold what git's ident_to_git produces (count_ident
   pre-check + the dollar-by-dollar loop); in particular find_range's offsets are always in range *)
Theorem ident_undo_is_git : forall s, undo_stage s = Some (inl (ident_to_git s true)).
Proof. exact ProofsCount.ident_undo_is_git. Qed.

(* to_git_is_git, the FULL statement: for every content, attribute assignment (ident included), core.autocrlf,
   core.eol, core.safecrlf mode and index blob, the pipeline yields the bytes `git hash-object --path` / `git add`
   stores, or fails with git's round-trip error; it never panics or hangs *)
Theorem to_git_is_git : forall src a c rt idx,
  pipe_result (pipeline_to_git src a c rt idx) = Some (convert_to_git (cfg_to_git c) a (rt_to_flags rt) idx src).
Proof. exact to_git_is_git_all. Qed.

(* to_worktree_is_git: FALSE of the code when the ident filter expands something (two known classes:
   `$Id: <hex>$` instead of `$Id: <hex> $`, expanded ids left alone) ... *)
Theorem to_worktree_is_git_refuted :
  exists hex src a c,
    pipe_result (pipeline_to_worktree hex src a c) <> Some (inl (convert_to_working_tree (cfg_to_git c) a hex src)).
Proof. exact to_worktree_refuted. Qed.

(* ... and true everywhere else: the bytes `git checkout` writes *)
Theorem to_worktree_is_git_except_known : forall hex src a c,
  known_towt a src = false ->
  pipe_result (pipeline_to_worktree hex src a c) = Some (inl (convert_to_working_tree (cfg_to_git c) a hex src)).
Proof. exact ProofsPipe.to_worktree_is_git_except_known. Qed.

(* The two known classes are ALL that separates gitoxide from git in the to-worktree direction:
   [ident_to_worktree_with suffix] / [convert_to_working_tree_with suffix] are git's functions with the text written
   after the blob id as a parameter (git itself is suffix = " $": the two lemmas below hold by reflexivity).
   On every input without an already expanded keyword (`$Id:` does not occur: class ident-expanded-id-kept excluded)
   ident::apply and the whole pipeline compute git's algorithm with suffix "$" (class ident-expansion-without-space). *)
Theorem git_is_the_space_instance : forall g at_ hex src,
  convert_to_working_tree g at_ hex src = convert_to_working_tree_with (bs " $") g at_ hex src.
Proof. exact git_worktree_is_with_space. Qed.

Theorem ident_apply_is_git_modulo_format : forall hex src,
  find_sub ID_OPEN src = None ->
  apply_stage hex src = Some (inl (ident_to_worktree_with (bs "$") hex src true)).
Proof. exact ProofsApply.ident_apply_is_git_modulo_format. Qed.

Theorem to_worktree_is_git_modulo_format : forall hex src a c,
  find_sub ID_OPEN src = None ->
  pipe_result (pipeline_to_worktree hex src a c) =
  Some (inl (convert_to_working_tree_with (bs "$") (cfg_to_git c) a hex src)).
Proof. exact ProofsApply.to_worktree_is_git_modulo_format. Qed.

(* ident::apply returns for every input: no panic, and the loop needs at most length+1 iterations *)
Theorem ident_apply_total : forall hex src, exists r, ident_apply hex src = Ok r.
Proof. exact ProofsPipe.ident_apply_total. Qed.

(* ident::undo returns for every input: `cursor[maybe_end]` is in bounds, both loops terminate within their fuel;
   with it, the to-git pipeline never panics or hangs on any input *)
Theorem ident_undo_total : forall src, exists r, ident_undo src = Ok r.
Proof. exact ProofsPipe.ident_undo_total. Qed.

(* ---- non-vacuity ------------------------------------------------------------------------------------- *)
(* the former defect's witness is converted now, as git does *)
Example eof_witness :
  eol_convert_to_git (bs "a" ++ [x0d; x0a; x1a]) TextAuto None None {| auto_crlf := AcDisabled; cfg_eol := None |}
  = Ok (Some (bs "a" ++ [x0a; x1a])).
Proof. vm_compute. reflexivity. Qed.

(* hypotheses of the implications are satisfiable by inputs on which something happens *)
Example without_ident_example :
  let a := {| a_crlf := Unspecified; a_ident := Unspecified; a_eol := AValue (bs "crlf"); a_text := AValue (bs "auto") |} in
  let c := {| auto_crlf := AcDisabled; cfg_eol := None |} in
  apply_ident_filter a = false /\
  pipeline_to_git (bs "a" ++ [x0d; x0a]) a c (Some RtFail) None = Ok (bs "a" ++ [x0a]) /\
  pipeline_to_git (bs "a" ++ [x0a]) a c (Some RtFail) None = Err RoundTripLf.
Proof. vm_compute. repeat split. Qed.

Example except_known_example :
  let a := {| a_crlf := Unspecified; a_ident := ASet; a_eol := AValue (bs "crlf"); a_text := ASet |} in
  let c := {| auto_crlf := AcDisabled; cfg_eol := None |} in
  let src := bs "$Id" ++ [x0a] ++ bs "x" in
  known_towt a src = false /\ pipeline_to_worktree [] src a c = Ok (bs "$Id" ++ [x0d; x0a] ++ bs "x").
Proof. vm_compute. split; reflexivity. Qed.

(* an input on which ident and eol conversion both act, with core.safecrlf=true, to-git *)
Example to_git_example :
  let a := {| a_crlf := Unspecified; a_ident := ASet; a_eol := Unspecified; a_text := AValue (bs "auto") |} in
  let c := {| auto_crlf := AcInput; cfg_eol := None |} in
  pipeline_to_git (bs "$Id: 0123 $" ++ [x0d; x0a] ++ bs "$Id: x" ++ [x0d; x0a] ++ bs "$") a c (Some RtWarn) None
  = Ok (bs "$Id$" ++ [x0a] ++ bs "$Id: x" ++ [x0a] ++ bs "$").
Proof. vm_compute. reflexivity. Qed.

Example modulo_format_example :
  let a := {| a_crlf := Unspecified; a_ident := ASet; a_eol := AValue (bs "crlf"); a_text := ASet |} in
  let c := {| auto_crlf := AcDisabled; cfg_eol := None |} in
  let src := bs "a $Id$ $Id$" ++ [x0a] in
  find_sub ID_OPEN src = None /\
  pipeline_to_worktree (bs "0123") src a c = Ok (bs "a $Id: 0123$ $Id: 0123$" ++ [x0d; x0a]).
Proof. vm_compute. split; reflexivity. Qed.

Example undo_example :
  ident_undo (bs "a $Id: 0123 $ b $Id:" ++ [x0a] ++ bs "$") = Ok (Some (bs "a $Id$ b $Id:" ++ [x0a] ++ bs "$")).
Proof. vm_compute. reflexivity. Qed.
