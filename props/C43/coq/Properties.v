(* C43 — Content filters agree with git.  Statements only; proofs are in Proofs*.v.
   Model.v = gix-filter (eol::{Stats, convert_to_git, convert_to_worktree}, ident::{undo, apply},
   pipeline::{Configuration::at_path, convert_to_git, convert_to_worktree});  Spec.v = git's convert.c.
   [cfg_to_git], [digest_to_action], [rt_to_flags], [to_text_stat] translate gitoxide's configuration,
   attribute digest, round-trip mode and statistics record into git's (ProofsEol.v, definitions only). *)
From GixV.Base Require Import Bytes BytesFacts Outcome.
From GixV.C43 Require Import Model Spec ProofsEol.
Local Open Scope N_scope.

(* the statistics gathered over any byte string are git's gather_stats, including the trailing ^Z rule *)
Theorem stats_is_git : forall l, to_text_stat (stats_from_bytes l) = gather_stats l.
Proof. exact ProofsEol.stats_is_git. Qed.

(* ... and the text/binary verdict on them is git's convert_is_binary *)
Theorem is_binary_is_git : forall l, is_binary (stats_from_bytes l) = convert_is_binary (gather_stats l).
Proof. intros l. rewrite <- ProofsEol.stats_is_git. apply is_binary_git. Qed.

(* for every assignment of the text/crlf/eol/ident attributes (any values) and every core.autocrlf/core.eol,
   the pipeline picks git's crlf_action and ident flag *)
Theorem attributes_digest_is_git : forall a c,
  convert_attrs (cfg_to_git c) a = (digest_to_action (at_path_digest a c), apply_ident_filter a).
Proof. exact at_path_git. Qed.

(* CRLF -> LF (to-git) conversion: for every content, digest, index blob, core.safecrlf mode and config,
   gitoxide returns git's bytes / "unchanged" / the same round-trip failure; it never panics *)
Theorem eol_to_git_is_git : forall src d idx rt c,
  result_of (eol_convert_to_git src d idx rt c) =
  Some (crlf_to_git (cfg_to_git c) idx src (digest_to_action d) (rt_to_flags rt)).
Proof. exact ProofsEol.eol_to_git_is_git. Qed.

(* non-vacuity: the former defect's witness is converted now, as git does *)
Example eof_witness :
  eol_convert_to_git (bs "a" ++ [x0d; x0a; x1a]) TextAuto None None {| auto_crlf := AcDisabled; cfg_eol := None |}
  = Ok (Some (bs "a" ++ [x0a; x1a])).
Proof. vm_compute. reflexivity. Qed.
