(* C43 — proofs, part 5: git's count_ident pre-check is sound for ident_to_git's loop, hence
   ident::undo = ident_to_git and the full to-git statement. *)
From Coq Require Import Lia.
From GixV.Base Require Import Bytes BytesFacts Outcome.
From GixV.C43 Require Import Model Spec ProofsEol ProofsWt ProofsPipe ProofsIdent.
Local Open Scope nat_scope.

Lemma colon_fact : forall c, Bool.eqb (byte_is c 58) (beqb x3a c) = true.
Proof. apply forall_bytes. vm_compute. reflexivity. Qed.
Lemma colon_git c : beqb x3a c = byte_is c 58.
Proof. pose proof (colon_fact c) as H. apply Bool.eqb_prop in H. congruence. Qed.

Lemma count_scan_open x : forall r4, count_scan x = (r4, false) ->
  exists p, x = p ++ r4 /\ nodollar p = true /\
            match split_dollar x with None => True | Some (inner, _) => has_lf inner = true end.
Proof.
  induction x as [|ch r IH]; intros r4 H.
  - injection H as <-. exists []. repeat split.
  - cbn [count_scan] in H. destruct (is_dollar ch) eqn:Ed; [discriminate H|].
    destruct (byte_is ch 10) eqn:El.
    + injection H as <-. exists [ch]. split; [reflexivity|]. split.
      * cbn [nodollar forallb]. rewrite Ed. reflexivity.
      * cbn [split_dollar]. rewrite Ed. destruct (split_dollar r) as [[p q]|]; [|exact I].
        cbn [has_lf existsb]. rewrite El. reflexivity.
    + destruct (IH r4 H) as (p & -> & Hn & Hs). exists (ch :: p). split; [reflexivity|]. split.
      * cbn [nodollar forallb]. rewrite Ed. exact Hn.
      * cbn [split_dollar]. rewrite Ed. destruct (split_dollar (p ++ r4)) as [[p' q]|]; [|exact I].
        cbn [has_lf existsb]. rewrite El. exact Hs.
Qed.

Lemma TT_short r : length r < 4 -> TT r = r.
Proof.
  intros H. pose proof (TT_find r) as F. destruct (find_sub ID_OPEN r) as [n|] eqn:E; [|exact F].
  apply find_sub_bound in E. change (length ID_OPEN) with 4 in E. lia.
Qed.

Lemma count_zero_TT n : forall cp f, length cp <= n -> length cp < f -> count_ident f cp = 0%N -> TT cp = cp.
Proof.
  induction n as [|n IH]; intros cp f Hn Hf H.
  - destruct cp; [reflexivity|cbn [length] in Hn; lia].
  - destruct cp as [|ch r]; [reflexivity|]. destruct f as [|f]; [lia|]. cbn [length] in Hn, Hf.
    cbn [count_ident] in H. destruct (is_dollar ch) eqn:Ed; cbn [negb] in H.
    2:{ rewrite TT_cons_plain by exact Ed. f_equal. apply (IH r f); [lia|lia|exact H]. }
    rewrite is_dollar_git in Ed. apply beqb_eq in Ed. subst ch.
    destruct r as [|c0 [|c1 [|c2 r3]]].
    1-3: rewrite TT_dollar; unfold opens; cbn [length Nat.ltb Nat.leb andb]; f_equal; apply TT_short; cbn [length]; lia.
    change (Nat.ltb (length (c0 :: c1 :: c2 :: r3)) 3) with false in H. cbv iota in H.
    change (starts_with (bs "Id") (c0 :: c1 :: c2 :: r3)) with (beqb x49 c0 && (beqb x64 c1 && true))%bool in H.
    assert (Hopen : opens (c0 :: c1 :: c2 :: r3) =
                    (Nat.ltb 3 (length (c0 :: c1 :: c2 :: r3)) && (beqb x49 c0 && (beqb x64 c1 && (beqb x3a c2 && true))))%bool) by reflexivity.
    cbn [length] in *.
    destruct (beqb x49 c0) eqn:E0; cbn [andb negb] in H.
    2:{ rewrite TT_dollar, Hopen. cbn [andb]. rewrite Bool.andb_false_r. f_equal. apply (IH _ f); [cbn [length]; lia|cbn [length]; lia|exact H]. }
    destruct (beqb x64 c1) eqn:E1; cbn [andb negb] in H.
    2:{ rewrite TT_dollar, Hopen. cbn [andb]. rewrite Bool.andb_false_r. f_equal. apply (IH _ f); [cbn [length]; lia|cbn [length]; lia|exact H]. }
    apply beqb_eq in E0, E1. subst c0 c1.
    destruct (is_dollar c2) eqn:Ed2.
    { exfalso. revert H. generalize (count_ident f r3). intros k Hk. lia. }
    rewrite <- colon_git in H. destruct (beqb x3a c2) eqn:E2.
    + apply beqb_eq in E2. subst c2.
      destruct (count_scan r3) as [r4 closed] eqn:Esc.
      destruct closed. { exfalso. revert H. generalize (count_ident f r4). intros k Hk. lia. }
      destruct (count_scan_open _ _ Esc) as (p & Hp & Hnd & Hsd).
      assert (H4 : count_ident f r4 = 0%N) by (revert H; generalize (count_ident f r4); intros k Hk; lia).
      assert (Hr4 : TT r4 = r4).
      { apply (IH r4 f); [| |exact H4]; pose proof (f_equal (@length byte) Hp) as L; rewrite app_length in L; lia. }
      assert (Hr3 : TT r3 = r3). { rewrite Hp at 1. rewrite TT_app_plain by exact Hnd. rewrite Hr4. symmetry. exact Hp. }
      change (DOLLAR :: x49 :: x64 :: x3a :: r3) with (DOLLAR :: bs "Id:" ++ r3).
      rewrite TT_open. f_equal.
      destruct (split_dollar r3) as [[inner after]|]; [|reflexivity]. rewrite Hsd, Hr3. reflexivity.
    + rewrite TT_dollar, Hopen, ?E2. cbn [andb]. rewrite Bool.andb_false_r. f_equal.
      rewrite !TT_cons_plain by (try reflexivity; exact Ed2). do 3 f_equal.
      apply (IH r3 f); [lia|lia|exact H].
Qed.

Lemma count_ident_precheck_is_sound : count_ident_precheck_sound.
Proof. intros s H. apply (count_zero_TT (length s) s (S (length s))); [lia|lia|exact H]. Qed.

Lemma ident_undo_is_git s : undo_stage s = Some (inl (ident_to_git s true)).
Proof. apply ident_undo_is_git_given_precheck. exact count_ident_precheck_is_sound. Qed.

Lemma to_git_is_git_all src a c rt idx :
  pipe_result (pipeline_to_git src a c rt idx) = Some (convert_to_git (cfg_to_git c) a (rt_to_flags rt) idx src).
Proof. apply to_git_is_git_given_undo. exact ident_undo_is_git. Qed.
