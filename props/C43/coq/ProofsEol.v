(* C43 — proofs, part 1: statistics, text/binary decision, attribute digest, CRLF -> LF direction. *)
From Coq Require Import Lia.
From GixV.Base Require Import Bytes BytesFacts Outcome.
From GixV.C43 Require Import Model Spec.
Local Open Scope N_scope.

(* ---- the correspondence between gitoxide's and git's configuration/state types --------------------- *)
Definition cfg_to_git (c : config) : g_config :=
  {| g_autocrlf := match auto_crlf c with AcInput => AUTO_CRLF_INPUT | AcEnabled => AUTO_CRLF_TRUE | AcDisabled => AUTO_CRLF_FALSE end;
     g_core_eol := match cfg_eol c with None => EOL_UNSET | Some Lf => EOL_LF | Some CrLf => EOL_CRLF end |}.
Definition digest_to_action (d : digest) : crlf_action :=
  match d with
  | Binary => CRLF_BINARY | Text => CRLF_TEXT | TextInput => CRLF_TEXT_INPUT | TextCrlf => CRLF_TEXT_CRLF
  | TextAuto => CRLF_AUTO | TextAutoCrlf => CRLF_AUTO_CRLF | TextAutoInput => CRLF_AUTO_INPUT
  end.
Definition rt_to_flags (r : option rtcheck) : conv_flags :=
  match r with None => CONV_NONE | Some RtWarn => CONV_EOL_RNDTRP_WARN | Some RtFail => CONV_EOL_RNDTRP_DIE end.
Definition to_text_stat (s : stats) : text_stat :=
  {| nul := null s; lonecr := lone_cr s; lonelf := lone_lf s; t_crlf := crlf s;
     t_printable := printable s; nonprintable := non_printable s |}.

(* ---- bytes ------------------------------------------------------------------------------------------ *)
Definition g_class (c : byte) : bclass :=
  if byte_is c 127 then BNonPrintable
  else if N.ltb (b2N c) 32 then
    if byte_is c 8 || byte_is c 9 || byte_is c 27 || byte_is c 12 then BPrintable
    else if byte_is c 0 then BNul else BNonPrintable
  else BPrintable.

Lemma byte_facts : forall b,
  (Bool.eqb (is_cr b) (byte_is b 13) && Bool.eqb (is_lf b) (byte_is b 10) &&
   Bool.eqb (beqb b DOLLAR) (is_dollar b) && Bool.eqb (beqb b x1a) (byte_is b 26) &&
   match classify b, g_class b with
   | BPrintable, BPrintable | BNul, BNul | BNonPrintable, BNonPrintable => true | _, _ => false end)%bool = true.
Proof. apply forall_bytes. vm_compute. reflexivity. Qed.

Lemma is_cr_git b : byte_is b 13 = is_cr b.
Proof. pose proof (byte_facts b) as H. rewrite !Bool.andb_true_iff in H. destruct H as [[[[H _] _] _] _].
  apply Bool.eqb_prop in H. congruence. Qed.
Lemma is_lf_git b : byte_is b 10 = is_lf b.
Proof. pose proof (byte_facts b) as H. rewrite !Bool.andb_true_iff in H. destruct H as [[[[_ H] _] _] _].
  apply Bool.eqb_prop in H. congruence. Qed.
Lemma is_dollar_git b : is_dollar b = beqb b DOLLAR.
Proof. pose proof (byte_facts b) as H. rewrite !Bool.andb_true_iff in H. destruct H as [[[_ H] _] _].
  apply Bool.eqb_prop in H. congruence. Qed.
Lemma is_eof_git b : byte_is b 26 = beqb b x1a.
Proof. pose proof (byte_facts b) as H. rewrite !Bool.andb_true_iff in H. destruct H as [[_ H] _].
  apply Bool.eqb_prop in H. congruence. Qed.
Lemma classify_git b : g_class b = classify b.
Proof. pose proof (byte_facts b) as H. rewrite !Bool.andb_true_iff in H. destruct H as [_ H].
  destruct (classify b), (g_class b); congruence. Qed.

Lemma is_cr_true b : is_cr b = true -> b = CR.
Proof. unfold is_cr. apply beqb_eq. Qed.
Lemma is_lf_true b : is_lf b = true -> b = LF.
Proof. unfold is_lf. apply beqb_eq. Qed.

(* ---- statistics -------------------------------------------------------------------------------------- *)
Lemma gather_loop_other c rest s :
  is_cr c = false -> is_lf c = false ->
  gather_loop (c :: rest) (to_text_stat s) = gather_loop rest (to_text_stat (bump s c)).
Proof.
  intros Hc Hl. cbn [gather_loop]. rewrite is_cr_git, is_lf_git, Hc, Hl.
  unfold bump. rewrite <- (classify_git c). unfold g_class.
  destruct (byte_is c 127); [reflexivity|].
  destruct (N.ltb (b2N c) 32); [|reflexivity].
  destruct (byte_is c 8 || byte_is c 9 || byte_is c 27 || byte_is c 12)%bool; [reflexivity|].
  destruct (byte_is c 0); reflexivity.
Qed.

Lemma stats_loop_git_len n : forall l s, (length l <= n)%nat ->
  to_text_stat (stats_loop l s) = gather_loop l (to_text_stat s).
Proof.
  induction n as [|n IH]; intros l s Hlen.
  - destruct l; [reflexivity|cbn in Hlen; lia].
  - destruct l as [|b r]; [reflexivity|]. cbn [length] in Hlen.
    destruct (is_cr b) eqn:Hc.
    + cbn [stats_loop gather_loop]. rewrite is_cr_git, Hc.
      destruct r as [|b2 r2].
      * reflexivity.
      * rewrite is_lf_git. destruct (is_lf b2).
        -- rewrite IH by (cbn [length] in Hlen; lia). reflexivity.
        -- rewrite IH by lia. reflexivity.
    + destruct (is_lf b) eqn:Hl.
      * cbn [stats_loop gather_loop]. rewrite is_cr_git, is_lf_git, Hc, Hl. rewrite IH by lia. reflexivity.
      * rewrite gather_loop_other by assumption. cbn [stats_loop]. rewrite Hc, Hl. apply IH. lia.
Qed.

Lemma ends_with_eof_git l :
  ends_with_eof l = (negb (Nat.eqb (length l) 0) && byte_is (last l x00) 26)%bool.
Proof.
  unfold ends_with_eof. destruct l as [|a l] using rev_ind; [reflexivity|].
  rewrite rev_app_distr. cbn [rev app]. rewrite last_last, is_eof_git.
  rewrite app_length. cbn [length]. replace (length l + 1)%nat with (S (length l)) by lia. reflexivity.
Qed.

Lemma stats_is_git l : to_text_stat (stats_from_bytes l) = gather_stats l.
Proof.
  unfold stats_from_bytes, gather_stats. rewrite <- ends_with_eof_git.
  change {| nul := 0; lonecr := 0; lonelf := 0; t_crlf := 0; t_printable := 0; nonprintable := 0 |} with (to_text_stat stats0).
  rewrite <- (stats_loop_git_len (length l)) by lia.
  destruct (ends_with_eof l); [|reflexivity].
  unfold to_text_stat. cbn [null lone_cr lone_lf crlf printable non_printable nul lonecr lonelf t_crlf t_printable nonprintable].
  f_equal. lia.
Qed.

Lemma ltb0 x : N.ltb 0 x = negb (N.eqb x 0).
Proof. destruct (N.eqb_spec x 0); destruct (N.ltb_spec 0 x); cbn; try reflexivity; lia. Qed.

Lemma is_binary_git s : is_binary s = convert_is_binary (to_text_stat s).
Proof.
  unfold is_binary, convert_is_binary, to_text_stat. cbn [nul lonecr t_printable nonprintable].
  rewrite !ltb0. destruct (N.eqb (lone_cr s) 0), (N.eqb (null s) 0); cbn [negb orb]; try reflexivity.
  destruct (N.ltb _ _); reflexivity.
Qed.

(* ---- eol of a digest, will_convert_lf_to_crlf -------------------------------------------------------- *)
Lemma to_eol_git d c :
  opt_mode_is_crlf (digest_to_eol d c) = eol_is_crlf (output_eol (cfg_to_git c) (digest_to_action d)).
Proof.
  destruct c as [ac ce]. destruct d, ac; try reflexivity; destruct ce as [[|]|]; reflexivity.
Qed.

Lemma is_auto_git d : is_auto_action (digest_to_action d) = is_auto_text d.
Proof. destruct d; reflexivity. Qed.

Lemma will_convert_git s d c :
  will_convert_lf_to_crlf s d c = g_will_convert_lf_to_crlf (cfg_to_git c) (to_text_stat s) (digest_to_action d).
Proof.
  unfold will_convert_lf_to_crlf, g_will_convert_lf_to_crlf.
  rewrite <- to_eol_git, is_auto_git, <- is_binary_git.
  unfold to_text_stat at 1 2 3. cbn [lonelf lonecr t_crlf]. rewrite !ltb0.
  destruct (opt_mode_is_crlf (digest_to_eol d c)); cbn [negb]; [|reflexivity].
  destruct (N.eqb (lone_lf s) 0); [reflexivity|].
  destruct (is_auto_text d); [|reflexivity].
  destruct (is_binary s), (N.eqb (lone_cr s) 0), (N.eqb (crlf s) 0); reflexivity.
Qed.

(* ---- Configuration::at_path = convert_attrs ----------------------------------------------------------- *)
Definition opt_action (o : option digest) : crlf_action :=
  match o with None => CRLF_UNDEFINED | Some d => digest_to_action d end.

Lemma extract_crlf_git a : opt_action (extract_crlf a) = git_path_check_crlf a.
Proof.
  destruct a as [| | |v]; try reflexivity. cbn [extract_crlf git_path_check_crlf].
  destruct (bytes_eqb v (bs "input")); [reflexivity|]. destruct (bytes_eqb v (bs "auto")); reflexivity.
Qed.
Lemma extract_eol_git a :
  match extract_eol a with None => EOL_UNSET | Some Lf => EOL_LF | Some CrLf => EOL_CRLF end = git_path_check_eol a.
Proof.
  destruct a as [| | |v]; try reflexivity. cbn [extract_eol git_path_check_eol].
  destruct (bytes_eqb v (bs "lf")); [reflexivity|]. destruct (bytes_eqb v (bs "crlf")); reflexivity.
Qed.

Lemma extract_crlf_range a :
  extract_crlf a = None \/ extract_crlf a = Some Text \/ extract_crlf a = Some Binary \/
  extract_crlf a = Some TextInput \/ extract_crlf a = Some TextAuto.
Proof.
  destruct a as [| | |v]; cbn [extract_crlf]; auto.
  destruct (bytes_eqb v (bs "input")); auto. destruct (bytes_eqb v (bs "auto")); auto.
Qed.

Lemma at_path_git a c :
  convert_attrs (cfg_to_git c) a = (digest_to_action (at_path_digest a c), apply_ident_filter a).
Proof.
  unfold convert_attrs, at_path_digest, apply_ident_filter.
  rewrite <- !extract_crlf_git, <- extract_eol_git.
  f_equal; try (destruct (a_ident a); reflexivity).
  destruct c as [ac ce].
  destruct (extract_crlf_range (a_text a)) as [H|[H|[H|[H|H]]]]; rewrite H; cbn [opt_action digest_to_action action_is_undefined];
  [destruct (extract_crlf_range (a_crlf a)) as [H2|[H2|[H2|[H2|H2]]]]; rewrite H2; cbn [opt_action digest_to_action] | | | | ];
  destruct (extract_eol (a_eol a)) as [[|]|]; destruct ac; try reflexivity; destruct ce as [[|]|]; reflexivity.
Qed.

(* ---- stripping CRs ------------------------------------------------------------------------------------ *)
Lemma drop_every_cr_git l : drop_every_cr l = strip_all_cr l.
Proof.
  unfold drop_every_cr, strip_all_cr. induction l as [|b r IH]; [reflexivity|].
  cbn [filter]. rewrite is_cr_git, IH. reflexivity.
Qed.
Lemma drop_cr_of_crlf_git l : drop_cr_of_crlf l = strip_cr_before_lf l.
Proof.
  induction l as [|b r IH]; [reflexivity|]. cbn [drop_cr_of_crlf strip_cr_before_lf].
  rewrite is_cr_git, IH. destruct r as [|b2 r2]; [reflexivity|]. rewrite is_lf_git. reflexivity.
Qed.

Lemma lone_cr_mono_len n : forall l s, (length l <= n)%nat -> lone_cr s <= lone_cr (stats_loop l s).
Proof.
  induction n as [|n IH]; intros l s Hlen.
  - destruct l; [cbn; lia|cbn in Hlen; lia].
  - destruct l as [|b r]; [cbn; lia|]. cbn [length] in Hlen. cbn [stats_loop].
    destruct (is_cr b).
    + destruct r as [|b2 r2].
      * cbn. lia.
      * destruct (is_lf b2).
        -- specialize (IH r2 (add_crlf s)). cbn [length] in Hlen. cbn [add_crlf lone_cr] in IH. apply IH. lia.
        -- specialize (IH (b2 :: r2) (add_lone_cr s) ltac:(lia)). cbn [add_lone_cr lone_cr] in IH. lia.
    + destruct (is_lf b).
      * specialize (IH r (add_lone_lf s)). cbn [add_lone_lf lone_cr] in IH. apply IH. lia.
      * specialize (IH r (bump s b)). unfold bump in IH at 1. destruct (classify b); cbn [lone_cr] in IH; apply IH; lia.
Qed.

Lemma no_lone_cr_strip_len n : forall l s, (length l <= n)%nat ->
  lone_cr (stats_loop l s) = lone_cr s -> strip_all_cr l = strip_cr_before_lf l.
Proof.
  induction n as [|n IH]; intros l s Hlen H.
  - destruct l; [reflexivity|cbn in Hlen; lia].
  - destruct l as [|b r]; [reflexivity|]. cbn [length] in Hlen. cbn [stats_loop] in H.
    unfold strip_all_cr. cbn [filter strip_cr_before_lf]. fold (strip_all_cr r).
    destruct (is_cr b) eqn:Hc.
    + destruct r as [|b2 r2].
      * cbn [stats_loop add_lone_cr lone_cr] in H. lia.
      * destruct (is_lf b2) eqn:Hl2.
        -- cbn [negb andb]. apply (IH (b2 :: r2) s). { lia. }
           cbn [stats_loop]. apply is_lf_true in Hl2. subst b2.
           change (is_cr LF) with false. change (is_lf LF) with true. cbv iota.
           (* stats of r2 do not depend on which counter of the start state was bumped, as far as lone_cr goes *)
           revert H. clear. intros H.
           assert (G : forall l s1 s2, lone_cr s1 = lone_cr s2 -> lone_cr (stats_loop l s1) - lone_cr s1 = lone_cr (stats_loop l s2) - lone_cr s2).
           { clear. intros l. remember (length l) as n eqn:En. assert (Hn : (length l <= n)%nat) by lia. clear En.
             revert l Hn. induction n as [|n IH]; intros l Hn s1 s2 E.
             - destruct l; [cbn; lia|cbn in Hn; lia].
             - destruct l as [|b r]; [cbn; lia|]. cbn [length] in Hn. cbn [stats_loop].
               destruct (is_cr b).
               + destruct r as [|b2 r2].
                 * cbn. lia.
                 * destruct (is_lf b2).
                   -- cbn [length] in Hn.
                      specialize (IH r2 ltac:(lia) (add_crlf s1) (add_crlf s2)). cbn [add_crlf lone_cr] in IH. apply IH. exact E.
                   -- specialize (IH (b2 :: r2) ltac:(lia) (add_lone_cr s1) (add_lone_cr s2)).
                      cbn [add_lone_cr lone_cr] in IH.
                      pose proof (lone_cr_mono_len (S (length r2)) (b2 :: r2) (add_lone_cr s1) ltac:(cbn [length]; lia)) as M1.
                      pose proof (lone_cr_mono_len (S (length r2)) (b2 :: r2) (add_lone_cr s2) ltac:(cbn [length]; lia)) as M2.
                      cbn [add_lone_cr lone_cr] in M1, M2. lia.
               + destruct (is_lf b).
                 * specialize (IH r ltac:(lia) (add_lone_lf s1) (add_lone_lf s2)). cbn [add_lone_lf lone_cr] in IH. apply IH. exact E.
                 * assert (E' : lone_cr (bump s1 b) = lone_cr (bump s2 b)) by (unfold bump; destruct (classify b); exact E).
                   specialize (IH r ltac:(lia) (bump s1 b) (bump s2 b) E').
                   assert (B1 : lone_cr (bump s1 b) = lone_cr s1) by (unfold bump; destruct (classify b); reflexivity).
                   assert (B2 : lone_cr (bump s2 b) = lone_cr s2) by (unfold bump; destruct (classify b); reflexivity).
                   lia. }
           specialize (G r2 (add_crlf s) (add_lone_lf s) eq_refl).
           pose proof (lone_cr_mono_len (length r2) r2 (add_lone_lf s) ltac:(lia)) as M.
           cbn [add_crlf add_lone_lf lone_cr] in *. lia.
        -- exfalso.
           pose proof (lone_cr_mono_len (S (length r2)) (b2 :: r2) (add_lone_cr s) ltac:(cbn [length]; lia)) as M.
           cbn [add_lone_cr lone_cr] in M. lia.
    + cbn [negb andb]. f_equal.
      destruct (is_lf b).
      * apply (IH r (add_lone_lf s)); [lia|exact H].
      * apply (IH r (bump s b)); [lia|]. rewrite H. unfold bump; destruct (classify b); reflexivity.
Qed.

Lemma no_lone_cr_strip l :
  lone_cr (stats_from_bytes l) = 0 -> strip_all_cr l = strip_cr_before_lf l.
Proof.
  intros H. apply (no_lone_cr_strip_len (length l) l stats0); [lia|].
  unfold stats_from_bytes in H. destruct (ends_with_eof l); exact H.
Qed.

(* ---- eol::convert_to_git = crlf_to_git ---------------------------------------------------------------- *)
Definition result_of (o : outcome (option bytes) eol_err) : option g_result :=
  match o with
  | Ok None => Some Unchanged
  | Ok (Some b) => Some (Changed b)
  | Err RoundTripCrlf => Some (Die true)
  | Err RoundTripLf => Some (Die false)
  | Panic | OutOfFuel => None
  end.

Lemma has_crlf_in_index_git idx :
  g_has_crlf_in_index idx = match idx with Some d => has_crlf_in_index d | None => false end.
Proof.
  destruct idx as [d|]; [|reflexivity]. unfold g_has_crlf_in_index, has_crlf_in_index.
  replace (existsb (fun b => byte_is b 13) d) with (existsb is_cr d)
    by (induction d as [|x d IH]; [reflexivity|cbn [existsb]; rewrite is_cr_git, IH; reflexivity]).
  destruct (existsb is_cr d); [|reflexivity].
  rewrite <- stats_is_git, <- is_binary_git. unfold to_text_stat at 1. cbn [t_crlf]. rewrite ltb0. reflexivity.
Qed.

Lemma with_eols_ts s a b : with_eols (to_text_stat s) a b = to_text_stat (set_lf_crlf s a b).
Proof. reflexivity. Qed.
Lemma if_ts (b : bool) x y : (if b then to_text_stat x else to_text_stat y) = to_text_stat (if b then x else y).
Proof. destruct b; reflexivity. Qed.

Lemma eol_to_git_is_git src d idx rt c :
  result_of (eol_convert_to_git src d idx rt c) =
  Some (crlf_to_git (cfg_to_git c) idx src (digest_to_action d) (rt_to_flags rt)).
Proof.
  unfold eol_convert_to_git, crlf_to_git.
  destruct (digest_eqb d Binary) eqn:Hb.
  { destruct d; try discriminate Hb. reflexivity. }
  cbn [orb].
  destruct src as [|b0 src0]. { destruct (digest_to_action d); reflexivity. }
  set (src := b0 :: src0).
  replace (match digest_to_action d with CRLF_BINARY => Unchanged | _ => crlf_to_git_body (cfg_to_git c) idx src (digest_to_action d) (rt_to_flags rt) end)
    with (crlf_to_git_body (cfg_to_git c) idx src (digest_to_action d) (rt_to_flags rt))
    by (destruct d; try reflexivity; discriminate Hb).
  unfold crlf_to_git_body. cbv zeta.
  rewrite <- stats_is_git. set (st := stats_from_bytes src).
  rewrite <- is_binary_git, is_auto_git, has_crlf_in_index_git.
  change (t_crlf (to_text_stat st)) with (crlf st). change (lonelf (to_text_stat st)) with (lone_lf st).
  rewrite !with_eols_ts, !if_ts, <- will_convert_git.
  set (conv0 := negb (crlf st =? 0)). rewrite !ltb0. fold conv0.
  set (conv_m := if is_auto_text d then match idx with Some i => if has_crlf_in_index i then false else conv0 | None => conv0 end else conv0).
  replace (if (is_auto_text d && match idx with Some d0 => has_crlf_in_index d0 | None => false end)%bool then false else conv0) with conv_m
    by (unfold conv_m; destruct (is_auto_text d); [destruct idx as [i|]; [destruct (has_crlf_in_index i)|]|]; reflexivity).
  set (ns := if conv_m then set_lf_crlf st (lone_lf st + crlf st) 0 else st).
  change (t_crlf (to_text_stat ns)) with (crlf ns). change (lonelf (to_text_stat ns)) with (lone_lf ns).
  rewrite !with_eols_ts, !if_ts.
  set (ns2 := if will_convert_lf_to_crlf ns d c then set_lf_crlf ns 0 (crlf ns + lone_lf ns) else ns).
  change (t_crlf (to_text_stat ns2)) with (crlf ns2). change (lonelf (to_text_stat ns2)) with (lone_lf ns2).
  set (v1 := (conv0 && (crlf ns2 =? 0))%bool). set (v2 := (negb (lone_lf st =? 0) && (lone_lf ns2 =? 0))%bool).
  destruct (is_auto_text d && is_binary st)%bool eqn:Hab; [reflexivity|].
  assert (Hfinal : result_of (if negb conv_m then Ok None
                              else if lone_cr st =? 0 then Ok (Some (strip_all_cr src)) else Ok (Some (strip_cr_before_lf src)))
                   = Some (if negb conv_m then Unchanged
                           else if is_auto_text d then Changed (drop_every_cr src) else Changed (drop_cr_of_crlf src))).
  { destruct (negb conv_m); [reflexivity|].
    rewrite drop_every_cr_git, drop_cr_of_crlf_git.
    destruct (N.eqb_spec (lone_cr st) 0) as [E|E].
    - rewrite <- (no_lone_cr_strip src E). destruct (is_auto_text d); reflexivity.
    - destruct (is_auto_text d); [|reflexivity]. exfalso. cbn [andb] in Hab.
      unfold is_binary in Hab. rewrite ltb0 in Hab. destruct (N.eqb_spec (lone_cr st) 0); [contradiction|discriminate Hab]. }
  destruct rt as [[|]|]; cbn [rt_to_flags]; [ | | exact Hfinal].
  - destruct v1; [reflexivity|]. destruct v2; [reflexivity|]. exact Hfinal.
  - destruct v1; [exact Hfinal|]. destruct v2; exact Hfinal.
Qed.
