(* C43 — proofs, part 6: ident::apply computes git's ident_to_worktree up to the expansion format, on every
   input that holds no already expanded keyword (`$Id:`): exactly the complement of the two known classes. *)
From Coq Require Import Lia.
From GixV.Base Require Import Bytes BytesFacts Outcome.
From GixV.C43 Require Import Model Spec ProofsEol ProofsWt ProofsPipe ProofsIdent ProofsCount.
Local Open Scope nat_scope.

Notation W := ident_to_worktree_loop.

Lemma beqb_sym a b : beqb a b = beqb b a.
Proof.
  destruct (beqb a b) eqn:E1, (beqb b a) eqn:E2; try reflexivity.
  - apply beqb_eq in E1. subst. rewrite (proj2 (beqb_eq b b) eq_refl) in E2. discriminate.
  - apply beqb_eq in E2. subst. rewrite (proj2 (beqb_eq a a) eq_refl) in E1. discriminate.
Qed.

Lemma W_cons_plain f e c x : is_dollar c = false -> W f e (c :: x) = c :: W f e x.
Proof.
  intros E. destruct f as [|f]; [reflexivity|]. cbn [ident_to_worktree_loop split_dollar]. rewrite E.
  destruct (split_dollar x) as [[p q]|]; reflexivity.
Qed.

Lemma W_fuel e f1 : forall f2 x, length x < f1 -> length x < f2 -> W f1 e x = W f2 e x.
Proof.
  induction f1 as [|f1 IH]; intros f2 x H1 H2; [lia|]. destruct f2 as [|f2]; [lia|].
  cbn [ident_to_worktree_loop]. destruct (split_dollar x) as [[pre rest]|] eqn:E; [|reflexivity].
  apply split_dollar_some in E as [-> _]. rewrite app_length in H1, H2. cbn [length] in H1, H2.
  f_equal. f_equal.
  destruct (Nat.ltb (length rest) 3 || negb (starts_with (bs "Id") rest))%bool; [apply IH; lia|].
  destruct rest as [|c0 [|c1 [|c2 r3]]]; try reflexivity. cbn [length] in H1, H2.
  destruct (is_dollar c2); [f_equal; apply IH; lia|].
  destruct (byte_is c2 58); [|apply IH; cbn [length]; lia].
  destruct (split_dollar r3) as [[inner after]|] eqn:E3; [|reflexivity].
  apply split_dollar_some in E3 as [E3 _].
  assert (length after < length r3). { rewrite E3, app_length. cbn [length]. lia. }
  destruct (has_lf inner); [apply IH; cbn [length]; lia|].
  destruct (foreign_id inner); [apply IH; cbn [length]; lia|]. f_equal. apply IH; lia.
Qed.

Section WithExpansion.
Variable e : bytes.

Definition WW (x : bytes) : bytes := W (S (length x)) e x.
Lemma WW_eq f x : length x < f -> W f e x = WW x.
Proof. intros H. apply W_fuel; [exact H|lia]. Qed.
Lemma WW_cons_plain c x : is_dollar c = false -> WW (c :: x) = c :: WW x.
Proof. intros E. unfold WW at 1. rewrite W_cons_plain by exact E. f_equal. apply WW_eq. cbn [length]. lia. Qed.

(* one step at a dollar that does not open an expanded keyword *)
Lemma WW_dollar rest : starts_with (bs "Id:") rest = false ->
  WW (DOLLAR :: rest) = DOLLAR :: (if starts_with (bs "Id$") rest then e ++ WW (skipn 3 rest) else WW rest).
Proof.
  intros Hno. unfold WW at 1. cbn [length].
  change (W (S (S (length rest))) e (DOLLAR :: rest)) with
    (DOLLAR :: (if (Nat.ltb (length rest) 3 || negb (starts_with (bs "Id") rest))%bool then W (S (length rest)) e rest
                else match rest with
                     | _ :: _ :: c2 :: r3 =>
                         if is_dollar c2 then e ++ W (S (length rest)) e r3
                         else if byte_is c2 58 then
                           match split_dollar r3 with
                           | None => rest
                           | Some (inner, after) =>
                               if has_lf inner then W (S (length rest)) e rest
                               else if foreign_id inner then W (S (length rest)) e rest
                               else e ++ W (S (length rest)) e after
                           end
                         else W (S (length rest)) e rest
                     | _ => rest
                     end)).
  f_equal.
  destruct rest as [|c0 [|c1 [|c2 r3]]].
  1-3: (destruct (starts_with (bs "Id$") _) eqn:Es; [apply starts_with_len in Es; cbn [length] in Es; change (length (bs "Id$")) with 3 in Es; lia|]);
       cbn [length Nat.ltb Nat.leb orb]; reflexivity.
  change (Nat.ltb (length (c0 :: c1 :: c2 :: r3)) 3) with false. cbn [orb].
  change (starts_with (bs "Id") (c0 :: c1 :: c2 :: r3)) with (beqb x49 c0 && (beqb x64 c1 && true))%bool.
  change (starts_with (bs "Id$") (c0 :: c1 :: c2 :: r3)) with (beqb x49 c0 && (beqb x64 c1 && (beqb x24 c2 && true)))%bool.
  change (starts_with (bs "Id:") (c0 :: c1 :: c2 :: r3)) with (beqb x49 c0 && (beqb x64 c1 && (beqb x3a c2 && true)))%bool in Hno.
  change (skipn 3 (c0 :: c1 :: c2 :: r3)) with r3.
  destruct (beqb x49 c0); cbn [andb negb]; [|reflexivity].
  destruct (beqb x64 c1); cbn [andb negb] in *; [|reflexivity].
  rewrite Bool.andb_true_r in *. rewrite is_dollar_git, (beqb_sym c2 DOLLAR). change DOLLAR with x24.
  destruct (beqb x24 c2).
  - f_equal. apply WW_eq. cbn [length]. lia.
  - rewrite <- colon_git, Hno. reflexivity.
Qed.

Definition noopen (l : bytes) : Prop := find_sub ID_OPEN l = None.
Lemma noopen_tail c r : noopen (c :: r) -> noopen r /\ starts_with ID_OPEN (c :: r) = false.
Proof.
  unfold noopen. cbn [find_sub]. destruct (starts_with ID_OPEN (c :: r)); [discriminate|].
  destruct (find_sub ID_OPEN r); [discriminate|]. split; reflexivity.
Qed.
Lemma noopen_skipn k : forall l, noopen l -> noopen (skipn k l).
Proof.
  induction k as [|k IH]; intros l H; [exact H|]. destruct l as [|c r]; [exact H|].
  cbn [skipn]. apply IH. apply (noopen_tail c r H).
Qed.

Lemma WW_find l : noopen l ->
  match find_sub ID_PLAIN l with
  | None => WW l = l
  | Some n => WW l = firstn n l ++ WW (skipn n l)
  end.
Proof.
  induction l as [|c r IH]; intros Hn.
  - cbn. reflexivity.
  - destruct (noopen_tail c r Hn) as [Hr Hs]. specialize (IH Hr).
    cbn [find_sub]. destruct (starts_with ID_PLAIN (c :: r)) eqn:E; [reflexivity|].
    assert (Hc : WW (c :: r) = c :: WW r).
    { destruct (is_dollar c) eqn:Ed; [|apply WW_cons_plain; exact Ed].
      rewrite is_dollar_git in Ed. apply beqb_eq in Ed. subst c.
      change (starts_with ID_OPEN (DOLLAR :: r)) with (starts_with (bs "Id:") r) in Hs.
      change (starts_with ID_PLAIN (DOLLAR :: r)) with (starts_with (bs "Id$") r) in E.
      rewrite WW_dollar by exact Hs. rewrite E. reflexivity. }
    rewrite Hc. destruct (find_sub ID_PLAIN r) as [m|]; cbn [option_map].
    + cbn [firstn skipn app]. rewrite IH. reflexivity.
    + rewrite IH. reflexivity.
Qed.

Lemma WW_short r : length r < 4 -> noopen r -> WW r = r.
Proof.
  intros H Hn. pose proof (WW_find r Hn) as F. destruct (find_sub ID_PLAIN r) as [n|] eqn:E; [|exact F].
  apply find_sub_bound in E. change (length ID_PLAIN) with 4 in E. lia.
Qed.

Lemma starts_plain_shape l : starts_with ID_PLAIN l = true -> l = DOLLAR :: bs "Id$" ++ skipn 4 l.
Proof.
  intros H. pose proof (starts_with_len _ _ H) as L. change (length ID_PLAIN) with 4 in L.
  destruct l as [|a [|b [|c [|d l]]]]; cbn [length] in L; try lia. clear L. revert H.
  change (starts_with ID_PLAIN (a :: b :: c :: d :: l))
    with (beqb x24 a && (beqb x49 b && (beqb x64 c && (beqb x24 d && true))))%bool.
  rewrite !Bool.andb_true_iff. intros (Ha & Hb & Hc & Hd & _).
  apply beqb_eq in Ha, Hb, Hc, Hd. subst. reflexivity.
Qed.

End WithExpansion.

(* ---- ident::apply ---------------------------------------------------------------------------------------- *)
Definition gix_expansion (hex : bytes) : bytes := bs "Id: " ++ hex ++ bs "$".

Lemma apply_loop_git hex fuel : forall rest, length rest < fuel -> noopen rest ->
  exists r, apply_loop fuel hex rest = Ok r /\ or_src rest r = WW (gix_expansion hex) rest.
Proof.
  induction fuel as [|f IH]; intros rest Hlen Hn; [lia|]. cbn [apply_loop].
  pose proof (WW_find (gix_expansion hex) rest Hn) as HW.
  destruct (find_sub ID_PLAIN rest) as [pos|] eqn:Ef.
  2:{ exists None. split; [reflexivity|]. symmetry. exact HW. }
  pose proof (find_sub_bound _ _ _ Ef) as Hb. change (length ID_PLAIN) with 4 in Hb.
  pose proof (starts_plain_shape _ (find_sub_starts _ _ _ Ef)) as Hshape. rewrite <- skipn_add in Hshape.
  remember (skipn (pos + 4) rest) as tail eqn:Etail.
  assert (Hnt : noopen tail) by (subst tail; apply noopen_skipn; exact Hn).
  destruct (IH tail) as (t & Ht & Hor). { subst tail. rewrite skipn_length. lia. } { exact Hnt. }
  rewrite Ht. cbn [omap obind]. eexists. split; [reflexivity|]. cbn [or_src]. rewrite Hor, HW, Hshape.
  rewrite WW_dollar by reflexivity.
  change (starts_with (bs "Id$") (bs "Id$" ++ tail)) with true. cbv iota.
  change (skipn 3 (bs "Id$" ++ tail)) with tail.
  assert (Hf : firstn (pos + 3) rest = firstn pos rest ++ [DOLLAR; x49; x64]).
  { rewrite <- (firstn_skipn pos rest) at 1. rewrite Hshape.
    replace (pos + 3) with (length (firstn pos rest) + 3) by (rewrite firstn_length; lia).
    rewrite firstn_app_len. reflexivity. }
  rewrite Hf. unfold gix_expansion. rewrite <- !app_assoc. reflexivity.
Qed.

Definition apply_stage (hex s : bytes) : option (bytes + bool) :=
  pipe_result (r <- ident_apply hex s ;; Ok (or_src s r))%outcome.

(* git's ident_to_worktree with the text written after the blob id as a parameter: git itself is [bs " $"] *)
Definition ident_to_worktree_with (suffix hex src : bytes) (ident : bool) : bytes :=
  if (negb ident || N.eqb (g_count_ident src) 0)%bool then src
  else ident_to_worktree_loop (S (length src)) (bs "Id: " ++ hex ++ suffix) src.
Lemma git_is_with_space hex src i : ident_to_worktree hex src i = ident_to_worktree_with (bs " $") hex src i.
Proof. reflexivity. Qed.

Lemma count_zero_WW e n : forall cp f, length cp <= n -> length cp < f -> noopen cp -> count_ident f cp = 0%N -> WW e cp = cp.
Proof.
  induction n as [|n IH]; intros cp f Hn Hf Hno H.
  - destruct cp; [reflexivity|cbn [length] in Hn; lia].
  - destruct cp as [|ch r]; [reflexivity|]. destruct f as [|f]; [lia|]. cbn [length] in Hn, Hf.
    destruct (noopen_tail ch r Hno) as [Hr Hs].
    cbn [count_ident] in H. destruct (is_dollar ch) eqn:Ed; cbn [negb] in H.
    2:{ rewrite WW_cons_plain by exact Ed. f_equal. apply (IH r f); [lia|lia|exact Hr|exact H]. }
    rewrite is_dollar_git in Ed. apply beqb_eq in Ed. subst ch.
    change (starts_with ID_OPEN (DOLLAR :: r)) with (starts_with (bs "Id:") r) in Hs.
    rewrite WW_dollar by exact Hs.
    destruct r as [|c0 [|c1 [|c2 r3]]].
    1-3: (destruct (starts_with (bs "Id$") _) eqn:Es; [apply starts_with_len in Es; cbn [length] in Es; change (length (bs "Id$")) with 3 in Es; lia|]);
         f_equal; try (apply WW_short; [cbn [length]; lia|exact Hr]).
    change (Nat.ltb (length (c0 :: c1 :: c2 :: r3)) 3) with false in H. cbv iota in H.
    change (starts_with (bs "Id") (c0 :: c1 :: c2 :: r3)) with (beqb x49 c0 && (beqb x64 c1 && true))%bool in H.
    change (starts_with (bs "Id$") (c0 :: c1 :: c2 :: r3)) with (beqb x49 c0 && (beqb x64 c1 && (beqb x24 c2 && true)))%bool.
    change (starts_with (bs "Id:") (c0 :: c1 :: c2 :: r3)) with (beqb x49 c0 && (beqb x64 c1 && (beqb x3a c2 && true)))%bool in Hs.
    cbn [length] in *.
    destruct (beqb x49 c0) eqn:E0; cbn [andb negb] in H, Hs |- *.
    2:{ f_equal. apply (IH _ f); [cbn [length]; lia|cbn [length]; lia|exact Hr|exact H]. }
    destruct (beqb x64 c1) eqn:E1; cbn [andb negb] in H, Hs |- *.
    2:{ f_equal. apply (IH _ f); [cbn [length]; lia|cbn [length]; lia|exact Hr|exact H]. }
    rewrite Bool.andb_true_r in Hs. rewrite Bool.andb_true_r.
    rewrite is_dollar_git, (beqb_sym c2 DOLLAR) in H. change DOLLAR with x24 in H.
    destruct (beqb x24 c2) eqn:E2.
    { exfalso. revert H. generalize (count_ident f r3). intros k Hk. lia. }
    rewrite <- colon_git, Hs in H.
    f_equal. apply beqb_eq in E0, E1. subst c0 c1.
    assert (Ed2 : is_dollar c2 = false) by (rewrite is_dollar_git, beqb_sym; exact E2).
    rewrite !WW_cons_plain by (try reflexivity; exact Ed2). do 3 f_equal.
    apply (IH r3 f); [lia|lia| |exact H].
    apply (noopen_skipn 3 _ Hr).
Qed.

Lemma ident_apply_is_git_modulo_format hex src :
  find_sub ID_OPEN src = None ->
  apply_stage hex src = Some (inl (ident_to_worktree_with (bs "$") hex src true)).
Proof.
  intros Hn. unfold apply_stage, ident_apply.
  destruct (apply_loop_git hex (S (length src)) src ltac:(lia) Hn) as (r & Hr & Hor).
  rewrite Hr. cbn [obind pipe_result]. rewrite Hor.
  unfold ident_to_worktree_with. cbn [negb orb].
  destruct (N.eqb (g_count_ident src) 0) eqn:E; [|reflexivity].
  apply N.eqb_eq in E. f_equal. f_equal.
  apply (count_zero_WW _ (length src) src (S (length src))); [lia|lia|exact Hn|exact E].
Qed.

(* git's convert_to_working_tree with that parameter *)
Definition convert_to_working_tree_with (suffix : bytes) (g : g_config) (at_ : attrs) (hex src : bytes) : bytes :=
  let '(a, ident) := convert_attrs g at_ in
  let s1 := ident_to_worktree_with suffix hex src ident in
  match crlf_to_worktree g s1 a with Changed b => b | _ => s1 end.
Lemma git_worktree_is_with_space g at_ hex src :
  convert_to_working_tree g at_ hex src = convert_to_working_tree_with (bs " $") g at_ hex src.
Proof. reflexivity. Qed.

Lemma to_worktree_is_git_modulo_format hex src a c :
  find_sub ID_OPEN src = None ->
  pipe_result (pipeline_to_worktree hex src a c) =
  Some (inl (convert_to_working_tree_with (bs "$") (cfg_to_git c) a hex src)).
Proof.
  intros Hn. unfold pipeline_to_worktree, convert_to_working_tree_with. rewrite at_path_git.
  destruct (apply_ident_filter a).
  - pose proof (ident_apply_is_git_modulo_format hex src Hn) as H. unfold apply_stage in H.
    destruct (ident_apply hex src) as [r|[|]| |]; cbn [obind pipe_result] in H; try discriminate H.
    injection H as H. cbn [obind]. rewrite H. apply eol_wt_bytes.
  - cbn [obind]. apply eol_wt_bytes.
Qed.
