(* C43 — model of gix-filter's built-in content filters.
   Sources (as they ARE in /repo, including the two `fix:` commits 42d375ce2 and 72dd87729):
     gix-filter/src/eol/utils.rs            Stats::from_bytes, is_binary, will_convert_lf_to_crlf,
                                            AttributesDigest::{to_eol,is_auto_text}, Configuration::to_eol
     gix-filter/src/eol/convert_to_git.rs   convert_to_git (decision tree, index check, round-trip check, stripping)
     gix-filter/src/eol/convert_to_worktree.rs
     gix-filter/src/ident.rs                undo, apply
     gix-filter/src/pipeline/util.rs        Configuration::at_path (attribute states -> digest, ident flag)
     gix-filter/src/pipeline/convert.rs     Pipeline::convert_to_git / convert_to_worktree (order of the stages)
   Not modelled: external `filter` drivers and `working-tree-encoding` (always absent in the cases),
   allocation failure (TryReserveError), usize overflow of the counters (needs > 2^64 bytes), Windows
   (`Mode::default()` is Lf).  SHA-1 is external: the blob id used by `ident::apply` is an input. *)
From GixV.Base Require Import Bytes Outcome.
Local Open Scope N_scope.

(* ---- eol/mod.rs ------------------------------------------------------------------------------ *)
Inductive mode := Lf | CrLf.
Inductive autocrlf := AcInput | AcEnabled | AcDisabled.
Inductive digest := Binary | Text | TextInput | TextCrlf | TextAuto | TextAutoCrlf | TextAutoInput.
Record config := { auto_crlf : autocrlf; cfg_eol : option mode }.
Record stats := { null : N; lone_cr : N; lone_lf : N; crlf : N; printable : N; non_printable : N }.

Definition mode_eqb (a b : mode) : bool :=
  match a, b with Lf, Lf | CrLf, CrLf => true | _, _ => false end.
Definition digest_eqb (a b : digest) : bool :=
  match a, b with
  | Binary, Binary | Text, Text | TextInput, TextInput | TextCrlf, TextCrlf
  | TextAuto, TextAuto | TextAutoCrlf, TextAutoCrlf | TextAutoInput, TextAutoInput => true
  | _, _ => false
  end.

Definition CR : byte := x0d.
Definition LF : byte := x0a.
Definition DOLLAR : byte := x24.
Definition is_cr (b : byte) : bool := beqb b CR.
Definition is_lf (b : byte) : bool := beqb b LF.

(* ---- eol/utils.rs ---------------------------------------------------------------------------- *)
(* impl Default for Mode: not windows *)
Definition mode_default : mode := Lf.

(* Configuration::to_eol *)
Definition config_to_eol (c : config) : mode :=
  match auto_crlf c with
  | AcEnabled => CrLf
  | AcInput => Lf
  | AcDisabled => match cfg_eol c with Some m => m | None => mode_default end
  end.

(* AttributesDigest::to_eol *)
Definition digest_to_eol (d : digest) (c : config) : option mode :=
  match d with
  | Binary => None
  | TextInput | TextAutoInput => Some Lf
  | TextCrlf | TextAutoCrlf => Some CrLf
  | Text | TextAuto => Some (config_to_eol c)
  end.

Definition is_auto_text (d : digest) : bool :=
  match d with TextAuto | TextAutoCrlf | TextAutoInput => true | _ => false end.

Definition stats0 : stats := {| null := 0; lone_cr := 0; lone_lf := 0; crlf := 0; printable := 0; non_printable := 0 |}.

(* the classification of one byte that is neither CR nor LF *)
Inductive bclass := BPrintable | BNul | BNonPrintable.
Definition classify (b : byte) : bclass :=
  let n := b2N b in
  if N.eqb n 127 then BNonPrintable
  else if N.ltb n 32 then
    (if N.eqb n 8 || N.eqb n 9 || N.eqb n 27 || N.eqb n 12 then BPrintable
     else if N.eqb n 0 then BNul else BNonPrintable)
  else BPrintable.

Definition bump (s : stats) (b : byte) : stats :=
  match classify b with
  | BPrintable => {| null := null s; lone_cr := lone_cr s; lone_lf := lone_lf s; crlf := crlf s;
                     printable := printable s + 1; non_printable := non_printable s |}
  | BNul => {| null := null s + 1; lone_cr := lone_cr s; lone_lf := lone_lf s; crlf := crlf s;
               printable := printable s; non_printable := non_printable s + 1 |}
  | BNonPrintable => {| null := null s; lone_cr := lone_cr s; lone_lf := lone_lf s; crlf := crlf s;
                        printable := printable s; non_printable := non_printable s + 1 |}
  end.
Definition add_crlf (s : stats) : stats :=
  {| null := null s; lone_cr := lone_cr s; lone_lf := lone_lf s; crlf := crlf s + 1;
     printable := printable s; non_printable := non_printable s |}.
Definition add_lone_cr (s : stats) : stats :=
  {| null := null s; lone_cr := lone_cr s + 1; lone_lf := lone_lf s; crlf := crlf s;
     printable := printable s; non_printable := non_printable s |}.
Definition add_lone_lf (s : stats) : stats :=
  {| null := null s; lone_cr := lone_cr s; lone_lf := lone_lf s + 1; crlf := crlf s;
     printable := printable s; non_printable := non_printable s |}.

(* the `while let Some(b) = bytes.next()` loop with `peek()` *)
Fixpoint stats_loop (l : bytes) (s : stats) : stats :=
  match l with
  | [] => s
  | b :: r =>
      if is_cr b then
        match r with
        | n :: r' => if is_lf n then stats_loop r' (add_crlf s) else stats_loop r (add_lone_cr s)
        | [] => stats_loop r (add_lone_cr s)
        end
      else if is_lf b then stats_loop r (add_lone_lf s)
      else stats_loop r (bump s b)
  end.

Definition ends_with_eof (l : bytes) : bool :=
  match rev l with b :: _ => beqb b x1a | [] => false end.

(* Stats::from_bytes.  `non_printable -= 1` cannot underflow: the last byte was counted. *)
Definition stats_from_bytes (l : bytes) : stats :=
  let s := stats_loop l stats0 in
  if ends_with_eof l then
    {| null := null s; lone_cr := lone_cr s; lone_lf := lone_lf s; crlf := crlf s;
       printable := printable s; non_printable := non_printable s - 1 |}
  else s.

(* Stats::is_binary *)
Definition is_binary (s : stats) : bool :=
  N.ltb 0 (lone_cr s) || N.ltb 0 (null s) || N.ltb (N.shiftr (printable s) 7) (non_printable s).

Definition opt_mode_is_crlf (o : option mode) : bool :=
  match o with Some CrLf => true | _ => false end.

(* Stats::will_convert_lf_to_crlf *)
Definition will_convert_lf_to_crlf (s : stats) (d : digest) (c : config) : bool :=
  if negb (opt_mode_is_crlf (digest_to_eol d c)) then false
  else if N.eqb (lone_lf s) 0 then false
  else if is_auto_text d then
    (if is_binary s then false
     else if N.ltb 0 (lone_cr s) || N.ltb 0 (crlf s) then false
     else true)
  else true.

(* ---- eol/convert_to_git.rs ------------------------------------------------------------------- *)
Inductive rtcheck := RtFail | RtWarn.
Inductive eol_err := RoundTripCrlf | RoundTripLf.

(* `buf.extend(src.iter().filter(|b| **b != b'\r'))` *)
Definition strip_all_cr (l : bytes) : bytes := filter (fun b => negb (is_cr b)) l.
(* the peekable loop: drop a CR exactly when the next byte is LF *)
Fixpoint strip_cr_before_lf (l : bytes) : bytes :=
  match l with
  | [] => []
  | b :: r =>
      if is_cr b && match r with n :: _ => is_lf n | [] => false end
      then strip_cr_before_lf r
      else b :: strip_cr_before_lf r
  end.

Definition set_lf_crlf (s : stats) (lf crlf' : N) : stats :=
  {| null := null s; lone_cr := lone_cr s; lone_lf := lf; crlf := crlf';
     printable := printable s; non_printable := non_printable s |}.

(* `index_object(buf)`: None = no such object in the index, Some data = the blob in the index *)
Definition has_crlf_in_index (idx : bytes) : bool :=
  if existsb is_cr idx then                       (* buf.find_byte(b'\r') *)
    let s := stats_from_bytes idx in negb (is_binary s) && N.ltb 0 (crlf s)
  else false.

(* convert_to_git: Ok None = `Ok(false)` (src is the result), Ok (Some b) = `Ok(true)` with buf = b *)
Definition eol_convert_to_git (src : bytes) (d : digest) (index_object : option bytes)
    (round_trip_check : option rtcheck) (c : config) : outcome (option bytes) eol_err :=
  if digest_eqb d Binary || match src with [] => true | _ => false end then Ok None
  else
    let st := stats_from_bytes src in
    let convert0 := N.ltb 0 (crlf st) in
    if is_auto_text d && is_binary st then Ok None
    else
      let convert_crlf_to_lf :=
        if is_auto_text d then
          match index_object with
          | Some idx => if has_crlf_in_index idx then false else convert0
          | None => convert0
          end
        else convert0 in
      let verdict : option eol_err :=
        match round_trip_check with
        | None => None
        | Some _ =>
            let ns := if convert_crlf_to_lf then set_lf_crlf st (lone_lf st + crlf st) 0 else st in
            let ns := if will_convert_lf_to_crlf ns d c then set_lf_crlf ns 0 (crlf ns + lone_lf ns) else ns in
            if N.ltb 0 (crlf st) && N.eqb (crlf ns) 0 then Some RoundTripCrlf
            else if N.ltb 0 (lone_lf st) && N.eqb (lone_lf ns) 0 then Some RoundTripLf
            else None
        end in
      match round_trip_check, verdict with
      | Some RtFail, Some e => Err e
      | _, _ =>
          if negb convert_crlf_to_lf then Ok None
          else if N.eqb (lone_cr st) 0 then Ok (Some (strip_all_cr src))
          else Ok (Some (strip_cr_before_lf src))
      end.

(* ---- eol/convert_to_worktree.rs --------------------------------------------------------------- *)
(* bstr find_byteset(b"\r\n") *)
Fixpoint find_cr_or_lf (l : bytes) : option nat :=
  match l with
  | [] => None
  | b :: r => if is_cr b || is_lf b then Some O else option_map S (find_cr_or_lf r)
  end.

(* the `while let Some(pos) = src[ofs..].find_byteset(..)` loop; [rest] is `src[ofs..]`, the result is what
   is appended to `buf` from here on.  One iteration consumes at least one byte, so [length src + 1]
   iterations suffice. *)
Fixpoint to_worktree_loop (fuel : nat) (rest : bytes) : outcome bytes eol_err :=
  match fuel with
  | O => OutOfFuel
  | S f =>
      match find_cr_or_lf rest with
      | None => Ok rest
      | Some pos =>
          match nth_error rest pos with
          | None => Panic                                       (* src[ofs + pos] *)
          | Some b =>
              if is_cr b then
                match nth_error rest (pos + 1) with
                | Some n =>
                    if is_lf n
                    then omap (app (firstn (pos + 2) rest)) (to_worktree_loop f (skipn (pos + 2) rest))
                    else omap (app (firstn (pos + 1) rest)) (to_worktree_loop f (skipn (pos + 1) rest))
                | None => omap (app (firstn (pos + 1) rest)) (to_worktree_loop f (skipn (pos + 1) rest))
                end
              else if is_lf b then
                omap (app (firstn pos rest ++ [CR; LF])) (to_worktree_loop f (skipn (pos + 1) rest))
              else Panic                                        (* unreachable!() *)
          end
      end
  end.

Definition eol_convert_to_worktree (src : bytes) (d : digest) (c : config) : outcome (option bytes) eol_err :=
  if match src with [] => true | _ => false end || negb (opt_mode_is_crlf (digest_to_eol d c)) then Ok None
  else
    let st := stats_from_bytes src in
    if negb (will_convert_lf_to_crlf st d c) then Ok None
    else omap Some (to_worktree_loop (S (length src)) src).

Definition or_src (src : bytes) (o : option bytes) : bytes := match o with Some b => b | None => src end.

(* ---- ident.rs -------------------------------------------------------------------------------- *)
Fixpoint starts_with (p l : bytes) : bool :=
  match p, l with
  | [], _ => true
  | x :: p', y :: l' => beqb x y && starts_with p' l'
  | _ :: _, [] => false
  end.
(* bstr find(needle), needle non-empty: first index at which needle occurs *)
Fixpoint find_sub (p l : bytes) : option nat :=
  if starts_with p l then Some O
  else match l with [] => None | _ :: r => option_map S (find_sub p r) end.
(* find_byteset(b"$\n") *)
Fixpoint find_dollar_or_lf (l : bytes) : option nat :=
  match l with
  | [] => None
  | b :: r => if beqb b DOLLAR || is_lf b then Some O else option_map S (find_dollar_or_lf r)
  end.

Definition ID_OPEN : bytes := bs "$Id:".
Definition ID_PLAIN : bytes := bs "$Id$".

(* undo::find_range(input): the range is relative to [input]; [cur] is `input[ofs..]` *)
Fixpoint find_range (fuel : nat) (cur : bytes) (ofs : nat) : outcome (option (nat * nat)) eol_err :=
  match fuel with
  | O => OutOfFuel
  | S f =>
      match find_sub ID_OPEN cur with
      | None => Ok None
      | Some start =>
          let cursor := skipn (start + 4) cur in
          match find_dollar_or_lf cursor with
          | None => Ok None
          | Some maybe_end =>
              match nth_error cursor maybe_end with
              | None => Panic
              | Some b =>
                  if is_lf b
                  then find_range f (skipn (maybe_end + 1) cursor) (ofs + start + 4 + maybe_end + 1)
                  else Ok (Some (ofs + start, ofs + start + 4 + maybe_end + 1))%nat
              end
          end
      end
  end.

(* the `while let Some(range) = find_range(&src[ofs..])` loop; [rest] = `src[ofs..]`; the result is what is
   appended to `buf` from here on ([None]: no range was ever found, `initialized` stays false) *)
Fixpoint undo_loop (fuel : nat) (rest : bytes) : outcome (option bytes) eol_err :=
  match fuel with
  | O => OutOfFuel
  | S f =>
      match find_range (S (length rest)) rest 0 with
      | Ok None => Ok None
      | Ok (Some (s, e)) =>
          omap (fun t => Some (firstn s rest ++ ID_PLAIN ++ or_src (skipn e rest) t)) (undo_loop f (skipn e rest))
      | Err x => Err x
      | Panic => Panic
      | OutOfFuel => OutOfFuel
      end
  end.

(* ident::undo: Ok None = `Ok(false)` *)
Definition ident_undo (src : bytes) : outcome (option bytes) eol_err :=
  undo_loop (S (length src)) src.

(* ident::apply with [hex] = the 40 hex digits of the blob id of [src] *)
Fixpoint apply_loop (fuel : nat) (hex : bytes) (rest : bytes) : outcome (option bytes) eol_err :=
  match fuel with
  | O => OutOfFuel
  | S f =>
      match find_sub ID_PLAIN rest with
      | None => Ok None
      | Some pos =>
          omap (fun t => Some (firstn (pos + 3) rest ++ bs ": " ++ hex ++ [DOLLAR] ++ or_src (skipn (pos + 4) rest) t))
               (apply_loop f hex (skipn (pos + 4) rest))
      end
  end.
Definition ident_apply (hex : bytes) (src : bytes) : outcome (option bytes) eol_err :=
  apply_loop (S (length src)) hex src.

(* ---- pipeline/util.rs: Configuration::at_path -------------------------------------------------- *)
(* gix_attributes::StateRef *)
Inductive attr_state := Unspecified | ASet | AUnset | AValue (v : bytes).

Definition extract_crlf (a : attr_state) : option digest :=
  match a with
  | Unspecified => None
  | ASet => Some Text
  | AUnset => Some Binary
  | AValue v => if bytes_eqb v (bs "input") then Some TextInput
                else if bytes_eqb v (bs "auto") then Some TextAuto else None
  end.
Definition extract_eol (a : attr_state) : option mode :=
  match a with
  | AValue v => if bytes_eqb v (bs "lf") then Some Lf else if bytes_eqb v (bs "crlf") then Some CrLf else None
  | _ => None
  end.
Definition mode_to_digest (m : mode) : digest := match m with Lf => TextInput | CrLf => TextCrlf end.
Definition autocrlf_to_digest (a : autocrlf) : digest :=
  match a with AcInput => TextAutoInput | AcEnabled => TextAutoCrlf | AcDisabled => Binary end.

Record attrs := { a_crlf : attr_state; a_ident : attr_state; a_eol : attr_state; a_text : attr_state }.

Definition at_path_digest (a : attrs) (c : config) : digest :=
  let d := match extract_crlf (a_text a) with Some d => Some d | None => extract_crlf (a_crlf a) end in
  let d :=
    match d with
    | Some Binary => d
    | _ =>
        let eol := extract_eol (a_eol a) in
        match d, eol with
        | Some TextAuto, Some Lf => Some TextAutoInput
        | Some TextAuto, Some CrLf => Some TextAutoCrlf
        | _, Some CrLf => Some TextCrlf
        | _, Some Lf => Some TextInput
        | _, None => d
        end
    end in
  match d with
  | None => autocrlf_to_digest (auto_crlf c)
  | Some Text => mode_to_digest (config_to_eol c)
  | Some d => d
  end.
Definition apply_ident_filter (a : attrs) : bool :=
  match a_ident a with ASet => true | _ => false end.

(* ---- pipeline/convert.rs ---------------------------------------------------------------------- *)
(* Pipeline::convert_to_git without driver/encoding: eol, then ident::undo; result = the bytes read back *)
Definition pipeline_to_git (src : bytes) (a : attrs) (c : config) (rt : option rtcheck)
    (index_object : option bytes) : outcome bytes eol_err :=
  (r1 <- eol_convert_to_git src (at_path_digest a c) index_object rt c ;;
   let s1 := or_src src r1 in
   if apply_ident_filter a then
     (r2 <- ident_undo s1 ;; Ok (or_src s1 r2))
   else Ok s1)%outcome.

(* Pipeline::convert_to_worktree: ident::apply, then eol *)
Definition pipeline_to_worktree (hex : bytes) (src : bytes) (a : attrs) (c : config) : outcome bytes eol_err :=
  (s1 <- (if apply_ident_filter a then (r <- ident_apply hex src ;; Ok (or_src src r)) else Ok src) ;;
   r2 <- eol_convert_to_worktree s1 (at_path_digest a c) c ;;
   Ok (or_src s1 r2))%outcome.
