//! C03 harness: tree entry ordering (Ord for Entry/EntryRef), Vec::sort + Tree::write_to,
//! TreeRef::bisect_entry, the one-level tree editor, and std's binary_search_by.
//!
//! Entries travel as triples `<mode decimal> <name bytes> <one byte k>` with oid = [k; 20].
use gix_object::bstr::{BStr, BString, ByteSlice};
use gix_object::tree::{Entry, EntryMode, EntryRef};
use gix_object::{Tree, TreeRef, WriteTo};
use gixv_common::*;
use std::cmp::Ordering;

// ---------------------------------------------------------------------------------- decoding

#[derive(Clone, Debug, PartialEq, Eq)]
struct E {
    mode: u16,
    name: Vec<u8>,
    k: u8,
}

fn mode_of(f: &[u8]) -> u16 {
    // decimal, reduced mod 2^16 (the Coq side does the same); non-numbers are 0
    if f.is_empty() || !f.iter().all(|b| b.is_ascii_digit()) {
        return 0;
    }
    let mut v: u64 = 0;
    for b in f {
        v = (v * 10 + u64::from(b - b'0')) % 65536;
    }
    v as u16
}

fn entries_of(fs: &[Vec<u8>]) -> Vec<E> {
    fs.chunks(3)
        .take_while(|c| c.len() == 3)
        .map(|c| E { mode: mode_of(&c[0]), name: c[1].clone(), k: c[2].first().copied().unwrap_or(0) })
        .collect()
}

fn oid(k: u8) -> gix_hash::ObjectId {
    gix_hash::ObjectId::from_bytes_or_panic(&[k; 20])
}

fn owned(e: &E) -> Entry {
    Entry { mode: EntryMode(e.mode), filename: BString::from(e.name.clone()), oid: oid(e.k) }
}

fn ord(o: Ordering) -> &'static str {
    match o {
        Ordering::Less => "Lt",
        Ordering::Equal => "Eq",
        Ordering::Greater => "Gt",
    }
}

fn show_write(r: std::io::Result<()>, buf: &[u8]) -> String {
    match r {
        Ok(()) => format!("ok {}", hexs(buf)),
        Err(_) => "err Nul".into(),
    }
}

/// Tree::write_to and TreeRef::write_to of the same entries (one line when they agree)
fn write_both(entries: &[Entry]) -> String {
    let t = Tree { entries: entries.to_vec() };
    let mut buf = Vec::new();
    let a = show_write(t.write_to(&mut buf), &buf);
    let r = TreeRef {
        entries: entries
            .iter()
            .map(|e| EntryRef { mode: e.mode, filename: e.filename.as_bstr(), oid: e.oid.as_ref() })
            .collect(),
    };
    let mut buf2 = Vec::new();
    let res = std::panic::catch_unwind(std::panic::AssertUnwindSafe(|| r.write_to(&mut buf2)));
    let b = match res {
        Ok(r) => show_write(r, &buf2),
        Err(_) => "PANIC".into(),
    };
    if a == b {
        a
    } else {
        format!("DIFF tree={a} ref={b}")
    }
}

// ---------------------------------------------------------------------------------- impl

fn imp(c: &Case) -> String {
    match f_str(c, 0) {
        b"cmp" => {
            let a = E { mode: mode_of(f_str(c, 1)), name: f_str(c, 2).to_vec(), k: 0 };
            let b = E { mode: mode_of(f_str(c, 3)), name: f_str(c, 4).to_vec(), k: 0 };
            let (ao, bo) = (owned(&a), owned(&b));
            let ar = EntryRef { mode: ao.mode, filename: ao.filename.as_bstr(), oid: ao.oid.as_ref() };
            let br = EntryRef { mode: bo.mode, filename: bo.filename.as_bstr(), oid: bo.oid.as_ref() };
            format!("{} {} {}", ord(ao.cmp(&bo)), ord(ar.cmp(&br)), ord(bo.cmp(&ao)))
        }
        b"sort" => {
            let mut es: Vec<Entry> = entries_of(&c[1..]).iter().map(owned).collect();
            es.sort();
            write_both(&es)
        }
        b"write" => {
            let es: Vec<Entry> = entries_of(&c[1..]).iter().map(owned).collect();
            write_both(&es)
        }
        b"bisect" => {
            let es: Vec<Entry> = entries_of(c.get(3..).unwrap_or(&[])).iter().map(owned).collect();
            let t = TreeRef {
                entries: es
                    .iter()
                    .map(|e| EntryRef { mode: e.mode, filename: e.filename.as_bstr(), oid: e.oid.as_ref() })
                    .collect(),
            };
            let name: &BStr = f_str(c, 1).as_bstr();
            match t.bisect_entry(name, f_u64(c, 2) != 0) {
                None => "none".into(),
                Some(e) => format!("some {} {} {}", e.mode.0, hexs(e.filename), hexs(e.oid.as_bytes())),
            }
        }
        b"bsearch" => {
            let k = f_str(c, 1).first().copied().unwrap_or(0);
            match f_str(c, 2).binary_search_by(|x| x.cmp(&k)) {
                Ok(i) => format!("ok {i}"),
                Err(i) => format!("err {i}"),
            }
        }
        b"edit" => run_edit(c).0,
        _ => "?".into(),
    }
}

#[derive(Clone, Debug)]
enum Op {
    Upsert(gix_object::tree::EntryKind, Vec<u8>, u8),
    Remove(Vec<u8>),
    Write,
}

fn ops_of(fs: &[Vec<u8>]) -> Vec<Op> {
    use gix_object::tree::EntryKind::*;
    fs.chunks(3)
        .take_while(|c| c.len() == 3)
        .map(|c| {
            let k = c[2].first().copied().unwrap_or(0);
            match c[0].as_slice() {
                b"r" => Op::Remove(c[1].clone()),
                b"w" => Op::Write,
                o => Op::Upsert(
                    match o {
                        b"0" => Tree,
                        b"1" => Blob,
                        b"2" => BlobExecutable,
                        b"3" => Link,
                        _ => Commit,
                    },
                    c[1].clone(),
                    k,
                ),
            }
        })
        .collect()
}

/// Drive a tree::Editor over an empty root with single-component paths.
/// Returns the transcript and the raw bytes of every tree handed to `out` (for prop()).
fn run_edit(c: &Case) -> (String, Vec<Vec<u8>>, bool) {
    let ops = ops_of(&c[1..]);
    let find = gix_object::find::Never;
    let mut ed = gix_object::tree::Editor::new(Tree::default(), &find, gix_hash::Kind::Sha1);
    let mut items: Vec<String> = Vec::new();
    let mut trees: Vec<Vec<u8>> = Vec::new();
    let mut write = |ed: &mut gix_object::tree::Editor<'_>, items: &mut Vec<String>, trees: &mut Vec<Vec<u8>>| -> bool {
        let mut bytes = Vec::new();
        let r = ed.write(|t: &Tree| -> std::io::Result<gix_hash::ObjectId> {
            bytes.clear();
            t.write_to(&mut bytes)?;
            Ok(gix_object::compute_hash(gix_hash::Kind::Sha1, gix_object::Kind::Tree, &bytes))
        });
        match r {
            Ok(_) => {
                items.push(format!("ok {}", hexs(&bytes)));
                trees.push(bytes);
                true
            }
            Err(_) => {
                items.push("err Nul".into());
                false
            }
        }
    };
    for op in &ops {
        let ok = match op {
            Op::Upsert(kind, name, k) => ed.upsert(Some(name.as_bstr()), *kind, oid(*k)).is_ok(),
            Op::Remove(name) => ed.remove(Some(name.as_bstr())).is_ok(),
            Op::Write => {
                if !write(&mut ed, &mut items, &mut trees) {
                    return (items.join(";"), trees, false);
                }
                true
            }
        };
        if !ok {
            items.push("err Empty".into());
            return (items.join(";"), trees, false);
        }
    }
    let fin = write(&mut ed, &mut items, &mut trees);
    (items.join(";"), trees, fin)
}

// ---------------------------------------------------------------------------------- oracle

const S_IFMT: u32 = 0o170000;
const S_IFDIR: u32 = 0o040000;

/// git's base_name_compare, transcribed from read-cache.c; names are NUL-terminated C strings.
fn base_name_compare(name1: &[u8], mode1: u32, name2: &[u8], mode2: u32) -> i32 {
    let (len1, len2) = (name1.len(), name2.len());
    let mut n1 = name1.to_vec();
    n1.push(0);
    let mut n2 = name2.to_vec();
    n2.push(0);
    let len = if len1 < len2 { len1 } else { len2 };
    for i in 0..len {
        // memcmp
        if n1[i] != n2[i] {
            return if n1[i] < n2[i] { -1 } else { 1 };
        }
    }
    let mut c1 = n1[len];
    let mut c2 = n2[len];
    if c1 == 0 && (mode1 & S_IFMT) == S_IFDIR {
        c1 = b'/';
    }
    if c2 == 0 && (mode2 & S_IFMT) == S_IFDIR {
        c2 = b'/';
    }
    if c1 < c2 {
        -1
    } else if c1 > c2 {
        1
    } else {
        0
    }
}

fn is_dir(mode: u16) -> bool {
    (u32::from(mode) & S_IFMT) == S_IFDIR
}

fn sign(o: Ordering) -> i32 {
    match o {
        Ordering::Less => -1,
        Ordering::Equal => 0,
        Ordering::Greater => 1,
    }
}

/// "a directory sorts as if its name ended in a slash"
fn key(e: &E) -> Vec<u8> {
    let mut k = e.name.clone();
    if is_dir(e.mode) {
        k.push(b'/');
    }
    k
}

fn in_domain(name: &[u8]) -> bool {
    !name.contains(&0) && !name.contains(&b'/')
}

fn naive_serialize(es: &[E]) -> Vec<u8> {
    let mut out = Vec::new();
    for e in es {
        out.extend_from_slice(format!("{:o} ", e.mode).as_bytes());
        out.extend_from_slice(&e.name);
        out.push(0);
        out.extend_from_slice(&[e.k; 20]);
    }
    out
}

fn unique_keys(es: &[E]) -> bool {
    let mut ks: Vec<Vec<u8>> = es.iter().map(key).collect();
    ks.sort();
    ks.windows(2).all(|w| w[0] != w[1])
}

fn git_ok_mode(m: u16) -> bool {
    matches!(m, 0o40000 | 0o100644 | 0o100755 | 0o120000 | 0o160000 | 0o100664)
}

/// `git mktree --missing -z` on the entries in the given order; returns (id hex, raw tree bytes)
fn git_mktree(es: &[E]) -> Option<(String, Vec<u8>)> {
    use std::io::Write as _;
    use std::process::{Command, Stdio};
    static CTR: std::sync::atomic::AtomicU64 = std::sync::atomic::AtomicU64::new(0);
    let dir = std::env::temp_dir().join(format!(
        "gixv-c03-{}-{}",
        std::process::id(),
        CTR.fetch_add(1, std::sync::atomic::Ordering::SeqCst)
    ));
    let _ = std::fs::remove_dir_all(&dir);
    std::fs::create_dir_all(&dir).ok()?;
    let git = |args: &[&str], input: Option<&[u8]>| -> Option<Vec<u8>> {
        let mut ch = Command::new("/usr/bin/git")
            .args(args)
            .current_dir(&dir)
            .env("HOME", &dir)
            .env("GIT_CONFIG_NOSYSTEM", "1")
            .env("GIT_DIR", dir.join("r"))
            .stdin(Stdio::piped())
            .stdout(Stdio::piped())
            .stderr(Stdio::null())
            .spawn()
            .ok()?;
        {
            let mut si = ch.stdin.take()?;
            if let Some(i) = input {
                si.write_all(i).ok()?;
            }
        }
        let out = ch.wait_with_output().ok()?;
        if out.status.success() {
            Some(out.stdout)
        } else {
            None
        }
    };
    let res = (|| {
        // a minimal bare repository by hand (`git init` costs several process spawns' worth of time here)
        let r = dir.join("r");
        std::fs::create_dir_all(r.join("objects")).ok()?;
        std::fs::create_dir_all(r.join("refs")).ok()?;
        std::fs::write(r.join("HEAD"), "ref: refs/heads/main\n").ok()?;
        let mut input = Vec::new();
        for e in es {
            let ty = if is_dir(e.mode) {
                "tree"
            } else if (u32::from(e.mode) & S_IFMT) == 0o160000 {
                "commit"
            } else {
                "blob"
            };
            input.extend_from_slice(format!("{:o} {} {}\t", e.mode, ty, hexs(&[e.k; 20])).as_bytes());
            input.extend_from_slice(&e.name);
            input.push(0);
        }
        let id = git(&["mktree", "-z", "--missing"], Some(&input))?;
        let id = String::from_utf8(id).ok()?.trim().to_string();
        let raw = git(&["cat-file", "tree", &id], None)?;
        Some((id, raw))
    })();
    let _ = std::fs::remove_dir_all(&dir);
    res
}

fn git_acceptable(es: &[E]) -> bool {
    es.iter().all(|e| in_domain(&e.name) && !e.name.is_empty() && git_ok_mode(e.mode)) && unique_keys(es)
}

// ---------------------------------------------------------------------------------- prop

fn prop(c: &Case) -> Verdict {
    match f_str(c, 0) {
        b"cmp" => {
            let a = E { mode: mode_of(f_str(c, 1)), name: f_str(c, 2).to_vec(), k: 0 };
            let b = E { mode: mode_of(f_str(c, 3)), name: f_str(c, 4).to_vec(), k: 0 };
            if !in_domain(&a.name) || !in_domain(&b.name) {
                return Verdict::ok(false, "cmp-out-of-domain");
            }
            let want = base_name_compare(&a.name, a.mode.into(), &b.name, b.mode.into());
            let (ao, bo) = (owned(&a), owned(&b));
            let ar = EntryRef { mode: ao.mode, filename: ao.filename.as_bstr(), oid: ao.oid.as_ref() };
            let br = EntryRef { mode: bo.mode, filename: bo.filename.as_bstr(), oid: bo.oid.as_ref() };
            if sign(ao.cmp(&bo)) != want {
                return Verdict::fail("cmp-entry", format!("got {:?} git {}", ao.cmp(&bo), want));
            }
            if sign(ar.cmp(&br)) != want {
                return Verdict::fail("cmp-entryref", format!("got {:?} git {}", ar.cmp(&br), want));
            }
            if sign(bo.cmp(&ao)) != -want {
                return Verdict::fail("cmp-antisym", format!("got {:?} git {}", bo.cmp(&ao), -want));
            }
            // the slash rule in its other formulation
            if sign(key(&a).cmp(&key(&b))) != want {
                return Verdict::fail("oracle-key-vs-base-name-compare", "the two oracles disagree");
            }
            Verdict::ok(true, if want == 0 { "cmp-eq" } else { "cmp" })
        }
        b"sort" => {
            let es = entries_of(&c[1..]);
            let ask_git = c.len() % 3 == 2; // a trailing single field
            if !es.iter().all(|e| in_domain(&e.name)) {
                return Verdict::ok(false, "sort-out-of-domain");
            }
            let mut t = Tree { entries: es.iter().map(owned).collect() };
            t.entries.sort();
            let got: Vec<E> = t
                .entries
                .iter()
                .map(|e| E { mode: e.mode.0, name: e.filename.to_vec(), k: e.oid.as_bytes()[0] })
                .collect();
            // permutation of the input
            let canon = |v: &[E]| {
                let mut v: Vec<(Vec<u8>, u16, u8)> = v.iter().map(|e| (e.name.clone(), e.mode, e.k)).collect();
                v.sort();
                v
            };
            if canon(&got) != canon(&es) {
                return Verdict::fail("sort-not-permutation", "");
            }
            for w in got.windows(2) {
                if base_name_compare(&w[0].name, w[0].mode.into(), &w[1].name, w[1].mode.into()) > 0 {
                    return Verdict::fail(
                        "sort-order",
                        format!("{:?} before {:?}", String::from_utf8_lossy(&w[0].name), String::from_utf8_lossy(&w[1].name)),
                    );
                }
            }
            let uniq = unique_keys(&es);
            if uniq {
                let mut want = es.clone();
                want.sort_by(|a, b| key(a).cmp(&key(b)));
                if want != got {
                    return Verdict::fail("sort-order", "differs from the sort by slash-terminated key");
                }
            }
            let mut buf = Vec::new();
            if t.write_to(&mut buf).is_err() {
                return Verdict::fail("write-rejects-valid", "");
            }
            if buf != naive_serialize(&got) {
                return Verdict::fail("write-bytes", hexs(&buf));
            }
            if t.size() != buf.len() as u64 {
                return Verdict::fail("write-size", format!("{} vs {}", t.size(), buf.len()));
            }
            if ask_git && git_acceptable(&es) {
                match git_mktree(&es) {
                    None => return Verdict::ok(true, "sort-git-unavailable"),
                    Some((id, raw)) => {
                        let ours = gix_object::compute_hash(gix_hash::Kind::Sha1, gix_object::Kind::Tree, &buf);
                        if raw != buf {
                            return Verdict::fail("tree-bytes-differ-from-git", format!("git {}", hexs(&raw)));
                        }
                        if ours.to_hex().to_string() != id {
                            return Verdict::fail("tree-id-differs-from-git", format!("git {id} gix {ours}"));
                        }
                        return Verdict::ok(true, "sort-git-id");
                    }
                }
            }
            Verdict::ok(es.len() >= 2, if uniq { "sort" } else { "sort-dup-keys" })
        }
        b"write" => Verdict::ok(false, "write"),
        b"bisect" => {
            let es = entries_of(c.get(3..).unwrap_or(&[]));
            let name = f_str(c, 1);
            let want_dir = f_u64(c, 2) != 0;
            if !in_domain(name) || !es.iter().all(|e| in_domain(&e.name)) {
                return Verdict::ok(false, "bisect-out-of-domain");
            }
            let sorted = es
                .windows(2)
                .all(|w| base_name_compare(&w[0].name, w[0].mode.into(), &w[1].name, w[1].mode.into()) <= 0);
            if !sorted {
                return Verdict::ok(false, "bisect-unsorted");
            }
            let owned_es: Vec<Entry> = es.iter().map(owned).collect();
            let t = TreeRef {
                entries: owned_es
                    .iter()
                    .map(|e| EntryRef { mode: e.mode, filename: e.filename.as_bstr(), oid: e.oid.as_ref() })
                    .collect(),
            };
            let got = t.bisect_entry(name.as_bstr(), want_dir);
            // linear scan
            let want: Vec<&E> = es.iter().filter(|e| e.name == name && is_dir(e.mode) == want_dir).collect();
            match (got, want.is_empty()) {
                (None, true) => Verdict::ok(!es.is_empty(), "bisect-absent"),
                (None, false) => Verdict::fail("bisect-misses-entry", String::from_utf8_lossy(name).to_string()),
                (Some(e), true) => Verdict::fail("bisect-finds-phantom", format!("{:?}", e.filename)),
                (Some(e), false) => {
                    let ge = E { mode: e.mode.0, name: e.filename.to_vec(), k: e.oid.as_bytes()[0] };
                    if !want.iter().any(|w| **w == ge) {
                        return Verdict::fail("bisect-wrong-entry", format!("{:?} mode {:o}", e.filename, e.mode.0));
                    }
                    Verdict::ok(true, "bisect-found")
                }
            }
        }
        b"bsearch" => Verdict::ok(false, "bsearch"),
        b"edit" => {
            let ops = ops_of(&c[1..]);
            let ask_git = c.len() % 3 == 2;
            let names_ok = ops.iter().all(|o| match o {
                Op::Upsert(_, n, _) | Op::Remove(n) => in_domain(n) && !n.is_empty(),
                Op::Write => true,
            });
            if !names_ok {
                return Verdict::ok(false, "edit-out-of-domain");
            }
            // reference: a finite map name -> (mode, k); what a write must produce is the map's
            // non-null entries ordered by slash-terminated key
            let mut map: std::collections::BTreeMap<Vec<u8>, (u16, u8)> = Default::default();
            let mut expected: Vec<Vec<u8>> = Vec::new();
            let mut last: Vec<E> = Vec::new();
            let mut snapshot = |map: &mut std::collections::BTreeMap<Vec<u8>, (u16, u8)>| {
                map.retain(|_, v| v.1 != 0);
                let mut es: Vec<E> = map.iter().map(|(n, (m, k))| E { mode: *m, name: n.clone(), k: *k }).collect();
                es.sort_by(|a, b| key(a).cmp(&key(b)));
                es
            };
            for op in &ops {
                match op {
                    Op::Upsert(kind, n, k) => {
                        map.insert(n.clone(), (*kind as u16, *k));
                    }
                    Op::Remove(n) => {
                        map.remove(n);
                    }
                    Op::Write => expected.push(naive_serialize(&snapshot(&mut map))),
                }
            }
            last = snapshot(&mut map);
            expected.push(naive_serialize(&last));
            let (_, trees, fin) = run_edit(c);
            if !fin || trees.len() != expected.len() {
                return Verdict::fail("edit-write-failed", format!("{} of {} writes", trees.len(), expected.len()));
            }
            for (i, (got, want)) in trees.iter().zip(&expected).enumerate() {
                if got != want {
                    return Verdict::fail("edit-tree-differs", format!("write {i}: got {} want {}", hexs(got), hexs(want)));
                }
            }
            if ask_git && !last.is_empty() {
                if let Some((id, raw)) = git_mktree(&last) {
                    let got = trees.last().expect("final write");
                    let ours = gix_object::compute_hash(gix_hash::Kind::Sha1, gix_object::Kind::Tree, got);
                    if &raw != got || ours.to_hex().to_string() != id {
                        return Verdict::fail("tree-id-differs-from-git", format!("git {id} gix {ours}"));
                    }
                    return Verdict::ok(true, "edit-git-id");
                }
            }
            Verdict::ok(ops.len() >= 2, "edit")
        }
        _ => Verdict::ok(false, "?"),
    }
}

// ---------------------------------------------------------------------------------- git (vs Spec)

fn git(c: &Case) -> String {
    match f_str(c, 0) {
        b"cmp" => {
            let a = E { mode: mode_of(f_str(c, 1)), name: f_str(c, 2).to_vec(), k: 1 };
            let b = E { mode: mode_of(f_str(c, 3)), name: f_str(c, 4).to_vec(), k: 2 };
            let es = vec![b.clone(), a.clone()];
            if !git_acceptable(&es) {
                return "-".into();
            }
            match git_mktree(&es) {
                None => "-".into(),
                Some((_, raw)) => {
                    if raw == naive_serialize(&[a.clone(), b.clone()]) {
                        "Lt".into()
                    } else if raw == naive_serialize(&[b, a]) {
                        "Gt".into()
                    } else {
                        "unexpected-tree".into()
                    }
                }
            }
        }
        b"sort" => {
            let es = entries_of(&c[1..]);
            if !git_acceptable(&es) {
                return "-".into();
            }
            match git_mktree(&es) {
                None => "-".into(),
                Some((_, raw)) => format!("ok {}", hexs(&raw)),
            }
        }
        _ => "-".into(),
    }
}

// ---------------------------------------------------------------------------------- gen

const MODES: &[u16] = &[0o40000, 0o100644, 0o100755, 0o120000, 0o160000];
const ODD_MODES: &[u16] = &[0, 0o100664, 0o40755, 0o170000, 0o100000, 0o140000, 0o60000, 0o177777, 0o20000, 1];
/// bytes just below and above '/', plus the extremes
const ALPHA: &[u8] = b"-.0a\xff\x01";
const ALPHA_BAD: &[u8] = b"-./0a\xff\x00";

fn gen_mode(rng: &mut Rng) -> u16 {
    if rng.chance(1, 12) {
        if rng.chance(1, 2) {
            *rng.pick(ODD_MODES)
        } else {
            rng.next() as u16
        }
    } else if rng.chance(2, 5) {
        0o40000
    } else {
        *rng.pick(MODES)
    }
}

/// a pool of names that are prefixes of each other / differ right after a common stem
fn name_pool(rng: &mut Rng, n: usize, alpha: &[u8]) -> Vec<Vec<u8>> {
    let mut pool: Vec<Vec<u8>> = Vec::new();
    let min_len = if rng.chance(1, 10) { 0 } else { 1 };
    let stem = rng.word(alpha, min_len, 2);
    pool.push(stem);
    while pool.len() < n {
        let mut base = rng.pick(&pool).clone();
        match rng.below(6) {
            0 | 1 | 2 => base.push(*rng.pick(alpha)),
            3 => {
                base.pop();
                base.push(*rng.pick(alpha));
            }
            4 => base.extend(rng.word(alpha, 1, 3)),
            _ => base = rng.word(alpha, 1, 3),
        }
        if base.len() > 6 {
            base.truncate(2);
        }
        pool.push(base);
    }
    pool
}

fn push_entry(out: &mut Case, e: &E) {
    out.push(num(e.mode));
    out.push(e.name.clone());
    out.push(vec![e.k]);
}

fn gen_entries(rng: &mut Rng, n: usize, alpha: &[u8], allow_dup_keys: bool) -> Vec<E> {
    let pool = name_pool(rng, n.max(1) + 2, alpha);
    let mut es: Vec<E> = Vec::new();
    let mut tries = 0;
    while es.len() < n && tries < 10 * n + 10 {
        tries += 1;
        let e = E { mode: gen_mode(rng), name: rng.pick(&pool).clone(), k: 1 + rng.below(250) as u8 };
        if !allow_dup_keys && es.iter().any(|x| key(x) == key(&e)) {
            continue;
        }
        es.push(e);
    }
    es
}

/// Insertion sort by git's comparison, written out by hand: with a '/' inside a name the comparison
/// is not a total order and std's sort may panic ("does not correctly implement a total order").
fn oracle_sort(es: &mut [E]) {
    for i in 1..es.len() {
        let mut j = i;
        while j > 0 && base_name_compare(&es[j].name, es[j].mode.into(), &es[j - 1].name, es[j - 1].mode.into()) < 0 {
            es.swap(j, j - 1);
            j -= 1;
        }
    }
}

fn gen(rng: &mut Rng, n: usize) -> Vec<Case> {
    let mut out: Vec<Case> = Vec::new();
    // ---- boundary block
    // every pair of (name, kind) around the slash rule
    let names: &[&[u8]] = &[b"a", b"a-", b"a.", b"a0", b"ab", b"", b"a/"];
    let kinds: &[u16] = &[0o40000, 0o100644, 0o160000];
    for n1 in names {
        for m1 in kinds {
            for n2 in names {
                for m2 in kinds {
                    out.push(vec![tag("cmp"), num(*m1), n1.to_vec(), num(*m2), n2.to_vec()]);
                }
            }
        }
    }
    // the canonical tree: a.  a  a/ (tree a)  a0 ... all kinds at once, in reversed order
    {
        let mut c = vec![tag("sort")];
        let mut k = 1u8;
        for nm in [&b"a0"[..], b"a", b"a.", b"a-", b"ab", b"b"] {
            for m in [0o40000u16, 0o100644] {
                push_entry(&mut c, &E { mode: m, name: nm.to_vec(), k });
                k += 1;
            }
        }
        let mut g = c.clone();
        g.push(tag("g"));
        out.push(c);
        out.push(g);
        out.push(vec![tag("sort")]);
        out.push(vec![tag("sort"), tag("g")]);
        out.push(vec![tag("write")]);
        out.push(vec![tag("bisect"), b"a".to_vec(), num(0)]);
        out.push(vec![tag("bisect"), b"a".to_vec(), num(1)]);
    }
    // binary search: every length 0..=9, key below / inside / above, with duplicates
    for len in 0..=9usize {
        for key in [1u8, 2, 3, 4, 5] {
            let v: Vec<u8> = (0..len).map(|i| 2 + (i as u8 * 3 / (len.max(1) as u8))).collect();
            out.push(vec![tag("bsearch"), vec![key], v]);
        }
    }
    // lookup of every (name, kind) in a fixed sorted tree
    {
        let mut es: Vec<E> = Vec::new();
        for (i, nm) in [&b"a"[..], b"a-", b"a.", b"a0", b"ab"].iter().enumerate() {
            es.push(E { mode: if i % 2 == 0 { 0o40000 } else { 0o100644 }, name: nm.to_vec(), k: i as u8 + 1 });
        }
        es.push(E { mode: 0o100755, name: b"a".to_vec(), k: 9 });
        oracle_sort(&mut es);
        for nm in [&b"a"[..], b"a-", b"a.", b"a0", b"ab", b"b", b"", b"a.b"] {
            for d in [0, 1] {
                let mut c = vec![tag("bisect"), nm.to_vec(), num(d)];
                for e in &es {
                    push_entry(&mut c, e);
                }
                out.push(c);
            }
        }
    }
    // editor: file <-> directory changes of one name between neighbours on both sides of '/'
    for (k1, k2) in [(1, 0), (0, 1), (0, 4), (4, 0), (1, 2)] {
        let mut c = vec![tag("edit")];
        for (i, nm) in [&b"a"[..], b"a.", b"a0", b"a-", b"ab"].iter().enumerate() {
            c.extend([num(if i == 0 { k1 } else { 1 }), nm.to_vec(), vec![i as u8 + 1]]);
        }
        c.extend([tag("w"), vec![], vec![]]);
        c.extend([num(k2), b"a".to_vec(), vec![9]]);
        c.extend([tag("w"), vec![], vec![]]);
        c.extend([tag("r"), b"a.".to_vec(), vec![]]);
        c.push(tag("g"));
        out.push(c);
    }
    out.push(vec![tag("edit")]);
    out.push(vec![tag("edit"), num(1), vec![], vec![1]]);
    // ---- weighted mixture
    while out.len() < n {
        let bad = rng.chance(1, 12);
        let alpha = if bad { ALPHA_BAD } else { ALPHA };
        match rng.below(100) {
            0..=17 => {
                // cmp: two related names
                let pool = name_pool(rng, 4, alpha);
                let a = rng.pick(&pool).clone();
                let b = if rng.chance(1, 6) { a.clone() } else { rng.pick(&pool).clone() };
                out.push(vec![tag("cmp"), num(gen_mode(rng)), a, num(gen_mode(rng)), b]);
            }
            18..=21 => {
                // one-level editor history over a small pool of names
                let pool = name_pool(rng, 5, alpha);
                let n_ops = rng.range(1, 14) as usize;
                let mut c = vec![tag("edit")];
                for _ in 0..n_ops {
                    let name = if rng.chance(1, 150) { vec![] } else { rng.pick(&pool).clone() };
                    match rng.below(10) {
                        0 | 1 => c.extend([tag("r"), name, vec![]]),
                        2 => c.extend([tag("w"), vec![], vec![]]),
                        _ => {
                            let kind = if rng.chance(2, 5) { 0 } else { rng.range(1, 4) };
                            let k = if rng.chance(1, 15) { 0 } else { 1 + rng.below(250) as u8 };
                            c.extend([num(kind), name, vec![k]]);
                        }
                    }
                }
                if rng.chance(1, 20) {
                    c.push(tag("g"));
                }
                out.push(c);
            }
            22..=54 => {
                // sort; long lists (driftsort instead of insertion sort) only without '/'
                let n_e = match rng.below(10) {
                    0 => rng.range(21, 60) as usize,
                    1 | 2 => rng.range(0, 3) as usize,
                    _ => rng.range(2, 14) as usize,
                };
                let alpha = if n_e > 20 { ALPHA } else { alpha };
                let dup = rng.chance(1, 8);
                let es = gen_entries(rng, n_e, alpha, dup);
                let mut c = vec![tag("sort")];
                for e in &es {
                    push_entry(&mut c, e);
                }
                if rng.chance(1, 20) {
                    c.push(tag("g"));
                }
                out.push(c);
            }
            55..=58 => {
                // write without sorting: debug_assert fires unless already sorted
                let n_e = rng.range(0, 6) as usize;
                let dup = rng.chance(1, 8);
                let mut es = gen_entries(rng, n_e, alpha, dup);
                if rng.chance(2, 3) {
                    oracle_sort(&mut es);
                }
                let mut c = vec![tag("write")];
                for e in &es {
                    push_entry(&mut c, e);
                }
                out.push(c);
            }
            59..=93 => {
                // bisect in a (mostly) sorted tree
                let n_e = if rng.chance(1, 10) { rng.range(0, 2) } else { rng.range(1, 24) } as usize;
                let dup = rng.chance(1, 10);
                let mut es = gen_entries(rng, n_e, alpha, dup);
                if !rng.chance(1, 12) {
                    oracle_sort(&mut es);
                }
                let (name, d) = if !es.is_empty() && rng.chance(2, 3) {
                    let e = rng.pick(&es).clone();
                    // present, or present only as the other kind
                    (e.name.clone(), if rng.chance(3, 4) { is_dir(e.mode) } else { !is_dir(e.mode) })
                } else {
                    let mut nm = if es.is_empty() { rng.word(alpha, 0, 3) } else { rng.pick(&es).name.clone() };
                    match rng.below(3) {
                        0 => nm.push(*rng.pick(alpha)),
                        1 => {
                            nm.pop();
                        }
                        _ => nm = rng.word(alpha, 0, 3),
                    }
                    (nm, rng.chance(1, 2))
                };
                let mut c = vec![tag("bisect"), name, num(d as u8)];
                for e in &es {
                    push_entry(&mut c, e);
                }
                out.push(c);
            }
            _ => {
                // std binary search on small alphabets, sorted with duplicates or arbitrary
                let len = rng.range(0, 40) as usize;
                let mut v = rng.word(b"\x01\x02\x03\x04\x05\x06", len, len);
                if rng.chance(3, 4) {
                    v.sort();
                }
                out.push(vec![tag("bsearch"), vec![rng.range(0, 7) as u8], v]);
            }
        }
    }
    out.truncate(n.max(1));
    out
}

fn main() {
    main_with(Harness { gen, imp, prop, git: Some(git), deadline: std::time::Duration::from_secs(20) });
}
