(* C03 — Tree::write_to after sort(): the debug assertion holds, nothing panics, no error. *)
From Coq Require Import Lia Permutation Sorted RelationClasses ZArith ZifyBool ZifyNat ZifyN.
From GixV.Base Require Import Bytes BytesFacts Outcome.
From GixV.C03 Require Import Model Spec ProofsCmp ProofsSort.
Ltac Zify.zify_post_hook ::= Z.div_mod_to_equations.
Local Open Scope N_scope.

Lemma octal_digits_ok slots : forall n acc, n < 8 ^ N.of_nat slots ->
  exists b, octal_digits slots n acc = Ok b.
Proof.
  induction slots as [|s IH]; intros n acc H; cbn [octal_digits].
  - change (8 ^ N.of_nat 0) with 1 in H. assert (n = 0) by lia. subst n. rewrite N.eqb_refl. eauto.
  - destruct (N.eqb n 0); [eauto|]. apply IH.
    rewrite Nat2N.inj_succ, N.pow_succ_r' in H. lia.
Qed.

Definition u16 (m : N) : Prop := m < 65536.

Lemma mode_as_bytes_ok m : u16 m -> exists b, mode_as_bytes m = Ok b.
Proof.
  intros H. unfold mode_as_bytes. destruct (N.eqb m 0); [eauto|].
  apply octal_digits_ok. unfold u16 in H. change (8 ^ N.of_nat 6) with 262144. lia.
Qed.

Lemma has_nul_false n : nul_free n -> has_nul n = false.
Proof.
  unfold nul_free, has_nul. intros H. destruct (existsb (fun b => beqb b x00) n) eqn:E; [|reflexivity].
  apply existsb_exists in E. destruct E as [b [Hin Hb]]. apply beqb_eq in Hb. subst b. contradiction.
Qed.

Lemma write_entries_ok es :
  Forall nf es -> Forall (fun e => u16 (e_mode e)) es -> exists b, write_entries es = Ok b.
Proof.
  induction es as [|e es IH]; intros Hn Hm; cbn [write_entries]; [eauto|].
  inversion Hn as [|? ? Hne Hn']; subst. inversion Hm as [|? ? Hme Hm']; subst.
  destruct (mode_as_bytes_ok _ Hme) as [mb Hmb]. rewrite Hmb. cbn [lift_unit obind].
  rewrite (has_nul_false _ Hne). destruct (IH Hn' Hm') as [b Hb]. rewrite Hb. cbn [obind]. eauto.
Qed.

(* ---- sorting a sorted list changes nothing (the debug_assert of write_to) ----------------- *)

Lemma asc_app_le l1 : forall x l2, AscK (l1 ++ x :: l2) -> forall a, In a l1 -> kle a x.
Proof.
  induction l1 as [|y l1 IH]; intros x l2 H a Ha; [destruct Ha|].
  cbn [app] in H. inversion H as [|? ? H' Hall]; subst. destruct Ha as [<-|Ha].
  - rewrite Forall_forall in Hall. apply Hall. apply in_or_app. right. now left.
  - eapply IH; eassumption.
Qed.

Lemma ins_rev_head x r : sf x -> Forall sf r -> (forall a, In a r -> kle a x) -> ins_rev x r = x :: r.
Proof.
  intros Hx Hr H. destruct r as [|y r]; [reflexivity|]. cbn [ins_rev].
  inversion Hr; subst. rewrite is_lt_key by assumption.
  assert (K : kle y x) by (apply H; now left). unfold kle, ble in K.
  destruct (bytes_cmp (ekey x) (ekey y)) eqn:E; try reflexivity.
  apply bytes_cmp_gt_lt in E. congruence.
Qed.

Lemma fold_ins_sorted rest : forall pre, Forall sf (pre ++ rest) -> AscK (pre ++ rest) ->
  fold_left (fun r x => ins_rev x r) rest (rev pre) = rev (pre ++ rest).
Proof.
  induction rest as [|x rest IH]; intros pre Hs HA; cbn [fold_left].
  - now rewrite app_nil_r.
  - rewrite ins_rev_head.
    + replace (x :: rev pre) with (rev (pre ++ [x])) by (rewrite rev_app_distr; reflexivity).
      replace (pre ++ x :: rest) with ((pre ++ [x]) ++ rest) by (rewrite <- app_assoc; reflexivity).
      apply IH; rewrite <- app_assoc; assumption.
    + rewrite Forall_forall in Hs. apply Hs. apply in_or_app. right. now left.
    + apply Forall_rev. apply Forall_app in Hs. tauto.
    + intros a Ha. apply in_rev in Ha. eapply asc_app_le; eassumption.
Qed.

Lemma sort_sorted_id l : Forall sf l -> AscK l -> sort_entries l = l.
Proof.
  intros Hs HA. unfold sort_entries. change (@nil entry) with (rev (@nil entry)) at 1.
  rewrite (fold_ins_sorted l [] Hs HA). apply rev_involutive.
Qed.

Lemma sort_idempotent es : Forall sf es -> sort_entries (sort_entries es) = sort_entries es.
Proof.
  intros Hs. apply sort_sorted_id; [|now apply sort_asc].
  eapply Permutation_Forall; [symmetry; apply sort_perm | exact Hs].
Qed.

Lemma entry_eqb_refl e : entry_eqb e e = true.
Proof.
  unfold entry_eqb. rewrite N.eqb_refl. cbn [andb].
  rewrite !(proj2 (bytes_eqb_eq _ _) eq_refl). reflexivity.
Qed.
Lemma entries_eqb_refl l : entries_eqb l l = true.
Proof. induction l as [|e l IH]; cbn [entries_eqb]; [reflexivity|]. now rewrite entry_eqb_refl. Qed.

Lemma write_sorted_ok es :
  Forall sf es -> Forall nf es -> Forall (fun e => u16 (e_mode e)) es ->
  exists b, write_to (sort_entries es) = Ok b /\ write_entries (sort_entries es) = Ok b.
Proof.
  intros Hs Hn Hm. unfold write_to. rewrite sort_idempotent by exact Hs. rewrite entries_eqb_refl.
  destruct (write_entries_ok (sort_entries es)) as [b Hb].
  - eapply Permutation_Forall; [symmetry; apply sort_perm | exact Hn].
  - eapply Permutation_Forall; [symmetry; apply sort_perm | exact Hm].
  - eauto.
Qed.
