(* C03 — the one-level tree editor keeps its tree in git order with unique names, never panics,
   and changes exactly the entry it was asked to change. *)
From Coq Require Import Lia Permutation Sorted RelationClasses.
From GixV.Base Require Import Bytes BytesFacts Outcome.
From GixV.C03 Require Import Model Spec ProofsCmp ProofsSort ProofsSearch ProofsWrite.

Definition Inv (es : list entry) : Prop :=
  Forall sf es /\ AscK es /\ NoDup (map e_name es).

(* ---- list surgery ---------------------------------------------------------------------------- *)

Lemma SS_app_inv {A} (R : A -> A -> Prop) l1 : forall l2, StronglySorted R (l1 ++ l2) ->
  StronglySorted R l1 /\ StronglySorted R l2 /\ (forall a b, In a l1 -> In b l2 -> R a b).
Proof.
  induction l1 as [|x l1 IH]; intros l2 H; cbn [app] in H.
  - repeat split; [constructor | exact H | intros a b []].
  - inversion H as [|? ? H' Hall]; subst. destruct (IH l2 H') as (S1 & S2 & C).
    apply Forall_app in Hall. destruct Hall as [A1 A2]. repeat split.
    + now constructor.
    + exact S2.
    + intros a b [<-|Ha] Hb; [rewrite Forall_forall in A2; now apply A2 | now apply C].
Qed.

Lemma in_firstn_nth {A} (l : list A) : forall i a, In a (firstn i l) ->
  exists j, j < i /\ nth_error l j = Some a.
Proof.
  induction l as [|x l IH]; intros [|i] a H; cbn [firstn] in H; try destruct H.
  - subst. exists 0. split; [lia | reflexivity].
  - destruct (IH i a H) as [j [Hj E]]. exists (S j). split; [lia | exact E].
Qed.

Lemma in_skipn_nth {A} (l : list A) : forall i a, In a (skipn i l) ->
  exists j, i <= j /\ nth_error l j = Some a.
Proof.
  induction l as [|x l IH]; intros [|i] a H; cbn [skipn] in H; try destruct H.
  - subst. exists 0. split; [lia | reflexivity].
  - destruct (In_nth_error _ _ H) as [j E]. exists (S j). split; [lia | exact E].
  - destruct (IH i a H) as [j [Hj E]]. exists (S j). split; [lia | exact E].
Qed.

Lemma nth_split_at {A} (l : list A) : forall i e, nth_error l i = Some e ->
  l = firstn i l ++ e :: skipn (S i) l.
Proof.
  induction l as [|x l IH]; intros [|i] e H; try discriminate.
  - cbn in H. injection H as <-. reflexivity.
  - cbn [nth_error] in H. cbn [firstn skipn app]. f_equal. now apply IH.
Qed.

Lemma perm_insert {A} (l : list A) i x : Permutation (firstn i l ++ x :: skipn i l) (x :: l).
Proof. rewrite <- Permutation_middle. now rewrite firstn_skipn. Qed.

Lemma perm_remove {A} (l : list A) i e : nth_error l i = Some e ->
  Permutation l (e :: firstn i l ++ skipn (S i) l).
Proof. intros H. rewrite (nth_split_at l i e H) at 1. symmetry. apply Permutation_middle. Qed.

Lemma perm_replace {A} (l : list A) i (x : A) :
  Permutation (firstn i l ++ x :: skipn (S i) l) (x :: firstn i l ++ skipn (S i) l).
Proof. symmetry. apply Permutation_middle. Qed.

(* ---- order under surgery ----------------------------------------------------------------------- *)

Lemma AscK_keys l1 : forall l2, map ekey l1 = map ekey l2 -> AscK l1 -> AscK l2.
Proof.
  unfold AscK. induction l1 as [|a l1 IH]; intros [|b l2] E H; try discriminate; [constructor|].
  cbn [map] in E. injection E as Eab E. inversion H as [|? ? H' Hall]; subst.
  constructor; [now apply IH|].
  assert (G : Forall (ble (ekey a)) (map ekey l1)) by (apply (proj2 (Forall_map ekey (ble (ekey a)) l1)); exact Hall).
  rewrite E, Eab in G. exact (proj1 (Forall_map ekey (ble (ekey b)) l2) G).
Qed.

Lemma asc_insert es i x : AscK es ->
  (forall j e, j < i -> nth_error es j = Some e -> bytes_cmp (ekey e) (ekey x) = Lt) ->
  (forall j e, i <= j -> nth_error es j = Some e -> bytes_cmp (ekey e) (ekey x) = Gt) ->
  AscK (firstn i es ++ x :: skipn i es).
Proof.
  intros HA HL HG. unfold AscK in *. rewrite <- (firstn_skipn i es) in HA.
  apply SS_app_inv in HA. destruct HA as (S1 & S2 & C).
  apply StronglySorted_app; [exact S1 | |].
  - constructor; [exact S2|]. apply Forall_forall. intros b Hb.
    destruct (in_skipn_nth es i b Hb) as [j [Hj E]]. pose proof (HG j b Hj E) as G.
    apply bytes_cmp_gt_lt in G. unfold kle, ble. rewrite G. discriminate.
  - intros a b Ha [<-|Hb]; [|now apply C].
    destruct (in_firstn_nth es i a Ha) as [j [Hj E]]. pose proof (HL j a Hj E) as L.
    unfold kle, ble. rewrite L. discriminate.
Qed.

Lemma asc_remove es i e : AscK es -> nth_error es i = Some e ->
  AscK (firstn i es ++ skipn (S i) es).
Proof.
  intros HA He. unfold AscK in *. rewrite (nth_split_at es i e He) in HA.
  apply SS_app_inv in HA. destruct HA as (S1 & S2 & C).
  inversion S2 as [|? ? S2' _]; subst.
  apply StronglySorted_app; [exact S1 | exact S2' |].
  intros a b Ha Hb. apply C; [exact Ha | now right].
Qed.

Lemma asc_replace es i e x : AscK es -> nth_error es i = Some e -> ekey x = ekey e ->
  AscK (firstn i es ++ x :: skipn (S i) es).
Proof.
  intros HA He Ek. apply (AscK_keys es); [|exact HA].
  rewrite (nth_split_at es i e He) at 1. rewrite !map_app. cbn [map]. now rewrite Ek.
Qed.

(* ---- the two-step lookup ------------------------------------------------------------------------ *)

Lemma search_key_form es name t : Forall sf es -> slash_free name ->
  binary_search_by (fun e => cmp_entry_with_name e name t) es =
  binary_search_by (fun e => bytes_cmp (ekey e) (key name t)) es.
Proof.
  intros Hs Hn. apply binary_search_ext. intros e He. rewrite Forall_forall in Hs.
  unfold cmp_entry_with_name, ekey. apply name_cmp_key; [now apply Hs | exact Hn].
Qed.

Definition hit (es : list entry) (name : bytes) (i : nat) : Prop :=
  exists e, nth_error es i = Some e /\ e_name e = name.
Definition miss (es : list entry) (name : bytes) (t : bool) (i : nat) : Prop :=
  (forall e, In e es -> e_name e <> name) /\ i <= length es /\
  (forall j e, j < i -> nth_error es j = Some e -> bytes_cmp (ekey e) (key name t) = Lt) /\
  (forall j e, i <= j -> nth_error es j = Some e -> bytes_cmp (ekey e) (key name t) = Gt).

Lemma search2_spec es name must : Forall sf es -> AscK es -> slash_free name ->
  (exists i, search2 es name must = Ok (inl i) /\ hit es name i) \/
  (exists i, search2 es name must = Ok (inr i) /\ miss es name must i).
Proof.
  intros Hs HA Hn. unfold search2. rewrite !search_key_form by assumption.
  pose proof Hs as Hs'. rewrite Forall_forall in Hs'.
  assert (Hname : forall t e, In e es -> bytes_cmp (ekey e) (key name t) = Eq -> e_name e = name).
  { intros t e He E. apply bytes_cmp_eq_iff in E. unfold ekey in E.
    apply key_inj in E; [tauto | now apply Hs' | exact Hn]. }
  set (f := fun t (e : entry) => bytes_cmp (ekey e) (key name t)).
  destruct (bsearch_total (f false) es) as [[i|fi] H1]; fold (f false); rewrite H1; cbn [obind].
  - left. exists i. split; [reflexivity|]. destruct (bsearch_sound _ _ i H1) as [e [He Fe]].
    exists e. split; [exact He|]. apply (Hname false); [eapply nth_error_In; exact He | exact Fe].
  - destruct (bsearch_total (f true) es) as [[i|di] H2]; fold (f true); rewrite H2; cbn [obind].
    + left. exists i. split; [reflexivity|]. destruct (bsearch_sound _ _ i H2) as [e [He Fe]].
      exists e. split; [exact He|]. apply (Hname true); [eapply nth_error_In; exact He | exact Fe].
    + right. exists (if must then di else fi). split; [reflexivity|].
      pose proof (bsearch_err_partition (f false) es fi (asc_up_closed es _ HA) (asc_down_closed es _ HA) H1) as P1.
      pose proof (bsearch_err_partition (f true) es di (asc_up_closed es _ HA) (asc_down_closed es _ HA) H2) as P2.
      split.
      * intros e He En.
        destruct (In_nth_error _ _ He) as [j Hj].
        assert (Ek : ekey e = key name (is_tree (e_mode e))) by (unfold ekey; now rewrite En).
        destruct (is_tree (e_mode e)).
        -- destruct (bsearch_complete (f true) es (asc_up_closed es _ HA) (asc_down_closed es _ HA)) as [k Hk].
           { exists j, e. split; [exact Hj|]. unfold f. rewrite Ek. apply bytes_cmp_refl. }
           congruence.
        -- destruct (bsearch_complete (f false) es (asc_up_closed es _ HA) (asc_down_closed es _ HA)) as [k Hk].
           { exists j, e. split; [exact Hj|]. unfold f. rewrite Ek. apply bytes_cmp_refl. }
           congruence.
      * destruct must; [exact P2 | exact P1].
Qed.

(* ---- one step ------------------------------------------------------------------------------------ *)

Definition op_name_ok (op : edit_op) : Prop :=
  match op with
  | Upsert _ name _ => slash_free name
  | Remove name => slash_free name
  | WriteOut => True
  end.

Lemma inv_perm es es' : Permutation es es' -> AscK es' -> Inv es -> Inv es'.
Proof.
  intros P HA (Hs & _ & Hn). repeat split.
  - eapply Permutation_Forall; eassumption.
  - exact HA.
  - eapply Permutation_NoDup; [|exact Hn]. now apply Permutation_map.
Qed.

Lemma filter_asc (p : entry -> bool) es : AscK es -> AscK (filter p es).
Proof.
  unfold AscK. induction 1 as [|x l HS IH Hall]; cbn [filter]; [constructor|].
  destruct (p x); [|exact IH]. constructor; [exact IH|].
  rewrite Forall_forall in *. intros b Hb. apply filter_In in Hb. now apply Hall.
Qed.

Lemma filter_nodup_names (p : entry -> bool) es : NoDup (map e_name es) -> NoDup (map e_name (filter p es)).
Proof.
  induction es as [|x l IH]; cbn [filter map]; intros H; [constructor|].
  inversion H as [|? ? Hnot H']; subst. destruct (p x); [|now apply IH].
  cbn [map]. constructor; [|now apply IH]. intros Hin. apply Hnot.
  apply in_map_iff in Hin. destruct Hin as [e [E He]]. apply filter_In in He.
  apply in_map_iff. exists e. tauto.
Qed.

(* what one edit does to the entry list, as a relation (who is new, who is gone) *)
Definition step_effect (es : list entry) (op : edit_op) (es' : list entry) : Prop :=
  match op with
  | Upsert mode name oid =>
      (* an entry of that name is replaced, or a new one appears; nothing else changes *)
      (exists e rest, e_name e = name /\ Permutation es (e :: rest) /\
                      Permutation es' (mkEntry mode name oid :: rest)) \/
      ((forall e, In e es -> e_name e <> name) /\ Permutation es' (mkEntry mode name oid :: es))
  | Remove name =>
      (exists e, e_name e = name /\ Permutation es (e :: es')) \/
      ((forall e, In e es -> e_name e <> name) /\ es' = es)
  | WriteOut => es' = filter (fun e => negb (is_null_oid (e_oid e))) es
  end.

Lemma edit_step_spec es op : Inv es -> op_name_ok op ->
  (exists es' w, edit_step es op = Ok (es', w) /\ Inv es' /\ step_effect es op es') \/
  edit_step es op = Err EmptyPathComponent.
Proof.
  intros (Hs & HA & Hn) Hop. pose proof (conj Hs (conj HA Hn)) as HI.
  destruct op as [mode name oid | name | ]; cbn [edit_step op_name_ok] in *.
  - (* upsert *)
    destruct (is_empty name); [now right|]. left.
    destruct (search2_spec es name (is_tree mode) Hs HA Hop) as [[i [H Hh]] | [i [H Hm]]];
      rewrite H; cbn [lift_e obind].
    + destruct Hh as [e [He En]]. rewrite He.
      set (new := mkEntry mode (e_name e) oid).
      set (es1 := firstn i es ++ new :: skipn (S i) es).
      set (rest := firstn i es ++ skipn (S i) es).
      assert (P0 : Permutation es (e :: rest)) by (now apply perm_remove).
      assert (P1 : Permutation es1 (new :: rest)) by apply perm_replace.
      assert (Hs1 : Forall sf es1).
      { eapply Permutation_Forall; [symmetry; exact P1|].
        pose proof (Permutation_Forall P0 Hs) as F. inversion F; subst. constructor; assumption. }
      assert (Hn1 : NoDup (map e_name es1)).
      { eapply Permutation_NoDup; [apply Permutation_map; symmetry; exact P1|].
        pose proof (Permutation_NoDup (Permutation_map e_name P0) Hn) as N. exact N. }
      destruct (Bool.eqb (is_tree (e_mode e)) (is_tree mode)) eqn:Ek; cbn [negb].
      * exists es1, None. split; [reflexivity|]. split.
        -- repeat split; [exact Hs1 | | exact Hn1].
           apply (asc_replace es i e); [exact HA | exact He |].
           apply Bool.eqb_prop in Ek. unfold ekey, new. cbn [e_name e_mode]. now rewrite Ek.
        -- left. exists e, rest. subst new. split; [exact En|]. split; [exact P0|]. rewrite <- En. exact P1.
      * exists (sort_entries es1), None. split; [reflexivity|]. split.
        -- repeat split.
           ++ eapply Permutation_Forall; [symmetry; apply sort_perm | exact Hs1].
           ++ now apply sort_asc.
           ++ eapply Permutation_NoDup; [apply Permutation_map; symmetry; apply sort_perm | exact Hn1].
        -- left. exists e, rest. subst new. split; [exact En|]. split; [exact P0|].
           rewrite sort_perm. rewrite <- En. exact P1.
    + destruct Hm as (Hno & Hlen & HL & HG).
      apply Nat.leb_le in Hlen. rewrite Hlen.
      set (new := mkEntry mode name oid).
      exists (firstn i es ++ new :: skipn i es), None. split; [reflexivity|].
      assert (P : Permutation (firstn i es ++ new :: skipn i es) (new :: es)) by apply perm_insert.
      split.
      * repeat split.
        -- eapply Permutation_Forall; [symmetry; exact P|]. constructor; [exact Hop | exact Hs].
        -- apply asc_insert; [exact HA | exact HL | exact HG].
        -- eapply Permutation_NoDup; [apply Permutation_map; symmetry; exact P|].
           cbn [map]. constructor; [|exact Hn]. intros Hin. apply in_map_iff in Hin.
           destruct Hin as [e [E He]]. exact (Hno e He E).
      * right. split; [exact Hno | exact P].
  - (* remove *)
    destruct (is_empty name); [now right|]. left.
    destruct (search2_spec es name false Hs HA Hop) as [[i [H Hh]] | [i [H Hm]]];
      rewrite H; cbn [lift_e obind].
    + destruct Hh as [e [He En]].
      assert (Hi : i < length es) by (apply nth_error_Some; congruence).
      apply Nat.ltb_lt in Hi. rewrite Hi.
      exists (firstn i es ++ skipn (S i) es), None. split; [reflexivity|].
      pose proof (perm_remove es i e He) as P0. split.
      * repeat split.
        -- pose proof (Permutation_Forall P0 Hs) as F. now inversion F.
        -- now apply (asc_remove es i e).
        -- pose proof (Permutation_NoDup (Permutation_map e_name P0) Hn) as N. now inversion N.
      * left. exists e. auto.
    + exists es, None. split; [reflexivity|]. split; [exact HI|]. right. split; [apply Hm | reflexivity].
  - (* write *)
    left. eexists _, _. split; [reflexivity|]. split; [|reflexivity]. repeat split.
    + apply Forall_forall. intros e He. apply filter_In in He. rewrite Forall_forall in Hs. now apply Hs.
    + now apply filter_asc.
    + now apply filter_nodup_names.
Qed.

(* ---- whole histories ------------------------------------------------------------------------------ *)

(* run a history; collect what every write handed to `out` *)
Fixpoint edit_run (es : list entry) (ops : list edit_op) : outcome (list entry * list (list entry)) eerr :=
  match ops with
  | [] => Ok (es, [])
  | op :: ops' =>
      match edit_step es op with
      | Ok (es', w) =>
          match edit_run es' ops' with
          | Ok (fin, ws) => Ok (fin, match w with Some _ => es' :: ws | None => ws end)
          | Err e => Err e
          | Panic => Panic
          | OutOfFuel => OutOfFuel
          end
      | Err e => Err e
      | Panic => Panic
      | OutOfFuel => OutOfFuel
      end
  end.

Lemma inv_nil : Inv [].
Proof. repeat split; constructor. Qed.

Lemma edit_run_spec ops : forall es, Inv es -> Forall op_name_ok ops ->
  (exists fin ws, edit_run es ops = Ok (fin, ws) /\ Inv fin /\ Forall Inv ws) \/
  edit_run es ops = Err EmptyPathComponent.
Proof.
  induction ops as [|op ops IH]; intros es HI Hops; cbn [edit_run].
  - left. exists es, []. auto.
  - inversion Hops as [|? ? Hop Hops']; subst.
    destruct (edit_step_spec es op HI Hop) as [(es' & w & H & HI' & _) | H]; rewrite H; [|now right].
    destruct (IH es' HI' Hops') as [(fin & ws & Hr & Hf & Hw) | Hr]; rewrite Hr; [|now right].
    left. eexists _, _. split; [reflexivity|]. split; [exact Hf|].
    destruct w; [constructor; assumption | exact Hw].
Qed.

(* a tree in the invariant is the git arrangement of its own entries, and serialises without panic *)
Lemma inv_unique_keys es : Inv es -> NoDup (map ekey es).
Proof.
  intros (Hs & _ & Hn). induction es as [|e es IH]; cbn [map]; [constructor|].
  inversion Hs as [|? ? Hse Hs']; subst. cbn [map] in Hn. inversion Hn as [|? ? Hnot Hn']; subst.
  constructor; [|now apply IH]. intros Hin. apply Hnot.
  apply in_map_iff in Hin. destruct Hin as [e' [E He']]. apply in_map_iff. exists e'. split; [|exact He'].
  rewrite Forall_forall in Hs'. unfold ekey in E. apply key_inj in E; [tauto | now apply Hs' | exact Hse].
Qed.

Lemma inv_is_sorted_form es : Inv es -> sort_entries es = es.
Proof. intros (Hs & HA & _). now apply sort_sorted_id. Qed.

Lemma inv_is_git_arrangement es l : Inv es -> Forall nf es ->
  Permutation l es -> Sorted git_le l -> l = es.
Proof.
  intros HI Hnf P S. rewrite <- (inv_is_sorted_form es HI).
  apply sort_is_the_git_order; try assumption; [apply HI | now apply inv_unique_keys].
Qed.
