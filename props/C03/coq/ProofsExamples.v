(* C03 — concrete witnesses: the hypotheses of the theorems are satisfiable by non-trivial trees. *)
From Coq Require Import Lia Permutation Sorted.
From GixV.Base Require Import Bytes BytesFacts Outcome.
From GixV.C03 Require Import Model Spec ProofsCmp ProofsSort ProofsSearch ProofsWrite.
Local Open Scope N_scope.

Definition oid1 : bytes := repeat x01 20.
(* the tree  a- a. a(blob) a(tree) a0 ab  — names that are prefixes of each other, bytes on both
   sides of '/', a file and a directory of the same name *)
Definition ex_sorted : list entry :=
  [ mkEntry 33188 (bs "a") oid1; mkEntry 33261 (bs "a-") oid1; mkEntry 40960 (bs "a.") oid1;
    mkEntry 16384 (bs "a") oid1; mkEntry 57344 (bs "a0") oid1; mkEntry 16384 (bs "ab") oid1 ].
Definition ex_shuffled : list entry :=
  [ mkEntry 16384 (bs "ab") oid1; mkEntry 16384 (bs "a") oid1; mkEntry 57344 (bs "a0") oid1;
    mkEntry 33188 (bs "a") oid1; mkEntry 40960 (bs "a.") oid1; mkEntry 33261 (bs "a-") oid1 ].

Ltac no_byte := unfold sf, nf, slash_free, nul_free; cbn; intuition discriminate.

Lemma ex_sf : Forall sf ex_sorted. Proof. repeat constructor; no_byte. Qed.
Lemma ex_nf : Forall nf ex_sorted. Proof. repeat constructor; no_byte. Qed.
Lemma ex_sf' : Forall sf ex_shuffled. Proof. repeat constructor; no_byte. Qed.
Lemma ex_nf' : Forall nf ex_shuffled. Proof. repeat constructor; no_byte. Qed.
Lemma ex_u16 : Forall (fun e => u16 (e_mode e)) ex_shuffled.
Proof. repeat constructor; unfold u16; cbn; lia. Qed.
Lemma ex_nodup : NoDup (map ekey ex_shuffled).
Proof.
  vm_compute. repeat constructor; cbn [In]; intuition discriminate.
Qed.
Lemma ex_git_sorted : Sorted git_le ex_sorted.
Proof. repeat constructor; unfold git_le; vm_compute; discriminate. Qed.
Lemma ex_sort : sort_entries ex_shuffled = ex_sorted.
Proof. vm_compute. reflexivity. Qed.
Lemma ex_perm : Permutation ex_sorted ex_shuffled.
Proof. rewrite <- ex_sort. apply sort_perm. Qed.
Lemma ex_bisect_dir : bisect_entry ex_sorted (bs "a") true = Ok (Some (mkEntry 16384 (bs "a") oid1)).
Proof. vm_compute. reflexivity. Qed.
Lemma ex_bisect_file : bisect_entry ex_sorted (bs "a") false = Ok (Some (mkEntry 33188 (bs "a") oid1)).
Proof. vm_compute. reflexivity. Qed.
Lemma ex_bisect_absent : bisect_entry ex_sorted (bs "a0") true = Ok None.
Proof. vm_compute. reflexivity. Qed.
(* the slash rule at work: tree "a" sorts after "a-" and "a." but before "a0" *)
Lemma ex_slash_rule :
  entry_cmp (mkEntry 16384 (bs "a") oid1) (mkEntry 33188 (bs "a.") oid1) = Gt /\
  entry_cmp (mkEntry 16384 (bs "a") oid1) (mkEntry 33188 (bs "a0") oid1) = Lt /\
  entry_cmp (mkEntry 33188 (bs "a") oid1) (mkEntry 33188 (bs "a.") oid1) = Lt.
Proof. vm_compute. auto. Qed.
(* outside the domain the comparison is NOT an order: with a '/' in a name it calls two different
   keys Equal (git's base_name_compare does the same) *)
Lemma ex_slash_in_name_not_an_order :
  entry_cmp (mkEntry 16384 (bs "a") oid1) (mkEntry 33188 (bs "a/b") oid1) = Eq /\
  git_cmp (mkEntry 16384 (bs "a") oid1) (mkEntry 33188 (bs "a/b") oid1) = Eq.
Proof. vm_compute. auto. Qed.
(* and with a NUL in a name gix and git differ: None < Some(0) for gix, 0 = 0 for git *)
Lemma ex_nul_in_name_differs :
  entry_cmp (mkEntry 33188 (bs "a") oid1) (mkEntry 33188 [x61; x00] oid1) = Lt /\
  git_cmp (mkEntry 33188 (bs "a") oid1) (mkEntry 33188 [x61; x00] oid1) = Eq.
Proof. vm_compute. auto. Qed.

(* ---- editor ---- *)
From GixV.C03 Require Import ProofsEdit.
Definition ex_history : list edit_op :=
  [ Upsert 33188 (bs "a") oid1; Upsert 33188 (bs "a.") oid1; Upsert 33188 (bs "a0") oid1;
    WriteOut; Upsert 16384 (bs "a") oid1; Remove (bs "a0"); WriteOut ].
Lemma ex_history_ok : Forall op_name_ok ex_history.
Proof. repeat constructor; cbn [op_name_ok]; unfold slash_free; cbn; intuition discriminate. Qed.
(* turning the file `a` into a directory moves it behind `a.` *)
Lemma ex_history_run :
  edit_run [] ex_history =
  Ok ([ mkEntry 33188 (bs "a.") oid1; mkEntry 16384 (bs "a") oid1 ],
      [ [ mkEntry 33188 (bs "a") oid1; mkEntry 33188 (bs "a.") oid1; mkEntry 33188 (bs "a0") oid1 ];
        [ mkEntry 33188 (bs "a.") oid1; mkEntry 16384 (bs "a") oid1 ] ]).
Proof. vm_compute. reflexivity. Qed.
