(* C03 — executable model of gix-object's tree entry ordering, sorting, lookup and serialisation.
   Sources (pinned tree in /repo):
     gix-object/src/tree/mod.rs      EntryMode::{is_tree, as_bytes}, Ord for Entry / EntryRef
     gix-object/src/tree/editor.rs   cmp_entry_with_name (same comparison against a bare name)
     gix-object/src/tree/ref_iter.rs TreeRef::bisect_entry
     gix-object/src/tree/write.rs    WriteTo for Tree / TreeRef (debug_assert sorted, NUL check)
     core::slice::binary_search_by   (Rust 1.95: branch-free loop, transcribed below)
     alloc::slice::sort (stable)     (<= 20 elements: insertion_sort_shift_left; see [sort_entries])
   No proofs in this file. *)
From GixV.Base Require Import Bytes Outcome.
Local Open Scope N_scope.
Local Open Scope outcome_scope.

Record entry := mkEntry { e_mode : N (* u16 *); e_name : bytes; e_oid : bytes }.

(* ---- EntryMode ------------------------------------------------------------------------ *)
Definition IFMT : N := 61440.        (* 0o170000 *)
Definition MODE_TREE : N := 16384.   (* 0o040000  EntryKind::Tree *)
Definition MODE_BLOB : N := 33188.   (* 0o100644  EntryKind::Blob *)

(* pub const fn is_tree(&self) -> bool { self.0 & IFMT == EntryKind::Tree as u16 } *)
Definition is_tree (m : N) : bool := N.eqb (N.land m IFMT) MODE_TREE.

(* EntryMode::as_bytes: octal digits into `backing : [u8; 6]`, then reversed.
   `backing[nb] = ..` with nb = 6 would be an index panic: fuel 6 = the six slots. *)
Fixpoint octal_digits (slots : nat) (n : N) (acc : bytes) : outcome bytes unit :=
  if N.eqb n 0 then Ok acc
  else match slots with
       | O => Panic
       | S s => octal_digits s (N.div n 8) (N2b (48 + N.modulo n 8) :: acc)
       end.
Definition mode_as_bytes (m : N) : outcome bytes unit :=
  if N.eqb m 0 then Ok (bs "0") else octal_digits 6 m [].

(* ---- Ord for Entry / EntryRef, cmp_entry_with_name --------------------------------------
     let common = a.filename.len().min(b.filename.len());
     a.filename[..common].cmp(&b.filename[..common]).then_with(|| {
         let a = a.filename.get(common).or_else(|| a.mode.is_tree().then_some(&b'/'));
         let b = b.filename.get(common).or_else(|| b.mode.is_tree().then_some(&b'/'));
         a.cmp(&b)                                   // Option<&u8>: None < Some(_)
     })
   `[..common]` cannot panic (common <= both lengths), so [firstn] is exact. *)
Definition slash : byte := x2f.
Definition next_byte (name : bytes) (common : nat) (tree : bool) : option byte :=
  match nth_error name common with
  | Some b => Some b
  | None => if tree then Some slash else None
  end.
Definition opt_byte_cmp (a b : option byte) : comparison :=
  match a, b with
  | None, None => Eq
  | None, Some _ => Lt
  | Some _, None => Gt
  | Some x, Some y => N.compare (b2N x) (b2N y)
  end.
Definition name_cmp (an : bytes) (atree : bool) (bn : bytes) (btree : bool) : comparison :=
  let common := Nat.min (length an) (length bn) in
  match bytes_cmp (firstn common an) (firstn common bn) with
  | Eq => opt_byte_cmp (next_byte an common atree) (next_byte bn common btree)
  | c => c
  end.
(* <Entry as Ord>::cmp and <EntryRef as Ord>::cmp are the same text *)
Definition entry_cmp (a b : entry) : comparison :=
  name_cmp (e_name a) (is_tree (e_mode a)) (e_name b) (is_tree (e_mode b)).
(* editor.rs: fn cmp_entry_with_name(a: &tree::Entry, filename: &BStr, is_tree: bool) *)
Definition cmp_entry_with_name (a : entry) (filename : bytes) (tree : bool) : comparison :=
  name_cmp (e_name a) (is_tree (e_mode a)) filename tree.

(* derived PartialEq of Entry / EntryRef: all three fields *)
Definition entry_eqb (a b : entry) : bool :=
  N.eqb (e_mode a) (e_mode b) && bytes_eqb (e_name a) (e_name b) && bytes_eqb (e_oid a) (e_oid b).
Fixpoint entries_eqb (a b : list entry) : bool :=
  match a, b with
  | [], [] => true
  | x :: a', y :: b' => entry_eqb x y && entries_eqb a' b'
  | _, _ => false
  end.

(* ---- Vec::sort() ------------------------------------------------------------------------
   `entries.sort()` is the stable sort with is_less = |a, b| a.lt(b) = (a.cmp(b) == Less).
   For len <= 20 the standard library runs insertion_sort_shift_left(v, 1, is_less): each element,
   left to right, is moved left past every predecessor it is less than.  [ins_rev] is exactly that
   step on the reversed sorted prefix, so the model is exact for ANY comparison on <= 20 elements;
   for longer lists it is the unique stable-sort result whenever the comparison is a total preorder
   (names without '/': theorem cmp_key), which is what driftsort guarantees. *)
Definition is_lt (c : comparison) : bool := match c with Lt => true | _ => false end.
Fixpoint ins_rev (x : entry) (r : list entry) : list entry :=
  match r with
  | [] => [x]
  | y :: r' => if is_lt (entry_cmp x y) then y :: ins_rev x r' else x :: r
  end.
Definition sort_entries (es : list entry) : list entry :=
  rev (fold_left (fun r x => ins_rev x r) es []).

(* ---- core::slice::binary_search_by (Rust 1.95) --------------------------------------------
     let mut size = self.len();  if size == 0 { return Err(0); }  let mut base = 0usize;
     while size > 1 { let half = size / 2; let mid = base + half;
                      let cmp = f(unsafe { self.get_unchecked(mid) });
                      base = if cmp == Greater { base } else { mid };  size -= half; }
     let cmp = f(unsafe { self.get_unchecked(base) });
     if cmp == Equal { Ok(base) } else { Err(base + (cmp == Less) as usize) }
   get_unchecked out of range would be UB; the model makes it Panic and the proofs show it
   never happens.  Result: inl i = Ok(i), inr i = Err(i). *)
Fixpoint bs_loop {A} (fuel : nat) (f : A -> comparison) (l : list A) (base size : nat)
  : outcome nat unit :=
  if Nat.leb size 1 then Ok base
  else match fuel with
       | O => OutOfFuel
       | S fuel' =>
           let half := Nat.div size 2 in
           let mid := (base + half)%nat in
           match nth_error l mid with
           | None => Panic
           | Some e =>
               let base' := match f e with Gt => base | _ => mid end in
               bs_loop fuel' f l base' (size - half)%nat
           end
       end.
Definition binary_search_by {A} (f : A -> comparison) (l : list A) : outcome (nat + nat) unit :=
  let size := length l in
  if Nat.eqb size 0 then Ok (inr O)
  else
    base <- bs_loop size f l O size ;;
    match nth_error l base with
    | None => Panic
    | Some e =>
        match f e with
        | Eq => Ok (inl base)
        | Lt => Ok (inr (base + 1)%nat)
        | Gt => Ok (inr base)
        end
    end.

(* ---- TreeRef::bisect_entry ----------------------------------------------------------------
     let search = EntryRef { mode: if is_dir { Tree } else { Blob }.into(), filename: name, oid: &NULL };
     self.entries.binary_search_by(|e| e.cmp(&search)).ok().map(|idx| self.entries[idx]) *)
Definition null_oid : bytes := repeat x00 20.
Definition bisect_entry (es : list entry) (name : bytes) (is_dir : bool)
  : outcome (option entry) unit :=
  let search := mkEntry (if is_dir then MODE_TREE else MODE_BLOB) name null_oid in
  r <- binary_search_by (fun e => entry_cmp e search) es ;;
  match r with
  | inl idx => match nth_error es idx with Some e => Ok (Some e) | None => Panic end
  | inr _ => Ok None
  end.

(* ---- WriteTo for Tree / TreeRef -------------------------------------------------------------
   debug_assert_eq!(entries, sorted(entries)) (the harness is a debug build), then per entry
   mode-octal SP name NUL oid; a NUL inside a name is Error::NullbyteInFilename. *)
Inductive werr := NulInName.
Definition has_nul (n : bytes) : bool := existsb (fun b => beqb b x00) n.
Definition lift_unit {A} (o : outcome A unit) : outcome A werr :=
  match o with Ok a => Ok a | Err _ => Panic | Panic => Panic | OutOfFuel => OutOfFuel end.
Fixpoint write_entries (es : list entry) : outcome bytes werr :=
  match es with
  | [] => Ok []
  | e :: es' =>
      m <- lift_unit (mode_as_bytes (e_mode e)) ;;
      if has_nul (e_name e) then Err NulInName
      else
        rest <- write_entries es' ;;
        Ok (m ++ sp :: e_name e ++ x00 :: e_oid e ++ rest)
  end.
Definition write_to (es : list entry) : outcome bytes werr :=
  if entries_eqb es (sort_entries es) then write_entries es else Panic.

(* ---- tree::Editor restricted to one level --------------------------------------------------
   Editor::upsert([name], kind, id) / Editor::remove([name]) / Editor::write(out) on a root tree,
   i.e. upsert_or_remove_at_pathbuf with a single path component (is_last = true, UpsertMode::Normal,
   so no sub-tree is ever loaded) and write_at_pathbuf with no cached sub-trees:
     - lookup: binary_search_by(cmp_entry_with_name(e, name, false)), on Err(file_idx) a second
       search with `true`; both missing: insertion index = dir index if the new kind is a tree,
       else the file index
     - hit + upsert: overwrite oid and mode in place; entries.sort() when tree-ness changed
     - hit + remove: entries.remove(idx);   miss + upsert: entries.insert(idx, new);  miss + remove: nothing
     - write: entries.retain(|e| !e.oid.is_null()); out(&tree)  (the harness' `out` is Tree::write_to)
   `kind.into()` is the mode constant of the EntryKind; `kind == EntryKind::Tree` iff is_tree of it. *)
Inductive edit_op :=
| Upsert (mode : N) (name : bytes) (oid : bytes)
| Remove (name : bytes)
| WriteOut.
Inductive eerr := EmptyPathComponent.

Definition search2 (es : list entry) (name : bytes) (must_be_tree : bool) : outcome (nat + nat) unit :=
  r1 <- binary_search_by (fun e => cmp_entry_with_name e name false) es ;;
  match r1 with
  | inl i => Ok (inl i)
  | inr file_idx =>
      r2 <- binary_search_by (fun e => cmp_entry_with_name e name true) es ;;
      match r2 with
      | inl i => Ok (inl i)
      | inr dir_idx => Ok (inr (if must_be_tree then dir_idx else file_idx))
      end
  end.

Definition lift_e {A} (o : outcome A unit) : outcome A eerr :=
  match o with Ok a => Ok a | Err _ => Panic | Panic => Panic | OutOfFuel => OutOfFuel end.

Definition is_empty (n : bytes) : bool := match n with [] => true | _ => false end.
Definition is_null_oid (o : bytes) : bool := forallb (fun b => beqb b x00) o.

(* state: the root tree's entries.  Result: new state, and what `out` saw if this was a write *)
Definition edit_step (es : list entry) (op : edit_op)
  : outcome (list entry * option (outcome bytes werr)) eerr :=
  match op with
  | Upsert mode name oid =>
      if is_empty name then Err EmptyPathComponent
      else
        let must := is_tree mode in
        r <- lift_e (search2 es name must) ;;
        match r with
        | inl idx =>
            match nth_error es idx with
            | None => Panic                                    (* cursor.entries[idx] *)
            | Some e =>
                let needs_sorting := negb (Bool.eqb (is_tree (e_mode e)) must) in
                let es' := firstn idx es ++ mkEntry mode (e_name e) oid :: skipn (S idx) es in
                Ok (if needs_sorting then sort_entries es' else es', None)
            end
        | inr idx =>
            if Nat.leb idx (length es)                         (* Vec::insert panics beyond len *)
            then Ok (firstn idx es ++ mkEntry mode name oid :: skipn idx es, None)
            else Panic
        end
  | Remove name =>
      if is_empty name then Err EmptyPathComponent
      else
        r <- lift_e (search2 es name false) ;;
        match r with
        | inl idx =>
            if Nat.ltb idx (length es)                         (* Vec::remove panics at len *)
            then Ok (firstn idx es ++ skipn (S idx) es, None)
            else Panic
        | inr _ => Ok (es, None)
        end
  | WriteOut =>
      let kept := filter (fun e => negb (is_null_oid (e_oid e))) es in
      Ok (kept, Some (write_to kept))
  end.
