(* C03 — the composed statements quoted by Properties.v *)
From Coq Require Import Lia Permutation Sorted.
From GixV.Base Require Import Bytes BytesFacts Outcome.
From GixV.C03 Require Import Model Spec ProofsCmp ProofsSort ProofsSearch ProofsWrite.

(* Whatever order the entries arrive in, and whichever git-ordered arrangement git picks, the bytes
   gitoxide writes after sort() are the bytes of that arrangement: same bytes, same object id. *)
Lemma tree_bytes_match_git es l :
  Forall sf es -> Forall nf es -> Forall (fun e => u16 (e_mode e)) es -> NoDup (map ekey es) ->
  Permutation l es -> Sorted git_le l ->
  exists b, write_to (sort_entries es) = Ok b /\ write_entries l = Ok b.
Proof.
  intros Hs Hn Hm Hk P S.
  destruct (write_sorted_ok es Hs Hn Hm) as [b [H1 H2]]. exists b. split; [exact H1|].
  now rewrite (sort_is_the_git_order es l Hs Hn Hk P S).
Qed.

Lemma bisect_finds_iff es name d :
  Forall sf es -> Forall nf es -> slash_free name -> Sorted git_le es ->
  (exists r, bisect_entry es name d = Ok r) /\
  ((exists e, bisect_entry es name d = Ok (Some e)) <->
   (exists e, In e es /\ e_name e = name /\ is_tree (e_mode e) = d)) /\
  (forall e, bisect_entry es name d = Ok (Some e) ->
             In e es /\ e_name e = name /\ is_tree (e_mode e) = d).
Proof.
  intros Hs Hn Hname S. pose proof (git_sorted_AscK es Hs Hn S) as HA.
  split; [apply bisect_total|]. split.
  - split.
    + intros [e He]. exists e. now apply bisect_sound.
    + now apply bisect_complete.
  - intros e He. now apply bisect_sound.
Qed.

Lemma bisect_is_linear_find_git es name d :
  Forall sf es -> Forall nf es -> slash_free name -> Sorted git_le es -> NoDup (map ekey es) ->
  bisect_entry es name d = Ok (linear_find es name d).
Proof.
  intros Hs Hn Hname S Hk. apply bisect_is_linear_find; try assumption. now apply git_sorted_AscK.
Qed.

(* lookups in a tree gitoxide itself sorted *)
Lemma bisect_after_sort es name d :
  Forall sf es -> slash_free name -> NoDup (map ekey es) ->
  bisect_entry (sort_entries es) name d = Ok (linear_find es name d).
Proof.
  intros Hs Hname Hk.
  assert (Hs' : Forall sf (sort_entries es)) by (eapply Permutation_Forall; [symmetry; apply sort_perm | exact Hs]).
  assert (Hk' : NoDup (map ekey (sort_entries es))).
  { eapply Permutation_NoDup; [|exact Hk]. apply Permutation_map. symmetry. apply sort_perm. }
  rewrite bisect_is_linear_find; try assumption; [|now apply sort_asc]. f_equal.
  (* both scans return the unique entry with that key, or nothing *)
  unfold linear_find.
  destruct (find (matches name d) es) as [e|] eqn:F.
  - apply find_some in F. destruct F as [Hin Hm].
    destruct (find (matches name d) (sort_entries es)) as [e'|] eqn:F'.
    + apply find_some in F'. destruct F' as [Hin' Hm']. f_equal.
      apply (key_in_inj es Hk); [eapply Permutation_in; [apply sort_perm|exact Hin'] | exact Hin |].
      apply matches_iff in Hm. apply matches_iff in Hm'. unfold ekey.
      destruct Hm as [-> ->]. destruct Hm' as [-> ->]. reflexivity.
    + pose proof (find_none _ _ F' e) as N. rewrite N in Hm; [discriminate|].
      eapply Permutation_in; [symmetry; apply sort_perm | exact Hin].
  - destruct (find (matches name d) (sort_entries es)) as [e'|] eqn:F'; [|reflexivity].
    apply find_some in F'. destruct F' as [Hin' Hm'].
    pose proof (find_none _ _ F e') as N. rewrite N in Hm'; [discriminate|].
    eapply Permutation_in; [apply sort_perm | exact Hin'].
Qed.
