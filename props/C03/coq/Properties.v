From GixV.C03 Require Import Model Spec.
Example placeholder : True. Proof. exact I. Qed.
