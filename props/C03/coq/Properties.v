(* C03 — Tree entry ordering and name lookup match git.  Statements only; proofs are in Proofs*.v.
   Vocabulary:  entry_cmp = <Entry as Ord>::cmp = <EntryRef as Ord>::cmp (Model.v);
   git_cmp = git's base_name_compare (Spec.v);  ekey e = name ++ "/" for directories, name otherwise;
   sf / nf = the name has no '/' / no NUL;  git_le a b = git_cmp a b <> Gt;
   Sorted git_le l = every adjacent pair is in git's order (what git's fsck calls a sorted tree). *)
From Coq Require Import Permutation Sorted.
From GixV.Base Require Import Bytes Outcome.
From GixV.C03 Require Import Model Spec ProofsCmp ProofsSort ProofsSearch ProofsWrite ProofsMain ProofsEdit ProofsExamples.

(* ---- the comparison ---------------------------------------------------------------------------- *)

Theorem cmp_is_git : forall a b,
  nul_free (e_name a) -> nul_free (e_name b) -> entry_cmp a b = git_cmp a b.
Proof. exact entry_cmp_is_git. Qed.

Theorem cmp_is_key_order : forall a b,
  slash_free (e_name a) -> slash_free (e_name b) -> entry_cmp a b = bytes_cmp (ekey a) (ekey b).
Proof. exact entry_cmp_key. Qed.

Theorem cmp_eq_iff_same_name_and_kind : forall a b,
  slash_free (e_name a) -> slash_free (e_name b) ->
  (entry_cmp a b = Eq <-> e_name a = e_name b /\ is_tree (e_mode a) = is_tree (e_mode b)).
Proof. exact entry_cmp_eq_iff. Qed.

Theorem cmp_antisymmetric : forall a b,
  slash_free (e_name a) -> slash_free (e_name b) -> entry_cmp b a = CompOpp (entry_cmp a b).
Proof. exact entry_cmp_antisym. Qed.

Theorem cmp_transitive : forall a b c,
  slash_free (e_name a) -> slash_free (e_name b) -> slash_free (e_name c) ->
  entry_cmp a b = Lt -> entry_cmp b c = Lt -> entry_cmp a c = Lt.
Proof. exact entry_cmp_lt_trans. Qed.

Theorem cmp_entry_with_name_is_cmp : forall a name tree oid,
  cmp_entry_with_name a name tree = entry_cmp a (mkEntry (if tree then MODE_TREE else MODE_BLOB) name oid).
Proof. exact cmp_entry_with_name_is_entry_cmp. Qed.

(* ---- sorting and writing ------------------------------------------------------------------------ *)

Theorem sort_is_permutation : forall es, Permutation (sort_entries es) es.
Proof. exact sort_perm. Qed.

Theorem sort_yields_git_order : forall es,
  Forall sf es -> Forall nf es -> Sorted git_le (sort_entries es).
Proof. exact sort_git_sorted. Qed.

Theorem sort_is_the_only_git_order : forall es l,
  Forall sf es -> Forall nf es -> NoDup (map ekey es) ->
  Permutation l es -> Sorted git_le l -> l = sort_entries es.
Proof. exact sort_is_the_git_order. Qed.

Theorem sort_ignores_input_order : forall es1 es2,
  Forall sf es1 -> NoDup (map ekey es1) -> Permutation es1 es2 -> sort_entries es1 = sort_entries es2.
Proof. exact sort_order_independent. Qed.

Theorem written_tree_is_gits_tree : forall es l,
  Forall sf es -> Forall nf es -> Forall (fun e => u16 (e_mode e)) es -> NoDup (map ekey es) ->
  Permutation l es -> Sorted git_le l ->
  exists b, write_to (sort_entries es) = Ok b /\ write_entries l = Ok b.
Proof. exact tree_bytes_match_git. Qed.

Theorem write_after_sort_never_panics : forall es,
  Forall sf es -> Forall nf es -> Forall (fun e => u16 (e_mode e)) es ->
  exists b, write_to (sort_entries es) = Ok b /\ write_entries (sort_entries es) = Ok b.
Proof. exact write_sorted_ok. Qed.

(* ---- lookup ------------------------------------------------------------------------------------- *)

Theorem binary_search_never_panics_or_hangs : forall (A : Type) (f : A -> comparison) (l : list A),
  exists r, binary_search_by f l = Ok r.
Proof. exact @bsearch_total. Qed.

Theorem binary_search_hit_is_equal : forall (A : Type) (f : A -> comparison) (l : list A) i,
  binary_search_by f l = Ok (inl i) -> exists e, nth_error l i = Some e /\ f e = Eq.
Proof. exact @bsearch_sound. Qed.

Theorem bisect_never_panics : forall es name d, exists r, bisect_entry es name d = Ok r.
Proof. exact bisect_total. Qed.

Theorem bisect_finds_exactly_existing : forall es name d,
  Forall sf es -> Forall nf es -> slash_free name -> Sorted git_le es ->
  (exists r, bisect_entry es name d = Ok r) /\
  ((exists e, bisect_entry es name d = Ok (Some e)) <->
   (exists e, In e es /\ e_name e = name /\ is_tree (e_mode e) = d)) /\
  (forall e, bisect_entry es name d = Ok (Some e) ->
             In e es /\ e_name e = name /\ is_tree (e_mode e) = d).
Proof. exact bisect_finds_iff. Qed.

Theorem bisect_iff_linear : forall es name d,
  Forall sf es -> Forall nf es -> slash_free name -> Sorted git_le es -> NoDup (map ekey es) ->
  bisect_entry es name d = Ok (linear_find es name d).
Proof. exact bisect_is_linear_find_git. Qed.

Theorem bisect_in_own_sorted_tree : forall es name d,
  Forall sf es -> slash_free name -> NoDup (map ekey es) ->
  bisect_entry (sort_entries es) name d = Ok (linear_find es name d).
Proof. exact bisect_after_sort. Qed.

(* ---- the one-level tree editor (upsert / remove / write of single-component paths) ------------------
   Inv es = names '/'-free, entries in key order, names unique.  step_effect says which entry is
   new and which is gone (ProofsEdit.v). *)

Theorem binary_search_miss_is_insertion_point :
  forall (A : Type) (f : A -> comparison) (l : list A) i,
  up_closed_gt f l -> down_closed_lt f l -> binary_search_by f l = Ok (inr i) ->
  i <= length l /\
  (forall j e, j < i -> nth_error l j = Some e -> f e = Lt) /\
  (forall j e, i <= j -> nth_error l j = Some e -> f e = Gt).
Proof. exact @bsearch_err_partition. Qed.

Theorem editor_step_keeps_git_order : forall es op,
  Inv es -> op_name_ok op ->
  (exists es' w, edit_step es op = Ok (es', w) /\ Inv es' /\ step_effect es op es') \/
  edit_step es op = Err EmptyPathComponent.
Proof. exact edit_step_spec. Qed.

Theorem editor_history_keeps_git_order : forall ops es,
  Inv es -> Forall op_name_ok ops ->
  (exists fin ws, edit_run es ops = Ok (fin, ws) /\ Inv fin /\ Forall Inv ws) \/
  edit_run es ops = Err EmptyPathComponent.
Proof. exact edit_run_spec. Qed.

Theorem editor_tree_is_gits_arrangement : forall es l,
  Inv es -> Forall nf es -> Permutation l es -> Sorted git_le l -> l = es.
Proof. exact inv_is_git_arrangement. Qed.

Theorem editor_tree_passes_the_write_assertion : forall es, Inv es -> sort_entries es = es.
Proof. exact inv_is_sorted_form. Qed.

(* ---- non-vacuity: a tree with prefix-related names on both sides of '/' meets every hypothesis ---- *)

Example hyp_slash_free : Forall sf ex_sorted /\ Forall sf ex_shuffled.
Proof. exact (conj ex_sf ex_sf'). Qed.
Example hyp_nul_free : Forall nf ex_sorted /\ Forall nf ex_shuffled.
Proof. exact (conj ex_nf ex_nf'). Qed.
Example hyp_modes : Forall (fun e => u16 (e_mode e)) ex_shuffled.
Proof. exact ex_u16. Qed.
Example hyp_unique_keys : NoDup (map ekey ex_shuffled).
Proof. exact ex_nodup. Qed.
Example hyp_permutation : Permutation ex_sorted ex_shuffled.
Proof. exact ex_perm. Qed.
Example hyp_git_sorted : Sorted git_le ex_sorted.
Proof. exact ex_git_sorted. Qed.
Example sort_example : sort_entries ex_shuffled = ex_sorted.
Proof. exact ex_sort. Qed.
Example bisect_example_dir :
  bisect_entry ex_sorted (bs "a") true = Ok (Some (mkEntry 16384 (bs "a") oid1)).
Proof. exact ex_bisect_dir. Qed.
Example bisect_example_file :
  bisect_entry ex_sorted (bs "a") false = Ok (Some (mkEntry 33188 (bs "a") oid1)).
Proof. exact ex_bisect_file. Qed.
Example bisect_example_absent : bisect_entry ex_sorted (bs "a0") true = Ok None.
Proof. exact ex_bisect_absent. Qed.
Example slash_rule_example :
  entry_cmp (mkEntry 16384 (bs "a") oid1) (mkEntry 33188 (bs "a.") oid1) = Gt /\
  entry_cmp (mkEntry 16384 (bs "a") oid1) (mkEntry 33188 (bs "a0") oid1) = Lt /\
  entry_cmp (mkEntry 33188 (bs "a") oid1) (mkEntry 33188 (bs "a.") oid1) = Lt.
Proof. exact ex_slash_rule. Qed.
(* the domain restrictions are needed *)
Example slash_in_name_breaks_the_order :
  entry_cmp (mkEntry 16384 (bs "a") oid1) (mkEntry 33188 (bs "a/b") oid1) = Eq /\
  git_cmp (mkEntry 16384 (bs "a") oid1) (mkEntry 33188 (bs "a/b") oid1) = Eq.
Proof. exact ex_slash_in_name_not_an_order. Qed.
Example nul_in_name_differs_from_git :
  entry_cmp (mkEntry 33188 (bs "a") oid1) (mkEntry 33188 [x61; x00] oid1) = Lt /\
  git_cmp (mkEntry 33188 (bs "a") oid1) (mkEntry 33188 [x61; x00] oid1) = Eq.
Proof. exact ex_nul_in_name_differs. Qed.
Example editor_starts_in_invariant : Inv [].
Proof. exact inv_nil. Qed.
Example editor_history_hyp : Forall op_name_ok ex_history.
Proof. exact ex_history_ok. Qed.
Example editor_history_example :
  edit_run [] ex_history =
  Ok ([ mkEntry 33188 (bs "a.") oid1; mkEntry 16384 (bs "a") oid1 ],
      [ [ mkEntry 33188 (bs "a") oid1; mkEntry 33188 (bs "a.") oid1; mkEntry 33188 (bs "a0") oid1 ];
        [ mkEntry 33188 (bs "a.") oid1; mkEntry 16384 (bs "a") oid1 ] ]).
Proof. exact ex_history_run. Qed.
