(* C03 — transcript printer: the same observable line the Rust harness prints for a case.
   cases (entries travel as triples  <mode decimal> <name> <one oid byte k: oid = 20 x k>):
     cmp <modeA> <nameA> <modeB> <nameB>      Entry::cmp, EntryRef::cmp, cmp_entry_with_name-shaped
     sort <e>*                                 entries.sort(); Tree::write_to
     write <e>*                                Tree::write_to without sorting (debug_assert)
     bisect <name> <is_dir 0|1> <e>*           TreeRef::bisect_entry on the entries as given
     bsearch <key> <byte list>                 [u8]::binary_search_by(|x| x.cmp(&key))
     edit (<op> <name> <k>)*                    one-level tree::Editor on an empty root; op = 0..4 upsert of
                                               kind Tree/Blob/BlobExecutable/Link/Commit, r = remove,
                                               w = write; a final write is implied *)
From GixV.Base Require Import Bytes Outcome.
From GixV.C03 Require Import Model Spec.
Local Open Scope N_scope.

Definition oid_of (f : bytes) : bytes :=
  match f with b :: _ => repeat b 20 | [] => repeat x00 20 end.
Definition mode_of (f : bytes) : N :=
  match dec_to_N f with Some v => N.modulo v 65536 | None => 0 end.

Fixpoint parse_entries (fuel : nat) (fs : list bytes) : list entry :=
  match fuel with
  | O => []
  | S fuel' =>
      match fs with
      | m :: n :: o :: rest => mkEntry (mode_of m) n (oid_of o) :: parse_entries fuel' rest
      | _ => []
      end
  end.
Definition entries_of (fs : list bytes) : list entry := parse_entries (length fs) fs.

Definition show_write (o : outcome bytes werr) : bytes :=
  match o with
  | Ok b => bs "ok " ++ hex_encode b
  | Err NulInName => bs "err Nul"
  | Panic => bs "PANIC"
  | OutOfFuel => bs "HANG"
  end.

Definition show_entry (e : entry) : bytes :=
  N_to_dec (e_mode e) ++ bs " " ++ hex_encode (e_name e) ++ bs " " ++ hex_encode (e_oid e).

Definition show_bisect (o : outcome (option entry) unit) : bytes :=
  match o with
  | Ok None => bs "none"
  | Ok (Some e) => bs "some " ++ show_entry e
  | Err _ => bs "?"
  | Panic => bs "PANIC"
  | OutOfFuel => bs "HANG"
  end.

Definition show_bsearch (o : outcome (nat + nat) unit) : bytes :=
  match o with
  | Ok (inl i) => bs "ok " ++ N_to_dec (N.of_nat i)
  | Ok (inr i) => bs "err " ++ N_to_dec (N.of_nat i)
  | Err _ => bs "?"
  | Panic => bs "PANIC"
  | OutOfFuel => bs "HANG"
  end.

Definition kind_mode (k : N) : N :=
  if N.eqb k 0 then 16384 else if N.eqb k 1 then 33188 else if N.eqb k 2 then 33261
  else if N.eqb k 3 then 40960 else 57344.
Definition op_of (o n k : bytes) : edit_op :=
  if bytes_eqb o (bs "r") then Remove n
  else if bytes_eqb o (bs "w") then WriteOut
  else Upsert (kind_mode (match dec_to_N o with Some v => v | None => 4 end)) n (oid_of k).
Fixpoint parse_ops (fuel : nat) (fs : list bytes) : list edit_op :=
  match fuel with
  | O => []
  | S fuel' =>
      match fs with
      | o :: n :: k :: rest => op_of o n k :: parse_ops fuel' rest
      | _ => []
      end
  end.

(* transcript: one item per write, separated by ';' ; stops at the first error; a panic anywhere
   makes the whole line PANIC (the Rust harness loses everything printed before a panic) *)
Fixpoint run_edit (acc : bytes) (es : list entry) (ops : list edit_op) : bytes :=
  match ops with
  | [] =>
      match edit_step es WriteOut with
      | Ok (_, Some (Ok b)) => acc ++ show_write (Ok b)
      | Ok (_, Some (Err e)) => acc ++ show_write (Err e)
      | Ok (_, Some OutOfFuel) => bs "HANG"
      | _ => bs "PANIC"
      end
  | op :: ops' =>
      match edit_step es op with
      | Ok (es', None) => run_edit acc es' ops'
      | Ok (es', Some (Ok b)) => run_edit (acc ++ show_write (Ok b) ++ bs ";") es' ops'
      | Ok (es', Some (Err e)) => acc ++ show_write (Err e)
      | Ok (es', Some Panic) => bs "PANIC"
      | Ok (es', Some OutOfFuel) => bs "HANG"
      | Err EmptyPathComponent => acc ++ bs "err Empty"
      | Panic => bs "PANIC"
      | OutOfFuel => bs "HANG"
      end
  end.

Definition run_model (fs : list bytes) : bytes :=
  let op := nth_field 0 fs in
  if bytes_eqb op (bs "cmp") then
    let a := mkEntry (mode_of (nth_field 1 fs)) (nth_field 2 fs) null_oid in
    let b := mkEntry (mode_of (nth_field 3 fs)) (nth_field 4 fs) null_oid in
    cmp_to_bytes (entry_cmp a b) ++ bs " " ++ cmp_to_bytes (entry_cmp a b) ++ bs " " ++
    cmp_to_bytes (entry_cmp b a)
  else if bytes_eqb op (bs "sort") then
    show_write (write_to (sort_entries (entries_of (tl fs))))
  else if bytes_eqb op (bs "write") then
    show_write (write_to (entries_of (tl fs)))
  else if bytes_eqb op (bs "bisect") then
    show_bisect (bisect_entry (entries_of (tl (tl (tl fs)))) (nth_field 1 fs)
                              (negb (N.eqb (field_N 2 fs) 0)))
  else if bytes_eqb op (bs "bsearch") then
    let k := match nth_field 1 fs with b :: _ => b2N b | [] => 0 end in
    show_bsearch (binary_search_by (fun x => N.compare (b2N x) k) (nth_field 2 fs))
  else if bytes_eqb op (bs "edit") then
    run_edit [] [] (parse_ops (length fs) (tl fs))
  else bs "?".

(* what git itself does with the same case (compared with `harness git`) *)
Definition run_spec (fs : list bytes) : bytes :=
  let op := nth_field 0 fs in
  if bytes_eqb op (bs "cmp") then
    let a := mkEntry (mode_of (nth_field 1 fs)) (nth_field 2 fs) null_oid in
    let b := mkEntry (mode_of (nth_field 3 fs)) (nth_field 4 fs) null_oid in
    cmp_to_bytes (git_cmp a b)
  else if bytes_eqb op (bs "sort") then
    show_write (write_entries (git_sort (entries_of (tl fs))))
  else bs "-".

Definition run (fs : list bytes) : bytes :=
  match fs with
  | mode :: rest => if bytes_eqb mode (bs "spec") then run_spec rest else run_model rest
  | [] => bs "?"
  end.
