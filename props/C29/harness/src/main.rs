//! C29 harness: gix-packetline framing — encode::*_to_write / *Ref::write_to, decode::{hex_prefix, streaming,
//! all_at_once}, StreamingPeekableIter::{read_line, peek_line, reset, stopped_at} over arbitrarily chunked
//! byte streams, WithSidebands (Read) demultiplexing, and the packet-line Writer.
//!
//! Case forms (field 0 = op):
//!   enc <kind> <payload>                      kind: data text err band1 band2 band3 flush delim rend
//!   dec <bytes>                               decode::streaming + decode::all_at_once
//!   hp  <four bytes>                          decode::hex_prefix
//!   rd  <stream> <cuts> <flags> <script>      flags: bit0 fail_on_err_lines, bits1-3 delimiters {Flush,Delim,ResponseEnd}
//!                                             script bytes: r read_line, p peek_line, x reset, s stopped_at, e/E fail_on_err on/off
//!   sb  <stream> <cuts> <flags> <mode> <pre> <readsizes>
//!                                             mode 0: no progress handler, 1: handler, k>=2: handler interrupts at call k-2
//!   wr  <mode b|t> <data>                     Writer::write
use gix_packetline::{
    decode, encode, read::ProgressAction, BandRef, ErrorRef, PacketLineRef, StreamingPeekableIter, TextRef, Writer,
};
use gixv_common::*;
use std::io::{self, Read, Write};

const MAX_DATA: usize = 65516;

// ---------------------------------------------------------------------------------- printing

fn adler(b: &[u8]) -> u32 {
    let (mut a, mut s) = (1u32, 0u32);
    for x in b {
        a = (a + *x as u32) % 65521;
        s = (s + a) % 65521;
    }
    (s << 16) | a
}
/// byte strings in transcripts: hex when short, `<len>#<adler32>` when long
fn shb(b: &[u8]) -> String {
    if b.is_empty() {
        "-".into()
    } else if b.len() <= 40 {
        hexs(b)
    } else {
        format!("{}#{:08x}", b.len(), adler(b))
    }
}
fn show_line(l: &PacketLineRef<'_>) -> String {
    match l {
        PacketLineRef::Data(d) => format!("D:{}", shb(d)),
        PacketLineRef::Flush => "F".into(),
        PacketLineRef::Delimiter => "DL".into(),
        PacketLineRef::ResponseEnd => "RE".into(),
    }
}
fn show_derr(e: &decode::Error) -> String {
    match e {
        decode::Error::HexDecode { .. } => "HexDecode".into(),
        decode::Error::DataLengthLimitExceeded { length_in_bytes } => format!("TooLong:{length_in_bytes}"),
        decode::Error::DataIsEmpty => "DataIsEmpty".into(),
        decode::Error::InvalidLineLength => "InvalidLineLength".into(),
        decode::Error::Line { .. } => "Line".into(),
        decode::Error::NotEnoughData { bytes_needed } => format!("NotEnough:{bytes_needed}"),
    }
}
fn show_io(e: &io::Error) -> String {
    if let Some(inner) = e.get_ref() {
        if let Some(x) = inner.downcast_ref::<gix_packetline::read::Error>() {
            return format!("io:ErrLine:{}", shb(&x.message));
        }
        if let Some(x) = inner.downcast_ref::<decode::Error>() {
            return format!("io:Decode:{}", show_derr(x));
        }
        if let Some(x) = inner.downcast_ref::<decode::band::Error>() {
            return match x {
                decode::band::Error::InvalidSideBand { band_id } => format!("io:Band:Invalid:{band_id}"),
                decode::band::Error::NonDataLine => "io:Band:NonDataLine".into(),
            };
        }
        if let Some(x) = inner.downcast_ref::<encode::Error>() {
            return match x {
                encode::Error::DataLengthLimitExceeded { length_in_bytes } => format!("io:TooLong:{length_in_bytes}"),
                encode::Error::DataIsEmpty => "io:Empty".into(),
            };
        }
        let msg = inner.to_string();
        if msg == "interrupted by user" {
            return "io:Interrupted".into();
        }
        if e.kind() == io::ErrorKind::UnexpectedEof {
            return "io:NonData".into();
        }
        if msg.starts_with("empty packet lines") {
            return "io:EmptyWrite".into();
        }
        return format!("io:Other:{:?}", e.kind());
    }
    if e.kind() == io::ErrorKind::UnexpectedEof {
        "io:Eof".into()
    } else {
        format!("io:{:?}", e.kind())
    }
}
fn show_res(r: Option<io::Result<Result<PacketLineRef<'_>, decode::Error>>>) -> String {
    match r {
        None => "none".into(),
        Some(Err(e)) => show_io(&e),
        Some(Ok(Err(e))) => format!("de:{}", show_derr(&e)),
        Some(Ok(Ok(l))) => show_line(&l),
    }
}

// ---------------------------------------------------------------------------------- chunked Read

fn cut_size(c: u8) -> usize {
    if c < 128 {
        c as usize + 1
    } else {
        (c as usize - 127) * 509
    }
}
/// A `Read` that hands out the bytes in the chunks the case dictates: chunk i has size cut_size(cuts[i]),
/// what remains after the last cut is one chunk. One `read` never crosses a chunk boundary.
struct Chunked {
    data: Vec<u8>,
    pos: usize,
    cuts: Vec<u8>,
    idx: usize,
    left: usize,
}
impl Chunked {
    fn new(data: &[u8], cuts: &[u8]) -> Self {
        Chunked { data: data.to_vec(), pos: 0, cuts: cuts.to_vec(), idx: 0, left: 0 }
    }
}
impl Read for Chunked {
    fn read(&mut self, buf: &mut [u8]) -> io::Result<usize> {
        if self.pos >= self.data.len() || buf.is_empty() {
            return Ok(0);
        }
        if self.left == 0 {
            self.left = if self.idx < self.cuts.len() {
                self.idx += 1;
                cut_size(self.cuts[self.idx - 1])
            } else {
                usize::MAX
            };
        }
        let n = buf.len().min(self.left).min(self.data.len() - self.pos);
        buf[..n].copy_from_slice(&self.data[self.pos..self.pos + n]);
        self.pos += n;
        self.left -= n;
        Ok(n)
    }
}

static DELIMS: [&[PacketLineRef<'static>]; 8] = [
    &[],
    &[PacketLineRef::Flush],
    &[PacketLineRef::Delimiter],
    &[PacketLineRef::Flush, PacketLineRef::Delimiter],
    &[PacketLineRef::ResponseEnd],
    &[PacketLineRef::Flush, PacketLineRef::ResponseEnd],
    &[PacketLineRef::Delimiter, PacketLineRef::ResponseEnd],
    &[PacketLineRef::Flush, PacketLineRef::Delimiter, PacketLineRef::ResponseEnd],
];

// ---------------------------------------------------------------------------------- impl

fn do_encode(kind: &[u8], data: &[u8]) -> io::Result<(usize, Vec<u8>)> {
    let mut out = Vec::new();
    let n = match kind {
        b"data" => PacketLineRef::Data(data).write_to(&mut out),
        b"text" => TextRef(data).write_to(&mut out),
        b"err" => ErrorRef(data).write_to(&mut out),
        b"band1" => BandRef::Data(data).write_to(&mut out),
        b"band2" => BandRef::Progress(data).write_to(&mut out),
        b"band3" => BandRef::Error(data).write_to(&mut out),
        b"flush" => PacketLineRef::Flush.write_to(&mut out),
        b"delim" => PacketLineRef::Delimiter.write_to(&mut out),
        b"rend" => PacketLineRef::ResponseEnd.write_to(&mut out),
        _ => Ok(0),
    }?;
    Ok((n, out))
}

fn show_view(kind: &[u8], line: &PacketLineRef<'_>) -> String {
    match kind {
        b"text" => match line.as_text() {
            Some(t) => format!(" T:{}", shb(t.as_slice())),
            None => " T:none".into(),
        },
        b"err" => match line.check_error() {
            Some(e) => format!(" E:{}", shb(e.0)),
            None => " E:none".into(),
        },
        b"band1" | b"band2" | b"band3" => match line.decode_band() {
            Ok(BandRef::Data(d)) => format!(" B1:{}", shb(d)),
            Ok(BandRef::Progress(d)) => format!(" B2:{}", shb(d)),
            Ok(BandRef::Error(d)) => format!(" B3:{}", shb(d)),
            Err(_) => " B:err".into(),
        },
        _ => String::new(),
    }
}

fn imp_enc(c: &Case) -> String {
    let kind = f_str(c, 1);
    match do_encode(kind, f_str(c, 2)) {
        Ok((n, out)) => {
            let dec = match decode::all_at_once(&out) {
                Ok(l) => format!("{}{}", show_line(&l), show_view(kind, &l)),
                Err(e) => format!("de:{}", show_derr(&e)),
            };
            format!("ok {} {} {}", n, shb(&out), dec)
        }
        Err(e) => format!("err {}", show_io(&e)),
    }
}

fn show_stream(r: Result<decode::Stream<'_>, decode::Error>) -> String {
    match r {
        Ok(decode::Stream::Complete { line, bytes_consumed }) => format!("C:{}:{}", show_line(&line), bytes_consumed),
        Ok(decode::Stream::Incomplete { bytes_needed }) => format!("I:{bytes_needed}"),
        Err(e) => format!("de:{}", show_derr(&e)),
    }
}

fn imp_dec(c: &Case) -> String {
    let d = f_str(c, 1);
    let a = match decode::all_at_once(d) {
        Ok(l) => show_line(&l),
        Err(e) => format!("de:{}", show_derr(&e)),
    };
    format!("s={} a={}", show_stream(decode::streaming(d)), a)
}

fn imp_hp(c: &Case) -> String {
    let d = f_str(c, 1);
    if d.len() != 4 {
        return "precond".into();
    }
    match decode::hex_prefix(d) {
        Ok(decode::PacketLineOrWantedSize::Line(l)) => format!("L:{}", show_line(&l)),
        Ok(decode::PacketLineOrWantedSize::Wanted(n)) => format!("W:{n}"),
        Err(e) => format!("de:{}", show_derr(&e)),
    }
}

fn new_iter(c: &Case) -> StreamingPeekableIter<Chunked> {
    let flags = f_u64(c, 3);
    let mut rd = StreamingPeekableIter::new(Chunked::new(f_str(c, 1), f_str(c, 2)), DELIMS[((flags >> 1) & 7) as usize], false);
    rd.fail_on_err_lines(flags & 1 == 1);
    rd
}

fn run_script(rd: &mut StreamingPeekableIter<Chunked>, script: &[u8], out: &mut Vec<String>) {
    for op in script {
        match op {
            b'r' => out.push(show_res(rd.read_line())),
            b'p' => out.push(format!("p{}", show_res(rd.peek_line()))),
            b'x' => {
                rd.reset();
                out.push("x".into())
            }
            b's' => out.push(format!("st:{}", rd.stopped_at().map_or("none".into(), |l| show_line(&l)))),
            b'e' => {
                rd.fail_on_err_lines(true);
                out.push("e".into())
            }
            b'E' => {
                rd.fail_on_err_lines(false);
                out.push("E".into())
            }
            _ => out.push("?".into()),
        }
    }
}

fn imp_rd(c: &Case) -> String {
    let mut rd = new_iter(c);
    let mut out = Vec::new();
    run_script(&mut rd, f_str(c, 4), &mut out);
    out.join(";")
}

struct SbOut {
    data: Vec<u8>,
    prog: Vec<(bool, Vec<u8>)>,
    end: String,
    st: String,
    next: String,
    pre: Vec<String>,
}

fn run_sb(c: &Case) -> SbOut {
    let mut rd = new_iter(c);
    let mode = f_u64(c, 4);
    let mut pre = Vec::new();
    run_script(&mut rd, f_str(c, 5), &mut pre);
    let sizes = f_str(c, 6);
    let mut data = Vec::new();
    let mut prog: Vec<(bool, Vec<u8>)> = Vec::new();
    let end;
    let st;
    {
        let mut calls = 0u64;
        let handler = |is_err: bool, text: &[u8]| {
            prog.push((is_err, text.to_vec()));
            calls += 1;
            if mode >= 2 && calls - 1 == mode - 2 {
                ProgressAction::Interrupt
            } else {
                ProgressAction::Continue
            }
        };
        let mut sb = rd.as_read_with_sidebands(handler);
        if mode == 0 {
            sb.set_progress_handler(None);
        }
        let mut i = 0usize;
        let mut buf = vec![0u8; 0];
        end = loop {
            let size = if sizes.is_empty() { 64 } else { cut_size(sizes[i % sizes.len()]) };
            i += 1;
            buf.resize(size, 0);
            match sb.read(&mut buf) {
                Ok(0) => break "eof".to_string(),
                Ok(n) => data.extend_from_slice(&buf[..n]),
                Err(e) => break show_io(&e),
            }
        };
        st = sb.stopped_at().map_or("none".into(), |l| show_line(&l));
    }
    let next = show_res(rd.read_line());
    SbOut { data, prog, end, st, next, pre }
}

fn show_prog(p: &[(bool, Vec<u8>)]) -> String {
    if p.is_empty() {
        return "-".into();
    }
    p.iter().map(|(e, t)| format!("{}{}", if *e { "E" } else { "P" }, shb(t))).collect::<Vec<_>>().join(",")
}

fn imp_sb(c: &Case) -> String {
    let o = run_sb(c);
    format!("pre={} data={} prog={} end={} st={} next={}", if o.pre.is_empty() { "-".into() } else { o.pre.join(";") },
        shb(&o.data), show_prog(&o.prog), o.end, o.st, o.next)
}

fn do_wr(c: &Case) -> (Result<usize, String>, Vec<u8>) {
    let mut w = Writer::new(Vec::new());
    if f_str(c, 1) == b"t" {
        w.enable_text_mode();
    }
    let r = w.write(f_str(c, 2)).map_err(|e| show_io(&e));
    (r, w.into_inner())
}

fn imp_wr(c: &Case) -> String {
    match do_wr(c) {
        (Ok(n), out) => format!("ok {} {}", n, shb(&out)),
        (Err(e), out) => format!("err {} {}", e, shb(&out)),
    }
}

fn imp(c: &Case) -> String {
    match f_str(c, 0) {
        b"enc" => imp_enc(c),
        b"dec" => imp_dec(c),
        b"hp" => imp_hp(c),
        b"rd" => imp_rd(c),
        b"sb" => imp_sb(c),
        b"wr" => imp_wr(c),
        _ => "?".into(),
    }
}

// ---------------------------------------------------------------------------------- reference (oracle)
// A naive pkt-line reader written directly from git's protocol description (gitprotocol-common):
// four hex digits give the total length including themselves; 0000/0001/0002 are flush/delim/response-end;
// 0003 and 0004 are invalid; the maximum total length is 65520.

#[derive(Clone, PartialEq, Debug)]
enum RLine {
    Data(Vec<u8>),
    Flush,
    Delim,
    Rend,
}
enum Item {
    Line(RLine),
    Bad(String),
    Eof,
}
fn hexv(c: u8) -> Option<u32> {
    match c {
        b'0'..=b'9' => Some((c - b'0') as u32),
        b'a'..=b'f' => Some((c - b'a') as u32 + 10),
        b'A'..=b'F' => Some((c - b'A') as u32 + 10),
        _ => None,
    }
}
fn prefix_value(p: &[u8]) -> Option<u32> {
    let mut v = 0;
    for c in p {
        v = v * 16 + hexv(*c)?;
    }
    Some(v)
}
fn ref_next(s: &[u8], pos: &mut usize) -> Item {
    if s.len() - *pos < 4 {
        *pos = s.len();
        return Item::Eof;
    }
    let p = &s[*pos..*pos + 4];
    *pos += 4;
    let v = match prefix_value(p) {
        Some(v) => v,
        None => return Item::Bad("HexDecode".into()),
    };
    match v {
        0 => Item::Line(RLine::Flush),
        1 => Item::Line(RLine::Delim),
        2 => Item::Line(RLine::Rend),
        3 => Item::Bad("InvalidLineLength".into()),
        4 => Item::Bad("DataIsEmpty".into()),
        v if v > 65520 => Item::Bad(format!("TooLong:{v}")),
        v => {
            let n = v as usize - 4;
            if s.len() - *pos < n {
                *pos = s.len();
                Item::Eof
            } else {
                *pos += n;
                Item::Line(RLine::Data(s[*pos - n..*pos].to_vec()))
            }
        }
    }
}
fn show_rline(l: &RLine) -> String {
    match l {
        RLine::Data(d) => format!("D:{}", shb(d)),
        RLine::Flush => "F".into(),
        RLine::Delim => "DL".into(),
        RLine::Rend => "RE".into(),
    }
}

/// what a pkt-line reader with peek, stop lines and ERR detection should do, independent of chunking
struct RefReader {
    s: Vec<u8>,
    pos: usize,
    peeked: Option<RLine>,
    done: bool,
    stopped: Option<RLine>,
    fail_on_err: bool,
    delims: u64,
}
enum Got {
    Line(RLine),
    Tok(String),
}
impl RefReader {
    fn new(c: &Case) -> Self {
        let flags = f_u64(c, 3);
        RefReader { s: f_str(c, 1).to_vec(), pos: 0, peeked: None, done: false, stopped: None, fail_on_err: flags & 1 == 1, delims: (flags >> 1) & 7 }
    }
    fn is_delim(&self, l: &RLine) -> bool {
        match l {
            RLine::Flush => self.delims & 1 != 0,
            RLine::Delim => self.delims & 2 != 0,
            RLine::Rend => self.delims & 4 != 0,
            RLine::Data(_) => false,
        }
    }
    fn fetch(&mut self) -> Got {
        self.stopped = None;
        match ref_next(&self.s, &mut self.pos) {
            Item::Eof => Got::Tok("io:Eof".into()),
            Item::Bad(k) => Got::Tok(format!("de:{k}")),
            Item::Line(l) => {
                if self.is_delim(&l) {
                    self.done = true;
                    self.stopped = Some(l);
                    return Got::Tok("none".into());
                }
                if self.fail_on_err {
                    if let RLine::Data(d) = &l {
                        if d.starts_with(b"ERR ") {
                            self.done = true;
                            return Got::Tok(format!("io:ErrLine:{}", shb(&d[4..])));
                        }
                    }
                }
                Got::Line(l)
            }
        }
    }
    fn read(&mut self) -> Got {
        if self.done {
            return Got::Tok("none".into());
        }
        if let Some(l) = self.peeked.take() {
            return Got::Line(l);
        }
        self.fetch()
    }
    fn peek(&mut self) -> Got {
        if self.done {
            return Got::Tok("none".into());
        }
        if let Some(l) = &self.peeked {
            return Got::Line(l.clone());
        }
        let g = self.fetch();
        if let Got::Line(l) = &g {
            self.peeked = Some(l.clone());
        }
        g
    }
    fn reset(&mut self) {
        self.done = false;
        self.stopped = None;
    }
    fn script(&mut self, script: &[u8], out: &mut Vec<String>) {
        let tok = |g: Got| match g {
            Got::Line(l) => show_rline(&l),
            Got::Tok(t) => t,
        };
        for op in script {
            match op {
                b'r' => {
                    let g = self.read();
                    out.push(tok(g))
                }
                b'p' => {
                    let g = self.peek();
                    out.push(format!("p{}", tok(g)))
                }
                b'x' => {
                    self.reset();
                    out.push("x".into())
                }
                b's' => out.push(format!("st:{}", self.stopped.as_ref().map_or("none".into(), show_rline))),
                b'e' => {
                    self.fail_on_err = true;
                    out.push("e".into())
                }
                b'E' => {
                    self.fail_on_err = false;
                    out.push("E".into())
                }
                _ => out.push("?".into()),
            }
        }
    }
}

fn ref_encode(kind: &[u8], data: &[u8]) -> Result<Vec<u8>, &'static str> {
    let (pre, suf): (&[u8], &[u8]) = match kind {
        b"flush" => return Ok(b"0000".to_vec()),
        b"delim" => return Ok(b"0001".to_vec()),
        b"rend" => return Ok(b"0002".to_vec()),
        b"data" => (b"", b""),
        b"text" => (b"", b"\n"),
        b"err" => (b"ERR ", b""),
        b"band1" => (b"\x01", b""),
        b"band2" => (b"\x02", b""),
        b"band3" => (b"\x03", b""),
        _ => return Err("?"),
    };
    let n = pre.len() + data.len() + suf.len();
    if n > MAX_DATA {
        return Err("TooLong");
    }
    if data.is_empty() {
        return Err("Empty");
    }
    let mut out = format!("{:04x}", n + 4).into_bytes();
    out.extend_from_slice(pre);
    out.extend_from_slice(data);
    out.extend_from_slice(suf);
    Ok(out)
}

// ---------------------------------------------------------------------------------- prop

fn prop_enc(c: &Case) -> Verdict {
    let kind = f_str(c, 1);
    let data = f_str(c, 2);
    let want = ref_encode(kind, data);
    match (do_encode(kind, data), want) {
        (Err(e), Err(w)) => {
            let got = show_io(&e);
            if got.starts_with(&format!("io:{w}")) {
                Verdict::ok(false, format!("enc-{}-refused", w.to_lowercase()))
            } else {
                Verdict::fail("enc-error-kind", format!("got {got} want {w}"))
            }
        }
        (Err(e), Ok(_)) => Verdict::fail("enc-refuses-valid", show_io(&e)),
        (Ok(_), Err(w)) => Verdict::fail("enc-accepts-invalid", w),
        (Ok((n, out)), Ok(w)) => {
            if out != w {
                return Verdict::fail("enc-bytes", format!("got {} want {}", shb(&out), shb(&w)));
            }
            if n != out.len() {
                return Verdict::fail("enc-count", format!("{n} vs {}", out.len()));
            }
            // decode back: all_at_once, streaming with trailing bytes, and the stream reader
            let line = match decode::all_at_once(&out) {
                Ok(l) => l,
                Err(e) => return Verdict::fail("rt-decode", show_derr(&e)),
            };
            let mut more = out.clone();
            more.extend_from_slice(b"0008next");
            match decode::streaming(&more) {
                Ok(decode::Stream::Complete { line: l2, bytes_consumed }) if l2 == line && bytes_consumed == out.len() => {}
                other => return Verdict::fail("rt-streaming", show_stream(other)),
            }
            let mut rd = StreamingPeekableIter::new(&more[..], &[], false);
            match rd.read_line() {
                Some(Ok(Ok(l3))) if l3 == line => {}
                other => return Verdict::fail("rt-reader", show_res(other)),
            }
            match rd.read_line() {
                Some(Ok(Ok(PacketLineRef::Data(b"next")))) => {}
                other => return Verdict::fail("rt-reader-next", show_res(other)),
            }
            let ok = match kind {
                b"flush" => line == PacketLineRef::Flush,
                b"delim" => line == PacketLineRef::Delimiter,
                b"rend" => line == PacketLineRef::ResponseEnd,
                b"data" => line == PacketLineRef::Data(data),
                b"text" => line.as_text().map(|t| t.as_slice()) == Some(data),
                b"err" => line.check_error().map(|e| e.0) == Some(data),
                b"band1" => matches!(line.decode_band(), Ok(BandRef::Data(d)) if d == data),
                b"band2" => matches!(line.decode_band(), Ok(BandRef::Progress(d)) if d == data),
                b"band3" => matches!(line.decode_band(), Ok(BandRef::Error(d)) if d == data),
                _ => false,
            };
            if ok {
                Verdict::ok(true, format!("enc-{}", String::from_utf8_lossy(kind)))
            } else {
                Verdict::fail("rt-line", format!("{} decodes to {}", String::from_utf8_lossy(kind), show_line(&line)))
            }
        }
    }
}

fn prop_dec(c: &Case) -> Verdict {
    let d = f_str(c, 1);
    // reference: what streaming should say
    let want = if d.len() < 4 {
        format!("I:{}", 4 - d.len())
    } else {
        match prefix_value(&d[..4]) {
            None => "de:HexDecode".into(),
            Some(0) => "C:F:4".into(),
            Some(1) => "C:DL:4".into(),
            Some(2) => "C:RE:4".into(),
            Some(3) => "de:InvalidLineLength".into(),
            Some(4) => "de:DataIsEmpty".into(),
            Some(v) if v > 65520 => format!("de:TooLong:{v}"),
            Some(v) => {
                let v = v as usize;
                if d.len() < v {
                    format!("I:{}", v - d.len())
                } else {
                    format!("C:D:{}:{}", shb(&d[4..v]), v)
                }
            }
        }
    };
    let got = show_stream(decode::streaming(d));
    if got != want {
        return Verdict::fail("dec-streaming", format!("got {got} want {want}"));
    }
    let a = match decode::all_at_once(d) {
        Ok(l) => format!("C:{}", show_line(&l)),
        Err(e) => format!("de:{}", show_derr(&e)),
    };
    let want_a = if let Some(n) = want.strip_prefix("I:") {
        format!("de:NotEnough:{n}")
    } else if want.starts_with("C:") {
        want.rsplit_once(':').unwrap().0.to_string()
    } else {
        want.clone()
    };
    if a != want_a {
        return Verdict::fail("dec-all-at-once", format!("got {a} want {want_a}"));
    }
    let cls = if want.starts_with("C:") { "dec-complete" } else if want.starts_with("I:") { "dec-incomplete" } else { "dec-error" };
    Verdict::ok(d.len() >= 4, cls)
}

fn prop_hp(c: &Case) -> Verdict {
    let d = f_str(c, 1);
    if d.len() != 4 {
        return Verdict::ok(false, "hp-precondition");
    }
    let want = match prefix_value(d) {
        None => "de:HexDecode".to_string(),
        Some(0) => "L:F".into(),
        Some(1) => "L:DL".into(),
        Some(2) => "L:RE".into(),
        Some(3) => "de:InvalidLineLength".into(),
        Some(4) => "de:DataIsEmpty".into(),
        Some(v) => format!("W:{}", v - 4),
    };
    let got = imp_hp(c);
    if got != want {
        return Verdict::fail("hp-value", format!("got {got} want {want}"));
    }
    // the blocking reader must turn every prefix into a line, an error or EOF — never a panic
    let mut rd = StreamingPeekableIter::new(&d[..], &[], false);
    let r = show_res(rd.read_line());
    let want_r = match prefix_value(d) {
        None => "de:HexDecode".to_string(),
        Some(0) => "F".into(),
        Some(1) => "DL".into(),
        Some(2) => "RE".into(),
        Some(3) => "de:InvalidLineLength".into(),
        Some(4) => "de:DataIsEmpty".into(),
        Some(v) if v > 65520 => format!("de:TooLong:{v}"),
        Some(_) => "io:Eof".into(),
    };
    if r != want_r {
        return Verdict::fail("hp-reader", format!("got {r} want {want_r}"));
    }
    Verdict::ok(true, if want.starts_with("W:") { "hp-wanted" } else if want.starts_with("L:") { "hp-control" } else { "hp-error" })
}

fn prop_rd(c: &Case) -> Verdict {
    let script = f_str(c, 4);
    let mut want = Vec::new();
    RefReader::new(c).script(script, &mut want);
    let got = imp_rd(c);
    let want = want.join(";");
    if got != want {
        return Verdict::fail("reader-lines", format!("got {got} want {want}"));
    }
    // the same stream in one piece and byte by byte
    for cuts in [vec![], vec![0u8; f_str(c, 1).len()]] {
        let mut c2 = c.clone();
        c2[2] = cuts;
        let g2 = imp_rd(&c2);
        if g2 != got {
            return Verdict::fail("reader-chunking", format!("got {got} rechunked {g2}"));
        }
    }
    let lines = got.split(';').filter(|t| t.starts_with("D:") || t.starts_with("pD:")).count();
    Verdict::ok(lines > 0, if got.contains("de:") { "reader-decode-error" } else if got.contains("io:Eof") { "reader-eof" } else { "reader-clean" })
}

fn prop_sb(c: &Case) -> Verdict {
    let mode = f_u64(c, 4);
    let mut r = RefReader::new(c);
    let mut pre = Vec::new();
    r.script(f_str(c, 5), &mut pre);
    let mut data = Vec::new();
    let mut prog: Vec<(bool, Vec<u8>)> = Vec::new();
    let mut calls = 0u64;
    let end = loop {
        match r.read() {
            Got::Tok(t) => {
                break if t == "none" {
                    "eof".to_string()
                } else if let Some(k) = t.strip_prefix("de:") {
                    format!("io:Decode:{k}")
                } else {
                    t
                }
            }
            Got::Line(l) => {
                if mode == 0 {
                    match l {
                        RLine::Data(d) => data.extend_from_slice(&d),
                        _ => break "io:NonData".to_string(),
                    }
                } else {
                    let d = match l {
                        RLine::Data(d) => d,
                        _ => break "io:Band:NonDataLine".to_string(),
                    };
                    match d[0] {
                        1 => data.extend_from_slice(&d[1..]),
                        b @ (2 | 3) => {
                            let mut t = &d[1..];
                            if t.last() == Some(&b'\n') {
                                t = &t[..t.len() - 1];
                            }
                            prog.push((b == 3, t.to_vec()));
                            calls += 1;
                            if mode >= 2 && calls - 1 == mode - 2 {
                                break "io:Interrupted".to_string();
                            }
                        }
                        b => break format!("io:Band:Invalid:{b}"),
                    }
                }
            }
        }
    };
    let st = r.stopped.as_ref().map_or("none".into(), show_rline);
    r.reset();
    let next = match r.read() {
        Got::Line(l) => show_rline(&l),
        Got::Tok(t) => t,
    };
    let o = run_sb(c);
    if o.pre != pre {
        return Verdict::fail("sb-pre", format!("got {:?} want {:?}", o.pre, pre));
    }
    if o.data != data {
        return Verdict::fail("sb-data", format!("got {} want {}", shb(&o.data), shb(&data)));
    }
    if o.prog != prog {
        return Verdict::fail("sb-progress", format!("got {} want {}", show_prog(&o.prog), show_prog(&prog)));
    }
    if o.end != end {
        return Verdict::fail("sb-end", format!("got {} want {}", o.end, end));
    }
    if o.st != st || o.next != next {
        return Verdict::fail("sb-after", format!("got st={} next={} want st={} next={}", o.st, o.next, st, next));
    }
    Verdict::ok(!data.is_empty() || !prog.is_empty(), if mode == 0 { "sb-plain" } else if end == "eof" { "sb-demux" } else { "sb-demux-stopped" })
}

fn prop_wr(c: &Case) -> Verdict {
    let text = f_str(c, 1) == b"t";
    let data = f_str(c, 2);
    match do_wr(c) {
        (Ok(n), out) => {
            if n != data.len() {
                return Verdict::fail("wr-count", format!("{n} of {}", data.len()));
            }
            let mut pos = 0;
            let mut back = Vec::new();
            while pos < out.len() {
                match ref_next(&out, &mut pos) {
                    Item::Line(RLine::Data(d)) => {
                        if text {
                            if d.last() != Some(&b'\n') {
                                return Verdict::fail("wr-text-newline", "");
                            }
                            back.extend_from_slice(&d[..d.len() - 1]);
                        } else {
                            back.extend_from_slice(&d);
                        }
                    }
                    _ => return Verdict::fail("wr-framing", format!("at {pos}")),
                }
            }
            if back != data {
                return Verdict::fail("wr-roundtrip", format!("got {} want {}", shb(&back), shb(data)));
            }
            Verdict::ok(true, if text { "wr-text" } else { "wr-binary" })
        }
        (Err(e), out) => {
            if !out.is_empty() {
                return Verdict::fail("wr-partial-output", e);
            }
            if data.is_empty() && e == "io:EmptyWrite" {
                Verdict::ok(false, "wr-empty-refused")
            } else if text && data.len() >= MAX_DATA && e.starts_with("io:TooLong") {
                // documented limit of the format: a text line carries at most 65515 bytes plus the newline
                Verdict::ok(false, "wr-text-too-long-refused")
            } else {
                Verdict::fail("wr-refuses-valid", e)
            }
        }
    }
}

fn prop(c: &Case) -> Verdict {
    match f_str(c, 0) {
        b"enc" => prop_enc(c),
        b"dec" => prop_dec(c),
        b"hp" => prop_hp(c),
        b"rd" => prop_rd(c),
        b"sb" => prop_sb(c),
        b"wr" => prop_wr(c),
        _ => Verdict::ok(false, "?"),
    }
}

// ---------------------------------------------------------------------------------- gen

const KINDS: &[&str] = &["data", "text", "err", "band1", "band2", "band3", "flush", "delim", "rend"];
const ALPHA: &[u8] = b"ab \nER\x01\x02\x030";

fn payload(rng: &mut Rng, big_ok: bool) -> Vec<u8> {
    let len = match rng.below(100) {
        0..=59 => rng.range(1, 12),
        60..=84 => rng.range(13, 60),
        85..=96 => rng.range(61, 400),
        97..=98 if big_ok => rng.range(401, 70000),
        _ if big_ok => *rng.pick(&[65510i64, 65511, 65512, 65513, 65514, 65515, 65516, 65517, 65520, 65531]),
        _ => rng.range(1, 30),
    } as usize;
    match rng.below(3) {
        0 => rng.bytes(len),
        1 => rng.word(ALPHA, len, len),
        _ => {
            let mut v = rng.word(b"abcdefgh refs/heads", len, len);
            if rng.chance(1, 2) {
                *v.last_mut().unwrap() = b'\n';
            }
            if len > 4 && rng.chance(1, 4) {
                v[..4].copy_from_slice(b"ERR ");
            }
            v
        }
    }
}

fn wire(pre: &[u8], d: &[u8], suf: &[u8]) -> Vec<u8> {
    let mut out = format!("{:04x}", pre.len() + d.len() + suf.len() + 4).into_bytes();
    out.extend_from_slice(pre);
    out.extend_from_slice(d);
    out.extend_from_slice(suf);
    out
}

/// one wire item; `banded`: lines carry a band byte
fn item(rng: &mut Rng, banded: bool, big_ok: bool, malformed: bool) -> Vec<u8> {
    if malformed && rng.chance(1, 12) {
        return match rng.below(9) {
            0 => b"0003".to_vec(),
            1 => b"0004".to_vec(),
            2 => b"00g1abc".to_vec(),
            3 => format!("{:04x}", rng.range(0xfff1, 0xffff)).into_bytes(),
            4 => format!("{:04X}", rng.range(0xfff1, 0xffff)).into_bytes(),
            5 => {
                let mut v = format!("{:04x}", rng.range(5, 0xfff0)).into_bytes();
                let k = rng.below(6) as usize;
                v.extend(rng.bytes(k));
                v
            }
            6 => rng.bytes(4),
            7 => b"fff0".to_vec(),
            _ => rng.word(b"0123456789abcdefABCDEFg+ ", 4, 4),
        };
    }
    let r = rng.below(100);
    if r < 8 {
        return b"0000".to_vec();
    }
    if r < 12 {
        return b"0001".to_vec();
    }
    if r < 15 {
        return b"0002".to_vec();
    }
    let mut d = payload(rng, big_ok);
    d.truncate(MAX_DATA - 5);
    if banded {
        let band = *rng.pick(&[1u8, 1, 1, 1, 2, 2, 3, 1, 2, 1, 1, 2, 3, 1, 1, 4, 0]);
        if rng.chance(1, 10) {
            d.clear(); // an empty band payload is legal on the wire
        }
        let mut w = wire(&[band], &d, b"");
        if rng.chance(1, 6) {
            // upper-case length digits are accepted by the decoder
            w[..4].make_ascii_uppercase();
        }
        w
    } else {
        match rng.below(6) {
            0 => wire(b"ERR ", &d, b""),
            1 => wire(b"", &d, b"\n"),
            _ => wire(b"", &d, b""),
        }
    }
}

fn stream(rng: &mut Rng, banded: bool) -> Vec<u8> {
    let n = match rng.below(10) {
        0 => 0,
        1..=6 => rng.range(1, 5),
        _ => rng.range(6, 14),
    };
    let big = rng.chance(1, 60);
    let malformed = rng.chance(1, 3);
    let mut s = Vec::new();
    for i in 0..n {
        s.extend(item(rng, banded, big && i == n / 2, malformed));
    }
    if rng.chance(1, 2) {
        s.extend_from_slice(b"0000");
        if rng.chance(1, 2) {
            s.extend(item(rng, banded, false, false));
        }
    }
    if rng.chance(1, 10) && !s.is_empty() {
        let k = rng.below(s.len() as u64) as usize;
        s.truncate(k);
    }
    s
}

fn cuts(rng: &mut Rng, len: usize) -> Vec<u8> {
    match rng.below(8) {
        0 => vec![],
        1 => vec![0; len.min(3000)],
        2 => (0..rng.range(1, 40)).map(|_| rng.below(5) as u8).collect(),
        3 => (0..rng.range(1, 12)).map(|_| rng.range(128, 255) as u8).collect(),
        _ => {
            let n = rng.range(1, 30) as usize;
            rng.bytes(n).into_iter().map(|b| if b >= 128 && len < 4000 { b & 15 } else { b }).collect()
        }
    }
}

fn script(rng: &mut Rng, items: usize) -> Vec<u8> {
    let n = items + rng.range(1, 4) as usize;
    (0..n)
        .map(|_| match rng.below(40) {
            0..=25 => b'r',
            26..=34 => b'p',
            35..=36 => b'x',
            37 => b's',
            38 => b'e',
            _ => b'E',
        })
        .collect()
}

fn flags(rng: &mut Rng) -> u64 {
    let delims = *rng.pick(&[1u64, 1, 1, 1, 0, 2, 3, 4, 5, 7]);
    (delims << 1) | rng.chance(1, 3) as u64
}

fn gen(rng: &mut Rng, n: usize) -> Vec<Case> {
    let mut out: Vec<Case> = Vec::new();
    // ---- boundary block
    for p in [
        "0000", "0001", "0002", "0003", "0004", "0005", "0006", "000a", "000A", "000f", "0010", "7fff", "8000", "ffef", "fff0", "fff1",
        "fff2", "fffe", "ffff", "FFF0", "FFF1", "FfFf", "00g0", "g000", "000g", "+123", " 123", "0x10", "-001", "0 00",
    ] {
        out.push(vec![tag("hp"), p.as_bytes().to_vec()]);
        out.push(vec![tag("dec"), p.as_bytes().to_vec()]);
        let mut s = p.as_bytes().to_vec();
        s.extend_from_slice(b"abcdefgh0000");
        out.push(vec![tag("rd"), s.clone(), vec![0, 1, 2], num(2), b"rprs".to_vec()]);
        out.push(vec![tag("sb"), s, vec![], num(2), num(1), vec![], vec![3]]);
    }
    for (kind, lens) in [
        ("data", [0usize, 1, 2, 65515, 65516, 65517]),
        ("text", [0, 1, 2, 65514, 65515, 65516]),
        ("err", [0, 1, 2, 65511, 65512, 65513]),
        ("band1", [0, 1, 2, 65514, 65515, 65516]),
        ("band2", [0, 1, 2, 65514, 65515, 65516]),
        ("band3", [0, 1, 2, 65514, 65515, 65516]),
    ] {
        for l in lens {
            out.push(vec![tag("enc"), tag(kind), rng.word(b"ab\n", l, l)]);
        }
    }
    for kind in ["flush", "delim", "rend"] {
        out.push(vec![tag("enc"), tag(kind), vec![]]);
    }
    for (m, l) in [("b", 0usize), ("b", 1), ("b", 65515), ("b", 65516), ("b", 65517), ("b", 131032), ("b", 131033), ("t", 0), ("t", 1), ("t", 65514), ("t", 65515), ("t", 65516), ("t", 65517)] {
        out.push(vec![tag("wr"), tag(m), rng.word(b"xy\n", l, l)]);
    }
    for l in [65515usize, 65516] {
        // a maximal line followed by a flush, read through small, large and single chunks
        let d = rng.bytes(l);
        let mut s = wire(b"", &d, b"");
        s.extend_from_slice(b"0000");
        for cu in [vec![], vec![200u8, 3, 255], vec![127; 600]] {
            out.push(vec![tag("rd"), s.clone(), cu.clone(), num(2), b"prrs".to_vec()]);
        }
        let mut s = wire(b"\x01", &d[..l - 1], b"");
        s.extend_from_slice(b"0006\x02hi0000");
        out.push(vec![tag("sb"), s, vec![255, 1], num(2), num(1), vec![], vec![255, 0, 130]]);
    }
    // empty progress / error band payloads, with and without a newline
    for s in [&b"0005\x020000"[..], b"0005\x030000", b"0006\x02\n0000", b"0005\x010005\x02", b"0005\x040000", b"0005\x000000", b"00010000"] {
        for mode in [0u64, 1, 2] {
            out.push(vec![tag("sb"), s.to_vec(), vec![], num(2), num(mode), vec![], vec![1]]);
        }
    }
    // ---- weighted mixture
    while out.len() < n {
        match rng.below(100) {
            0..=9 => {
                // arbitrary four-byte prefixes: valid hex of any value and case, or arbitrary bytes
                let p = match rng.below(6) {
                    0 => rng.bytes(4),
                    1 => rng.word(b"0123456789abcdefABCDEFg+ ", 4, 4),
                    2 => format!("{:04x}", rng.range(0xffe0, 0xffff)).into_bytes(),
                    3 => format!("{:04X}", rng.below(0x10000)).into_bytes(),
                    _ => format!("{:04x}", rng.below(0x10000)).into_bytes(),
                };
                out.push(vec![tag("hp"), p]);
            }
            10..=19 => {
                let kind = *rng.pick(KINDS);
                let d = if rng.chance(1, 25) { vec![] } else { payload(rng, true) };
                out.push(vec![tag("enc"), tag(kind), d]);
            }
            20..=31 => {
                // decode: a line (possibly malformed) followed by junk, truncated at a random place
                let (banded, big) = (rng.chance(1, 3), rng.chance(1, 40));
                let mut s = item(rng, banded, big, true);
                if rng.chance(1, 2) {
                    let k = rng.below(8) as usize;
                    s.extend(rng.bytes(k));
                }
                if rng.chance(1, 3) && !s.is_empty() {
                    let k = rng.below(s.len() as u64 + 1) as usize;
                    s.truncate(k);
                }
                if rng.chance(1, 20) {
                    // a long declared length with little data
                    s = format!("{:04x}", rng.range(0x1000, 0xffff)).into_bytes();
                    let k = rng.below(20) as usize;
                    s.extend(rng.bytes(k));
                }
                out.push(vec![tag("dec"), s]);
            }
            32..=66 => {
                let banded = rng.chance(1, 5);
                let s = stream(rng, banded);
                let cu = cuts(rng, s.len());
                let items = s.len().min(60) / 6;
                let sc = script(rng, items.min(16));
                out.push(vec![tag("rd"), s, cu, num(flags(rng)), sc]);
            }
            67..=93 => {
                let mode = match rng.below(10) {
                    0..=1 => 0,
                    2..=7 => 1,
                    _ => 2 + rng.below(3),
                };
                let banded = mode != 0 || rng.chance(1, 4);
                let s = stream(rng, banded);
                let cu = cuts(rng, s.len());
                let pre: Vec<u8> = match rng.below(8) {
                    0 => b"p".to_vec(),
                    1 => b"r".to_vec(),
                    2 => b"pp".to_vec(),
                    _ => vec![],
                };
                let sizes = match rng.below(4) {
                    0 => vec![],
                    1 => vec![0],
                    _ => cuts(rng, 100),
                };
                out.push(vec![tag("sb"), s, cu, num(flags(rng)), num(mode), pre, sizes]);
            }
            _ => {
                let d = if rng.chance(1, 30) { vec![] } else if rng.chance(1, 25) { rng.word(b"xy\n", 60000, 140000) } else { payload(rng, true) };
                out.push(vec![tag("wr"), tag(if rng.chance(1, 2) { "b" } else { "t" }), d]);
            }
        }
    }
    out.truncate(n.max(1));
    out
}

fn main() {
    main_with(Harness { gen, imp, prop, git: None, deadline: std::time::Duration::from_secs(20) });
}
