(* C29 — lemmas, part 6: what side-band demultiplexing delivers.  Band-1 payloads come out of
   fill_buf/consume (the BufRead interface that Read::read wraps) in order, band 2/3 texts reach the
   handler in order, and everything stops at the delimiter. *)
From Coq Require Import Lia ZArith ZifyBool ZifyNat ZifyN.
Ltac Zify.zify_post_hook ::= Z.div_mod_to_equations.
From GixV.Base Require Import Bytes BytesFacts Outcome.
From GixV.C29 Require Import Tables Model Proofs ProofsCodec ProofsReader ProofsLines.
Local Open Scope N_scope.

(* what a side-band sender writes: data on band 1, progress on band 2, errors on band 3 *)
Inductive item := IData (d : bytes) | IProg (is_err : bool) (d : bytes).
Definition item_line (i : item) : line :=
  match i with
  | IData d => Data (N2b CHANNEL_DATA :: d)
  | IProg false d => Data (N2b CHANNEL_PROGRESS :: d)
  | IProg true d => Data (N2b CHANNEL_ERROR :: d)
  end.

(* the specification: non-empty band-1 payloads in order; (is_error, text without one trailing newline) in order *)
Fixpoint data_of (items : list item) : list bytes :=
  match items with
  | [] => []
  | IData d :: r => if is_empty d then data_of r else d :: data_of r
  | IProg _ _ :: r => data_of r
  end.
Fixpoint progress_of (items : list item) : list (bool * bytes) :=
  match items with
  | [] => []
  | IData _ :: r => progress_of r
  | IProg e d :: r => (e, text_from d) :: progress_of r
  end.

(* up to the next non-empty data payload *)
Fixpoint next_data (items : list item) : list (bool * bytes) * option (bytes * list item) :=
  match items with
  | [] => ([], None)
  | IData d :: r => if is_empty d then next_data r else ([], Some (d, r))
  | IProg e d :: r => let (p, x) := next_data r in ((e, text_from d) :: p, x)
  end.

Lemma next_data_spec items :
  match next_data items with
  | (p, Some (d, r)) => data_of items = d :: data_of r /\ progress_of items = p ++ progress_of r /\
                        (length r < length items)%nat /\ d <> [] /\ exists pre, items = pre ++ IData d :: r
  | (p, None) => data_of items = [] /\ progress_of items = p
  end.
Proof.
  induction items as [|[d|e d] r IH]; cbn [next_data data_of progress_of].
  - split; reflexivity.
  - destruct (is_empty d) eqn:Ed.
    + destruct (next_data r) as [p [[d' r']|]]; cbn [length]; [|exact IH].
      destruct IH as (A & B & C & D & pre & E). split; [exact A|]. split; [exact B|]. split; [lia|].
      split; [exact D|]. exists (IData d :: pre). rewrite E. reflexivity.
    + cbn [length app]. repeat split; try lia; [intros ->; discriminate | exists []; reflexivity].
  - destruct (next_data r) as [p [[d' r']|]]; cbn [length app].
    + destruct IH as (A & B & C & D & pre & E). split; [exact A|]. split; [congruence|]. split; [lia|].
      split; [exact D|]. exists (IProg e d :: pre). rewrite E. reflexivity.
    + destruct IH as (A & B). split; congruence.
Qed.

Definition good_h (h : handler) : Prop := present h = true /\ interrupt_at h = None.

Definition stream_of (items : list item) (dl : line) (rest : bytes) : bytes :=
  concat (map wire (map item_line items)) ++ wire dl ++ rest.

Lemma fill_loop_demux ds f dl rest : valid dl -> find_line ds dl = Some dl ->
  forall items fuel it h, (length items < fuel)%nat -> ready it ds f -> good_h h ->
  Forall (fun i => passes ds f (item_line i)) items -> concat (rd it) = stream_of items dl rest ->
  match next_data items with
  | (prog, Some (d, items')) =>
      exists it' h', fill_loop fuel it h = Ok (inl (5, len d), it', h') /\ ready it' ds f /\ good_h h' /\
        log h' = rev prog ++ log h /\
        buf it' = {| known := wire (item_line (IData d)); vlen := MAX_LINE_LEN |} /\
        concat (rd it') = stream_of items' dl rest
  | (prog, None) =>
      exists it' h', fill_loop fuel it h = Ok (inl (0, 0), it', h') /\ is_done it' = true /\
        stopped_at it' = Some dl /\ good_h h' /\ log h' = rev prog ++ log h /\ concat (rd it') = rest
  end.
Proof.
  intros Hv Hfind. induction items as [|i items IH]; intros fuel it h Hfuel Hr Hg Hall Hc.
  - cbn [next_data]. destruct fuel as [|fuel]; [cbn in Hfuel; lia|]. cbn [fill_loop].
    unfold stream_of in Hc. cbn [map concat app] in Hc.
    destruct (read_line_delimiter it ds f dl rest Hr Hc Hv Hfind) as (it' & E & D & S & C).
    rewrite E. cbn [obind]. do 2 eexists. split; [reflexivity|]. repeat split; try assumption; apply Hg.
  - destruct fuel as [|fuel]; [cbn in Hfuel; lia|]. cbn [length] in Hfuel.
    inversion Hall as [|? ? Hi Hitems]; subst.
    unfold stream_of in Hc. cbn [map concat] in Hc. rewrite <- app_assoc in Hc.
    destruct (read_line_wire it ds f (item_line i) _ Hr Hc Hi) as (it1 & E1 & R1 & C1 & B1).
    cbn [fill_loop]. rewrite E1. cbn [obind]. destruct Hg as [Hp Hi0]. rewrite Hp.
    specialize (IH fuel it1).
    destruct i as [d|[|] d]; cbn [item_line decode_band next_data].
    + change (b2N (N2b CHANNEL_DATA) =? 1) with true. cbn match.
      destruct (is_empty d) eqn:Ed.
      * apply IH; try assumption; try lia. split; assumption.
      * do 2 eexists. split; [reflexivity|]. repeat split; try assumption; try apply R1.
    + change (b2N (N2b CHANNEL_ERROR) =? 1) with false. change (b2N (N2b CHANNEL_ERROR) =? 2) with false.
      change (b2N (N2b CHANNEL_ERROR) =? 3) with true. cbn match.
      unfold handler_call. rewrite Hi0.
      set (h1 := {| present := present h; interrupt_at := None; calls := calls h + 1; log := (true, text_from d) :: log h |}).
      specialize (IH h1 ltac:(lia) R1 ltac:(split; [exact Hp | reflexivity]) Hitems C1).
      destruct (next_data items) as [p [[d' r']|]].
      * destruct IH as (it' & h' & E & R' & G' & L' & B' & C'). do 2 eexists. split; [exact E|].
        repeat split; try assumption; try apply R'; try apply G'.
        rewrite L'. cbn [rev log h1]. rewrite <- app_assoc. reflexivity.
      * destruct IH as (it' & h' & E & D' & S' & G' & L' & C'). do 2 eexists. split; [exact E|].
        repeat split; try assumption; try apply G'.
        rewrite L'. cbn [rev log h1]. rewrite <- app_assoc. reflexivity.
    + change (b2N (N2b CHANNEL_PROGRESS) =? 1) with false. change (b2N (N2b CHANNEL_PROGRESS) =? 2) with true.
      cbn match. unfold handler_call. rewrite Hi0.
      set (h1 := {| present := present h; interrupt_at := None; calls := calls h + 1; log := (false, text_from d) :: log h |}).
      specialize (IH h1 ltac:(lia) R1 ltac:(split; [exact Hp | reflexivity]) Hitems C1).
      destruct (next_data items) as [p [[d' r']|]].
      * destruct IH as (it' & h' & E & R' & G' & L' & B' & C'). do 2 eexists. split; [exact E|].
        repeat split; try assumption; try apply R'; try apply G'.
        rewrite L'. cbn [rev log h1]. rewrite <- app_assoc. reflexivity.
      * destruct IH as (it' & h' & E & D' & S' & G' & L' & C'). do 2 eexists. split; [exact E|].
        repeat split; try assumption; try apply G'.
        rewrite L'. cbn [rev log h1]. rewrite <- app_assoc. reflexivity.
Qed.

(* BufRead use of the side-band reader: fill_buf, take everything, consume it, until the empty slice *)
Definition consume (sb : sideband) (amt : N) : sideband :=
  {| parent := parent sb; hnd := hnd sb; pos := N.min (pos sb + amt) (cap sb); cap := cap sb |}.

Fixpoint drain (n : nat) (fuel : nat) (sb : sideband) : outcome (list bytes * option ioerr * sideband) unit :=
  match n with
  | O => OutOfFuel
  | S n' =>
      (r <- fill_buf fuel sb ;;
       match r with
       | (inr e, sb') => Ok ([], Some e, sb')
       | (inl [], sb') => Ok ([], None, sb')
       | (inl d, sb') =>
           r' <- drain n' fuel (consume sb' (len d)) ;;
           match r' with (ds, e, sb'') => Ok (d :: ds, e, sb'') end
       end)%outcome
  end.

Lemma slice_band1 d : 1 + len d <= MAX_DATA_LEN ->
  slice 5 (len d + 5) MAX_LINE_LEN (wire (item_line (IData d))) = Some d.
Proof.
  intros H. destruct MAX_vals as (EM & ED & _). rewrite ED in H. unfold slice. rewrite EM.
  replace ((len d + 5 <? 5) || (65520 <? len d + 5)) with false by lia.
  unfold wire. cbn [item_line payload hexof].
  change (N.to_nat 5) with 5%nat.
  assert (H4 := u16_to_hex_length (len (N2b CHANNEL_DATA :: d) + 4)).
  destruct (u16_to_hex (len (N2b CHANNEL_DATA :: d) + 4)) as [|a [|b [|c [|e [|]]]]]; try discriminate.
  cbn [app skipn]. replace (len d + 5 - 5) with (len d) by lia.
  rewrite len_to_nat, firstn_all. reflexivity.
Qed.

Lemma L_demux_content ds f dl rest : valid dl -> find_line ds dl = Some dl ->
  forall n items it h fuel pos0 cap0, (length items < n)%nat -> (length items < fuel)%nat ->
  ready it ds f -> good_h h -> cap0 <= pos0 ->
  Forall (fun i => passes ds f (item_line i)) items -> concat (rd it) = stream_of items dl rest ->
  exists sb', drain n fuel {| parent := it; hnd := h; pos := pos0; cap := cap0 |} = Ok (data_of items, None, sb') /\
    log (hnd sb') = rev (progress_of items) ++ log h /\
    stopped_at (parent sb') = Some dl /\ concat (rd (parent sb')) = rest.
Proof.
  intros Hv Hfind. induction n as [|n IH]; intros items it h fuel pos0 cap0 Hn Hfuel Hr Hg Hpc Hall Hc; [lia|].
  cbn [drain]. unfold fill_buf. cbn [pos cap parent hnd]. replace (cap0 <=? pos0) with true by lia.
  pose proof (fill_loop_demux ds f dl rest Hv Hfind items fuel it h Hfuel Hr Hg Hall Hc) as F.
  pose proof (next_data_spec items) as S.
  destruct (next_data items) as [p [[d r]|]].
  - destruct F as (it' & h' & E & R' & G' & L' & B' & C'). destruct S as (Sd & Sp & Sl & Sne & pre & Epre).
    rewrite E. cbn [obind parent]. rewrite B'. cbn [known vlen].
    assert (Hall' : passes ds f (item_line (IData d)) /\ Forall (fun i => passes ds f (item_line i)) r).
    { rewrite Epre in Hall. apply Forall_app in Hall. destruct Hall as [_ Hall].
      inversion Hall; subst. split; assumption. }
    destruct Hall' as [[Hval _] Hr'].
    assert (Hd : 1 + len d <= MAX_DATA_LEN) by (cbn [item_line valid] in Hval; rewrite len_cons in Hval; lia).
    change (U16_HEX_BYTES + 1) with 5 in *.
    cbn [pos cap]. rewrite (slice_band1 d Hd). cbn [obind]. destruct d as [|x d]; [congruence|].
    unfold consume. cbn [parent hnd pos cap].
    destruct (IH r it' h' fuel (N.min (5 + len (x :: d)) (len (x :: d) + 5)) (len (x :: d) + 5)
                ltac:(lia) ltac:(lia) R' G' ltac:(lia) Hr' C') as (sb' & E' & L'' & S'' & C'').
    rewrite E'. cbn [obind]. eexists. split; [rewrite Sd; reflexivity|].
    rewrite L'', L', Sp, rev_app_distr, <- app_assoc. repeat split; assumption.
  - destruct F as (it' & h' & E & D' & S' & G' & L' & C'). destruct S as (Sd & Sp).
    rewrite E. cbn [obind parent pos cap]. unfold slice.
    replace ((0 + 0 <? 0) || (vlen (buf it') <? 0 + 0)) with false by lia.
    change (N.to_nat (0 + 0 - 0)) with 0%nat. cbn [firstn obind].
    eexists. split; [rewrite Sd; reflexivity|]. cbn [hnd parent]. rewrite L', Sp. repeat split; assumption.
Qed.

(* Read::read is fill_buf + copy + consume: it hands out a prefix of the slice fill_buf exposes (at most
   [size] bytes) and consumes exactly what it handed out *)
Lemma L_read_is_fill_buf_prefix fuel sb size :
  sb_read fuel sb size =
  (r <- fill_buf fuel sb ;;
   match r with
   | (inr e, sb') => Ok (inr e, sb')
   | (inl rem, sb') =>
       Ok (inl (firstn (N.to_nat (N.min (len rem) size)) rem), consume sb' (N.min (len rem) size))
   end)%outcome.
Proof. reflexivity. Qed.
