(* C29 — lemmas, part 4: the side-band reader (WithSidebands::fill_buf / read) never panics and its
   loop terminates: fuel above the number of unread bytes always suffices. *)
From Coq Require Import Lia ZArith ZifyBool ZifyNat ZifyN.
Ltac Zify.zify_post_hook ::= Z.div_mod_to_equations.
From GixV.Base Require Import Bytes BytesFacts Outcome.
From GixV.C29 Require Import Tables Model Proofs ProofsCodec ProofsReader.
Local Open Scope N_scope.

Definition bytes_of (ch : list bytes) : N := len (concat ch).

Lemma read_exact_bytes ch : forall n,
  (forall d ch', read_exact ch n = (Some d, ch') -> bytes_of ch' + n = bytes_of ch) /\
  (forall ch', read_exact ch n = (None, ch') -> bytes_of ch' <= bytes_of ch).
Proof.
  unfold bytes_of. induction ch as [|c rest IH]; intros n; rewrite read_exact_eq.
  - destruct (n =? 0) eqn:E0; split; intros; try discriminate.
    + injection H as <- <-. lia.
    + injection H as <-. lia.
  - cbn [concat]. rewrite len_app. cbv zeta. destruct (n =? 0) eqn:E0.
    { split; intros; try discriminate. injection H as <- <-. cbn [concat]. rewrite len_app. lia. }
    destruct (len c =? 0) eqn:Ec.
    { split; intros; try discriminate. injection H as <-. lia. }
    destruct (len c <=? n) eqn:El.
    + destruct (IH (n - len c)) as [I1 I2].
      destruct (read_exact rest (n - len c)) as [[r|] rest'] eqn:E; split; intros; try discriminate.
      * injection H as <- <-. specialize (I1 _ _ eq_refl). lia.
      * injection H as <-. specialize (I2 _ eq_refl). lia.
    + split; intros; try discriminate. injection H as <- <-. cbn [concat]. rewrite len_app.
      assert (len (skipn (N.to_nat n) c) + n = len c).
      { unfold len in *. rewrite skipn_length. lia. }
      lia.
Qed.

(* the buffer [v] holds the line [l] *)
Definition holds (v : vec) (l : line) : Prop :=
  decode_expect v = Ok (RLine l) /\ len (payload l) + 4 <= vlen v /\
  (forall d, l = Data d -> d <> []).
Definition peek_ok2 (v : vec) : Prop := vlen v = 0 \/ exists l, holds v l.
Definition iter_ok2 (it : iter) : Prop := peek_ok2 (peek_buf it).
Definition measure (it : iter) : N :=
  bytes_of (rd it) + (if vlen (peek_buf it) =? 0 then 0 else 1).

Lemma read_line_inner_ok2 ch :
  exists r w ch', read_line_inner ch MAX_LINE_LEN = Ok (r, w, ch') /\
    bytes_of ch' <= bytes_of ch /\
    (forall l, r = RLine l ->
       bytes_of ch' + 4 <= bytes_of ch /\ (forall d, l = Data d -> d <> []) /\
       all_at_once_gen MAX_LINE_LEN w = Ok l /\ all_at_once_gen (len w) w = Ok l /\
       len w = len (payload l) + 4 /\ len w <= MAX_LINE_LEN /\
       (match as_slice l with Some s => len s + U16_HEX_BYTES | None => U16_HEX_BYTES end) = len w).
Proof.
  destruct MAX_vals as (EM & _ & EU).
  unfold read_line_inner. rewrite EM. replace (65520 <? 4) with false by reflexivity.
  destruct (read_exact_bytes ch 4) as [B1 B2].
  destruct (read_exact ch 4) as [[hex|] ch1] eqn:E4.
  2:{ do 3 eexists. split; [reflexivity|]. split; [apply B2; reflexivity | discriminate]. }
  specialize (B1 _ _ eq_refl).
  pose proof (read_exact_len _ _ _ _ E4) as Hhex.
  assert (H4 : length hex = 4%nat) by (unfold len in Hhex; lia).
  destruct (L_hex_prefix_total hex H4) as (NP & NF & Hw).
  destruct (hex_prefix hex) as [[l|n]|e| |] eqn:Hp; try congruence.
  - do 3 eexists. split; [reflexivity|]. split; [lia|]. intros l' [= <-].
    rewrite (all_at_once_gen_line 65520 hex l H4 Hp) by lia.
    rewrite (all_at_once_gen_line (len hex) hex l H4 Hp) by lia.
    destruct (hex_prefix_hline hex l H4 Hp) as [-> | [-> | ->]]; cbn [payload as_slice]; rewrite EU, len_nil;
      (repeat split; try reflexivity; try discriminate; lia).
  - specialize (Hw n eq_refl).
    destruct (65520 - 4 <? n) eqn:Ecap.
    { do 3 eexists. split; [reflexivity|]. split; [lia | discriminate]. }
    destruct (read_exact_bytes ch1 n) as [C1 C2].
    destruct (read_exact ch1 n) as [[d|] ch2] eqn:En.
    2:{ do 3 eexists. split; [reflexivity|]. specialize (C2 _ eq_refl). split; [lia | discriminate]. }
    specialize (C1 _ _ eq_refl).
    pose proof (read_exact_len _ _ _ _ En) as Hd.
    unfold to_data_line. rewrite EM. replace (65520 <? len d) with false by lia.
    do 3 eexists. split; [reflexivity|]. split; [lia|]. intros l' [= <-]. cbn [payload as_slice].
    rewrite (all_at_once_gen_wanted 65520 hex d n) by (try assumption; rewrite ?EM; lia).
    rewrite (all_at_once_gen_wanted (len (hex ++ d)) hex d n)
      by (try assumption; rewrite ?EM, ?len_app; lia).
    rewrite len_app, EU. repeat split; try reflexivity; try lia.
    intros d' [= <-] ->. rewrite len_nil in Hd. lia.
  - do 3 eexists. split; [reflexivity|]. split; [lia | discriminate].
Qed.

Lemma exhaustive_ok2 ch v ds f rs : vlen v = MAX_LINE_LEN ->
  exists done st res v' ch', read_line_inner_exhaustive ch v ds f rs = Ok (done, st, res, v', ch') /\
    bytes_of ch' <= bytes_of ch /\
    (vlen v' = 0 \/ exists l, holds v' l) /\
    (forall l, res = Some (RLine l) -> holds v' l /\ bytes_of ch' + 4 <= bytes_of ch).
Proof.
  intros Hv. unfold read_line_inner_exhaustive. rewrite Hv.
  destruct (read_line_inner_ok2 ch) as (r & w & ch' & E & Hb & Hl). rewrite E. cbn [obind].
  destruct r as [l|e|e].
  2,3: do 5 eexists; split; [reflexivity|]; split; [exact Hb|]; split; [left; reflexivity | discriminate].
  destruct (Hl l eq_refl) as (A0 & Ane & A1 & A2 & A3 & Amax & An).
  destruct (find_line ds l);
    [do 5 eexists; split; [reflexivity|]; split; [exact Hb|]; split; [left; reflexivity | discriminate]|].
  destruct (if f then check_error l else None);
    [do 5 eexists; split; [reflexivity|]; split; [exact Hb|]; split; [left; reflexivity | discriminate]|].
  destruct rs.
  - rewrite An. unfold vec_resize. cbn [known vlen]. replace (len w <=? len w) with true by lia.
    unfold decode_expect at 1. cbn [known vlen]. rewrite A2. cbn [obind].
    assert (H : holds {| known := w; vlen := len w |} l).
    { split; [unfold decode_expect; cbn [known vlen]; rewrite A2; reflexivity|]. cbn [vlen]. split; [lia | exact Ane]. }
    do 5 eexists. split; [reflexivity|]. split; [exact Hb|]. split; [right; eauto|].
    intros l' [= <-]. split; assumption.
  - unfold decode_expect at 1. cbn [known vlen]. rewrite A1. cbn [obind].
    assert (H : holds {| known := w; vlen := MAX_LINE_LEN |} l).
    { split; [unfold decode_expect; cbn [known vlen]; rewrite A1; reflexivity|]. cbn [vlen]. split; [lia | exact Ane]. }
    do 5 eexists. split; [reflexivity|]. split; [exact Hb|]. split; [right; eauto|].
    intros l' [= <-]. split; assumption.
Qed.

Lemma read_line_ok2 it : iter_ok2 it ->
  exists r it', read_line it = Ok (r, it') /\ iter_ok2 it' /\ measure it' <= measure it /\
    (forall l, r = Some (RLine l) -> holds (buf it') l /\ measure it' < measure it).
Proof.
  intros Hok. unfold read_line. destruct (is_done it).
  { do 2 eexists. split; [reflexivity|]. split; [exact Hok|]. split; [lia | discriminate]. }
  destruct (negb (vlen (peek_buf it) =? 0)) eqn:Ep.
  - destruct Hok as [H0 | [l Hl]]; [rewrite H0 in Ep; discriminate|].
    cbn [buf]. destruct Hl as (Hd & Hrest). rewrite Hd. cbn [obind].
    do 2 eexists. split; [reflexivity|]. split; [left; reflexivity|].
    unfold measure. cbn [rd peek_buf buf vec_empty vlen].
    replace (vlen (peek_buf it) =? 0) with false by (destruct (vlen (peek_buf it) =? 0); [discriminate | reflexivity]).
    replace (0 =? 0) with true by reflexivity. split; [lia|].
    intros l' [= <-]. split; [split; assumption | lia].
  - set (b := if vlen (buf it) =? MAX_LINE_LEN then buf it else vec_resize (buf it) MAX_LINE_LEN).
    assert (Hb : vlen b = MAX_LINE_LEN).
    { unfold b. destruct (vlen (buf it) =? MAX_LINE_LEN) eqn:E; [lia | reflexivity]. }
    destruct (exhaustive_ok2 (rd it) b (delims it) (fail_on_err it) false Hb)
      as (d & st & res & v' & ch' & E & Hbytes & _ & Hres).
    rewrite E. cbn [obind]. do 2 eexists. split; [reflexivity|]. split; [exact Hok|].
    unfold measure. cbn [rd peek_buf buf]. split; [lia|].
    intros l ->. destruct (Hres l eq_refl) as [Hh Hlt]. split; [exact Hh | lia].
Qed.

Definition fill_good (res : N * N + ioerr) (it : iter) : Prop :=
  match res with
  | inl (ofs, c) => (ofs = 0 /\ c = 0) \/ (ofs < ofs + c /\ ofs + c <= vlen (buf it))
  | inr _ => True
  end.

Lemma len_pos (d : bytes) : d <> [] -> 1 <= len d.
Proof. destruct d; [congruence|]. rewrite len_cons. lia. Qed.

Lemma fill_loop_ok fuel : forall it h, iter_ok2 it -> measure it < N.of_nat fuel ->
  exists res it' h', fill_loop fuel it h = Ok (res, it', h') /\ iter_ok2 it' /\
    measure it' <= measure it /\ fill_good res it'.
Proof.
  induction fuel as [|fuel IH]; intros it h Hok Hm; [lia|]. cbn [fill_loop].
  destruct (read_line_ok2 it Hok) as (r & it' & E & Hok' & Hle & Hl). rewrite E. cbn [obind].
  destruct r as [[l|e|e]|].
  2,3: do 3 eexists; split; [reflexivity|]; repeat split; try assumption.
  2: do 3 eexists; split; [reflexivity|]; split; [assumption|]; split; [assumption|]; left; split; reflexivity.
  destruct (Hl l eq_refl) as [(Hd & Hv & Hne) Hlt].
  assert (Hrec : forall h0, exists res it'' h', fill_loop fuel it' h0 = Ok (res, it'', h') /\ iter_ok2 it'' /\
                   measure it'' <= measure it /\ fill_good res it'').
  { intros h0. destruct (IH it' h0 Hok' ltac:(lia)) as (res & it'' & h' & E' & O' & M' & G').
    do 3 eexists. split; [exact E'|]. repeat split; try assumption. lia. }
  destruct (present h).
  - destruct l as [[|b d]| | |]; cbn [decode_band].
    + exfalso. apply (Hne [] eq_refl). reflexivity.
    + cbn [payload] in Hv. rewrite len_cons in Hv.
      destruct (b2N b =? 1).
      { destruct (is_empty d) eqn:Ed; [apply Hrec|].
        do 3 eexists. split; [reflexivity|]. repeat split; try assumption. right.
        assert (1 <= len d) by (apply len_pos; intros ->; discriminate).
        change U16_HEX_BYTES with 4. lia. }
      destruct (b2N b =? 2).
      { destruct (handler_call h false (text_from d)) as [stop h'].
        destruct stop; [|apply Hrec]. do 3 eexists. split; [reflexivity|]. repeat split; assumption. }
      destruct (b2N b =? 3).
      { destruct (handler_call h true (text_from d)) as [stop h'].
        destruct stop; [|apply Hrec]. do 3 eexists. split; [reflexivity|]. repeat split; assumption. }
      do 3 eexists. split; [reflexivity|]. repeat split; assumption.
    + do 3 eexists. split; [reflexivity|]. repeat split; assumption.
    + do 3 eexists. split; [reflexivity|]. repeat split; assumption.
    + do 3 eexists. split; [reflexivity|]. repeat split; assumption.
  - destruct l as [d| | |]; cbn [as_slice];
      try (do 3 eexists; split; [reflexivity|]; repeat split; assumption).
    do 3 eexists. split; [reflexivity|]. repeat split; try assumption. right.
    cbn [payload] in Hv. pose proof (len_pos d (Hne d eq_refl)). change U16_HEX_BYTES with 4. lia.
Qed.

Definition sb_ok (sb : sideband) : Prop :=
  iter_ok2 (parent sb) /\
  (cap sb <= pos sb \/ (pos sb <= cap sb /\ cap sb <= vlen (buf (parent sb)))).

Lemma fill_buf_ok fuel sb : sb_ok sb -> measure (parent sb) < N.of_nat fuel ->
  exists r sb', fill_buf fuel sb = Ok (r, sb') /\ sb_ok sb' /\ measure (parent sb') <= measure (parent sb) /\
    (forall s, r = inl s -> pos sb' <= cap sb' /\ len s <= cap sb' - pos sb').
Proof.
  intros [Hit Hpc] Hm. unfold fill_buf. destruct (cap sb <=? pos sb) eqn:Ecp.
  - destruct (fill_loop_ok fuel (parent sb) (hnd sb) Hit Hm) as (res & it' & h' & E & Ok' & M' & G').
    rewrite E. cbn [obind]. destruct res as [[ofs c]|e]; cbn [obind].
    + cbn [fill_good] in G'. cbn [parent pos cap].
      assert (Hs : exists s, slice ofs (c + ofs) (vlen (buf it')) (known (buf it')) = Some s /\ len s <= c + ofs - ofs).
      { unfold slice. replace ((c + ofs <? ofs) || (vlen (buf it') <? c + ofs)) with false by lia.
        eexists. split; [reflexivity|]. pose proof (len_firstn_le (N.to_nat (c + ofs - ofs)) (skipn (N.to_nat ofs) (known (buf it')))). lia. }
      destruct Hs as (s & Es & Ls). rewrite Es.
      do 2 eexists. split; [reflexivity|]. split; [split; [exact Ok' | cbn [pos cap parent]; lia]|].
      split; [exact M'|]. intros s' [= <-]. cbn [pos cap]. split; [lia | exact Ls].
    + do 2 eexists. split; [reflexivity|]. split; [split; [exact Ok' | cbn [pos cap]; left; lia]|].
      split; [exact M' | discriminate].
  - cbn [obind]. destruct Hpc as [H | [H1 H2]]; [lia|].
    unfold slice. replace ((cap sb <? pos sb) || (vlen (buf (parent sb)) <? cap sb)) with false by lia.
    do 2 eexists. split; [reflexivity|]. split; [split; [exact Hit | right; lia]|]. split; [lia|].
    intros s [= <-]. split; [lia|].
    pose proof (len_firstn_le (N.to_nat (cap sb - pos sb)) (skipn (N.to_nat (pos sb)) (known (buf (parent sb))))). lia.
Qed.

Lemma sb_read_ok fuel sb size : sb_ok sb -> measure (parent sb) < N.of_nat fuel ->
  exists r sb', sb_read fuel sb size = Ok (r, sb') /\ sb_ok sb' /\ measure (parent sb') <= measure (parent sb).
Proof.
  intros Hok Hm. unfold sb_read.
  destruct (fill_buf_ok fuel sb Hok Hm) as (r & sb' & E & [Hit Hpc] & M & Hs). rewrite E. cbn [obind].
  destruct r as [rem|e].
  - destruct (Hs rem eq_refl) as [P L]. do 2 eexists. split; [reflexivity|].
    split; [|exact M]. split; [exact Hit|]. cbn [pos cap parent].
    destruct Hpc as [H | [H1 H2]]; [left; lia | right; lia].
  - do 2 eexists. split; [reflexivity|]. split; [split; assumption | exact M].
Qed.

(* any number of read calls with any buffer sizes *)
Fixpoint sb_reads (fuel : nat) (sb : sideband) (sizes : list N) : outcome (list (bytes + ioerr) * sideband) unit :=
  match sizes with
  | [] => Ok ([], sb)
  | size :: sizes' =>
      (r <- sb_read fuel sb size ;;
       r' <- sb_reads fuel (snd r) sizes' ;;
       Ok (fst r :: fst r', snd r'))%outcome
  end.

Lemma sb_reads_ok fuel sizes : forall sb, sb_ok sb -> measure (parent sb) < N.of_nat fuel ->
  exists rs sb', sb_reads fuel sb sizes = Ok (rs, sb').
Proof.
  induction sizes as [|size sizes IH]; intros sb Hok Hm; cbn [sb_reads]; [eauto|].
  destruct (sb_read_ok fuel sb size Hok Hm) as (r & sb1 & E & Hok1 & M1). rewrite E. cbn [obind snd fst].
  destruct (IH sb1 Hok1 ltac:(lia)) as (rs & sb2 & E2). rewrite E2. cbn. eauto.
Qed.

Lemma iter_ok_ok2_new chunks ds f : iter_ok2 (set_fail_on_err (iter_new chunks ds) f).
Proof. left. reflexivity. Qed.

(* peeking or reading on the parent before handing it to the side-band reader keeps it well-formed *)
Lemma peek_line_ok2 it : iter_ok2 it -> exists r it', peek_line it = Ok (r, it') /\ iter_ok2 it' /\ measure it' <= measure it + 1.
Proof.
  intros Hok. unfold peek_line. destruct (is_done it).
  { do 2 eexists. split; [reflexivity|]. split; [exact Hok | lia]. }
  destruct (vlen (peek_buf it) =? 0) eqn:Ep.
  - destruct (exhaustive_ok2 (rd it) (vec_resize (peek_buf it) MAX_LINE_LEN) (delims it) (fail_on_err it) true eq_refl)
      as (d & st & res & v' & ch' & E & Hb & Hv & _).
    rewrite E. cbn [obind]. do 2 eexists. split; [reflexivity|]. split; [exact Hv|].
    unfold measure. cbn [rd peek_buf]. rewrite Ep. destruct (vlen v' =? 0); lia.
  - destruct Hok as [H0 | [l (Hd & Hr)]]; [rewrite H0 in Ep; discriminate|].
    rewrite Hd. cbn [obind]. do 2 eexists. split; [reflexivity|]. split; [right; exists l; split; assumption | lia].
Qed.

Lemma L_sideband_never_panics it handler_ sizes fuel :
  iter_ok2 it -> measure it < N.of_nat fuel ->
  exists rs sb', sb_reads fuel {| parent := it; hnd := handler_; pos := 0; cap := 0 |} sizes = Ok (rs, sb').
Proof.
  intros Hok Hm. apply sb_reads_ok; [|exact Hm]. split; [exact Hok | left; cbn; lia].
Qed.
