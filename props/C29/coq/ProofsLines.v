(* C29 — lemmas, part 5: the stream reader yields exactly the lines that were written, in order, for any
   chunking of the byte stream, and stops at the configured delimiter. *)
From Coq Require Import Lia ZArith ZifyBool ZifyNat ZifyN.
Ltac Zify.zify_post_hook ::= Z.div_mod_to_equations.
From GixV.Base Require Import Bytes BytesFacts Outcome.
From GixV.C29 Require Import Tables Model Proofs ProofsCodec ProofsReader.
Local Open Scope N_scope.

(* the bytes of a line on the wire: what the encoder writes (see [L_encoder_writes_wire]) *)
Definition hexof (l : line) : bytes :=
  match l with
  | Data c => u16_to_hex (len c + 4)
  | Flush => FLUSH_LINE
  | Delimiter => DELIMITER_LINE
  | ResponseEnd => RESPONSE_END_LINE
  end.
Definition wire (l : line) : bytes := hexof l ++ payload l.
(* lines the encoder accepts *)
Definition valid (l : line) : Prop :=
  match l with Data c => 1 <= len c <= MAX_DATA_LEN | _ => True end.

Lemma hexof_length l : length (hexof l) = 4%nat.
Proof. destruct l; reflexivity. Qed.

Lemma L_encoder_writes_wire p d s n out : prefixed_and_suffixed p d s = Ok (n, out) ->
  out = wire (Data (p ++ d ++ s)) /\ valid (Data (p ++ d ++ s)) /\ n = len out.
Proof.
  unfold prefixed_and_suffixed. destruct (MAX_DATA_LEN <? len p + len d + len s) eqn:E; [discriminate|].
  destruct (is_empty d) eqn:Ed; [discriminate|]. intros [= <- <-].
  assert (Hd : 1 <= len d) by (destruct d; [discriminate | rewrite len_cons; lia]).
  assert (Hl : len (p ++ d ++ s) = len p + len d + len s) by (rewrite !len_app; lia).
  split; [|split].
  - unfold wire. cbn [hexof payload]. rewrite Hl. reflexivity.
  - cbn [valid]. rewrite Hl. lia.
  - cbn [app]. rewrite !len_cons, Hl. lia.
Qed.

Lemma L_control_writes_wire l n out : as_slice l = None -> line_write_to l = Ok (n, out) -> out = wire l.
Proof. destruct l; cbn; try discriminate; intros _ [= <- <-]; reflexivity. Qed.

Lemma hex_prefix_hexof l : valid l ->
  hex_prefix (hexof l) = match l with Data c => Ok (Wanted (len c)) | _ => Ok (HLine l) end.
Proof.
  destruct l as [c| | |]; try reflexivity. cbn [valid hexof]. destruct MAX_vals as (_ & ED & _). rewrite ED.
  intros H. rewrite hex_prefix_u16 by lia. do 2 f_equal. lia.
Qed.

Lemma read_line_inner_wire ch l rest : nonempty ch -> concat ch = wire l ++ rest -> valid l ->
  exists w ch', read_line_inner ch MAX_LINE_LEN = Ok (RLine l, w, ch') /\ nonempty ch' /\ concat ch' = rest /\
    all_at_once_gen MAX_LINE_LEN w = Ok l /\ w = wire l.
Proof.
  intros Hne Hc Hv. destruct MAX_vals as (EM & ED & EU).
  unfold read_line_inner. rewrite EM. replace (65520 <? 4) with false by reflexivity.
  unfold wire in Hc. rewrite <- app_assoc in Hc.
  destruct (read_exact_flat ch Hne 4) as [R4 _].
  assert (H4 : 4 <= len (concat ch)).
  { rewrite Hc, len_app, (len4 _ (hexof_length l)). lia. }
  destruct (R4 H4) as (ch1 & E1 & C1 & N1). rewrite E1. rewrite Hc in C1.
  change (N.to_nat 4) with 4%nat in *. rewrite Hc, (firstn_app_exact _ _ 4 (hexof_length l)).
  rewrite (skipn_app_exact _ _ 4 (hexof_length l)) in C1.
  rewrite (hex_prefix_hexof l Hv).
  destruct l as [c| | |]; cbn [payload app] in *.
  - cbn [valid] in Hv. rewrite ED in Hv. replace (65520 - 4 <? len c) with false by lia.
    destruct (read_exact_flat ch1 N1 (len c)) as [Rc _].
    destruct (Rc ltac:(rewrite C1, len_app; lia)) as (ch2 & E2 & C2 & N2). rewrite E2, C1, firstn_len_app.
    rewrite C1, skipn_len_app in C2. unfold to_data_line. rewrite EM. replace (65520 <? len c) with false by lia.
    do 2 eexists. split; [reflexivity|]. split; [assumption|]. split; [assumption|]. split; [|reflexivity].
    apply (all_at_once_gen_wanted 65520 (hexof (Data c)) c (len c)); try apply hexof_length; try reflexivity; try lia.
    all: try (apply (hex_prefix_hexof (Data c)); cbn [valid]; rewrite ED; lia); try (rewrite EM; lia).
  - do 2 eexists. split; [reflexivity|]. repeat split; try assumption.
  - do 2 eexists. split; [reflexivity|]. repeat split; try assumption.
  - do 2 eexists. split; [reflexivity|]. repeat split; try assumption.
Qed.

(* the iterator is between lines: not stopped, nothing peeked *)
Definition ready (it : iter) (ds : list line) (f : bool) : Prop :=
  is_done it = false /\ vlen (peek_buf it) = 0 /\ fail_on_err it = f /\ delims it = ds /\ nonempty (rd it).

Definition passes (ds : list line) (f : bool) (l : line) : Prop :=
  valid l /\ find_line ds l = None /\ (if f then check_error l else None) = None.

Lemma buf_std it : vlen (if vlen (buf it) =? MAX_LINE_LEN then buf it else vec_resize (buf it) MAX_LINE_LEN) = MAX_LINE_LEN.
Proof. destruct (vlen (buf it) =? MAX_LINE_LEN) eqn:E; [lia | reflexivity]. Qed.

Lemma read_line_wire it ds f l rest : ready it ds f -> concat (rd it) = wire l ++ rest -> passes ds f l ->
  exists it', read_line it = Ok (Some (RLine l), it') /\ ready it' ds f /\ concat (rd it') = rest /\
    buf it' = {| known := wire l; vlen := MAX_LINE_LEN |}.
Proof.
  intros (Hd & Hp & Hf & Hds & Hne) Hc (Hv & Hfind & Herr).
  unfold read_line. rewrite Hd, Hp. change (0 =? 0) with true. cbn [negb].
  unfold read_line_inner_exhaustive. rewrite buf_std.
  destruct (read_line_inner_wire (rd it) l rest Hne Hc Hv) as (w & ch' & E & N' & C' & D' & W'). rewrite E. cbn [obind].
  rewrite Hds, Hfind, Hf, Herr. unfold decode_expect. cbn [known vlen]. rewrite ?buf_std, D'. cbn [obind].
  eexists. split; [reflexivity|]. split; [|split; [exact C'|cbn [buf]; rewrite W'; reflexivity]].
  repeat split; cbn; assumption.
Qed.

Lemma read_line_delimiter it ds f dl rest : ready it ds f -> concat (rd it) = wire dl ++ rest -> valid dl ->
  find_line ds dl = Some dl ->
  exists it', read_line it = Ok (None, it') /\ is_done it' = true /\ stopped_at it' = Some dl /\
    concat (rd it') = rest.
Proof.
  intros (Hd & Hp & Hf & Hds & Hne) Hc Hv Hfind.
  unfold read_line. rewrite Hd, Hp. change (0 =? 0) with true. cbn [negb].
  unfold read_line_inner_exhaustive. rewrite buf_std.
  destruct (read_line_inner_wire (rd it) dl rest Hne Hc Hv) as (w & ch' & E & N' & C' & D' & W'). rewrite E. cbn [obind].
  rewrite Hds, Hfind. eexists. split; [reflexivity|]. repeat split; cbn; assumption.
Qed.

Lemma run_ops_app a : forall b it xs it1 ys it2,
  run_ops a it = Ok (xs, it1) -> run_ops b it1 = Ok (ys, it2) -> run_ops (a ++ b) it = Ok (xs ++ ys, it2).
Proof.
  induction a as [|o a IH]; intros b it xs it1 ys it2 Ha Hb; cbn [run_ops app] in *.
  - injection Ha as <- <-. exact Hb.
  - destruct (step o it) as [[x it']| | |]; cbn [obind] in *; try discriminate. cbn [snd fst] in *.
    destruct (run_ops a it') as [[xs' it1']| | |] eqn:E; cbn [obind] in Ha; try discriminate.
    cbn [fst snd] in Ha. injection Ha as <- <-.
    rewrite (IH b it' xs' it1' ys it2 E Hb). reflexivity.
Qed.

Lemma read_lines ds f ls : forall it rest, ready it ds f -> Forall (passes ds f) ls ->
  concat (rd it) = concat (map wire ls) ++ rest ->
  exists it', run_ops (repeat OpRead (length ls)) it = Ok (map (fun l => ORes (Some (RLine l))) ls, it') /\
    ready it' ds f /\ concat (rd it') = rest.
Proof.
  induction ls as [|l ls IH]; intros it rest Hr Hall Hc.
  - cbn. eexists. split; [reflexivity|]. split; [exact Hr | exact Hc].
  - inversion Hall as [|? ? Hl Hls]; subst. cbn [map concat] in Hc. rewrite <- app_assoc in Hc.
    destruct (read_line_wire it ds f l _ Hr Hc Hl) as (it1 & E1 & R1 & C1 & _).
    destruct (IH it1 rest R1 Hls C1) as (it2 & E2 & R2 & C2).
    cbn [length repeat run_ops step map]. rewrite E1. cbn [obind fst snd]. rewrite E2. cbn [obind fst snd].
    eexists. split; [reflexivity|]. split; assumption.
Qed.

Lemma L_reader_yields_written_lines ls dl rest chunks ds f :
  Forall (passes ds f) ls -> valid dl -> find_line ds dl = Some dl ->
  nonempty chunks -> concat chunks = concat (map wire ls) ++ wire dl ++ rest ->
  exists it',
    run_ops (repeat OpRead (length ls) ++ [OpRead; OpStopped; OpRead]) (set_fail_on_err (iter_new chunks ds) f)
    = Ok (map (fun l => ORes (Some (RLine l))) ls ++ [ORes None; OStop (Some dl); ORes None], it') /\
    concat (rd it') = rest.
Proof.
  intros Hall Hv Hfind Hne Hc.
  assert (Hr : ready (set_fail_on_err (iter_new chunks ds) f) ds f) by (repeat split; assumption).
  destruct (read_lines ds f ls _ (wire dl ++ rest) Hr Hall Hc) as (it1 & E1 & R1 & C1).
  destruct (read_line_delimiter it1 ds f dl rest R1 C1 Hv Hfind) as (it2 & E2 & D2 & S2 & C2).
  exists it2. split; [|exact C2].
  eapply run_ops_app; [exact E1|].
  cbn [run_ops step]. rewrite E2. cbn [obind fst snd]. rewrite S2.
  unfold read_line. rewrite D2. reflexivity.
Qed.

(* without a delimiter in the stream: all lines, then the rest is untouched *)
Lemma L_reader_yields_lines_prefix ls rest chunks ds f :
  Forall (passes ds f) ls -> nonempty chunks -> concat chunks = concat (map wire ls) ++ rest ->
  exists it',
    run_ops (repeat OpRead (length ls)) (set_fail_on_err (iter_new chunks ds) f)
    = Ok (map (fun l => ORes (Some (RLine l))) ls, it') /\ concat (rd it') = rest.
Proof.
  intros Hall Hne Hc.
  assert (Hr : ready (set_fail_on_err (iter_new chunks ds) f) ds f) by (repeat split; assumption).
  destruct (read_lines ds f ls _ rest Hr Hall Hc) as (it1 & E1 & R1 & C1). eauto.
Qed.
