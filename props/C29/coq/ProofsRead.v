(* C29 — lemmas, part 7: band-1 data re-assembled through successive Read::read calls with arbitrary
   (non-zero) buffer sizes is the concatenation of the band-1 payloads. *)
From Coq Require Import Lia ZArith ZifyBool ZifyNat ZifyN.
Ltac Zify.zify_post_hook ::= Z.div_mod_to_equations.
From GixV.Base Require Import Bytes BytesFacts Outcome.
From GixV.C29 Require Import Tables Model Proofs ProofsCodec ProofsReader ProofsLines ProofsDemux.
Local Open Scope N_scope.

(* read() in a loop, the k-th call with a buffer of [sz k] bytes, until Ok(0) or an error *)
Fixpoint read_all (sz : nat -> N) (n : nat) (k : nat) (fuel : nat) (sb : sideband)
  : outcome (bytes * option ioerr * sideband) unit :=
  match n with
  | O => OutOfFuel
  | S n' =>
      (r <- sb_read fuel sb (sz k) ;;
       match r with
       | (inr e, sb') => Ok ([], Some e, sb')
       | (inl [], sb') => Ok ([], None, sb')
       | (inl d, sb') =>
           r' <- read_all sz n' (S k) fuel sb' ;;
           match r' with (ds, e, sb'') => Ok (d ++ ds, e, sb'') end
       end)%outcome
  end.

Lemma skipn_add {A} (l : list A) : forall b a, skipn (a + b) l = skipn a (skipn b l).
Proof.
  induction l as [|x l IH]; intros b a.
  - rewrite !skipn_nil. reflexivity.
  - destruct b as [|b]; [rewrite Nat.add_0_r; reflexivity|].
    rewrite Nat.add_succ_r. cbn [skipn]. apply IH.
Qed.

Lemma slice_band1_from d o : 1 + len d <= MAX_DATA_LEN -> o <= len d ->
  slice (5 + o) (len d + 5) MAX_LINE_LEN (wire (item_line (IData d))) = Some (skipn (N.to_nat o) d).
Proof.
  intros H Ho. destruct MAX_vals as (EM & ED & _). rewrite ED in H. unfold slice. rewrite EM.
  replace ((len d + 5 <? 5 + o) || (65520 <? len d + 5)) with false by lia.
  unfold wire. cbn [item_line payload hexof].
  assert (H4 := u16_to_hex_length (len (N2b CHANNEL_DATA :: d) + 4)).
  destruct (u16_to_hex (len (N2b CHANNEL_DATA :: d) + 4)) as [|a [|b [|c [|e [|]]]]]; try discriminate.
  replace (N.to_nat (5 + o)) with (5 + N.to_nat o)%nat by lia. cbn [app skipn Nat.add].
  rewrite firstn_all2; [reflexivity|]. rewrite skipn_length. unfold len in *. lia.
Qed.

Definition hold (it : iter) (h : handler) (d : bytes) (o : N) : sideband :=
  {| parent := it; hnd := h; pos := 5 + o; cap := len d + 5 |}.

(* a read while part of a band-1 payload is still buffered *)
Lemma read_hold fuel it h d o size :
  buf it = {| known := wire (item_line (IData d)); vlen := MAX_LINE_LEN |} ->
  1 + len d <= MAX_DATA_LEN -> o < len d ->
  sb_read fuel (hold it h d o) size =
  Ok (inl (firstn (N.to_nat (N.min (len d - o) size)) (skipn (N.to_nat o) d)),
      hold it h d (o + N.min (len d - o) size)).
Proof.
  intros Hb Hd Ho. unfold sb_read, fill_buf, hold. cbn [pos cap parent hnd].
  replace (len d + 5 <=? 5 + o) with false by lia. cbn [obind pos cap parent]. rewrite Hb. cbn [known vlen].
  rewrite (slice_band1_from d o Hd ltac:(lia)). cbn [obind pos cap parent hnd].
  assert (Hl : len (skipn (N.to_nat o) d) = len d - o) by (unfold len in *; rewrite skipn_length; lia).
  rewrite Hl. do 2 f_equal. f_equal. lia.
Qed.

Section Sizes.
Variable sz : nat -> N.
Hypothesis sz_pos : forall k, 1 <= sz k.

(* draining a buffered payload: as many reads as it takes, then the continuation from the exhausted state *)
Lemma hold_all fuel it h d (Q : sideband -> Prop) data' b :
  buf it = {| known := wire (item_line (IData d)); vlen := MAX_LINE_LEN |} ->
  1 + len d <= MAX_DATA_LEN ->
  (forall n k, (b <= n)%nat -> exists sb'', read_all sz n k fuel (hold it h d (len d)) = Ok (data', None, sb'') /\ Q sb'') ->
  forall m o n k, (N.to_nat (len d - o) <= m)%nat -> o <= len d -> (m + b <= n)%nat ->
  exists sb'', read_all sz n k fuel (hold it h d o) = Ok (skipn (N.to_nat o) d ++ data', None, sb'') /\ Q sb''.
Proof.
  intros Hb Hd Hcont. induction m as [|m IH]; intros o n k Hm Ho Hn.
  - assert (o = len d) as -> by lia. rewrite len_to_nat, skipn_all. cbn [app]. apply Hcont. lia.
  - destruct (N.eq_dec o (len d)) as [-> | Hne].
    { rewrite len_to_nat, skipn_all. cbn [app]. apply Hcont. lia. }
    destruct n as [|n]; [lia|]. cbn [read_all].
    rewrite (read_hold fuel it h d o (sz k) Hb Hd ltac:(lia)). cbn [obind].
    set (nread := N.min (len d - o) (sz k)).
    assert (Hnr : 1 <= nread) by (pose proof (sz_pos k); unfold nread; lia).
    assert (Hnr2 : nread <= len d - o) by (unfold nread; lia).
    destruct (IH (o + nread) n (S k) ltac:(lia) ltac:(lia) ltac:(lia)) as (sb'' & E & HQ).
    rewrite E. cbn [obind].
    assert (Hsplit : firstn (N.to_nat nread) (skipn (N.to_nat o) d) ++ skipn (N.to_nat (o + nread)) d
                     = skipn (N.to_nat o) d).
    { replace (N.to_nat (o + nread)) with (N.to_nat nread + N.to_nat o)%nat by lia.
      rewrite skipn_add. apply firstn_skipn. }
    destruct (firstn (N.to_nat nread) (skipn (N.to_nat o) d)) as [|x chunk] eqn:Ech.
    { exfalso. apply (f_equal (@length byte)) in Ech. rewrite firstn_length, skipn_length in Ech.
      cbn [length] in Ech. unfold len in *. lia. }
    exists sb''. split; [|exact HQ]. rewrite <- Hsplit, <- app_assoc. reflexivity.
Qed.

Definition bound (items : list item) : nat :=
  (N.to_nat (len (concat (data_of items))) + length items + 1)%nat.

Lemma L_read_all_content ds f dl rest : valid dl -> find_line ds dl = Some dl ->
  forall n0 items it h fuel pos0 cap0 n k, (length items < n0)%nat -> (bound items <= n)%nat ->
  (length items < fuel)%nat -> ready it ds f -> good_h h -> cap0 <= pos0 ->
  Forall (fun i => passes ds f (item_line i)) items -> concat (rd it) = stream_of items dl rest ->
  exists sb', read_all sz n k fuel {| parent := it; hnd := h; pos := pos0; cap := cap0 |}
              = Ok (concat (data_of items), None, sb') /\
    log (hnd sb') = rev (progress_of items) ++ log h /\
    stopped_at (parent sb') = Some dl /\ concat (rd (parent sb')) = rest.
Proof.
  intros Hv Hfind. induction n0 as [|n0 IH]; intros items it h fuel pos0 cap0 n k Hn0 Hn Hfuel Hr Hg Hpc Hall Hc; [lia|].
  destruct n as [|n]; [unfold bound in Hn; lia|]. cbn [read_all].
  unfold sb_read, fill_buf. cbn [pos cap parent hnd]. replace (cap0 <=? pos0) with true by lia.
  pose proof (fill_loop_demux ds f dl rest Hv Hfind items fuel it h Hfuel Hr Hg Hall Hc) as F.
  pose proof (next_data_spec items) as S.
  destruct (next_data items) as [p [[d r]|]].
  - destruct F as (it' & h' & E & R' & G' & L' & B' & C'). destruct S as (Sd & Sp & Sl & Sne & pre & Epre).
    rewrite E. cbn [obind parent pos cap]. rewrite B'. cbn [known vlen].
    assert (Hall' : passes ds f (item_line (IData d)) /\ Forall (fun i => passes ds f (item_line i)) r).
    { rewrite Epre in Hall. apply Forall_app in Hall. destruct Hall as [_ Hall].
      inversion Hall; subst. split; assumption. }
    destruct Hall' as [[Hval _] Hr'].
    assert (Hd : 1 + len d <= MAX_DATA_LEN) by (cbn [item_line valid] in Hval; rewrite len_cons in Hval; lia).
    change (U16_HEX_BYTES + 1) with 5 in *.
    rewrite (slice_band1 d Hd). cbn [obind pos cap parent hnd].
    set (nread := N.min (len d) (sz k)).
    assert (Hd1 : 1 <= len d) by (destruct d; [congruence | rewrite len_cons; lia]).
    assert (Hnr : 1 <= nread <= len d) by (pose proof (sz_pos k); unfold nread; lia).
    (* the state after this first read is [hold it' h' d nread] *)
    replace {| parent := it'; hnd := h'; pos := N.min (5 + nread) (len d + 5); cap := len d + 5 |}
      with (hold it' h' d nread) by (unfold hold; f_equal; lia).
    set (Q := fun sb' : sideband => log (hnd sb') = rev (progress_of r) ++ log h' /\
                stopped_at (parent sb') = Some dl /\ concat (rd (parent sb')) = rest).
    assert (Hcont : forall n' k', (bound r <= n')%nat ->
              exists sb'', read_all sz n' k' fuel (hold it' h' d (len d)) = Ok (concat (data_of r), None, sb'') /\ Q sb'').
    { intros n' k' Hb'. unfold hold.
      apply (IH r it' h' fuel (5 + len d) (len d + 5) n' k'); try assumption; try lia. }
    assert (Hbound : (N.to_nat (len d - nread) + bound r <= n)%nat).
    { unfold bound in *. rewrite Sd in Hn. cbn [concat] in Hn. rewrite len_app in Hn. lia. }
    destruct (hold_all fuel it' h' d Q (concat (data_of r)) (bound r) B' Hd Hcont
                (N.to_nat (len d - nread)) nread n (S k) ltac:(lia) ltac:(lia) Hbound) as (sb'' & E'' & L'' & S'' & C'').
    rewrite E''. cbn [obind].
    assert (Hsplit : firstn (N.to_nat nread) d ++ skipn (N.to_nat nread) d = d) by apply firstn_skipn.
    destruct (firstn (N.to_nat nread) d) as [|x chunk] eqn:Ech.
    { exfalso. apply (f_equal (@length byte)) in Ech. rewrite firstn_length in Ech.
      cbn [length] in Ech. unfold len in *. lia. }
    exists sb''. split.
    + rewrite Sd. cbn [concat]. rewrite <- Hsplit at 2. rewrite <- app_assoc. reflexivity.
    + rewrite L'', L', Sp, rev_app_distr, <- app_assoc. repeat split; assumption.
  - destruct F as (it' & h' & E & D' & S' & G' & L' & C'). destruct S as (Sd & Sp).
    rewrite E. cbn [obind parent pos cap]. unfold slice.
    replace ((0 + 0 <? 0) || (vlen (buf it') <? 0 + 0)) with false by lia.
    change (N.to_nat (0 + 0 - 0)) with 0%nat. cbn [firstn obind len length N.of_nat N.min].
    replace (N.to_nat (N.min 0 (sz k))) with 0%nat by lia. cbn [firstn].
    eexists. split; [rewrite Sd; reflexivity|]. cbn [hnd parent]. rewrite L', Sp. repeat split; assumption.
Qed.
End Sizes.
