(* C29 — executable model of gix-packetline (blocking-io), following the code as it is after the two
   `fix:` commits recorded in ../findings.txt.  No proofs here.

   Sources (all under gix-packetline/src):
     lib.rs                        constants (Tables.v, regenerated from the source text)
     encode/mod.rs, encode/blocking_io.rs   u16_to_hex, prefixed_and_suffixed_data_to_write, *_to_write
     decode.rs                     hex_prefix, to_data_line, streaming, all_at_once
     line/mod.rs                   check_error, as_text / TextRef::from, decode_band
     read/mod.rs, read/blocking_io.rs       StreamingPeekableIter: new, read_line_inner,
                                   read_line_inner_exhaustive, read_line, peek_line, reset, fail_on_err_lines
     read/sidebands/blocking_io.rs WithSidebands: fill_buf, consume, Read::read
     write/blocking_io.rs          Writer::write

   Modelling decisions
   * Rust panics are explicit: slicing / split_at_mut out of range, `expect` on an Err, the two
     debug assertions of hex_prefix, debug-build subtraction overflow.
   * faster_hex::{hex_encode, hex_decode} are Base.Bytes.{hex_encode, hex_decode} (lower-case output,
     both cases accepted, any non-hex byte is an error).
   * A `Vec<u8>` line buffer (65520 bytes, mostly stale) is a [vec]: its length [vlen] and the prefix
     [known] that was written by the last read.  The code never reads beyond that prefix
     (Proofs: [streaming_gen_pad] shows decoding the real buffer, whatever the stale bytes are, equals
     decoding the [vec]).
   * The underlying `Read` is a list of chunks: one `read` call never crosses a chunk boundary; an
     empty chunk is a `read` returning Ok(0).  `read_exact` is std's default_read_exact. *)
From GixV.Base Require Import Bytes Outcome.
From GixV.C29 Require Import Tables.
Local Open Scope N_scope.

Definition len (b : bytes) : N := N.of_nat (length b).
Definition is_empty (b : bytes) : bool := match b with [] => true | _ => false end.

(* &d[lo..hi] of a slice of length [total] whose content is (a prefix of) [d] *)
Definition slice (lo hi total : N) (d : bytes) : option bytes :=
  if (hi <? lo) || (total <? hi) then None
  else Some (firstn (N.to_nat (hi - lo)) (skipn (N.to_nat lo) d)).

Inductive line := Data (d : bytes) | Flush | Delimiter | ResponseEnd.

Definition line_eqb (a b : line) : bool :=
  match a, b with
  | Data x, Data y => bytes_eqb x y
  | Flush, Flush | Delimiter, Delimiter | ResponseEnd, ResponseEnd => true
  | _, _ => false
  end.

(* ---- encode ---------------------------------------------------------------------------------- *)

Inductive eerr := ETooLong (n : N) | EEmpty | EEmptyWrite.

(* encode::u16_to_hex(value as u16) *)
Definition u16_to_hex (v : N) : bytes :=
  let v := v mod 65536 in hex_encode [N2b (v / 256); N2b (v mod 256)].

(* prefixed_and_suffixed_data_to_write into a Vec: (returned count, bytes written) *)
Definition prefixed_and_suffixed (prefix data suffix : bytes) : outcome (N * bytes) eerr :=
  let data_len := len prefix + len data + len suffix in
  if MAX_DATA_LEN <? data_len then Err (ETooLong data_len)
  else if is_empty data then Err EEmpty
  else
    let data_len := data_len + 4 in
    Ok (data_len, u16_to_hex data_len ++ prefix ++ data ++ suffix).

Definition data_to_write (d : bytes) := prefixed_and_suffixed [] d [].
Definition text_to_write (t : bytes) := prefixed_and_suffixed [] t [x0a].
Definition error_to_write (m : bytes) := prefixed_and_suffixed ERR_PREFIX m [].
Definition band_to_write (channel : N) (d : bytes) := prefixed_and_suffixed [N2b channel] d [].
Definition flush_to_write : outcome (N * bytes) eerr := Ok (4, FLUSH_LINE).
Definition delim_to_write : outcome (N * bytes) eerr := Ok (4, DELIMITER_LINE).
Definition response_end_to_write : outcome (N * bytes) eerr := Ok (4, RESPONSE_END_LINE).

(* PacketLineRef::write_to *)
Definition line_write_to (l : line) : outcome (N * bytes) eerr :=
  match l with
  | Data d => data_to_write d
  | Flush => flush_to_write
  | Delimiter => delim_to_write
  | ResponseEnd => response_end_to_write
  end.

(* ---- decode ---------------------------------------------------------------------------------- *)

Inductive derr := HexDecode | TooLong (n : N) | DataIsEmpty | InvalidLineLength | NotEnough (n : N).
Inductive hp_res := HLine (l : line) | Wanted (n : N).
Inductive stream := Complete (l : line) (consumed : N) | Incomplete (needed : N).

(* u16::from_be_bytes *)
Definition be_N (l : bytes) : N := fold_left (fun acc b => 256 * acc + b2N b) l 0.

Definition hex_prefix (four : bytes) : outcome hp_res derr :=
  if negb (len four =? 4) then Panic                       (* debug_assert_eq!(four_bytes.len(), 4) *)
  else if bytes_eqb four FLUSH_LINE then Ok (HLine Flush)
  else if bytes_eqb four DELIMITER_LINE then Ok (HLine Delimiter)
  else if bytes_eqb four RESPONSE_END_LINE then Ok (HLine ResponseEnd)
  else
    match hex_decode four with
    | None => Err HexDecode
    | Some buf =>
        let wanted := be_N buf in
        if wanted =? 3 then Err InvalidLineLength
        else if wanted =? 4 then Err DataIsEmpty
        else if wanted <=? U16_HEX_BYTES then Panic           (* debug_assert!(wanted > 4); u16 subtraction *)
        else Ok (Wanted (wanted - U16_HEX_BYTES))
    end.

Definition to_data_line (d : bytes) : outcome line derr :=
  if MAX_LINE_LEN <? len d then Err (TooLong (len d)) else Ok (Data d).

(* decode::streaming on a slice of length [data_len] whose content starts with [data]
   ([data] is the whole slice for the public function; see [vec] for the reader's buffers) *)
Definition streaming_gen (data_len : N) (data : bytes) : outcome stream derr :=
  if data_len <? U16_HEX_BYTES then Ok (Incomplete (U16_HEX_BYTES - data_len))
  else
    match slice 0 U16_HEX_BYTES data_len data with
    | None => Panic
    | Some four =>
        r <- hex_prefix four ;;
        match r with
        | HLine l => Ok (Complete l 4)
        | Wanted s =>
            let wanted := s + U16_HEX_BYTES in
            if MAX_LINE_LEN <? wanted then Err (TooLong wanted)
            else if data_len <? wanted then Ok (Incomplete (wanted - data_len))
            else
              match slice U16_HEX_BYTES wanted data_len data with
              | None => Panic
              | Some d => l <- to_data_line d ;; Ok (Complete l wanted)
              end
        end
    end%outcome.

Definition all_at_once_gen (data_len : N) (data : bytes) : outcome line derr :=
  (s <- streaming_gen data_len data ;;
   match s with
   | Complete l _ => Ok l
   | Incomplete n => Err (NotEnough n)
   end)%outcome.

Definition streaming (data : bytes) := streaming_gen (len data) data.
Definition all_at_once (data : bytes) := all_at_once_gen (len data) data.

(* ---- line views ------------------------------------------------------------------------------ *)

Definition as_slice (l : line) : option bytes := match l with Data d => Some d | _ => None end.

Fixpoint starts_with (p d : bytes) : bool :=
  match p, d with
  | [], _ => true
  | x :: p', y :: d' => beqb x y && starts_with p' d'
  | _ :: _, [] => false
  end.

(* PacketLineRef::check_error *)
Definition check_error (l : line) : option bytes :=
  match l with
  | Data d => if (len ERR_PREFIX <=? len d) && starts_with ERR_PREFIX d
              then Some (skipn (length ERR_PREFIX) d) else None
  | _ => None
  end.

(* TextRef::from(&[u8]) — after the fix: an empty slice is an empty text *)
Fixpoint text_from (d : bytes) : bytes :=
  match d with
  | [] => []
  | x :: r =>
      match r with
      | [] => if beqb x x0a then [] else [x]
      | _ => x :: text_from r
      end
  end.
Definition as_text (l : line) : option bytes := option_map text_from (as_slice l).

Inductive band := BData (d : bytes) | BProgress (d : bytes) | BError (d : bytes).
Inductive banderr := InvalidSideBand (b : N) | NonDataLine.

(* PacketLineRef::decode_band: d[0] panics on an empty data line *)
Definition decode_band (l : line) : outcome band banderr :=
  match l with
  | Data [] => Panic
  | Data (b :: r) =>
      let n := b2N b in
      if n =? 1 then Ok (BData r) else if n =? 2 then Ok (BProgress r) else if n =? 3 then Ok (BError r)
      else Err (InvalidSideBand n)
  | _ => Err NonDataLine
  end.

(* ---- the underlying Read ----------------------------------------------------------------------- *)

(* std::io::default_read_exact over a chunked reader: (None = UnexpectedEof, rest of the reader) *)
Fixpoint read_exact (chunks : list bytes) (n : N) : option bytes * list bytes :=
  if n =? 0 then (Some [], chunks)
  else
    match chunks with
    | [] => (None, [])
    | c :: rest =>
        let lc := len c in
        if lc =? 0 then (None, rest)
        else if lc <=? n then
          match read_exact rest (n - lc) with
          | (Some r, rest') => (Some (c ++ r), rest')
          | (None, rest') => (None, rest')
          end
        else (Some (firstn (N.to_nat n) c), skipn (N.to_nat n) c :: rest)
    end.

(* ---- StreamingPeekableIter -------------------------------------------------------------------- *)

Record vec := { known : bytes; vlen : N }.
Definition vec_empty : vec := {| known := []; vlen := 0 |}.
(* Vec::resize(n, 0): content up to min(len, n) is kept *)
Definition vec_resize (v : vec) (n : N) : vec :=
  {| known := if len (known v) <=? n then known v else firstn (N.to_nat n) (known v); vlen := n |}.

Inductive ioerr :=
| UnexpectedEof                      (* read_exact: "failed to fill whole buffer" *)
| ErrLine (msg : bytes)              (* read::Error { message } *)
| IoDecode (e : derr)
| IoBand (e : banderr)
| Interrupted
| NonData.                           (* "encountered non-data line in a data-line only context" *)

Inductive rres := RLine (l : line) | RDecode (e : derr) | RIo (e : ioerr).

Record iter := {
  rd : list bytes;
  peek_buf : vec;
  buf : vec;
  fail_on_err : bool;
  delims : list line;
  is_done : bool;
  stopped_at : option line
}.

Definition iter_new (chunks : list bytes) (delimiters : list line) : iter :=
  {| rd := chunks; peek_buf := vec_empty; buf := {| known := []; vlen := MAX_LINE_LEN |};
     fail_on_err := false; delims := delimiters; is_done := false; stopped_at := None |}.

(* read_line_inner(reader, buf): (result, bytes written to the front of buf, reader afterwards) *)
Definition read_line_inner (chunks : list bytes) (buflen : N) : outcome (rres * bytes * list bytes) unit :=
  if buflen <? 4 then Panic                                             (* buf.split_at_mut(4) *)
  else
    let data_cap := buflen - 4 in
    match read_exact chunks 4 with
    | (None, ch) => Ok (RIo UnexpectedEof, [], ch)
    | (Some hex, ch) =>
        match hex_prefix hex with
        | Panic => Panic
        | OutOfFuel => OutOfFuel
        | Err e => Ok (RDecode e, hex, ch)
        | Ok (HLine l) => Ok (RLine l, hex, ch)
        | Ok (Wanted n) =>
            if data_cap <? n then Ok (RDecode (TooLong (n + U16_HEX_BYTES)), hex, ch)   (* the fix *)
            else
              match read_exact ch n with
              | (None, ch') => Ok (RIo UnexpectedEof, hex, ch')
              | (Some d, ch') =>
                  match to_data_line d with
                  | Ok l => Ok (RLine l, hex ++ d, ch')
                  | Err e => Ok (RDecode e, hex ++ d, ch')
                  | Panic => Panic
                  | OutOfFuel => OutOfFuel
                  end
              end
        end
    end.

Definition find_line (ds : list line) (l : line) : option line := find (fun x => line_eqb x l) ds.

(* crate::decode(buf).expect("only valid data here") *)
Definition decode_expect (v : vec) : outcome rres unit :=
  match all_at_once_gen (vlen v) (known v) with
  | Ok l => Ok (RLine l)
  | _ => Panic
  end.

(* read_line_inner_exhaustive: (is_done, stopped_at, result, buffer afterwards, reader afterwards) *)
Definition read_line_inner_exhaustive (chunks : list bytes) (v : vec) (ds : list line) (fail : bool)
           (buf_resize : bool) : outcome (bool * option line * option rres * vec * list bytes) unit :=
  (r <- read_line_inner chunks (vlen v) ;;
   match r with
   | (RLine l, written, ch) =>
       match find_line ds l with
       | Some st => Ok (true, Some st, None, vec_empty, ch)
       | None =>
           match (if fail then check_error l else None) with
           | Some msg => Ok (true, None, Some (RIo (ErrLine msg)), vec_empty, ch)
           | None =>
               let n := match as_slice l with Some s => len s + U16_HEX_BYTES | None => U16_HEX_BYTES end in
               let v1 := {| known := written; vlen := vlen v |} in
               let v2 := if buf_resize then vec_resize v1 n else v1 in
               res <- decode_expect v2 ;;
               Ok (false, None, Some res, v2, ch)
           end
       end
   | (res, _, ch) => Ok (false, None, Some res, vec_empty, ch)
   end)%outcome.

Definition read_line (it : iter) : outcome (option rres * iter) unit :=
  if is_done it then Ok (None, it)
  else if negb (vlen (peek_buf it) =? 0) then
    (* mem::swap(peek_buf, buf); peek_buf.clear() *)
    let it' := {| rd := rd it; peek_buf := vec_empty; buf := peek_buf it; fail_on_err := fail_on_err it;
                  delims := delims it; is_done := false; stopped_at := stopped_at it |} in
    (res <- decode_expect (buf it') ;; Ok (Some res, it'))%outcome
  else
    let b := if vlen (buf it) =? MAX_LINE_LEN then buf it else vec_resize (buf it) MAX_LINE_LEN in
    (r <- read_line_inner_exhaustive (rd it) b (delims it) (fail_on_err it) false ;;
     match r with
     | (done, st, res, b', ch) =>
         Ok (res, {| rd := ch; peek_buf := peek_buf it; buf := b'; fail_on_err := fail_on_err it;
                     delims := delims it; is_done := done; stopped_at := st |})
     end)%outcome.

Definition peek_line (it : iter) : outcome (option rres * iter) unit :=
  if is_done it then Ok (None, it)
  else if vlen (peek_buf it) =? 0 then
    let b := vec_resize (peek_buf it) MAX_LINE_LEN in
    (r <- read_line_inner_exhaustive (rd it) b (delims it) (fail_on_err it) true ;;
     match r with
     | (done, st, res, b', ch) =>
         Ok (res, {| rd := ch; peek_buf := b'; buf := buf it; fail_on_err := fail_on_err it;
                     delims := delims it; is_done := done; stopped_at := st |})
     end)%outcome
  else (res <- decode_expect (peek_buf it) ;; Ok (Some res, it))%outcome.

Definition iter_reset (it : iter) : iter :=
  {| rd := rd it; peek_buf := peek_buf it; buf := buf it; fail_on_err := fail_on_err it;
     delims := delims it; is_done := false; stopped_at := None |}.
Definition set_fail_on_err (it : iter) (v : bool) : iter :=
  {| rd := rd it; peek_buf := peek_buf it; buf := buf it; fail_on_err := v;
     delims := delims it; is_done := is_done it; stopped_at := stopped_at it |}.

(* the operations a caller can interleave on the iterator, and what each lets the caller observe *)
Inductive op := OpRead | OpPeek | OpReset | OpStopped | OpFail (b : bool).
Inductive obs := ORes (r : option rres) | OStop (l : option line) | OUnit.

Definition step (o : op) (it : iter) : outcome (obs * iter) unit :=
  match o with
  | OpRead => (r <- read_line it ;; Ok (ORes (fst r), snd r))%outcome
  | OpPeek => (r <- peek_line it ;; Ok (ORes (fst r), snd r))%outcome
  | OpReset => Ok (OUnit, iter_reset it)
  | OpStopped => Ok (OStop (stopped_at it), it)
  | OpFail b => Ok (OUnit, set_fail_on_err it b)
  end.

Fixpoint run_ops (ops : list op) (it : iter) : outcome (list obs * iter) unit :=
  match ops with
  | [] => Ok ([], it)
  | o :: ops' =>
      (r <- step o it ;;
       r' <- run_ops ops' (snd r) ;;
       Ok (fst r :: fst r', snd r'))%outcome
  end.

(* ---- WithSidebands ------------------------------------------------------------------------------ *)

(* the progress handler of the harness: records its calls, answers Interrupt at call number [interrupt_at] *)
Record handler := { present : bool; interrupt_at : option N; calls : N; log : list (bool * bytes) }.
Definition handler_call (h : handler) (is_err : bool) (text : bytes) : bool * handler :=
  let stop := match interrupt_at h with Some k => calls h =? k | None => false end in
  (stop, {| present := present h; interrupt_at := interrupt_at h; calls := calls h + 1;
            log := (is_err, text) :: log h |}).

Record sideband := { parent : iter; hnd : handler; pos : N; cap : N }.

(* the `loop` of fill_buf; each turn reads one line.  Result: Ok (ofs, cap) | io error *)
Fixpoint fill_loop (fuel : nat) (it : iter) (h : handler) : outcome ((N * N + ioerr) * iter * handler) unit :=
  match fuel with
  | O => OutOfFuel
  | S fuel' =>
      (r <- read_line it ;;
       match r with
       | (None, it') => Ok (inl (0, 0), it', h)
       | (Some (RIo e), it') => Ok (inr e, it', h)
       | (Some (RDecode e), it') => Ok (inr (IoDecode e), it', h)
       | (Some (RLine l), it') =>
           if present h then
             match decode_band l with
             | Panic => Panic
             | OutOfFuel => OutOfFuel
             | Err e => Ok (inr (IoBand e), it', h)
             | Ok (BData d) => if is_empty d then fill_loop fuel' it' h else Ok (inl (U16_HEX_BYTES + 1, len d), it', h)
             | Ok (BProgress d) =>
                 let (stop, h') := handler_call h false (text_from d) in
                 if stop then Ok (inr Interrupted, it', h') else fill_loop fuel' it' h'
             | Ok (BError d) =>
                 let (stop, h') := handler_call h true (text_from d) in
                 if stop then Ok (inr Interrupted, it', h') else fill_loop fuel' it' h'
             end
           else
             match as_slice l with
             | Some d => Ok (inl (U16_HEX_BYTES, len d), it', h)
             | None => Ok (inr NonData, it', h)
             end
       end)%outcome
  end.

(* BufRead::fill_buf: the returned slice, or an io error *)
Definition fill_buf (fuel : nat) (sb : sideband) : outcome ((bytes + ioerr) * sideband) unit :=
  (r <- (if cap sb <=? pos sb then
           r <- fill_loop fuel (parent sb) (hnd sb) ;;
           match r with
           | (inl (ofs, c), it', h') => Ok (None, {| parent := it'; hnd := h'; pos := ofs; cap := c + ofs |})
           | (inr e, it', h') => Ok (Some e, {| parent := it'; hnd := h'; pos := pos sb; cap := cap sb |})
           end
         else Ok (None, sb)) ;;
   match r with
   | (Some e, sb') => Ok (inr e, sb')
   | (None, sb') =>
       match slice (pos sb') (cap sb') (vlen (buf (parent sb'))) (known (buf (parent sb'))) with
       | None => Panic                                         (* &self.parent.buf[self.pos..self.cap] *)
       | Some s => Ok (inl s, sb')
       end
   end)%outcome.

(* Read::read with a buffer of [size] bytes: the bytes delivered, or an io error *)
Definition sb_read (fuel : nat) (sb : sideband) (size : N) : outcome ((bytes + ioerr) * sideband) unit :=
  (r <- fill_buf fuel sb ;;
   match r with
   | (inr e, sb') => Ok (inr e, sb')
   | (inl rem, sb') =>
       let nread := N.min (len rem) size in
       Ok (inl (firstn (N.to_nat nread) rem),
           {| parent := parent sb'; hnd := hnd sb'; pos := N.min (pos sb' + nread) (cap sb'); cap := cap sb' |})
   end)%outcome.

(* ---- Writer ------------------------------------------------------------------------------------- *)

(* the `while !buf.is_empty()` loop of Writer::write: (result, bytes that reached the inner writer) *)
Fixpoint writer_loop (fuel : nat) (binary : bool) (b : bytes) (written : N) (out : bytes)
  : outcome N eerr * bytes :=
  match b with
  | [] => (Ok written, out)
  | _ =>
      match fuel with
      | O => (OutOfFuel, out)
      | S fuel' =>
          let k := N.to_nat (N.min (len b) MAX_DATA_LEN) in
          let data := firstn k b in
          let rest := skipn k b in
          match (if binary then data_to_write data else text_to_write data) with
          | Ok (n, bytes_out) =>
              let written := written + n in
              let sub := U16_HEX_BYTES + (if binary then 0 else 1) in
              if written <? sub then (Panic, out ++ bytes_out)
              else writer_loop fuel' binary rest (written - sub) (out ++ bytes_out)
          | Err e => (Err e, out)
          | Panic => (Panic, out)
          | OutOfFuel => (OutOfFuel, out)
          end
      end
  end.

Definition writer_write (binary : bool) (b : bytes) : outcome N eerr * bytes :=
  if is_empty b then (Err EEmptyWrite, [])
  else writer_loop (S (length b)) binary b 0 [].
