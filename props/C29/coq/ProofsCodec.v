(* C29 — lemmas, part 2: what the encoder writes decodes back; the decoder is total. *)
From Coq Require Import Lia ZArith ZifyBool ZifyNat ZifyN.
Ltac Zify.zify_post_hook ::= Z.div_mod_to_equations.
From GixV.Base Require Import Bytes BytesFacts Outcome.
From GixV.C29 Require Import Tables Model Proofs.
Local Open Scope N_scope.

Lemma MAX_vals : MAX_LINE_LEN = 65520 /\ MAX_DATA_LEN = 65516 /\ U16_HEX_BYTES = 4.
Proof. repeat split. Qed.

Lemma firstn_app_exact {A} (a b : list A) n : length a = n -> firstn n (a ++ b) = a.
Proof. intros <-. rewrite firstn_app, Nat.sub_diag, firstn_all. cbn [firstn]. apply app_nil_r. Qed.
Lemma skipn_app_exact {A} (a b : list A) n : length a = n -> skipn n (a ++ b) = b.
Proof. intros <-. rewrite skipn_app, Nat.sub_diag, skipn_all. reflexivity. Qed.
Lemma len_firstn_le k (l : bytes) : len (firstn k l) <= N.of_nat k.
Proof. unfold len. pose proof (firstn_le_length k l). lia. Qed.
Lemma len4 (p : bytes) : length p = 4%nat -> len p = 4.
Proof. unfold len. intros ->. reflexivity. Qed.

(* ---- u16_to_hex ------------------------------------------------------------------------------- *)

Lemma u16_to_hex_length v : length (u16_to_hex v) = 4%nat.
Proof. reflexivity. Qed.

Lemma hex_val_digit : forall b,
  (match hex_val (hex_digit (hi_nibble b)), hex_val (hex_digit (lo_nibble b)) with
   | Some h, Some l => 16 * h + l =? b2N b
   | _, _ => false
   end) = true.
Proof. apply forall_bytes. vm_compute. reflexivity. Qed.

Lemma hexnum_u16 v : v < 65536 -> hexnum (u16_to_hex v) = Some v.
Proof.
  intros Hv. unfold u16_to_hex. rewrite N.mod_small by exact Hv. cbn [hex_encode]. rewrite hexnum4.
  pose proof (hex_val_digit (N2b (v / 256))) as H1. pose proof (hex_val_digit (N2b (v mod 256))) as H2.
  destruct (hex_val (hex_digit (hi_nibble (N2b (v / 256))))) as [a|]; [|discriminate].
  destruct (hex_val (hex_digit (lo_nibble (N2b (v / 256))))) as [b|]; [|discriminate].
  destruct (hex_val (hex_digit (hi_nibble (N2b (v mod 256))))) as [c|]; [|discriminate].
  destruct (hex_val (hex_digit (lo_nibble (N2b (v mod 256))))) as [d|]; [|discriminate].
  rewrite b2N_N2b_small in H1 by lia. rewrite b2N_N2b_small in H2 by lia.
  f_equal. lia.
Qed.

Lemma hex_prefix_u16 v : 5 <= v < 65536 -> hex_prefix (u16_to_hex v) = Ok (Wanted (v - 4)).
Proof.
  intros Hv. rewrite L_hex_prefix_spec by apply u16_to_hex_length.
  unfold hex_prefix_spec. rewrite hexnum_u16 by lia.
  replace (v =? 0) with false by lia. replace (v =? 1) with false by lia.
  replace (v =? 2) with false by lia. replace (v =? 3) with false by lia.
  replace (v =? 4) with false by lia. reflexivity.
Qed.

(* ---- streaming on a buffer that starts with a well-formed line ---------------------------------- *)

Lemma slice_head L (hex rest : bytes) : length hex = 4%nat -> 4 <= L ->
  slice 0 U16_HEX_BYTES L (hex ++ rest) = Some hex.
Proof.
  intros H4 HL. unfold slice. change U16_HEX_BYTES with 4.
  replace ((4 <? 0) || (L <? 4)) with false by lia.
  change (N.to_nat (4 - 0)) with 4%nat. change (N.to_nat 0) with 0%nat. cbn [skipn].
  rewrite firstn_app_exact by exact H4. reflexivity.
Qed.

Lemma slice_payload L (hex d rest : bytes) n : length hex = 4%nat -> len d = n -> n + 4 <= L ->
  slice U16_HEX_BYTES (n + U16_HEX_BYTES) L (hex ++ d ++ rest) = Some d.
Proof.
  intros H4 Hd HL. unfold slice. change U16_HEX_BYTES with 4.
  replace ((n + 4 <? 4) || (L <? n + 4)) with false by lia.
  change (N.to_nat 4) with 4%nat. rewrite skipn_app_exact by exact H4.
  replace (n + 4 - 4) with (len d) by lia. rewrite firstn_len_app. reflexivity.
Qed.

Lemma streaming_gen_line L hex rest l : length hex = 4%nat -> hex_prefix hex = Ok (HLine l) -> 4 <= L ->
  streaming_gen L (hex ++ rest) = Ok (Complete l 4).
Proof.
  intros H4 Hp HL. unfold streaming_gen. change U16_HEX_BYTES with 4 at 1.
  replace (L <? 4) with false by lia. rewrite slice_head by assumption. rewrite Hp. reflexivity.
Qed.

Lemma streaming_gen_wanted L hex d rest n :
  length hex = 4%nat -> hex_prefix hex = Ok (Wanted n) -> len d = n ->
  n + 4 <= MAX_LINE_LEN -> n + 4 <= L ->
  streaming_gen L (hex ++ d ++ rest) = Ok (Complete (Data d) (n + 4)).
Proof.
  intros H4 Hp Hd Hmax HL. unfold streaming_gen. change U16_HEX_BYTES with 4 at 1.
  replace (L <? 4) with false by lia. rewrite slice_head by (try assumption; lia).
  rewrite Hp. cbn [obind].
  replace (MAX_LINE_LEN <? n + U16_HEX_BYTES) with false by (change U16_HEX_BYTES with 4; lia).
  replace (L <? n + U16_HEX_BYTES) with false by (change U16_HEX_BYTES with 4; lia).
  rewrite slice_payload by assumption. unfold to_data_line.
  replace (MAX_LINE_LEN <? len d) with false by lia. reflexivity.
Qed.

Lemma all_at_once_gen_wanted L hex d n :
  length hex = 4%nat -> hex_prefix hex = Ok (Wanted n) -> len d = n ->
  n + 4 <= MAX_LINE_LEN -> n + 4 <= L ->
  all_at_once_gen L (hex ++ d) = Ok (Data d).
Proof.
  intros. unfold all_at_once_gen. replace (hex ++ d) with (hex ++ d ++ []) by (rewrite app_nil_r; reflexivity).
  rewrite (streaming_gen_wanted L hex d [] n) by assumption. reflexivity.
Qed.

Lemma all_at_once_gen_line L hex l : length hex = 4%nat -> hex_prefix hex = Ok (HLine l) -> 4 <= L ->
  all_at_once_gen L hex = Ok l.
Proof.
  intros. unfold all_at_once_gen. rewrite <- (app_nil_r hex).
  rewrite (streaming_gen_line L hex [] l) by assumption. reflexivity.
Qed.

(* the stale tail of a line buffer does not matter: decoding the real buffer [known ++ stale] is
   decoding the [vec] (this justifies the representation of Vec<u8> buffers in Model.v) *)
Lemma streaming_gen_pad hex d stale n :
  length hex = 4%nat -> hex_prefix hex = Ok (Wanted n) -> len d = n -> n + 4 <= MAX_LINE_LEN ->
  streaming ((hex ++ d) ++ stale) = streaming_gen (len ((hex ++ d) ++ stale)) (hex ++ d).
Proof.
  intros H4 Hp Hd Hmax. unfold streaming.
  assert (HL : n + 4 <= len ((hex ++ d) ++ stale)) by (rewrite !len_app, (len4 hex H4); lia).
  generalize dependent (len ((hex ++ d) ++ stale)). intros L HL.
  rewrite <- app_assoc. rewrite (streaming_gen_wanted L hex d stale n) by assumption.
  replace (hex ++ d) with (hex ++ d ++ []) by (rewrite app_nil_r; reflexivity).
  rewrite (streaming_gen_wanted L hex d [] n) by assumption. reflexivity.
Qed.

(* ---- the encoder ------------------------------------------------------------------------------ *)

Lemma L_line_roundtrip p d s rest : d <> [] -> len p + len d + len s <= MAX_DATA_LEN ->
  exists out, prefixed_and_suffixed p d s = Ok (len out, out) /\
    len out = len p + len d + len s + 4 /\
    streaming (out ++ rest) = Ok (Complete (Data (p ++ d ++ s)) (len out)) /\
    all_at_once out = Ok (Data (p ++ d ++ s)).
Proof.
  intros Hne Hlen. destruct MAX_vals as (EM & ED & EU). rewrite ED in Hlen.
  assert (Hd1 : 1 <= len d) by (destruct d; [congruence | rewrite len_cons; lia]).
  remember (len p + len d + len s) as n eqn:En.
  assert (Hn : 1 <= n <= 65516) by lia.
  exists (u16_to_hex (n + 4) ++ p ++ d ++ s).
  assert (Hout : len (u16_to_hex (n + 4) ++ p ++ d ++ s) = n + 4).
  { rewrite !len_app, (len4 _ (u16_to_hex_length _)). lia. }
  assert (Hp : hex_prefix (u16_to_hex (n + 4)) = Ok (Wanted n)).
  { rewrite hex_prefix_u16 by lia. f_equal. f_equal. lia. }
  assert (Hpl : len (p ++ d ++ s) = n) by (rewrite !len_app; lia).
  repeat split.
  - unfold prefixed_and_suffixed. rewrite <- En, ED. replace (65516 <? n) with false by lia.
    destruct d; [congruence|]. cbn [is_empty]. rewrite Hout. reflexivity.
  - exact Hout.
  - unfold streaming. rewrite Hout. rewrite <- app_assoc.
    rewrite (streaming_gen_wanted _ _ (p ++ d ++ s) rest n); try assumption; try apply u16_to_hex_length.
    + reflexivity.
    + rewrite EM. lia.
    + rewrite !len_app. pose proof (len4 _ (u16_to_hex_length (n + 4))). lia.
  - unfold all_at_once. rewrite Hout.
    apply (all_at_once_gen_wanted _ _ _ n); try assumption; try apply u16_to_hex_length.
    + rewrite EM. lia.
    + lia.
Qed.

Lemma L_encode_refuses p d s :
  (d = [] \/ MAX_DATA_LEN < len p + len d + len s) <-> exists e, prefixed_and_suffixed p d s = Err e.
Proof.
  unfold prefixed_and_suffixed. split.
  - intros [-> | H].
    + destruct (MAX_DATA_LEN <? len p + len [] + len s); eexists; reflexivity.
    + replace (MAX_DATA_LEN <? len p + len d + len s) with true by lia. eexists; reflexivity.
  - intros [e H]. destruct (MAX_DATA_LEN <? len p + len d + len s) eqn:E; [right; lia|].
    destruct d; [left; reflexivity|]. discriminate.
Qed.

Lemma L_encode_total p d s :
  prefixed_and_suffixed p d s <> Panic /\ prefixed_and_suffixed p d s <> OutOfFuel.
Proof.
  unfold prefixed_and_suffixed.
  destruct (MAX_DATA_LEN <? _); [split; discriminate|]. destruct (is_empty d); split; discriminate.
Qed.

Lemma L_control_roundtrip rest :
  streaming (FLUSH_LINE ++ rest) = Ok (Complete Flush 4) /\
  streaming (DELIMITER_LINE ++ rest) = Ok (Complete Delimiter 4) /\
  streaming (RESPONSE_END_LINE ++ rest) = Ok (Complete ResponseEnd 4).
Proof.
  repeat split; unfold streaming; apply streaming_gen_line; try reflexivity;
    rewrite len_app; change (len FLUSH_LINE) with 4; change (len DELIMITER_LINE) with 4;
    change (len RESPONSE_END_LINE) with 4; lia.
Qed.

(* ---- views ------------------------------------------------------------------------------------ *)

Lemma text_from_cons x r : r <> [] -> text_from (x :: r) = x :: text_from r.
Proof. destruct r; [congruence|]. reflexivity. Qed.

Lemma text_from_nl t : text_from (t ++ [x0a]) = t.
Proof.
  induction t as [|x t IH]; [reflexivity|].
  cbn [app]. rewrite text_from_cons by (destruct t; discriminate). rewrite IH. reflexivity.
Qed.

Lemma starts_with_app p d : starts_with p (p ++ d) = true.
Proof. induction p as [|x p IH]; [reflexivity|]. cbn [app starts_with]. rewrite beqb_refl. exact IH. Qed.

Lemma check_error_err m : check_error (Data (ERR_PREFIX ++ m)) = Some m.
Proof.
  unfold check_error. rewrite starts_with_app, len_app.
  replace (len ERR_PREFIX <=? len ERR_PREFIX + len m) with true by lia. cbn [andb].
  rewrite skipn_app_exact by reflexivity. reflexivity.
Qed.

Lemma decode_band_123 d :
  decode_band (Data (N2b CHANNEL_DATA :: d)) = Ok (BData d) /\
  decode_band (Data (N2b CHANNEL_PROGRESS :: d)) = Ok (BProgress d) /\
  decode_band (Data (N2b CHANNEL_ERROR :: d)) = Ok (BError d).
Proof. repeat split. Qed.

(* ---- the decoder is total and is the naive reader of the format -------------------------------- *)

Definition streaming_spec (data : bytes) : outcome stream derr :=
  if len data <? 4 then Ok (Incomplete (4 - len data))
  else
    match hexnum (firstn 4 data) with
    | None => Err HexDecode
    | Some v =>
        if v =? 0 then Ok (Complete Flush 4) else if v =? 1 then Ok (Complete Delimiter 4)
        else if v =? 2 then Ok (Complete ResponseEnd 4) else if v =? 3 then Err InvalidLineLength
        else if v =? 4 then Err DataIsEmpty
        else if 65520 <? v then Err (TooLong v)
        else if len data <? v then Ok (Incomplete (v - len data))
        else Ok (Complete (Data (firstn (N.to_nat (v - 4)) (skipn 4 data))) v)
    end.

Lemma L_streaming_spec data : streaming data = streaming_spec data.
Proof.
  unfold streaming, streaming_gen, streaming_spec. destruct MAX_vals as (EM & _ & EU). rewrite EM, EU.
  destruct (len data <? 4) eqn:E4; [reflexivity|].
  unfold slice at 1. replace ((4 <? 0) || (len data <? 4)) with false by lia.
  change (N.to_nat (4 - 0)) with 4%nat. change (N.to_nat 0) with 0%nat. cbn [skipn].
  assert (H4 : length (firstn 4 data) = 4%nat).
  { rewrite firstn_length. unfold len in E4. lia. }
  rewrite (L_hex_prefix_spec _ H4). unfold hex_prefix_spec.
  pose proof (hexnum_lt _ H4) as Hlt.
  destruct (hexnum (firstn 4 data)) as [v|]; [|reflexivity]. specialize (Hlt v eq_refl).
  destruct (v =? 0) eqn:V0; [reflexivity|]. destruct (v =? 1) eqn:V1; [reflexivity|].
  destruct (v =? 2) eqn:V2; [reflexivity|].
  destruct (v =? 3) eqn:V3; [reflexivity|]. destruct (v =? 4) eqn:V4; [reflexivity|].
  cbn [obind]. replace (v - 4 + 4) with v by lia.
  destruct (65520 <? v) eqn:Vm; [reflexivity|].
  destruct (len data <? v) eqn:Vl; [reflexivity|].
  unfold slice. replace ((v <? 4) || (len data <? v)) with false by lia.
  change (N.to_nat 4) with 4%nat. unfold to_data_line. rewrite EM.
  pose proof (len_firstn_le (N.to_nat (v - 4)) (skipn 4 data)).
  replace (65520 <? len (firstn (N.to_nat (v - 4)) (skipn 4 data))) with false by lia.
  reflexivity.
Qed.

Lemma L_streaming_total data :
  streaming data <> Panic /\ streaming data <> OutOfFuel /\
  all_at_once data <> Panic /\ all_at_once data <> OutOfFuel.
Proof.
  assert (H : streaming data <> Panic /\ streaming data <> OutOfFuel).
  { rewrite L_streaming_spec. unfold streaming_spec.
    destruct (len data <? 4); [split; discriminate|].
    destruct (hexnum (firstn 4 data)) as [v|]; [|split; discriminate].
    repeat (match goal with |- context [if ?c then _ else _] => destruct c end; try (split; discriminate)). }
  destruct H as [H1 H2]. repeat split; try assumption.
  all: unfold all_at_once, all_at_once_gen; fold (streaming data).
  all: destruct (streaming data) as [[l c|n]|e| |]; cbn [obind]; try discriminate; congruence.
Qed.
