(* C29 — transcript printer: the same observable string the Rust harness prints for a case.
   Also the glue that builds the chunked reader and plays the scripts of the `rd` / `sb` cases. *)
From GixV.Base Require Import Bytes Outcome.
From GixV.C29 Require Import Tables Model.
Local Open Scope N_scope.

(* ---- printing -------------------------------------------------------------------------------- *)

Definition adler (b : bytes) : N :=
  let '(a, s) := fold_left (fun (st : N * N) x =>
                              let '(a, s) := st in
                              let a' := (a + b2N x) mod 65521 in (a', (s + a') mod 65521)) b (1, 0) in
  s * 65536 + a.
Definition hex32 (v : N) : bytes :=
  hex_encode [N2b (v / 16777216); N2b (v / 65536); N2b (v / 256); N2b v].
Definition shb (b : bytes) : bytes :=
  match b with
  | [] => bs "-"
  | _ => if len b <=? 40 then hex_encode b else N_to_dec (len b) ++ bs "#" ++ hex32 (adler b)
  end.

Definition show_line (l : line) : bytes :=
  match l with
  | Data d => bs "D:" ++ shb d
  | Flush => bs "F"
  | Delimiter => bs "DL"
  | ResponseEnd => bs "RE"
  end.
Definition show_derr (e : derr) : bytes :=
  match e with
  | HexDecode => bs "HexDecode"
  | TooLong n => bs "TooLong:" ++ N_to_dec n
  | DataIsEmpty => bs "DataIsEmpty"
  | InvalidLineLength => bs "InvalidLineLength"
  | NotEnough n => bs "NotEnough:" ++ N_to_dec n
  end.
Definition show_io (e : ioerr) : bytes :=
  match e with
  | UnexpectedEof => bs "io:Eof"
  | ErrLine m => bs "io:ErrLine:" ++ shb m
  | IoDecode e => bs "io:Decode:" ++ show_derr e
  | IoBand (InvalidSideBand b) => bs "io:Band:Invalid:" ++ N_to_dec b
  | IoBand NonDataLine => bs "io:Band:NonDataLine"
  | Interrupted => bs "io:Interrupted"
  | NonData => bs "io:NonData"
  end.
Definition show_eerr (e : eerr) : bytes :=
  match e with
  | ETooLong n => bs "io:TooLong:" ++ N_to_dec n
  | EEmpty => bs "io:Empty"
  | EEmptyWrite => bs "io:EmptyWrite"
  end.
Definition show_rres (r : rres) : bytes :=
  match r with
  | RLine l => show_line l
  | RDecode e => bs "de:" ++ show_derr e
  | RIo e => show_io e
  end.
Definition show_res (r : option rres) : bytes :=
  match r with None => bs "none" | Some r => show_rres r end.

Definition fast_rev {A} (l : list A) : list A := rev_append l [].

Fixpoint join (sep : bytes) (l : list bytes) : bytes :=
  match l with
  | [] => []
  | [x] => x
  | x :: r => x ++ sep ++ join sep r
  end.

(* ---- the chunked reader of the harness ----------------------------------------------------------- *)

Definition cut_size (c : byte) : N :=
  if b2N c <? 128 then b2N c + 1 else (b2N c - 127) * 509.

Fixpoint split_chunks (data : bytes) (cuts : bytes) : list bytes :=
  match data with
  | [] => []
  | _ =>
      match cuts with
      | [] => [data]
      | c :: cuts' =>
          let n := N.to_nat (cut_size c) in
          firstn n data :: split_chunks (skipn n data) cuts'
      end
  end.

Definition delims_of (flags : N) : list line :=
  let d := (flags / 2) mod 8 in
  (if N.odd d then [Flush] else []) ++ (if N.odd (d / 2) then [Delimiter] else [])
  ++ (if N.odd (d / 4) then [ResponseEnd] else []).

Definition new_iter (fs : list bytes) : iter :=
  let flags := field_N 3 fs in
  set_fail_on_err (iter_new (split_chunks (nth_field 1 fs) (nth_field 2 fs)) (delims_of flags)) (N.odd flags).

(* ---- ops ------------------------------------------------------------------------------------- *)

Definition kind_encode (kind data : bytes) : outcome (N * bytes) eerr :=
  if bytes_eqb kind (bs "data") then line_write_to (Data data)
  else if bytes_eqb kind (bs "text") then text_to_write data
  else if bytes_eqb kind (bs "err") then error_to_write data
  else if bytes_eqb kind (bs "band1") then band_to_write CHANNEL_DATA data
  else if bytes_eqb kind (bs "band2") then band_to_write CHANNEL_PROGRESS data
  else if bytes_eqb kind (bs "band3") then band_to_write CHANNEL_ERROR data
  else if bytes_eqb kind (bs "flush") then line_write_to Flush
  else if bytes_eqb kind (bs "delim") then line_write_to Delimiter
  else if bytes_eqb kind (bs "rend") then line_write_to ResponseEnd
  else Ok (0, []).

Definition show_view (kind : bytes) (l : line) : bytes :=
  if bytes_eqb kind (bs "text") then
    match as_text l with Some t => bs " T:" ++ shb t | None => bs " T:none" end
  else if bytes_eqb kind (bs "err") then
    match check_error l with Some e => bs " E:" ++ shb e | None => bs " E:none" end
  else if bytes_eqb kind (bs "band1") || bytes_eqb kind (bs "band2") || bytes_eqb kind (bs "band3") then
    match decode_band l with
    | Ok (BData d) => bs " B1:" ++ shb d
    | Ok (BProgress d) => bs " B2:" ++ shb d
    | Ok (BError d) => bs " B3:" ++ shb d
    | Err _ => bs " B:err"
    | Panic => bs " PANIC"
    | OutOfFuel => bs " HANG"
    end
  else [].

Definition run_enc (fs : list bytes) : bytes :=
  let kind := nth_field 1 fs in
  match kind_encode kind (nth_field 2 fs) with
  | Ok (n, out) =>
      match all_at_once out with
      | Ok l => bs "ok " ++ N_to_dec n ++ bs " " ++ shb out ++ bs " " ++ show_line l ++ show_view kind l
      | Err e => bs "ok " ++ N_to_dec n ++ bs " " ++ shb out ++ bs " de:" ++ show_derr e
      | Panic => bs "PANIC"
      | OutOfFuel => bs "HANG"
      end
  | Err e => bs "err " ++ show_eerr e
  | Panic => bs "PANIC"
  | OutOfFuel => bs "HANG"
  end.

Definition run_dec (fs : list bytes) : bytes :=
  let d := nth_field 1 fs in
  match streaming d, all_at_once d with
  | Panic, _ | _, Panic => bs "PANIC"
  | OutOfFuel, _ | _, OutOfFuel => bs "HANG"
  | s, a =>
      bs "s=" ++
      match s with
      | Ok (Complete l n) => bs "C:" ++ show_line l ++ bs ":" ++ N_to_dec n
      | Ok (Incomplete n) => bs "I:" ++ N_to_dec n
      | Err e => bs "de:" ++ show_derr e
      | _ => []
      end ++ bs " a=" ++
      match a with
      | Ok l => show_line l
      | Err e => bs "de:" ++ show_derr e
      | _ => []
      end
  end.

Definition run_hp (fs : list bytes) : bytes :=
  let d := nth_field 1 fs in
  if negb (len d =? 4) then bs "precond"
  else
    match hex_prefix d with
    | Ok (HLine l) => bs "L:" ++ show_line l
    | Ok (Wanted n) => bs "W:" ++ N_to_dec n
    | Err e => bs "de:" ++ show_derr e
    | Panic => bs "PANIC"
    | OutOfFuel => bs "HANG"
    end.

(* one script step: the token printed, the iterator afterwards; None = the implementation panicked *)
Definition op_of_byte (c : byte) : option op :=
  if beqb c "r"%byte then Some OpRead else if beqb c "p"%byte then Some OpPeek
  else if beqb c "x"%byte then Some OpReset else if beqb c "s"%byte then Some OpStopped
  else if beqb c "e"%byte then Some (OpFail true) else if beqb c "E"%byte then Some (OpFail false)
  else None.

Definition show_obs (o : op) (x : obs) : bytes :=
  match o, x with
  | OpPeek, ORes r => bs "p" ++ show_res r
  | _, ORes r => show_res r
  | _, OStop l => bs "st:" ++ match l with Some l => show_line l | None => bs "none" end
  | OpReset, OUnit => bs "x"
  | OpFail true, OUnit => bs "e"
  | _, OUnit => bs "E"
  end.

Definition script_step (c : byte) (it : iter) : option (bytes * iter) :=
  match op_of_byte c with
  | None => Some (bs "?", it)
  | Some o => match step o it with Ok (x, it') => Some (show_obs o x, it') | _ => None end
  end.

Fixpoint run_script (script : bytes) (it : iter) (acc : list bytes) : option (list bytes * iter) :=
  match script with
  | [] => Some (fast_rev acc, it)
  | c :: script' =>
      match script_step c it with
      | Some (tok, it') => run_script script' it' (tok :: acc)
      | None => None
      end
  end.

Definition run_rd (fs : list bytes) : bytes :=
  match run_script (nth_field 4 fs) (new_iter fs) [] with
  | Some (toks, _) => join (bs ";") toks
  | None => bs "PANIC"
  end.

Definition next_size (sizes all_sizes : bytes) : N * bytes :=
  match sizes with
  | c :: r => (cut_size c, r)
  | [] => match all_sizes with c :: r => (cut_size c, r) | [] => (64, []) end
  end.

(* the read loop of the harness: read with the given buffer sizes until Ok(0) or an error *)
Fixpoint sb_loop (fuel : nat) (fill_fuel : nat) (sb : sideband) (sizes all_sizes : bytes) (acc : list bytes)
  : outcome (list bytes * bytes * sideband) unit :=
  match fuel with
  | O => OutOfFuel
  | S fuel' =>
      let '(size, sizes') := next_size sizes all_sizes in
      (r <- sb_read fill_fuel sb size ;;
       match r with
       | (inr e, sb') => Ok (fast_rev acc, show_io e, sb')
       | (inl [], sb') => Ok (fast_rev acc, bs "eof", sb')
       | (inl d, sb') => sb_loop fuel' fill_fuel sb' sizes' all_sizes (d :: acc)
       end)%outcome
  end.

Definition show_prog (l : list (bool * bytes)) : bytes :=
  match l with
  | [] => bs "-"
  | _ => join (bs ",") (map (fun p : bool * bytes => (if fst p then bs "E" else bs "P") ++ shb (snd p)) l)
  end.

Definition run_sb (fs : list bytes) : bytes :=
  let mode := field_N 4 fs in
  match run_script (nth_field 5 fs) (new_iter fs) [] with
  | None => bs "PANIC"
  | Some (pre, it) =>
      let h := {| present := negb (mode =? 0);
                  interrupt_at := if 2 <=? mode then Some (mode - 2) else None; calls := 0; log := [] |} in
      let n := S (S (length (nth_field 1 fs))) in
      match sb_loop n n {| parent := it; hnd := h; pos := 0; cap := 0 |} (nth_field 6 fs) (nth_field 6 fs) [] with
      | Panic => bs "PANIC"
      | OutOfFuel => bs "HANG"
      | Err _ => bs "?"
      | Ok (chunks, endtok, sb) =>
          let st := match stopped_at (parent sb) with Some l => show_line l | None => bs "none" end in
          (* Drop for WithSidebands: parent.reset() *)
          match read_line (iter_reset (parent sb)) with
          | Ok (r, _) =>
              bs "pre=" ++ (match pre with [] => bs "-" | _ => join (bs ";") pre end)
              ++ bs " data=" ++ shb (concat chunks) ++ bs " prog=" ++ show_prog (fast_rev (log (hnd sb)))
              ++ bs " end=" ++ endtok ++ bs " st=" ++ st ++ bs " next=" ++ show_res r
          | _ => bs "PANIC"
          end
      end
  end.

Definition run_wr (fs : list bytes) : bytes :=
  let binary := negb (bytes_eqb (nth_field 1 fs) (bs "t")) in
  match writer_write binary (nth_field 2 fs) with
  | (Ok n, out) => bs "ok " ++ N_to_dec n ++ bs " " ++ shb out
  | (Err e, out) => bs "err " ++ show_eerr e ++ bs " " ++ shb out
  | (Panic, _) => bs "PANIC"
  | (OutOfFuel, _) => bs "HANG"
  end.

Definition run_model (fs : list bytes) : bytes :=
  let op := nth_field 0 fs in
  if bytes_eqb op (bs "enc") then run_enc fs
  else if bytes_eqb op (bs "dec") then run_dec fs
  else if bytes_eqb op (bs "hp") then run_hp fs
  else if bytes_eqb op (bs "rd") then run_rd fs
  else if bytes_eqb op (bs "sb") then run_sb fs
  else if bytes_eqb op (bs "wr") then run_wr fs
  else bs "?".

Definition run (fs : list bytes) : bytes :=
  match fs with
  | _mode :: rest => run_model rest
  | [] => bs "?"
  end.
