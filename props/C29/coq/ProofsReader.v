(* C29 — lemmas, part 3: the stream reader never panics, and what it yields does not depend on how
   the underlying reader splits the bytes. *)
From Coq Require Import Lia ZArith ZifyBool ZifyNat ZifyN.
Ltac Zify.zify_post_hook ::= Z.div_mod_to_equations.
From GixV.Base Require Import Bytes BytesFacts Outcome.
From GixV.C29 Require Import Tables Model Proofs ProofsCodec.
Local Open Scope N_scope.

(* ---- read_exact ------------------------------------------------------------------------------- *)

Lemma read_exact_eq chunks n :
  read_exact chunks n =
  if n =? 0 then (Some [], chunks)
  else match chunks with
       | [] => (None, [])
       | c :: rest =>
           let lc := len c in
           if lc =? 0 then (None, rest)
           else if lc <=? n then
             match read_exact rest (n - lc) with
             | (Some r, rest') => (Some (c ++ r), rest')
             | (None, rest') => (None, rest')
             end
           else (Some (firstn (N.to_nat n) c), skipn (N.to_nat n) c :: rest)
       end.
Proof. destruct chunks; reflexivity. Qed.

Lemma read_exact_len chunks : forall n d ch, read_exact chunks n = (Some d, ch) -> len d = n.
Proof.
  induction chunks as [|c rest IH]; intros n d ch; rewrite read_exact_eq.
  - destruct (n =? 0) eqn:E0; [|discriminate]. intros [= <- <-]. rewrite len_nil. lia.
  - destruct (n =? 0) eqn:E0; [intros [= <- <-]; rewrite len_nil; lia|]. cbv zeta.
    destruct (len c =? 0) eqn:Ec; [discriminate|].
    destruct (len c <=? n) eqn:El.
    + destruct (read_exact rest (n - len c)) as [[r|] rest'] eqn:E; [|discriminate].
      intros [= <- <-]. rewrite len_app, (IH _ _ _ E). lia.
    + intros [= <- <-]. unfold len in *. rewrite firstn_length. lia.
Qed.

Definition nonempty (cs : list bytes) : Prop := Forall (fun c => c <> []) cs.

Lemma read_exact_flat cs : nonempty cs -> forall n,
  (n <= len (concat cs) -> exists ch, read_exact cs n = (Some (firstn (N.to_nat n) (concat cs)), ch) /\
       concat ch = skipn (N.to_nat n) (concat cs) /\ nonempty ch) /\
  (len (concat cs) < n -> exists ch, read_exact cs n = (None, ch) /\ concat ch = [] /\ nonempty ch).
Proof.
  induction 1 as [|c rest Hc Hrest IH]; intros n; rewrite read_exact_eq.
  - cbn [concat]. rewrite len_nil. split; intros Hn.
    + replace (n =? 0) with true by lia. replace n with 0 by lia. exists []. repeat split. constructor.
    + replace (n =? 0) with false by lia. exists []. repeat split. constructor.
  - cbn [concat]. rewrite len_app. cbv zeta.
    assert (Hlc : 1 <= len c) by (destruct c; [congruence | rewrite len_cons; lia]).
    destruct (n =? 0) eqn:E0.
    { split; intros Hn; [|lia]. replace n with 0 by lia. exists (c :: rest). repeat split.
      constructor; assumption. }
    replace (len c =? 0) with false by lia.
    destruct (len c <=? n) eqn:El.
    + destruct (IH (n - len c)) as [IH1 IH2]. split; intros Hn.
      * destruct (IH1 ltac:(lia)) as (ch & E & Ec & Hch). exists ch. rewrite E. repeat split; try assumption.
        -- f_equal. rewrite firstn_app. rewrite (@firstn_all2 _ (N.to_nat n) c) by (unfold len in *; lia).
           repeat f_equal. unfold len in *. lia.
        -- rewrite Ec. rewrite skipn_app. rewrite (@skipn_all2 _ (N.to_nat n) c) by (unfold len in *; lia).
           cbn [app]. repeat f_equal. unfold len in *. lia.
      * destruct (IH2 ltac:(lia)) as (ch & E & Ec & Hch). exists ch. rewrite E. repeat split; assumption.
    + split; intros Hn; [|lia]. exists (skipn (N.to_nat n) c :: rest). repeat split.
      * f_equal. rewrite firstn_app.
        replace (N.to_nat n - length c)%nat with 0%nat by (unfold len in *; lia).
        cbn [firstn]. rewrite app_nil_r. reflexivity.
      * cbn [concat]. rewrite skipn_app.
        replace (N.to_nat n - length c)%nat with 0%nat by (unfold len in *; lia). reflexivity.
      * constructor; [|assumption]. intros E. apply (f_equal (@length byte)) in E.
        rewrite skipn_length in E. cbn [length] in E. unfold len in *. lia.
Qed.

Definition same_stream (c1 c2 : list bytes) : Prop :=
  concat c1 = concat c2 /\ nonempty c1 /\ nonempty c2.

Lemma read_exact_same c1 c2 n : same_stream c1 c2 ->
  fst (read_exact c1 n) = fst (read_exact c2 n) /\
  same_stream (snd (read_exact c1 n)) (snd (read_exact c2 n)).
Proof.
  intros (Ec & H1 & H2).
  destruct (read_exact_flat c1 H1 n) as [A1 B1]. destruct (read_exact_flat c2 H2 n) as [A2 B2].
  rewrite <- Ec in A2, B2.
  destruct (N.le_gt_cases n (len (concat c1))) as [Hn | Hn].
  - destruct (A1 Hn) as (ch1 & E1 & C1 & N1). destruct (A2 Hn) as (ch2 & E2 & C2 & N2).
    rewrite E1, E2. cbn [fst snd]. split; [reflexivity|]. repeat split; try assumption. congruence.
  - destruct (B1 Hn) as (ch1 & E1 & C1 & N1). destruct (B2 Hn) as (ch2 & E2 & C2 & N2).
    rewrite E1, E2. cbn [fst snd]. split; [reflexivity|]. repeat split; try assumption. congruence.
Qed.

(* ---- outcomes related up to the chunking of the reader -------------------------------------------- *)

Definition orel {A B} (R : A -> B -> Prop) (x : outcome A unit) (y : outcome B unit) : Prop :=
  match x, y with
  | Ok a, Ok b => R a b
  | Err _, Err _ => True
  | Panic, Panic => True
  | OutOfFuel, OutOfFuel => True
  | _, _ => False
  end.

Lemma orel_bind {A B A' B'} (R : A -> B -> Prop) (S : A' -> B' -> Prop) x y f g :
  orel R x y -> (forall a b, R a b -> orel S (f a) (g b)) -> orel S (obind x f) (obind y g).
Proof. destruct x, y; cbn; intros H HF; try contradiction; auto. Qed.

Definition rli_rel (a b : rres * bytes * list bytes) : Prop :=
  fst (fst a) = fst (fst b) /\ snd (fst a) = snd (fst b) /\ same_stream (snd a) (snd b).

Ltac rr := unfold rli_rel; cbn [orel fst snd]; split; [reflexivity | split; [reflexivity | assumption]].

Lemma read_line_inner_same c1 c2 L : same_stream c1 c2 ->
  orel rli_rel (read_line_inner c1 L) (read_line_inner c2 L).
Proof.
  intros Hs. unfold read_line_inner. destruct (L <? 4); [exact I|].
  destruct (read_exact_same c1 c2 4 Hs) as [E4 S4].
  destruct (read_exact c1 4) as [o1 ch1], (read_exact c2 4) as [o2 ch2]. cbn [fst snd] in E4, S4. subst o2.
  destruct o1 as [hex|]; [|rr].
  destruct (hex_prefix hex) as [[l|n]|e| |]; try exact I; try (rr).
  destruct (L - 4 <? n); [rr|].
  destruct (read_exact_same ch1 ch2 n S4) as [En Sn].
  destruct (read_exact ch1 n) as [o1 ch1'], (read_exact ch2 n) as [o2 ch2']. cbn [fst snd] in En, Sn. subst o2.
  destruct o1 as [d|]; [|rr].
  destruct (to_data_line d); try exact I; rr.
Qed.

Definition exh_rel (a b : bool * option line * option rres * vec * list bytes) : Prop :=
  fst a = fst b /\ same_stream (snd a) (snd b).

Lemma exhaustive_same c1 c2 v ds f rs : same_stream c1 c2 ->
  orel exh_rel (read_line_inner_exhaustive c1 v ds f rs) (read_line_inner_exhaustive c2 v ds f rs).
Proof.
  intros Hs. unfold read_line_inner_exhaustive.
  eapply orel_bind; [apply read_line_inner_same; exact Hs|].
  intros [[r1 w1] ch1] [[r2 w2] ch2] (E1 & E2 & S). cbn [fst snd] in E1, E2, S. subst r2 w2.
  destruct r1 as [l|e|e]; try (cbn; split; [reflexivity | exact S]).
  destruct (find_line ds l); [cbn; split; [reflexivity | exact S]|].
  destruct (if f then check_error l else None); [cbn; split; [reflexivity | exact S]|].
  match goal with |- context [decode_expect ?v] => destruct (decode_expect v) end;
    cbn; try exact I; split; [reflexivity | exact S].
Qed.

Definition iter_same (a b : iter) : Prop :=
  same_stream (rd a) (rd b) /\ peek_buf a = peek_buf b /\ buf a = buf b /\ fail_on_err a = fail_on_err b /\
  delims a = delims b /\ is_done a = is_done b /\ stopped_at a = stopped_at b.

Definition res_rel (x y : option rres * iter) : Prop := fst x = fst y /\ iter_same (snd x) (snd y).

Ltac isame := cbn; unfold res_rel, iter_same; cbn; intuition (try congruence).

Lemma read_line_same a b : iter_same a b -> orel res_rel (read_line a) (read_line b).
Proof.
  intros (S & Ep & Eb & Ef & Ed & Ei & Es). unfold read_line. rewrite <- ?Ep, <- ?Eb, <- ?Ef, <- ?Ed, <- ?Ei, <- ?Es.
  destruct (is_done a) eqn:Hd; [isame|].
  destruct (negb (vlen (peek_buf a) =? 0)).
  - cbn [buf]. destruct (decode_expect (peek_buf a)); try exact I. isame.
  - eapply orel_bind; [apply exhaustive_same; exact S|].
    intros [[[[d1 st1] r1] v1] ch1] [[[[d2 st2] r2] v2] ch2] (E & S'). cbn [fst snd] in E, S'.
    injection E as -> -> -> ->. isame.
Qed.

Lemma peek_line_same a b : iter_same a b -> orel res_rel (peek_line a) (peek_line b).
Proof.
  intros (S & Ep & Eb & Ef & Ed & Ei & Es). unfold peek_line. rewrite <- ?Ep, <- ?Eb, <- ?Ef, <- ?Ed, <- ?Ei, <- ?Es.
  destruct (is_done a) eqn:Hd; [isame|].
  destruct (vlen (peek_buf a) =? 0).
  - eapply orel_bind; [apply exhaustive_same; exact S|].
    intros [[[[d1 st1] r1] v1] ch1] [[[[d2 st2] r2] v2] ch2] (E & S'). cbn [fst snd] in E, S'.
    injection E as -> -> -> ->. isame.
  - destruct (decode_expect (peek_buf a)); try exact I. isame.
Qed.

Definition step_rel (x y : obs * iter) : Prop := fst x = fst y /\ iter_same (snd x) (snd y).

Lemma step_same o a b : iter_same a b -> orel step_rel (step o a) (step o b).
Proof.
  intros H. destruct o; cbn [step].
  - eapply orel_bind; [apply read_line_same; exact H|]. intros x y [E S]. cbn. rewrite E. split; [reflexivity | exact S].
  - eapply orel_bind; [apply peek_line_same; exact H|]. intros x y [E S]. cbn. rewrite E. split; [reflexivity | exact S].
  - destruct H as (S & Ep & Eb & Ef & Ed & Ei & Es). cbn. unfold step_rel, iter_same. cbn. intuition congruence.
  - destruct H as (S & Ep & Eb & Ef & Ed & Ei & Es). cbn. unfold step_rel, iter_same. cbn. intuition congruence.
  - destruct H as (S & Ep & Eb & Ef & Ed & Ei & Es). cbn. unfold step_rel, iter_same. cbn. intuition congruence.
Qed.

Definition ops_rel (x y : list obs * iter) : Prop := fst x = fst y /\ iter_same (snd x) (snd y).

Lemma run_ops_same ops : forall a b, iter_same a b -> orel ops_rel (run_ops ops a) (run_ops ops b).
Proof.
  induction ops as [|o ops IH]; intros a b H; cbn [run_ops].
  - cbn. split; [reflexivity | exact H].
  - eapply orel_bind; [apply step_same; exact H|]. intros x y [E S].
    eapply orel_bind; [apply IH; exact S|]. intros x' y' [E' S']. cbn. rewrite E, E'. split; [reflexivity | exact S'].
Qed.

(* ---- never a panic ------------------------------------------------------------------------------ *)

Definition payload (l : line) : bytes := match l with Data d => d | _ => [] end.

Lemma hex_prefix_hline hex l : length hex = 4%nat -> hex_prefix hex = Ok (HLine l) ->
  l = Flush \/ l = Delimiter \/ l = ResponseEnd.
Proof.
  intros H4 Hp. rewrite L_hex_prefix_spec in Hp by exact H4. unfold hex_prefix_spec in Hp.
  destruct (hexnum hex); [|discriminate].
  repeat (match type of Hp with (if ?c then _ else _) = _ => destruct c end;
          try (injection Hp as <-; auto); try discriminate).
Qed.

(* what read_line_inner leaves in a buffer of the standard size *)
Lemma read_line_inner_ok ch :
  exists r w ch', read_line_inner ch MAX_LINE_LEN = Ok (r, w, ch') /\
    (forall l, r = RLine l ->
       all_at_once_gen MAX_LINE_LEN w = Ok l /\ all_at_once_gen (len w) w = Ok l /\
       len w = len (payload l) + 4 /\ (forall d, as_slice l = Some d -> d = payload l) /\
       (as_slice l = None -> payload l = [])).
Proof.
  destruct MAX_vals as (EM & _ & _).
  unfold read_line_inner. rewrite EM. replace (65520 <? 4) with false by reflexivity.
  destruct (read_exact ch 4) as [[hex|] ch1] eqn:E4.
  2:{ do 3 eexists. split; [reflexivity|]. discriminate. }
  pose proof (read_exact_len _ _ _ _ E4) as Hhex.
  assert (H4 : length hex = 4%nat) by (unfold len in Hhex; lia).
  destruct (L_hex_prefix_total hex H4) as (NP & NF & Hw).
  destruct (hex_prefix hex) as [[l|n]|e| |] eqn:Hp; try congruence.
  - do 3 eexists. split; [reflexivity|]. intros l' [= <-].
    rewrite (all_at_once_gen_line 65520 hex l H4 Hp) by lia.
    rewrite (all_at_once_gen_line (len hex) hex l H4 Hp) by lia.
    destruct (hex_prefix_hline hex l H4 Hp) as [-> | [-> | ->]]; cbn [payload as_slice];
      (repeat split; try reflexivity; try discriminate; rewrite len_nil; unfold len in *; lia).
  - specialize (Hw n eq_refl).
    destruct (65520 - 4 <? n) eqn:Ecap.
    { do 3 eexists. split; [reflexivity|]. discriminate. }
    destruct (read_exact ch1 n) as [[d|] ch2] eqn:En.
    2:{ do 3 eexists. split; [reflexivity|]. discriminate. }
    pose proof (read_exact_len _ _ _ _ En) as Hd.
    unfold to_data_line. rewrite EM. replace (65520 <? len d) with false by lia.
    do 3 eexists. split; [reflexivity|]. intros l' [= <-]. cbn [payload as_slice].
    rewrite (all_at_once_gen_wanted 65520 hex d n) by (try assumption; rewrite ?EM; lia).
    rewrite (all_at_once_gen_wanted (len (hex ++ d)) hex d n)
      by (try assumption; rewrite ?EM, ?len_app; lia).
    repeat split; try reflexivity.
    + rewrite len_app. lia.
    + intros d' [= <-]. reflexivity.
    + discriminate.
  - do 3 eexists. split; [reflexivity|]. discriminate.
Qed.

Definition peek_ok (v : vec) : Prop := vlen v = 0 \/ exists r, decode_expect v = Ok r.

Lemma exhaustive_ok ch v ds f rs : vlen v = MAX_LINE_LEN ->
  exists done st res v' ch', read_line_inner_exhaustive ch v ds f rs = Ok (done, st, res, v', ch') /\ peek_ok v'.
Proof.
  intros Hv. unfold read_line_inner_exhaustive. rewrite Hv.
  destruct (read_line_inner_ok ch) as (r & w & ch' & E & Hl). rewrite E. cbn [obind].
  destruct r as [l|e|e].
  2,3: do 5 eexists; split; [reflexivity | left; reflexivity].
  destruct (Hl l eq_refl) as (A1 & A2 & A3 & A4 & A5).
  destruct (find_line ds l); [do 5 eexists; split; [reflexivity | left; reflexivity]|].
  destruct (if f then check_error l else None); [do 5 eexists; split; [reflexivity | left; reflexivity]|].
  destruct rs.
  - (* peek: the buffer is cut to the line *)
    assert (Hn : (match as_slice l with Some s => len s + U16_HEX_BYTES | None => U16_HEX_BYTES end) = len w).
    { destruct (as_slice l) as [s|] eqn:Es.
      - rewrite (A4 s eq_refl) , A3. reflexivity.
      - rewrite A3, (A5 eq_refl), len_nil. reflexivity. }
    rewrite Hn. unfold vec_resize. cbn [known vlen]. replace (len w <=? len w) with true by lia.
    unfold decode_expect at 1. cbn [known vlen]. rewrite A2. cbn [obind].
    do 5 eexists. split; [reflexivity|]. right. unfold decode_expect. cbn [known vlen]. rewrite A2. eauto.
  - unfold decode_expect at 1. cbn [known vlen]. rewrite A1. cbn [obind].
    do 5 eexists. split; [reflexivity|]. right. unfold decode_expect. cbn [known vlen]. rewrite A1. eauto.
Qed.

Definition iter_ok (it : iter) : Prop := peek_ok (peek_buf it).

Lemma read_line_ok it : iter_ok it -> exists r it', read_line it = Ok (r, it') /\ iter_ok it'.
Proof.
  intros Hok. unfold read_line. destruct (is_done it); [eauto|].
  destruct (negb (vlen (peek_buf it) =? 0)) eqn:Ep.
  - destruct Hok as [H0 | [r Hr]]; [rewrite H0 in Ep; discriminate|].
    cbn [buf]. rewrite Hr. cbn [obind]. do 2 eexists. split; [reflexivity|]. left. reflexivity.
  - set (b := if vlen (buf it) =? MAX_LINE_LEN then buf it else vec_resize (buf it) MAX_LINE_LEN).
    assert (Hb : vlen b = MAX_LINE_LEN).
    { unfold b. destruct (vlen (buf it) =? MAX_LINE_LEN) eqn:E; [lia | reflexivity]. }
    destruct (exhaustive_ok (rd it) b (delims it) (fail_on_err it) false Hb) as (d & st & res & v' & ch' & E & _).
    rewrite E. cbn [obind]. do 2 eexists. split; [reflexivity|]. exact Hok.
Qed.

Lemma peek_line_ok it : iter_ok it -> exists r it', peek_line it = Ok (r, it') /\ iter_ok it'.
Proof.
  intros Hok. unfold peek_line. destruct (is_done it); [eauto|].
  destruct (vlen (peek_buf it) =? 0) eqn:Ep.
  - destruct (exhaustive_ok (rd it) (vec_resize (peek_buf it) MAX_LINE_LEN) (delims it) (fail_on_err it) true eq_refl)
      as (d & st & res & v' & ch' & E & Hv).
    rewrite E. cbn [obind]. do 2 eexists. split; [reflexivity|]. exact Hv.
  - destruct Hok as [H0 | [r Hr]]; [rewrite H0 in Ep; discriminate|].
    rewrite Hr. cbn [obind]. do 2 eexists. split; [reflexivity|]. right. eauto.
Qed.

Lemma step_ok o it : iter_ok it -> exists x it', step o it = Ok (x, it') /\ iter_ok it'.
Proof.
  intros Hok. destruct o; cbn [step].
  - destruct (read_line_ok it Hok) as (r & it' & E & H). rewrite E. cbn. eauto.
  - destruct (peek_line_ok it Hok) as (r & it' & E & H). rewrite E. cbn. eauto.
  - eauto.
  - eauto.
  - eauto.
Qed.

Lemma run_ops_ok ops : forall it, iter_ok it -> exists xs it', run_ops ops it = Ok (xs, it').
Proof.
  induction ops as [|o ops IH]; intros it Hok; cbn [run_ops]; [eauto|].
  destruct (step_ok o it Hok) as (x & it1 & E & H1). rewrite E. cbn [obind snd fst].
  destruct (IH it1 H1) as (xs & it2 & E2). rewrite E2. cbn. eauto.
Qed.

Lemma iter_new_ok chunks ds f : iter_ok (set_fail_on_err (iter_new chunks ds) f).
Proof. left. reflexivity. Qed.

Lemma L_reader_never_panics chunks ds f ops :
  exists xs it', run_ops ops (set_fail_on_err (iter_new chunks ds) f) = Ok (xs, it').
Proof. apply run_ops_ok, iter_new_ok. Qed.

Lemma L_chunking_irrelevant c1 c2 ds f ops :
  concat c1 = concat c2 -> nonempty c1 -> nonempty c2 ->
  exists xs it1 it2,
    run_ops ops (set_fail_on_err (iter_new c1 ds) f) = Ok (xs, it1) /\
    run_ops ops (set_fail_on_err (iter_new c2 ds) f) = Ok (xs, it2).
Proof.
  intros Ec H1 H2.
  destruct (L_reader_never_panics c1 ds f ops) as (xs1 & it1 & E1).
  destruct (L_reader_never_panics c2 ds f ops) as (xs2 & it2 & E2).
  assert (S : iter_same (set_fail_on_err (iter_new c1 ds) f) (set_fail_on_err (iter_new c2 ds) f)).
  { repeat split; cbn; try reflexivity; assumption. }
  pose proof (run_ops_same ops _ _ S) as R. rewrite E1, E2 in R. destruct R as [E _]. cbn in E. subst xs2.
  eauto.
Qed.
