(* C29 — Packet-line framing is exact and never panics.  Statements only. *)
From GixV.Base Require Import Bytes BytesFacts Outcome.
From GixV.C29 Require Import Tables Model Proofs.
Local Open Scope N_scope.

(* hex_prefix of ANY four bytes is: the value of the four hex digits (either case) read as a number,
   with 0/1/2 = flush/delimiter/response-end, 3 and 4 errors, anything else "v - 4 more bytes wanted";
   non-hex input is an error.  No four bytes make it panic. *)
Theorem hex_prefix_is_hex_number : forall p, length p = 4%nat -> hex_prefix p = hex_prefix_spec p.
Proof. exact L_hex_prefix_spec. Qed.

Theorem hex_prefix_total : forall p, length p = 4%nat ->
  hex_prefix p <> Panic /\ hex_prefix p <> OutOfFuel /\
  (forall n, hex_prefix p = Ok (Wanted n) -> 1 <= n <= 65531).
Proof. exact L_hex_prefix_total. Qed.
