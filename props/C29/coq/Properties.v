(* C29 — Packet-line framing is exact and never panics.
   Only statements here; every proof is [exact <lemma of Proofs*.v>].
   Model: Model.v (gix-packetline, blocking-io, after the two fix commits of ../findings.txt).
   [hexnum p] is the number written by the hex digits p (either case); [len] is the length as N;
   [Panic] is any Rust panic (slice bounds, expect, debug assertion), [OutOfFuel] a non-terminating loop. *)
From GixV.Base Require Import Bytes BytesFacts Outcome.
From Coq Require Import Lia.
From GixV.C29 Require Import Tables Model Proofs ProofsCodec ProofsReader ProofsSideband ProofsLines ProofsDemux ProofsRead.
Local Open Scope N_scope.

(* ---- length prefixes --------------------------------------------------------------------------- *)

(* hex_prefix of ANY four bytes is: the value of the four hex digits read as a number, with 0/1/2 =
   flush/delimiter/response-end, 3 and 4 errors, anything else "v - 4 more bytes wanted"; non-hex input
   is an error. *)
Theorem hex_prefix_is_hex_number : forall p, length p = 4%nat -> hex_prefix p = hex_prefix_spec p.
Proof. exact L_hex_prefix_spec. Qed.

(* no four bytes make it panic (neither debug assertion can fire, the u16 subtraction cannot wrap) *)
Theorem hex_prefix_total : forall p, length p = 4%nat ->
  hex_prefix p <> Panic /\ hex_prefix p <> OutOfFuel /\
  (forall n, hex_prefix p = Ok (Wanted n) -> 1 <= n <= 65531).
Proof. exact L_hex_prefix_total. Qed.

(* ---- what is written decodes back to the same line --------------------------------------------- *)

(* every line the encoder accepts (any prefix/payload/suffix: data, text, ERR, side-band) is written as
   4 hex digits + content, and decodes — alone or followed by arbitrary further bytes — to exactly that
   content, consuming exactly the bytes written *)
Theorem written_line_decodes_back : forall p d s rest, d <> [] -> len p + len d + len s <= MAX_DATA_LEN ->
  exists out, prefixed_and_suffixed p d s = Ok (len out, out) /\
    len out = len p + len d + len s + 4 /\
    streaming (out ++ rest) = Ok (Complete (Data (p ++ d ++ s)) (len out)) /\
    all_at_once out = Ok (Data (p ++ d ++ s)).
Proof. exact L_line_roundtrip. Qed.

(* the encoder refuses exactly empty payloads and contents above 65516 bytes, and never panics *)
Theorem encoder_refuses_exactly : forall p d s,
  (d = [] \/ MAX_DATA_LEN < len p + len d + len s) <-> exists e, prefixed_and_suffixed p d s = Err e.
Proof. exact L_encode_refuses. Qed.
Theorem encoder_total : forall p d s,
  prefixed_and_suffixed p d s <> Panic /\ prefixed_and_suffixed p d s <> OutOfFuel.
Proof. exact L_encode_total. Qed.

(* the views used to read the content back: text loses exactly the newline that was appended, an ERR
   line gives back the message, a side-band line gives back channel and payload *)
Theorem text_view_inverts_text_to_write : forall t, as_text (Data ([] ++ t ++ [x0a])) = Some t.
Proof. intros t. cbn [app as_text as_slice option_map]. rewrite text_from_nl. reflexivity. Qed.
Theorem error_view_inverts_error_to_write : forall m, check_error (Data (ERR_PREFIX ++ m ++ [])) = Some m.
Proof. intros m. rewrite app_nil_r. apply check_error_err. Qed.
Theorem band_view_inverts_band_to_write : forall d,
  decode_band (Data (N2b CHANNEL_DATA :: d)) = Ok (BData d) /\
  decode_band (Data (N2b CHANNEL_PROGRESS :: d)) = Ok (BProgress d) /\
  decode_band (Data (N2b CHANNEL_ERROR :: d)) = Ok (BError d).
Proof. exact decode_band_123. Qed.

(* flush, delimiter and response-end decode to themselves whatever follows *)
Theorem control_lines_decode_back : forall rest,
  streaming (FLUSH_LINE ++ rest) = Ok (Complete Flush 4) /\
  streaming (DELIMITER_LINE ++ rest) = Ok (Complete Delimiter 4) /\
  streaming (RESPONSE_END_LINE ++ rest) = Ok (Complete ResponseEnd 4).
Proof. exact L_control_roundtrip. Qed.

(* ---- the decoder on arbitrary bytes ------------------------------------------------------------- *)

(* decode::streaming is the naive reader of the format, for ALL byte strings; in particular every
   length above 65520 is the error TooLong *)
Theorem streaming_is_naive_reader : forall data, streaming data = streaming_spec data.
Proof. exact L_streaming_spec. Qed.
Theorem decoder_total : forall data,
  streaming data <> Panic /\ streaming data <> OutOfFuel /\
  all_at_once data <> Panic /\ all_at_once data <> OutOfFuel.
Proof. exact L_streaming_total. Qed.

(* the representation of the reader's 65520-byte buffers by their written prefix is sound: decoding the
   real buffer, whatever its stale tail, is decoding the modelled one *)
Theorem stale_buffer_tail_is_never_read : forall hex d stale n,
  length hex = 4%nat -> hex_prefix hex = Ok (Wanted n) -> len d = n -> n + 4 <= MAX_LINE_LEN ->
  streaming ((hex ++ d) ++ stale) = streaming_gen (len ((hex ++ d) ++ stale)) (hex ++ d).
Proof. exact streaming_gen_pad. Qed.

(* ---- the stream reader --------------------------------------------------------------------------- *)

(* StreamingPeekableIter: for ANY byte stream delivered in ANY chunks (empty reads included), any
   delimiters, either ERR mode and any interleaving of read_line / peek_line / reset / stopped_at /
   fail_on_err_lines, every call returns — no slice bound, no `expect`, no assertion fails *)
Theorem reader_never_panics : forall chunks ds f ops,
  exists xs it', run_ops ops (set_fail_on_err (iter_new chunks ds) f) = Ok (xs, it').
Proof. exact L_reader_never_panics. Qed.

(* ... and what the calls return depends only on the bytes, not on how the reader splits them *)
Theorem chunking_is_irrelevant : forall c1 c2 ds f ops,
  concat c1 = concat c2 -> nonempty c1 -> nonempty c2 ->
  exists xs it1 it2,
    run_ops ops (set_fail_on_err (iter_new c1 ds) f) = Ok (xs, it1) /\
    run_ops ops (set_fail_on_err (iter_new c2 ds) f) = Ok (xs, it2).
Proof. exact L_chunking_irrelevant. Qed.

(* ---- the reader yields exactly the written lines ---------------------------------------------------- *)

(* [wire l] is what the encoder writes for the line l: every successful *_to_write call writes the wire
   form of the data line with content prefix ++ payload ++ suffix, which is a [valid] line *)
Theorem encoder_writes_wire : forall p d s n out, prefixed_and_suffixed p d s = Ok (n, out) ->
  out = wire (Data (p ++ d ++ s)) /\ valid (Data (p ++ d ++ s)) /\ n = len out.
Proof. exact L_encoder_writes_wire. Qed.
Theorem control_line_writes_wire : forall l n out, as_slice l = None -> line_write_to l = Ok (n, out) -> out = wire l.
Proof. exact L_control_writes_wire. Qed.

(* any list of accepted lines (data/text/ERR/band contents, and control lines that are not configured as
   delimiters; with ERR detection on, lines that do not start with "ERR "), followed by a configured
   delimiter and arbitrary further bytes, delivered in ANY chunking: read_line yields exactly those lines
   in order, then None at the delimiter, stopped_at names it, further reads stay None, and the reader is
   left exactly at the bytes after the delimiter *)
Theorem reader_yields_written_lines : forall ls dl rest chunks ds f,
  Forall (passes ds f) ls -> valid dl -> find_line ds dl = Some dl ->
  nonempty chunks -> concat chunks = concat (map wire ls) ++ wire dl ++ rest ->
  exists it',
    run_ops (repeat OpRead (length ls) ++ [OpRead; OpStopped; OpRead]) (set_fail_on_err (iter_new chunks ds) f)
    = Ok (map (fun l => ORes (Some (RLine l))) ls ++ [ORes None; OStop (Some dl); ORes None], it') /\
    concat (rd it') = rest.
Proof. exact L_reader_yields_written_lines. Qed.

(* without a delimiter: the lines in order, the rest of the stream untouched *)
Theorem reader_yields_lines_prefix : forall ls rest chunks ds f,
  Forall (passes ds f) ls -> nonempty chunks -> concat chunks = concat (map wire ls) ++ rest ->
  exists it',
    run_ops (repeat OpRead (length ls)) (set_fail_on_err (iter_new chunks ds) f)
    = Ok (map (fun l => ORes (Some (RLine l))) ls, it') /\ concat (rd it') = rest.
Proof. exact L_reader_yields_lines_prefix. Qed.

(* the hypotheses are satisfiable: a data line, a delimiter line passing through, a side-band line *)
Example written_lines_hypotheses :
  Forall (passes [Flush] false) [Data (bs "hi"); Delimiter; Data (x01 :: bs "pack")] /\
  valid Flush /\ find_line [Flush] Flush = Some Flush /\
  nonempty [bs "0006h"; bs "i00010009"; x01 :: bs "pack0000"] /\
  concat [bs "0006h"; bs "i00010009"; x01 :: bs "pack0000"]
  = concat (map wire [Data (bs "hi"); Delimiter; Data (x01 :: bs "pack")]) ++ wire Flush ++ [].
Proof.
  split; [|split; [exact I|split; [reflexivity|split; [|reflexivity]]]].
  - assert (P : forall c, 1 <= len c <= 65516 -> bytes_eqb c c = true -> passes [Flush] false (Data c)).
    { intros c Hc _. split; [exact Hc | split; reflexivity]. }
    apply Forall_cons; [apply P; [cbv; split; discriminate | reflexivity]|].
    apply Forall_cons; [split; [exact I | split; reflexivity]|].
    apply Forall_cons; [apply P; [cbv; split; discriminate | reflexivity]|]. apply Forall_nil.
  - apply Forall_cons; [discriminate|]. apply Forall_cons; [discriminate|].
    apply Forall_cons; [discriminate|]. apply Forall_nil.
Qed.

(* ---- the side-band reader ---------------------------------------------------------------------- *)

(* WithSidebands (with or without progress handler, whatever the handler answers): for ANY byte stream
   in ANY chunks and any sequence of read() calls with any buffer sizes, every call returns — the band
   byte and the text of a progress message are never taken from an empty slice, the slice
   parent.buf[pos..cap] is always in bounds — and the fill_buf loop terminates: fuel above the number of
   unread bytes is always enough ([sb_reads] = that many [sb_read] calls in sequence). *)
Theorem sideband_reader_never_panics : forall chunks ds f h sizes fuel,
  bytes_of chunks < N.of_nat fuel ->
  exists rs sb',
    sb_reads fuel {| parent := set_fail_on_err (iter_new chunks ds) f; hnd := h; pos := 0; cap := 0 |} sizes
    = Ok (rs, sb').
Proof.
  intros chunks ds f h sizes fuel H. apply L_sideband_never_panics; [apply iter_ok_ok2_new|].
  unfold measure. cbn. rewrite N.add_0_r. exact H.
Qed.

(* the same from any iterator state reachable by read_line / peek_line (invariant [iter_ok2]) *)
Theorem sideband_reader_never_panics_from : forall it h sizes fuel,
  iter_ok2 it -> measure it < N.of_nat fuel ->
  exists rs sb', sb_reads fuel {| parent := it; hnd := h; pos := 0; cap := 0 |} sizes = Ok (rs, sb').
Proof. exact L_sideband_never_panics. Qed.

(* the former panic: an empty progress message is delivered as an empty text *)
Example empty_progress_is_delivered :
  exists sb, sb_reads 20 {| parent := iter_new [bs "0005" ++ [x02] ++ bs "0006" ++ [x01] ++ bs "k0000"] [Flush];
                            hnd := {| present := true; interrupt_at := None; calls := 0; log := [] |};
                            pos := 0; cap := 0 |} [8; 8]
             = Ok ([inl (bs "k"); inl []], sb) /\ log (hnd sb) = [(false, [])].
Proof. eexists. split; vm_compute; reflexivity. Qed.

(* ---- side-band demultiplexing delivers the right content ------------------------------------------ *)

(* A sender writes any list of side-band lines (band 1 data, band 2 progress, band 3 error; each an
   accepted line, payloads possibly empty) and then a configured delimiter, followed by anything; the
   bytes arrive in ANY chunking.  With a progress handler that always continues, the BufRead use of
   WithSidebands (fill_buf, take the slice, consume it, until the empty slice = EOF) delivers exactly the
   non-empty band-1 payloads in order, the handler has been called with exactly the band 2/3 texts
   (is_error flag, one trailing newline removed) in order, iteration stopped at the delimiter and the
   underlying reader is left at the bytes after it.  [n], [fuel] only need to exceed the number of lines. *)
Theorem sideband_demux_content : forall ds f dl rest, valid dl -> find_line ds dl = Some dl ->
  forall n items it h fuel pos0 cap0, (length items < n)%nat -> (length items < fuel)%nat ->
  ready it ds f -> good_h h -> cap0 <= pos0 ->
  Forall (fun i => passes ds f (item_line i)) items -> concat (rd it) = stream_of items dl rest ->
  exists sb', drain n fuel {| parent := it; hnd := h; pos := pos0; cap := cap0 |} = Ok (data_of items, None, sb') /\
    log (hnd sb') = rev (progress_of items) ++ log h /\
    stopped_at (parent sb') = Some dl /\ concat (rd (parent sb')) = rest.
Proof. exact L_demux_content. Qed.

(* Read::read is a thin wrapper over that interface: it returns a prefix (at most the caller's buffer
   size) of the slice fill_buf exposes and consumes exactly the bytes returned *)
Theorem read_is_fill_buf_prefix : forall fuel sb size,
  sb_read fuel sb size =
  (r <- fill_buf fuel sb ;;
   match r with
   | (inr e, sb') => Ok (inr e, sb')
   | (inl rem, sb') =>
       Ok (inl (firstn (N.to_nat (N.min (len rem) size)) rem), consume sb' (N.min (len rem) size))
   end)%outcome.
Proof. exact L_read_is_fill_buf_prefix. Qed.

(* ... and through Read::read itself: calling read() in a loop, the k-th call with a buffer of [sz k] >= 1
   bytes — ANY sequence of buffer sizes — until it returns Ok(0), delivers exactly the concatenation of the
   band-1 payloads; the handler log, the stop at the delimiter and the position of the underlying reader
   are as above.  [n] need only exceed [bound items] = data bytes + lines + 1. *)
Theorem sideband_read_delivers_data_concatenated : forall (sz : nat -> N), (forall k, 1 <= sz k) ->
  forall ds f dl rest, valid dl -> find_line ds dl = Some dl ->
  forall n0 items it h fuel pos0 cap0 n k, (length items < n0)%nat -> (bound items <= n)%nat ->
  (length items < fuel)%nat -> ready it ds f -> good_h h -> cap0 <= pos0 ->
  Forall (fun i => passes ds f (item_line i)) items -> concat (rd it) = stream_of items dl rest ->
  exists sb', read_all sz n k fuel {| parent := it; hnd := h; pos := pos0; cap := cap0 |}
              = Ok (concat (data_of items), None, sb') /\
    log (hnd sb') = rev (progress_of items) ++ log h /\
    stopped_at (parent sb') = Some dl /\ concat (rd (parent sb')) = rest.
Proof. exact L_read_all_content. Qed.

(* the hypotheses are satisfiable, and the statement computes what one expects *)
Example demux_example :
  let items := [IProg false (bs "50%" ++ [x0a]); IData (bs "PA"); IData []; IProg true (bs "oops"); IData (bs "CK")] in
  let it := iter_new [bs "00"; bs "09" ++ [x02] ++ bs "50%" ++ [x0a] ++ bs "0007" ++ [x01] ++ bs "PA0005" ++ [x01];
                      bs "0009" ++ [x03] ++ bs "oops0007" ++ [x01] ++ bs "CK0000tail"] [Flush] in
  ready it [Flush] false /\ Forall (fun i => passes [Flush] false (item_line i)) items /\
  concat (rd it) = stream_of items Flush (bs "tail") /\
  data_of items = [bs "PA"; bs "CK"] /\ progress_of items = [(false, bs "50%"); (true, bs "oops")].
Proof.
  cbv zeta. split; [|split; [|split; [reflexivity | split; reflexivity]]].
  - repeat split; try reflexivity. repeat (apply Forall_cons; [discriminate|]). apply Forall_nil.
  - assert (P : forall c, 1 <= len c <= 65516 -> passes [Flush] false (Data c)).
    { intros c Hc. split; [exact Hc | split; reflexivity]. }
    repeat (apply Forall_cons; [apply P; cbv; split; discriminate|]). apply Forall_nil.
Qed.

(* ---- non-vacuity ------------------------------------------------------------------------------- *)

(* the former panic: prefix fff1 now is an error, through the reader, one byte at a time *)
Example oversized_prefix_is_an_error :
  exists it, run_ops [OpRead] (iter_new [[x66]; [x66]; [x66]; [x31]; [x61]] [Flush])
             = Ok ([ORes (Some (RDecode (TooLong 65521)))], it).
Proof. eexists. vm_compute. reflexivity. Qed.

(* a data line and a flush, chunked two ways, peeked and read *)
Example reader_example :
  exists it1 it2,
    run_ops [OpPeek; OpRead; OpRead; OpStopped] (iter_new [bs "0006"; bs "hi00"; bs "00"] [Flush])
      = Ok ([ORes (Some (RLine (Data (bs "hi")))); ORes (Some (RLine (Data (bs "hi")))); ORes None; OStop (Some Flush)], it1) /\
    run_ops [OpPeek; OpRead; OpRead; OpStopped] (iter_new [bs "0006hi0000"] [Flush])
      = Ok ([ORes (Some (RLine (Data (bs "hi")))); ORes (Some (RLine (Data (bs "hi")))); ORes None; OStop (Some Flush)], it2).
Proof. do 2 eexists. split; vm_compute; reflexivity. Qed.

Example roundtrip_example :
  text_to_write (bs "want") = Ok (9, bs "0009want" ++ [x0a]) /\
  band_to_write CHANNEL_PROGRESS (bs "50%") = Ok (8, bs "0008" ++ [x02] ++ bs "50%").
Proof. split; vm_compute; reflexivity. Qed.
