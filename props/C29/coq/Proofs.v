(* C29 — lemmas.  Part 1: byte-level facts, hex_prefix, encode/decode round trip, decoder totality. *)
From Coq Require Import Lia ZArith ZifyBool ZifyNat ZifyN.
Ltac Zify.zify_post_hook ::= Z.div_mod_to_equations.
From GixV.Base Require Import Bytes BytesFacts Outcome.
From GixV.C29 Require Import Tables Model.
Local Open Scope N_scope.

(* ---- len ------------------------------------------------------------------------------------- *)

Lemma len_nil : len [] = 0. Proof. reflexivity. Qed.
Lemma len_cons x l : len (x :: l) = 1 + len l.
Proof. unfold len. cbn [length]. lia. Qed.
Lemma len_app a b : len (a ++ b) = len a + len b.
Proof. unfold len. rewrite app_length. lia. Qed.
Lemma len_to_nat l : N.to_nat (len l) = length l.
Proof. unfold len. apply Nat2N.id. Qed.
Lemma len_0 l : len l = 0 -> l = [].
Proof. destruct l; [reflexivity|]. rewrite len_cons. lia. Qed.
Lemma is_empty_true d : is_empty d = true <-> d = [].
Proof. destruct d; cbn; split; congruence. Qed.

Lemma firstn_len_app a b : firstn (N.to_nat (len a)) (a ++ b) = a.
Proof.
  rewrite len_to_nat. rewrite firstn_app, Nat.sub_diag, firstn_all. cbn [firstn]. apply app_nil_r.
Qed.
Lemma skipn_len_app a b : skipn (N.to_nat (len a)) (a ++ b) = b.
Proof. rewrite len_to_nat. rewrite skipn_app, Nat.sub_diag, skipn_all. reflexivity. Qed.

(* ---- hex digits ------------------------------------------------------------------------------- *)

(* the value of a string of hex digits (either case), most significant first: the specification of a
   packet-line length prefix *)
Definition hexnum (p : bytes) : option N :=
  fold_left (fun acc b => match acc, hex_val b with Some a, Some v => Some (16 * a + v) | _, _ => None end)
            p (Some 0).

Lemma hex_val_lt : forall b, (match hex_val b with Some a => a <? 16 | None => true end) = true.
Proof. apply forall_bytes. vm_compute. reflexivity. Qed.

(* the only digits with value 0, 1, 2 are the characters 0, 1, 2 *)
Lemma hex_val_small : forall b,
  (match hex_val b with Some a => if a <=? 2 then beqb b (N2b (48 + a)) else true | None => true end) = true.
Proof. apply forall_bytes. vm_compute. reflexivity. Qed.

Lemma hex_decode4 p1 p2 p3 p4 :
  hex_decode [p1; p2; p3; p4] =
  match hex_val p1, hex_val p2, hex_val p3, hex_val p4 with
  | Some a, Some b, Some c, Some d => Some [N2b (16 * a + b); N2b (16 * c + d)]
  | _, _, _, _ => None
  end.
Proof.
  cbn [hex_decode].
  destruct (hex_val p1), (hex_val p2), (hex_val p3), (hex_val p4); reflexivity.
Qed.

Lemma hexnum4 p1 p2 p3 p4 :
  hexnum [p1; p2; p3; p4] =
  match hex_val p1, hex_val p2, hex_val p3, hex_val p4 with
  | Some a, Some b, Some c, Some d => Some (4096 * a + 256 * b + 16 * c + d)
  | _, _, _, _ => None
  end.
Proof.
  unfold hexnum. cbn [fold_left].
  destruct (hex_val p1) as [a|], (hex_val p2) as [b|], (hex_val p3) as [c|], (hex_val p4) as [d|];
    try reflexivity.
  f_equal. lia.
Qed.

Lemma be_N2 x y : be_N [x; y] = 256 * b2N x + b2N y.
Proof. unfold be_N. cbn [fold_left]. lia. Qed.

Lemma length4 (p : bytes) : length p = 4%nat -> exists p1 p2 p3 p4, p = [p1; p2; p3; p4].
Proof.
  destruct p as [|p1 [|p2 [|p3 [|p4 [|]]]]]; cbn; try discriminate. intros _. eauto.
Qed.

(* ---- hex_prefix is the hex number with the five special values --------------------------------- *)

Definition hex_prefix_spec (p : bytes) : outcome hp_res derr :=
  match hexnum p with
  | None => Err HexDecode
  | Some v =>
      if v =? 0 then Ok (HLine Flush) else if v =? 1 then Ok (HLine Delimiter)
      else if v =? 2 then Ok (HLine ResponseEnd) else if v =? 3 then Err InvalidLineLength
      else if v =? 4 then Err DataIsEmpty else Ok (Wanted (v - 4))
  end.

Lemma control_lines_hex :
  FLUSH_LINE = [x30; x30; x30; x30] /\ DELIMITER_LINE = [x30; x30; x30; x31] /\
  RESPONSE_END_LINE = [x30; x30; x30; x32] /\ U16_HEX_BYTES = 4.
Proof. repeat split. Qed.

Lemma bytes_eqb4 p1 p2 p3 p4 q1 q2 q3 q4 :
  bytes_eqb [p1; p2; p3; p4] [q1; q2; q3; q4] = beqb p1 q1 && beqb p2 q2 && beqb p3 q3 && beqb p4 q4.
Proof. cbn [bytes_eqb]. rewrite Bool.andb_true_r, !Bool.andb_assoc. reflexivity. Qed.

Lemma beqb_refl b : beqb b b = true.
Proof. apply beqb_eq. reflexivity. Qed.
Lemma beqb_false a b : a <> b -> beqb a b = false.
Proof. intros H. destruct (beqb a b) eqn:E; [|reflexivity]. apply beqb_eq in E. contradiction. Qed.

Lemma L_hex_prefix_spec p : length p = 4%nat -> hex_prefix p = hex_prefix_spec p.
Proof.
  intros H4. destruct (length4 p H4) as (p1 & p2 & p3 & p4 & ->).
  destruct control_lines_hex as (EF & ED & ER & EU).
  unfold hex_prefix, hex_prefix_spec. rewrite EF, ED, ER, EU.
  replace (len [p1; p2; p3; p4] =? 4) with true by reflexivity. cbn [negb].
  rewrite !bytes_eqb4, hex_decode4, hexnum4.
  pose proof (hex_val_lt p1) as L1. pose proof (hex_val_lt p2) as L2.
  pose proof (hex_val_lt p3) as L3. pose proof (hex_val_lt p4) as L4.
  pose proof (hex_val_small p1) as S1. pose proof (hex_val_small p2) as S2.
  pose proof (hex_val_small p3) as S3. pose proof (hex_val_small p4) as S4.
  destruct (hex_val p1) as [a|] eqn:E1.
  2:{ (* p1 is not a hex digit: it is not the character 0 *)
      assert (beqb p1 x30 = false) as ->.
      { apply beqb_false. intros ->. vm_compute in E1. discriminate. }
      reflexivity. }
  destruct (hex_val p2) as [b|] eqn:E2.
  2:{ assert (beqb p2 x30 = false) as ->.
      { apply beqb_false. intros ->. vm_compute in E2. discriminate. }
      rewrite !Bool.andb_false_r. reflexivity. }
  destruct (hex_val p3) as [c|] eqn:E3.
  2:{ assert (beqb p3 x30 = false) as ->.
      { apply beqb_false. intros ->. vm_compute in E3. discriminate. }
      rewrite !Bool.andb_false_r. reflexivity. }
  destruct (hex_val p4) as [d|] eqn:E4.
  2:{ assert (beqb p4 x30 = false /\ beqb p4 x31 = false /\ beqb p4 x32 = false) as (-> & -> & ->).
      { repeat split; apply beqb_false; intros ->; vm_compute in E4; discriminate. }
      rewrite !Bool.andb_false_r. reflexivity. }
  rewrite be_N2, !b2N_N2b_small by lia.
  set (v := 4096 * a + 256 * b + 16 * c + d).
  replace (256 * (16 * a + b) + (16 * c + d)) with v by (unfold v; lia).
  (* the three control lines are exactly the values 0, 1, 2 *)
  assert (Hz : forall k, k <= 2 ->
            (beqb p1 x30 && beqb p2 x30 && beqb p3 x30 && beqb p4 (N2b (48 + k))) = (v =? k)).
  { intros k Hk. destruct (v =? k) eqn:Ev.
    - assert (a = 0 /\ b = 0 /\ c = 0 /\ d = k) as (-> & -> & -> & ->) by (unfold v in Ev; lia).
      replace (0 <=? 2) with true in S1, S2, S3 by reflexivity.
      replace (k <=? 2) with true in S4 by lia.
      change (N2b (48 + 0)) with x30 in S1, S2, S3. rewrite S1, S2, S3, S4. reflexivity.
    - destruct (beqb p1 x30) eqn:B1; [|reflexivity]. apply beqb_eq in B1. subst p1.
      destruct (beqb p2 x30) eqn:B2; [|reflexivity]. apply beqb_eq in B2. subst p2.
      destruct (beqb p3 x30) eqn:B3; [|reflexivity]. apply beqb_eq in B3. subst p3.
      destruct (beqb p4 (N2b (48 + k))) eqn:B4; [|reflexivity]. apply beqb_eq in B4. subst p4.
      vm_compute in E1, E2, E3. injection E1 as <-. injection E2 as <-. injection E3 as <-.
      assert (k = 0 \/ k = 1 \/ k = 2) as [-> | [-> | ->]] by lia;
        vm_compute in E4; injection E4 as <-; unfold v in Ev; lia. }
  pose proof (Hz 0 ltac:(lia)) as H0. pose proof (Hz 1 ltac:(lia)) as H1. pose proof (Hz 2 ltac:(lia)) as H2.
  change (N2b (48 + 0)) with x30 in H0. change (N2b (48 + 1)) with x31 in H1.
  change (N2b (48 + 2)) with x32 in H2.
  rewrite H0, H1, H2.
  destruct (v =? 0) eqn:V0; [reflexivity|]. destruct (v =? 1) eqn:V1; [reflexivity|].
  destruct (v =? 2) eqn:V2; [reflexivity|]. destruct (v =? 3) eqn:V3; [reflexivity|].
  destruct (v =? 4) eqn:V4; [reflexivity|].
  replace (v <=? 4) with false by lia. reflexivity.
Qed.

Lemma hexnum_lt p : length p = 4%nat -> forall v, hexnum p = Some v -> v < 65536.
Proof.
  intros H4 v. destruct (length4 p H4) as (p1 & p2 & p3 & p4 & ->). rewrite hexnum4.
  pose proof (hex_val_lt p1) as L1. pose proof (hex_val_lt p2) as L2.
  pose proof (hex_val_lt p3) as L3. pose proof (hex_val_lt p4) as L4.
  destruct (hex_val p1), (hex_val p2), (hex_val p3), (hex_val p4); try discriminate.
  intros [= <-]. lia.
Qed.

Lemma L_hex_prefix_total p : length p = 4%nat ->
  hex_prefix p <> Panic /\ hex_prefix p <> OutOfFuel /\
  (forall n, hex_prefix p = Ok (Wanted n) -> 1 <= n <= 65531).
Proof.
  intros H4. rewrite (L_hex_prefix_spec p H4). unfold hex_prefix_spec.
  pose proof (hexnum_lt p H4) as Hlt.
  destruct (hexnum p) as [v|]; [|repeat split; try discriminate].
  specialize (Hlt v eq_refl).
  destruct (v =? 0) eqn:V0; [repeat split; discriminate|].
  destruct (v =? 1) eqn:V1; [repeat split; discriminate|].
  destruct (v =? 2) eqn:V2; [repeat split; discriminate|].
  destruct (v =? 3) eqn:V3; [repeat split; discriminate|].
  destruct (v =? 4) eqn:V4; [repeat split; discriminate|].
  repeat split; try discriminate; injection H as <-; lia.
Qed.
