//! C31 harness: `neg` (gix-negotiate over an in-memory commit graph), `fetch` (a real fetch with the gix crate
//! from a bare repository served by `git upload-pack` through the file transport, compared with `git fetch`
//! into an identical copy and `git fsck --connectivity-only`), `win` (window_size).
mod fetch;
mod neg;

use gixv_common::{f_str, main_with, num, tag, Case, Harness, Rng, Verdict};
use std::time::Duration;

#[derive(Clone, Debug, PartialEq)]
pub enum Obj {
    Commit { time: i64, parents: Vec<usize> },
    Tag { target: usize },
    Blob,
    Absent,
}

pub fn obj_field(o: &Obj) -> Vec<u8> {
    match o {
        Obj::Commit { time, parents } => {
            let mut s = format!("c,{time}");
            for p in parents {
                s.push_str(&format!(",{p}"));
            }
            s.into_bytes()
        }
        Obj::Tag { target } => format!("t,{target}").into_bytes(),
        Obj::Blob => b"b".to_vec(),
        Obj::Absent => b"x".to_vec(),
    }
}
pub fn parse_obj(f: &[u8]) -> Obj {
    let s = String::from_utf8_lossy(f);
    let t: Vec<&str> = s.split(',').collect();
    let n = |x: &str| x.parse::<usize>().unwrap_or(0);
    match t.first().copied() {
        Some("c") if t.len() >= 2 => Obj::Commit {
            time: t[1].parse::<i64>().unwrap_or(0),
            parents: t[2..].iter().map(|x| n(x)).collect(),
        },
        Some("t") if t.len() >= 2 => Obj::Tag { target: n(t[1]) },
        Some("x") => Obj::Absent,
        _ => Obj::Blob,
    }
}
/// counted block starting at field `at`: returns the items and the index after the block
pub fn block(c: &Case, at: usize) -> (Vec<Vec<u8>>, usize) {
    let n = gixv_common::f_u64(c, at) as usize;
    let items: Vec<Vec<u8>> = (0..n).map(|i| f_str(c, at + 1 + i).to_vec()).collect();
    (items, at + 1 + n)
}
pub fn push_block(c: &mut Case, items: Vec<Vec<u8>>) {
    c.push(num(items.len()));
    c.extend(items);
}

fn win_impl(c: &Case) -> String {
    let stateless = f_str(c, 1) == b"1";
    let cur = if f_str(c, 2) == b"none" { None } else { Some(gixv_common::f_u64(c, 2) as usize) };
    gix_negotiate::window_size(stateless, cur).to_string()
}
fn win_prop(c: &Case) -> Verdict {
    // git fetch-pack.c next_flush: PIPESAFE_FLUSH 32, LARGE_FLUSH 16384, INITIAL_FLUSH 16
    let stateless = f_str(c, 1) == b"1";
    let got: usize = win_impl(c).parse().unwrap_or(0);
    let want = if f_str(c, 2) == b"none" {
        16
    } else {
        let count = gixv_common::f_u64(c, 2) as usize;
        if stateless {
            if count < 16384 { count << 1 } else { count * 11 / 10 }
        } else if count < 32 {
            count << 1
        } else {
            count + 32
        }
    };
    if got == want { Verdict::ok(true, "win") } else { Verdict::fail("win-differs", format!("{got} vs {want}")) }
}

fn imp(c: &Case) -> String {
    match f_str(c, 0) {
        b"neg" => neg::imp(c),
        b"fetch" => fetch::imp(c),
        b"win" => win_impl(c),
        _ => "?".into(),
    }
}
fn prop(c: &Case) -> Verdict {
    match f_str(c, 0) {
        b"neg" => neg::prop(c),
        b"fetch" => fetch::prop(c),
        b"win" => win_prop(c),
        _ => Verdict::ok(false, "unknown-op"),
    }
}

fn gen(rng: &mut Rng, n: usize) -> Vec<Case> {
    let mut out: Vec<Case> = Vec::new();
    // window sizes: every threshold +-1
    for st in ["0", "1"] {
        for cur in ["none", "0", "1", "15", "16", "31", "32", "33", "16383", "16384", "16385", "100000"] {
            out.push(vec![tag("win"), tag(st), tag(cur)]);
        }
    }
    neg::boundary(&mut out);
    fetch::boundary(&mut out);
    // real fetches are expensive (several process spawns each): a bounded share
    let n_fetch = (n / 12).min(400);
    let mut fetch_left = n_fetch.saturating_sub(out.iter().filter(|c| c[0] == b"fetch").count());
    while out.len() < n {
        let remaining = n - out.len();
        if fetch_left > 0 && rng.below(remaining as u64) < fetch_left as u64 {
            out.push(fetch::random(rng));
            fetch_left -= 1;
        } else {
            out.push(neg::random(rng));
        }
    }
    out.truncate(n);
    out
}

fn main() {
    main_with(Harness { gen, imp, prop, git: None, deadline: Duration::from_secs(240) });
}
