//! gix-negotiate driven directly over an in-memory object database.
use crate::{block, obj_field, parse_obj, push_block, Obj};
use gix_hash::ObjectId;
use gix_negotiate::{Algorithm, Flags, Graph};
use gixv_common::{f_str, num, tag, Case, Rng, Verdict};
use std::collections::BTreeSet;

pub fn oid(i: usize) -> ObjectId {
    let mut b = [0xc3u8; 20];
    b[..8].copy_from_slice(&(i as u64).to_be_bytes());
    ObjectId::from_bytes_or_panic(&b)
}
pub fn idx(id: &gix_hash::oid) -> usize {
    let mut b = [0u8; 8];
    b.copy_from_slice(&id.as_bytes()[..8]);
    u64::from_be_bytes(b) as usize
}

struct Mem(Vec<Obj>);
impl gix_object::Find for Mem {
    fn try_find<'a>(
        &self,
        id: &gix_hash::oid,
        buffer: &'a mut Vec<u8>,
    ) -> Result<Option<gix_object::Data<'a>>, gix_object::find::Error> {
        if id.as_bytes()[8..] != [0xc3u8; 12] {
            return Ok(None);
        }
        let i = idx(id);
        buffer.clear();
        match self.0.get(i) {
            Some(Obj::Commit { time, parents }) => {
                buffer.extend_from_slice(b"tree 4b825dc642cb6eb9a060e54bf8d69288fbee4904\n");
                for p in parents {
                    buffer.extend_from_slice(format!("parent {}\n", oid(*p)).as_bytes());
                }
                buffer.extend_from_slice(
                    format!("author a <a@b> {time} +0000\ncommitter a <a@b> {time} +0000\n\nc{i}\n").as_bytes(),
                );
                Ok(Some(gix_object::Data { kind: gix_object::Kind::Commit, data: buffer }))
            }
            Some(Obj::Tag { target }) => {
                buffer.extend_from_slice(
                    format!("object {}\ntype commit\ntag t{i}\ntagger a <a@b> 1 +0000\n\nt\n", oid(*target)).as_bytes(),
                );
                Ok(Some(gix_object::Data { kind: gix_object::Kind::Tag, data: buffer }))
            }
            Some(Obj::Blob) => {
                buffer.extend_from_slice(format!("b{i}").as_bytes());
                Ok(Some(gix_object::Data { kind: gix_object::Kind::Blob, data: buffer }))
            }
            Some(Obj::Absent) | None => Ok(None),
        }
    }
}

#[derive(Clone, Debug)]
pub enum Op {
    Known(usize),
    Tip(usize),
    Next,
    Ack(usize),
    /// acknowledge the k-th most recent `have`, if there is one
    AckRecent(usize),
}
fn op_field(o: &Op) -> Vec<u8> {
    match o {
        Op::Known(i) => format!("k{i}").into_bytes(),
        Op::Tip(i) => format!("t{i}").into_bytes(),
        Op::Next => b"n".to_vec(),
        Op::Ack(i) => format!("a{i}").into_bytes(),
        Op::AckRecent(k) => format!("r{k}").into_bytes(),
    }
}
fn parse_op(f: &[u8]) -> Op {
    let n = std::str::from_utf8(&f[1.min(f.len())..]).ok().and_then(|s| s.parse().ok()).unwrap_or(0);
    match f.first() {
        Some(b'k') => Op::Known(n),
        Some(b't') => Op::Tip(n),
        Some(b'a') => Op::Ack(n),
        Some(b'r') => Op::AckRecent(n),
        _ => Op::Next,
    }
}

pub struct NegCase {
    pub skipping: bool,
    pub objs: Vec<Obj>,
    pub ops: Vec<Op>,
}
pub fn parse(c: &Case) -> NegCase {
    let skipping = f_str(c, 1) == b"s";
    let (objs, at) = block(c, 2);
    let (ops, _) = block(c, at);
    NegCase {
        skipping,
        objs: objs.iter().map(|f| parse_obj(f)).collect(),
        ops: ops.iter().map(|f| parse_op(f)).collect(),
    }
}
pub fn to_case(n: &NegCase) -> Case {
    let mut c = vec![tag("neg"), tag(if n.skipping { "s" } else { "c" })];
    push_block(&mut c, n.objs.iter().map(obj_field).collect());
    push_block(&mut c, n.ops.iter().map(op_field).collect());
    c
}

pub enum Out {
    Unit,
    Have(Option<usize>),
    Known(bool),
}
/// runs the ops; Err = an Err from the negotiator; a panic propagates
pub fn run(n: &NegCase) -> Result<(Vec<Out>, Vec<(usize, u8, u16, u16)>), String> {
    let mut graph: Graph<'_, '_> = Graph::new(Mem(n.objs.clone()), None);
    let mut neg = if n.skipping { Algorithm::Skipping } else { Algorithm::Consecutive }.into_negotiator();
    let mut outs = Vec::new();
    let mut sent: Vec<usize> = Vec::new();
    for op in &n.ops {
        let resolved = match op {
            Op::AckRecent(k) => match sent.iter().rev().nth(*k) {
                Some(i) => Op::Ack(*i),
                None => {
                    outs.push(Out::Unit);
                    continue;
                }
            },
            o => o.clone(),
        };
        match &resolved {
            Op::Known(i) => {
                neg.known_common(oid(*i), &mut graph).map_err(|e| e.to_string())?;
                outs.push(Out::Unit);
            }
            Op::Tip(i) => {
                neg.add_tip(oid(*i), &mut graph).map_err(|e| e.to_string())?;
                outs.push(Out::Unit);
            }
            Op::Next => match neg.next_have(&mut graph) {
                None => outs.push(Out::Have(None)),
                Some(Ok(id)) => {
                    sent.push(idx(&id));
                    outs.push(Out::Have(Some(idx(&id))))
                }
                Some(Err(e)) => return Err(e.to_string()),
            },
            Op::Ack(i) => {
                let b = neg.in_common_with_remote(oid(*i), &mut graph).map_err(|e| e.to_string())?;
                outs.push(Out::Known(b));
            }
            Op::AckRecent(_) => unreachable!("resolved above"),
        }
    }
    let mut entries: Vec<(usize, u8, u16, u16)> = graph
        .detach()
        .into_iter()
        .map(|(id, c)| (idx(&id), c.data.flags.bits(), c.data.original_ttl, c.data.ttl))
        .collect();
    entries.sort();
    Ok((outs, entries))
}

pub fn imp(c: &Case) -> String {
    if std::env::var_os("GIXV_DEBUG").is_some() {
        let _ = std::panic::take_hook(); // default hook: print the panic message
    }
    let n = parse(c);
    match run(&n) {
        Err(_) => "err".into(),
        Ok((outs, entries)) => {
            let o: Vec<String> = outs
                .iter()
                .map(|o| match o {
                    Out::Unit => "-".to_string(),
                    Out::Have(None) => "hnone".to_string(),
                    Out::Have(Some(i)) => format!("h{i}"),
                    Out::Known(b) => format!("k{}", *b as u8),
                })
                .collect();
            let e: Vec<String> = entries.iter().map(|(i, f, o, t)| format!("{i}:{f}:{o}:{t}")).collect();
            format!("{} | {}", o.join(" "), e.join(" "))
        }
    }
}

fn ancestors_incl(objs: &[Obj], roots: &[usize]) -> BTreeSet<usize> {
    let mut seen = BTreeSet::new();
    let mut todo: Vec<usize> = roots.to_vec();
    while let Some(i) = todo.pop() {
        if let Some(Obj::Commit { parents, .. }) = objs.get(i) {
            if seen.insert(i) {
                todo.extend(parents.iter().copied());
            }
        }
    }
    seen
}

/// The property on the negotiators: no panic (unless the caller acknowledges a commit that was never seen, which
/// the skipping algorithm asserts against), every `have` names a local commit that is reachable from a tip or an
/// advertised ref, no commit is sent twice, and only ancestors of what the server acknowledged or advertised are
/// ever flagged COMMON (so nothing else is withheld). Without acknowledgements and advertised refs the consecutive
/// algorithm sends every reachable commit exactly once, newest first.
pub fn prop(c: &Case) -> Verdict {
    let n = parse(c);
    // acknowledging something that was never sent/seen is a caller error
    let res = std::panic::catch_unwind(std::panic::AssertUnwindSafe(|| run(&n)));
    let raw_ack = n.ops.iter().any(|o| matches!(o, Op::Ack(_)));
    let (outs, entries) = match res {
        // the skipping algorithm asserts that an acknowledged commit was seen before: only a caller that
        // acknowledges something it never sent can trip it
        Err(_) if n.skipping && raw_ack => return Verdict::ok(false, "ack-of-unsent-commit"),
        Err(_) => return Verdict::fail("neg-panic", "negotiator panicked"),
        Ok(Err(e)) => return Verdict::fail("neg-error", e),
        Ok(Ok(v)) => v,
    };
    let mut roots: Vec<usize> = Vec::new();
    let mut common_roots: Vec<usize> = Vec::new();
    let mut sent: Vec<usize> = Vec::new();
    let mut exhausted = false;
    for (op, out) in n.ops.iter().zip(outs.iter()) {
        match (op, out) {
            (Op::Known(i), _) => {
                roots.push(*i);
                common_roots.push(*i);
            }
            (Op::Tip(i), _) => roots.push(*i),
            (Op::Ack(i), _) => common_roots.push(*i),
            (Op::AckRecent(k), Out::Known(_)) => {
                if let Some(i) = sent.iter().rev().nth(*k) {
                    common_roots.push(*i)
                }
            }
            (Op::Next, Out::Have(Some(h))) => {
                if !matches!(n.objs.get(*h), Some(Obj::Commit { .. })) {
                    return Verdict::fail("have-not-a-commit", format!("{h}"));
                }
                if !ancestors_incl(&n.objs, &roots).contains(h) {
                    return Verdict::fail("have-unreachable", format!("{h}"));
                }
                if sent.contains(h) {
                    return Verdict::fail("have-sent-twice", format!("{h}"));
                }
                sent.push(*h);
            }
            (Op::Next, Out::Have(None)) => exhausted = true,
            _ => {}
        }
    }
    let common_ok = ancestors_incl(&n.objs, &common_roots);
    for (i, f, _, _) in &entries {
        if Flags::from_bits_truncate(*f).contains(Flags::COMMON) && !common_ok.contains(i) {
            return Verdict::fail("common-not-an-ancestor", format!("{i}"));
        }
    }
    let plain = n.ops.iter().all(|o| matches!(o, Op::Tip(_) | Op::Next));
    let _ = &exhausted;
    if plain && !n.skipping && exhausted {
        let tips: Vec<usize> = n.ops.iter().filter_map(|o| if let Op::Tip(i) = o { Some(*i) } else { None }).collect();
        // tips added after the first `next` may arrive late; only check the simple shape: all tips first
        let first_next = n.ops.iter().position(|o| matches!(o, Op::Next)).unwrap_or(0);
        if n.ops[first_next..].iter().all(|o| matches!(o, Op::Next)) {
            let want = ancestors_incl(&n.objs, &tips);
            let got: BTreeSet<usize> = sent.iter().copied().collect();
            if want != got {
                return Verdict::fail("haves-incomplete", format!("{got:?} vs {want:?}"));
            }
        }
    }
    Verdict::ok(!sent.is_empty(), if n.skipping { "neg-skipping" } else { "neg-consecutive" })
}

fn random_graph(rng: &mut Rng, n: usize, absent: bool) -> Vec<Obj> {
    let mut objs = Vec::new();
    let skew = rng.chance(1, 4);
    let spread = *rng.pick(&[1i64, 3, 3, 10]);
    for i in 0..n {
        if i > 0 && rng.chance(1, 14) {
            objs.push(if absent && rng.chance(1, 2) {
                Obj::Absent
            } else if rng.chance(1, 2) {
                Obj::Blob
            } else {
                Obj::Tag { target: rng.below(i as u64) as usize }
            });
            continue;
        }
        let np = if i == 0 { 0 } else { *rng.pick(&[0usize, 1, 1, 1, 1, 1, 2, 2, 3]) };
        let mut parents = Vec::new();
        for _ in 0..np {
            // mostly recent commits as parents
            let back = if rng.chance(3, 4) { rng.below(3.min(i as u64)) } else { rng.below(i as u64) } as usize;
            let p = i - 1 - back;
            if rng.chance(1, 30) {
                parents.push(n + rng.below(3) as usize); // a parent that is not in the odb at all
            } else {
                parents.push(p);
            }
        }
        let base = (i as i64) / spread;
        let time = if skew { (base + rng.range(-3, 3)).max(0) } else { base };
        objs.push(Obj::Commit { time, parents });
    }
    objs
}

pub fn random(rng: &mut Rng) -> Case {
    let n = *rng.pick(&[1usize, 2, 3, 5, 8, 8, 12, 12, 20, 30]);
    let skipping = rng.chance(1, 2);
    let objs = random_graph(rng, n, true);
    let mut ops = Vec::new();
    let ntips = rng.range(1, 3) as usize;
    let nknown = if rng.chance(1, 2) { rng.range(0, 2) as usize } else { 0 };
    let newest = |rng: &mut Rng| {
        if rng.chance(3, 4) {
            n - 1 - rng.below(3.min(n as u64)) as usize
        } else {
            rng.below(n as u64 + 1) as usize
        }
    };
    for _ in 0..nknown {
        ops.push(Op::Known(newest(rng)));
    }
    for _ in 0..ntips {
        ops.push(Op::Tip(newest(rng)));
    }
    if rng.chance(1, 8) {
        // interleave the roles
        let k = ops.len();
        for i in (1..k).rev() {
            ops.swap(i, rng.below(i as u64 + 1) as usize);
        }
    }
    let plain = rng.chance(1, 4);
    let rounds = rng.range(1, n as i64 + 4) as usize;
    let mut sent: Vec<usize> = Vec::new();
    // simulate nothing: acknowledgements name earlier haves; which haves come out is unknown to the generator,
    // so acks pick commits reachable from the tips (mostly) — the skipping algorithm asserts that an acked
    // commit was seen, therefore acks for it only name commits that must have been popped: the tips.
    let tips: Vec<usize> = ops.iter().filter_map(|o| if let Op::Tip(i) | Op::Known(i) = o { Some(*i) } else { None }).collect();
    for r in 0..rounds {
        ops.push(Op::Next);
        sent.push(r);
        if !plain && rng.chance(1, 4) {
            if rng.chance(9, 10) {
                // what a server does: acknowledge one of the haves it was sent
                ops.push(Op::AckRecent(rng.below(4) as usize));
            } else {
                let pool: Vec<usize> = ancestors_incl(&objs, &tips).into_iter().collect();
                if !pool.is_empty() && rng.chance(4, 5) {
                    ops.push(Op::Ack(*rng.pick(&pool)));
                } else {
                    ops.push(Op::Ack(rng.below(n as u64 + 2) as usize));
                }
            }
        }
        if !plain && rng.chance(1, 25) {
            ops.push(Op::Tip(newest(rng)));
        }
    }
    if plain {
        for _ in 0..n + 2 {
            ops.push(Op::Next);
        }
    }
    to_case(&NegCase { skipping, objs, ops })
}

pub fn boundary(out: &mut Vec<Case>) {
    let c = |t: i64, p: &[usize]| Obj::Commit { time: t, parents: p.to_vec() };
    for skipping in [false, true] {
        // empty odb, tip missing
        out.push(to_case(&NegCase { skipping, objs: vec![], ops: vec![Op::Tip(0), Op::Next, Op::Next] }));
        // single root
        out.push(to_case(&NegCase { skipping, objs: vec![c(1, &[])], ops: vec![Op::Tip(0), Op::Next, Op::Next] }));
        // chain of 12 (ttl steps of the skipping algorithm: 0,1,2,4,7)
        let chain: Vec<Obj> = (0..12).map(|i| c(i as i64, if i == 0 { &[][..] } else { &[][..] })).collect();
        let chain: Vec<Obj> = chain
            .into_iter()
            .enumerate()
            .map(|(i, _)| c(i as i64, &(if i == 0 { vec![] } else { vec![i - 1] })))
            .collect();
        let mut ops = vec![Op::Tip(11)];
        ops.extend((0..14).map(|_| Op::Next));
        out.push(to_case(&NegCase { skipping, objs: chain.clone(), ops }));
        // ack in the middle of the chain
        out.push(to_case(&NegCase {
            skipping,
            objs: chain.clone(),
            ops: vec![Op::Tip(11), Op::Next, Op::Next, Op::Ack(11), Op::Next, Op::Ack(10), Op::Next, Op::Next, Op::Next],
        }));
        // advertised ref below the tip
        let mut ops = vec![Op::Known(5), Op::Tip(11)];
        ops.extend((0..14).map(|_| Op::Next));
        out.push(to_case(&NegCase { skipping, objs: chain.clone(), ops }));
        // equal commit times, a merge, a diamond
        let diamond = vec![c(5, &[]), c(5, &[0]), c(5, &[0]), c(5, &[1, 2]), c(5, &[3, 1])];
        let mut ops = vec![Op::Tip(4), Op::Tip(3)];
        ops.extend((0..7).map(|_| Op::Next));
        out.push(to_case(&NegCase { skipping, objs: diamond.clone(), ops }));
        out.push(to_case(&NegCase {
            skipping,
            objs: diamond,
            ops: vec![Op::Known(1), Op::Tip(4), Op::Next, Op::Ack(4), Op::Next, Op::Next, Op::Next, Op::Next],
        }));
        // shallow boundary: the parent of the only commit is not in the odb
        out.push(to_case(&NegCase { skipping, objs: vec![c(3, &[7])], ops: vec![Op::Tip(0), Op::Next, Op::Next] }));
        out.push(to_case(&NegCase {
            skipping,
            objs: vec![Obj::Absent, c(3, &[0]), c(4, &[1])],
            ops: vec![Op::Tip(2), Op::Next, Op::Next, Op::Next],
        }));
        // a tag and a blob as tip
        out.push(to_case(&NegCase {
            skipping,
            objs: vec![c(1, &[]), Obj::Tag { target: 0 }, Obj::Blob],
            ops: vec![Op::Tip(1), Op::Tip(2), Op::Known(1), Op::Next, Op::Tip(0), Op::Next, Op::Next],
        }));
        // the same tip twice; known after tip
        out.push(to_case(&NegCase {
            skipping,
            objs: vec![c(1, &[]), c(2, &[0])],
            ops: vec![Op::Tip(1), Op::Tip(1), Op::Known(1), Op::Known(0), Op::Next, Op::Next, Op::Next],
        }));
    }
    // ack for a commit that was never seen (consecutive accepts it)
    out.push(to_case(&NegCase {
        skipping: false,
        objs: vec![c(1, &[]), c(2, &[0]), c(3, &[1])],
        ops: vec![Op::Tip(2), Op::Ack(0), Op::Next, Op::Next, Op::Next],
    }));
    let _ = num(0);
}
